// C07: value encodings round-trip bit-exactly; scalar and batch codecs accept each other's output with the
// same result; simple8b round-trips and rejects what it cannot pack.
//
// Bounded-exhaustive enumeration of declared sequence families (see Check.Rule) on the real codecs. The
// reference model is the identity: whatever goes in must come out, bit for bit, on every encoder x decoder path.
package c07

import (
	"bytes"
	"encoding/binary"
	"encoding/json"
	"fmt"
	"math"
	"runtime/debug"
	"sort"
	"strings"
	"testing"
	"time"

	"github.com/influxdata/influxdb/v2/pkg/encoding/simple8b"
	"github.com/influxdata/influxdb/v2/tsdb"
	"github.com/influxdata/influxdb/v2/tsdb/engine/tsm1"
	"verif/h/vlib"
)

const s8Max = uint64(1)<<60 - 1 // largest value the property says simple8b can pack

// ---------------------------------------------------------------------------------------------------------
// Sequence specifications (JSON-serialisable, regenerated from scratch by Replay)

// Spec describes a sequence of raw 64-bit items. The meaning of an item depends on the type it is used for:
// time/int: int64 bits, uint: the value, float: IEEE bits, bool: 0/1, string: index into strAlpha.
type Spec struct {
	Kind  string   `json:"kind"` // lit | const | alt | outlier | cycle | walk
	N     int      `json:"n,omitempty"`
	A     uint64   `json:"a,omitempty"`
	B     uint64   `json:"b,omitempty"`
	Pos   int      `json:"pos,omitempty"`
	Mode  string   `json:"mode,omitempty"`  // "" = items as generated; "delta" = prefix sums; "zz" = prefix sums of zig-zag decoded items
	Start uint64   `json:"start,omitempty"` // start of the prefix sum / of the walk
	Lit   []uint64 `json:"lit,omitempty"`
}

func isNaNBits(b uint64) bool {
	return b&0x7FF0000000000000 == 0x7FF0000000000000 && b&0x000FFFFFFFFFFFFF != 0
}

// zzdec is the textbook zig-zag decoding (reference, not the repo's).
func zzdec(u uint64) uint64 { return (u >> 1) ^ (-(u & 1)) }

func (s Spec) gen() []uint64 {
	var u []uint64
	switch s.Kind {
	case "lit":
		u = append(make([]uint64, 0, len(s.Lit)), s.Lit...)
	case "const":
		u = make([]uint64, s.N)
		for i := range u {
			u[i] = s.A
		}
	case "alt":
		u = make([]uint64, s.N)
		for i := range u {
			if i&1 == 0 {
				u[i] = s.A
			} else {
				u[i] = s.B
			}
		}
	case "outlier":
		u = make([]uint64, s.N)
		for i := range u {
			u[i] = s.A
		}
		if s.Pos >= 0 && s.Pos < s.N {
			u[s.Pos] = s.B
		}
	case "cycle":
		u = make([]uint64, s.N)
		for i := range u {
			u[i] = s.Lit[i%len(s.Lit)]
		}
	case "walk": // float bit patterns Start + i*A, NaNs mapped to a finite value by clearing exponent bit 62
		u = make([]uint64, s.N)
		for i := range u {
			b := s.Start + uint64(i)*s.A
			if isNaNBits(b) {
				b &^= 1 << 62
			}
			u[i] = b
		}
		return u
	}
	switch s.Mode {
	case "delta":
		acc := s.Start
		for i := range u {
			acc += u[i]
			u[i] = acc
		}
	case "zz":
		acc := s.Start
		for i := range u {
			acc += zzdec(u[i])
			u[i] = acc
		}
	}
	return u
}

func (s Spec) String() string {
	switch s.Kind {
	case "lit":
		return fmt.Sprintf("lit%s", hexs(s.Lit, 8))
	case "cycle":
		return fmt.Sprintf("cycle(n=%d,%s,mode=%q,start=%#x)", s.N, hexs(s.Lit, 8), s.Mode, s.Start)
	default:
		return fmt.Sprintf("%s(n=%d,a=%#x,b=%#x,pos=%d,mode=%q,start=%#x)", s.Kind, s.N, s.A, s.B, s.Pos, s.Mode, s.Start)
	}
}

func hexs(v []uint64, max int) string {
	var sb strings.Builder
	sb.WriteByte('[')
	for i, x := range v {
		if i >= max {
			fmt.Fprintf(&sb, " …(%d)", len(v))
			break
		}
		if i > 0 {
			sb.WriteByte(' ')
		}
		fmt.Fprintf(&sb, "%#x", x)
	}
	sb.WriteByte(']')
	return sb.String()
}

// Case is one enumerated case.
type Case struct {
	Level string `json:"level"` // codec | block | s8b
	Type  string `json:"type"`  // time | int | uint | float | bool | string | uint64 (s8b)
	V     Spec   `json:"values"`
	T     *Spec  `json:"timestamps,omitempty"` // block level only
}

type fail struct{ sig, msg string }

// ---------------------------------------------------------------------------------------------------------
// Alphabets

func i2u(v int64) uint64 { return uint64(v) }

var (
	timeAlpha = []uint64{i2u(math.MinInt64), i2u(-1), 0, 1, 10, 1000, 1e9, 1e12, 2e12, 1<<60 - 1, 1 << 60, math.MaxInt64}
	intAlpha  = []uint64{0, 1, i2u(-1), 7, 1<<59 - 1, 1 << 59, i2u(-(1 << 59)), i2u(-(1 << 59) - 1), 1 << 60, i2u(math.MinInt64), math.MaxInt64, i2u(-(1 << 62))}
	uintAlpha = []uint64{0, 1, 2, 7, 1<<59 - 1, 1 << 59, 1<<60 - 1, 1 << 60, 1<<63 - 1, 1 << 63, math.MaxUint64 - 1, math.MaxUint64}
	// +0 -0 1 -1.5 pi min-subnormal -min-subnormal MaxFloat64 +Inf -Inf NaN(the sentinel pattern) NaN(signalling, payload)
	floatAlpha = []uint64{0, 1 << 63, math.Float64bits(1), math.Float64bits(-1.5), math.Float64bits(math.Pi), 1, 1<<63 | 1,
		math.Float64bits(math.MaxFloat64), 0x7FF0000000000000, 0xFFF0000000000000, 0x7FF8000000000001, 0xFFF0DEADBEEF0001}
	floatFinite = []uint64{0, 1 << 63, math.Float64bits(1), math.Float64bits(-1.5), math.Float64bits(math.Pi), 1, 1<<63 | 1,
		math.Float64bits(math.MaxFloat64), math.Float64bits(-math.MaxFloat64), math.Float64bits(2.2250738585072014e-308)}
	boolAlpha = []uint64{0, 1}
	s8Alpha   = []uint64{0, 1, 2, 3, 7, 8, 255, 1 << 20, 1<<30 - 1, 1<<60 - 1, 1 << 60, math.MaxUint64}

	strAlpha  []string // index -> string
	strIndex  = map[string]uint64{}
	nSmallStr int // strAlpha[:nSmallStr] are the short strings
)

func init() {
	rep := func(n int, f func(i int) byte) string {
		b := make([]byte, n)
		for i := range b {
			b[i] = f(i)
		}
		return string(b)
	}
	strAlpha = []string{
		"", "a", "\x00", "日本", "\xff\xfe",
		rep(127, func(i int) byte { return 'q' }),                         // 1-byte length prefix
		rep(128, func(i int) byte { return byte('A' + i%26) }),            // 2-byte length prefix
		rep(16384, func(i int) byte { return byte(i*131 + i>>8) }),        // 3-byte length prefix, poorly compressible
		rep(65536, func(i int) byte { return 'x' }),                       // 64 KiB, compressible
		rep(65536+1, func(i int) byte { return byte(i*197 + i>>7 + 13) }), // > 64 KiB, poorly compressible
	}
	nSmallStr = 7
	for i, s := range strAlpha {
		strIndex[s] = uint64(i)
	}
}

func alphaOf(typ string) []uint64 {
	switch typ {
	case "time":
		return timeAlpha
	case "int":
		return intAlpha
	case "uint":
		return uintAlpha
	case "float":
		return floatAlpha
	case "bool":
		return boolAlpha
	case "string":
		a := make([]uint64, len(strAlpha))
		for i := range a {
			a[i] = uint64(i)
		}
		return a
	case "uint64":
		return s8Alpha
	}
	return nil
}

// ---------------------------------------------------------------------------------------------------------
// Component codecs: adapters around the real encoders/decoders. raw items <-> typed values.

func clone(v []uint64) []uint64 { return append(make([]uint64, 0, len(v)), v...) }

func cp(b []byte) []byte { return append([]byte(nil), b...) }

func scalarEncode(typ string, raw []uint64) ([]byte, error) {
	return scalarEncodeReuse(typ, nil, false, raw)
}

// scalarEncodeReuse encodes raw with a scalar encoder; with reuse the SAME encoder object first encodes prior
// (write, flush, Bytes) and is Reset() before raw is written - the way the block encoders use pooled encoders.
func scalarEncodeReuse(typ string, prior []uint64, reuse bool, raw []uint64) ([]byte, error) {
	switch typ {
	case "time":
		e := tsm1.NewTimeEncoder(len(raw))
		if reuse {
			for _, v := range prior {
				e.Write(int64(v))
			}
			e.Bytes()
			e.Reset()
		}
		for _, v := range raw {
			e.Write(int64(v))
		}
		b, err := e.Bytes()
		return cp(b), err
	case "int", "uint": // the unsigned scalar codec is the integer encoder on int64(v) (encodeUnsignedBlockUsing)
		e := tsm1.NewIntegerEncoder(len(raw))
		if reuse {
			for _, v := range prior {
				e.Write(int64(v))
			}
			e.Flush()
			e.Bytes()
			e.Reset()
		}
		for _, v := range raw {
			e.Write(int64(v))
		}
		e.Flush()
		b, err := e.Bytes()
		return cp(b), err
	case "float":
		e := tsm1.NewFloatEncoder()
		if reuse {
			for _, v := range prior {
				e.Write(math.Float64frombits(v))
			}
			e.Flush()
			e.Bytes()
			e.Reset()
		}
		for _, v := range raw {
			e.Write(math.Float64frombits(v))
		}
		e.Flush()
		b, err := e.Bytes()
		return cp(b), err
	case "bool":
		e := tsm1.NewBooleanEncoder(len(raw))
		if reuse {
			for _, v := range prior {
				e.Write(v != 0)
			}
			e.Flush()
			e.Bytes()
			e.Reset()
		}
		for _, v := range raw {
			e.Write(v != 0)
		}
		e.Flush()
		b, err := e.Bytes()
		return cp(b), err
	case "string":
		e := tsm1.NewStringEncoder(16)
		if reuse {
			for _, v := range prior {
				e.Write(strAlpha[v])
			}
			e.Flush()
			e.Bytes()
			e.Reset()
		}
		for _, v := range raw {
			e.Write(strAlpha[v])
		}
		e.Flush()
		b, err := e.Bytes()
		return cp(b), err
	}
	panic("bad type " + typ)
}

func toI64(raw []uint64) []int64 {
	o := make([]int64, len(raw))
	for i, v := range raw {
		o[i] = int64(v)
	}
	return o
}
func toF64(raw []uint64) []float64 {
	o := make([]float64, len(raw))
	for i, v := range raw {
		o[i] = math.Float64frombits(v)
	}
	return o
}
func toBool(raw []uint64) []bool {
	o := make([]bool, len(raw))
	for i, v := range raw {
		o[i] = v != 0
	}
	return o
}
func toStr(raw []uint64) []string {
	o := make([]string, len(raw))
	for i, v := range raw {
		o[i] = strAlpha[v]
	}
	return o
}
func fromI64(a []int64) []uint64 {
	o := make([]uint64, len(a))
	for i, v := range a {
		o[i] = uint64(v)
	}
	return o
}
func fromF64(a []float64) []uint64 {
	o := make([]uint64, len(a))
	for i, v := range a {
		o[i] = math.Float64bits(v)
	}
	return o
}
func fromBool(a []bool) []uint64 {
	o := make([]uint64, len(a))
	for i, v := range a {
		if v {
			o[i] = 1
		}
	}
	return o
}
func strIdx(s string) uint64 {
	if i, ok := strIndex[s]; ok {
		return i
	}
	return math.MaxUint64 - uint64(len(s))%1000 // not a member of the alphabet: never equals an input item
}
func fromStr(a []string) []uint64 {
	o := make([]uint64, len(a))
	for i, v := range a {
		o[i] = strIdx(v)
	}
	return o
}

// batchEncode always hands the encoder a private copy of the input (the integer/time encoders destroy it).
func batchEncode(typ string, raw []uint64, buf []byte) ([]byte, error) {
	b, err := batchEncodeRaw(typ, raw, buf)
	return cp(b), err
}

// batchEncodeRaw returns the encoder's result slice itself (length AND capacity as the encoder produced them).
func batchEncodeRaw(typ string, raw []uint64, buf []byte) ([]byte, error) {
	var b []byte
	var err error
	switch typ {
	case "time":
		b, err = tsm1.TimeArrayEncodeAll(toI64(raw), buf)
	case "int":
		b, err = tsm1.IntegerArrayEncodeAll(toI64(raw), buf)
	case "uint":
		b, err = tsm1.UnsignedArrayEncodeAll(append([]uint64(nil), raw...), buf)
	case "float":
		b, err = tsm1.FloatArrayEncodeAll(toF64(raw), buf)
	case "bool":
		b, err = tsm1.BooleanArrayEncodeAll(toBool(raw), buf)
	case "string":
		b, err = tsm1.StringArrayEncodeAll(toStr(raw), buf)
	default:
		panic("bad type " + typ)
	}
	return b, err
}

func scalarDecode(typ string, b []byte, limit int) ([]uint64, error) {
	out := make([]uint64, 0, 8)
	switch typ {
	case "time":
		var d tsm1.TimeDecoder
		d.Init(b)
		for d.Next() && len(out) < limit {
			out = append(out, uint64(d.Read()))
		}
		return out, d.Error()
	case "int", "uint":
		var d tsm1.IntegerDecoder
		d.SetBytes(b)
		for d.Next() && len(out) < limit {
			out = append(out, uint64(d.Read()))
		}
		return out, d.Error()
	case "float":
		var d tsm1.FloatDecoder
		if err := d.SetBytes(b); err != nil {
			return nil, err
		}
		for d.Next() && len(out) < limit {
			out = append(out, math.Float64bits(d.Values()))
		}
		return out, d.Error()
	case "bool":
		var d tsm1.BooleanDecoder
		d.SetBytes(b)
		for d.Next() && len(out) < limit {
			if d.Read() {
				out = append(out, 1)
			} else {
				out = append(out, 0)
			}
		}
		return out, d.Error()
	case "string":
		var d tsm1.StringDecoder
		if err := d.SetBytes(b); err != nil {
			return nil, err
		}
		for d.Next() && len(out) < limit {
			s := d.Read()
			if d.Error() != nil {
				break
			}
			out = append(out, strIdx(s))
		}
		return out, d.Error()
	}
	panic("bad type " + typ)
}

// dst variants for the batch decoders (the destination value slice handed to <T>ArrayDecodeAll):
//
//	0 nil
//	1 "+dst-large": cap want+17, len half of that, every element a fixed non-zero constant
//	2 "+dst-tiny":  cap 1, len 0, dirty
//	3 "+dst-exact": len = cap = want, element i pre-filled with the COMPLEMENT of the expected value i
//	4 "+dst-short": len = cap = want-1 (shorter than needed), pre-filled with complements
//	5 "+dst-long":  len = cap = want+9 (longer than needed), pre-filled with complements, all-ones beyond
var dstNames = [6]string{"", "+dst-large", "+dst-tiny", "+dst-exact", "+dst-short", "+dst-long"}

const nDecoders = 1 + len(dstNames) // scalar + every dst variant of the batch decoder

func dstShape(variant, want int) (ln, cp int) {
	switch variant {
	case 1:
		return (want + 17) / 2, want + 17
	case 2:
		return 0, 1
	case 3:
		return want, want
	case 4:
		if want > 0 {
			return want - 1, want - 1
		}
	case 5:
		return want + 9, want + 9
	}
	return 0, 0
}

// batchDecode decodes b with the batch decoder of typ into a destination slice of the given variant; expect is the
// sequence the decoder is supposed to return (used only to pre-fill dst with values that are wrong everywhere).
func batchDecode(typ string, b []byte, variant int, expect []uint64) ([]uint64, error) {
	ln, n := dstShape(variant, len(expect))
	// pre(i, c): raw pre-fill item for index i; c is the constant used by the old variants 1 and 2
	pre := func(i int, c uint64) uint64 {
		if variant <= 2 {
			return c
		}
		if i < len(expect) {
			return ^expect[i]
		}
		return math.MaxUint64
	}
	switch typ {
	case "time", "int":
		var dst []int64
		if n > 0 {
			dst = make([]int64, n)
			for i := range dst {
				dst[i] = int64(pre(i, i2u(-0x0123456789ABCDEF)))
			}
			dst = dst[:ln]
		}
		var out []int64
		var err error
		if typ == "time" {
			out, err = tsm1.TimeArrayDecodeAll(b, dst)
		} else {
			out, err = tsm1.IntegerArrayDecodeAll(b, dst)
		}
		return fromI64(out), err
	case "uint":
		var dst []uint64
		if n > 0 {
			dst = make([]uint64, n)
			for i := range dst {
				dst[i] = pre(i, 0xFEDCBA9876543210)
			}
			dst = dst[:ln]
		}
		out, err := tsm1.UnsignedArrayDecodeAll(b, dst)
		return append([]uint64(nil), out...), err
	case "float":
		var dst []float64
		if n > 0 {
			dst = make([]float64, n)
			for i := range dst {
				dst[i] = math.Float64frombits(pre(i, math.Float64bits(-12345.678)))
			}
			dst = dst[:ln]
		}
		out, err := tsm1.FloatArrayDecodeAll(b, dst)
		return fromF64(out), err
	case "bool":
		var dst []bool
		if n > 0 {
			dst = make([]bool, n)
			for i := range dst {
				switch {
				case variant <= 2:
					dst[i] = i%3 != 0
				case i < len(expect):
					dst[i] = expect[i] == 0
				default:
					dst[i] = true
				}
			}
			dst = dst[:ln]
		}
		out, err := tsm1.BooleanArrayDecodeAll(b, dst)
		return fromBool(out), err
	case "string":
		var dst []string
		if n > 0 {
			dst = make([]string, n)
			for i := range dst {
				dst[i] = "stale"
			}
			dst = dst[:ln]
		}
		out, err := tsm1.StringArrayDecodeAll(b, dst)
		return fromStr(out), err
	}
	panic("bad type " + typ)
}

// primer: a previously returned encoder output, to be reused as scratch buffer ("+buf-reused" variant).
var primerCache = map[string][]byte{}

func primerBuf(typ string) []byte {
	p, ok := primerCache[typ]
	if !ok {
		var raw []uint64
		al := alphaOf(typ)
		for i := 0; i < 40; i++ {
			v := al[i%len(al)]
			if typ == "float" {
				v = floatFinite[i%len(floatFinite)]
			}
			if typ == "string" {
				v = uint64(i % nSmallStr)
			}
			raw = append(raw, v)
		}
		p, _ = batchEncode(typ, raw, nil)
		primerCache[typ] = p
	}
	return append(make([]byte, 0, len(p)), p...)[:0]
}

// ---------------------------------------------------------------------------------------------------------
// Destination-buffer states of the batch encoders (<T>ArrayEncodeAll(src, b)): the result must not depend on what b
// held before the call.

// priorSeq is a boring sequence of m items of the type that every encoder accepts (no NaN), different from the
// alphabets' constant runs: it is what "was encoded before" into a reused buffer / by a reused scalar encoder.
func priorSeq(typ string, m int) []uint64 {
	var lit []uint64
	switch typ {
	case "float":
		lit = floatFinite
	case "bool":
		lit = []uint64{1, 1, 0}
	case "string":
		for i := 0; i < nSmallStr; i++ {
			lit = append(lit, uint64(i))
		}
	default:
		lit = alphaOf(typ)
	}
	return Spec{Kind: "cycle", N: m, Lit: lit}.gen()
}

type prevEnc struct {
	full []byte // the encoder's result re-sliced to its full capacity
	ln   int    // length of the result
}

var prevCache = map[string]prevEnc{}

// prevBuf returns a fresh copy of what <T>ArrayEncodeAll(priorSeq(typ, m), nil) returned, with the same length and
// capacity and the same bytes between length and capacity.
func prevBuf(typ string, m int) []byte {
	k := fmt.Sprintf("%s/%d", typ, m)
	pe, ok := prevCache[k]
	if !ok {
		b, err := batchEncodeRaw(typ, priorSeq(typ, m), nil)
		if err != nil {
			panic(fmt.Sprintf("harness: prior sequence %s rejected: %v", k, err))
		}
		pe = prevEnc{full: cp(b[:cap(b)]), ln: len(b)}
		prevCache[k] = pe
	}
	return append(make([]byte, 0, len(pe.full)), pe.full...)[:pe.ln]
}

func longerLen(n int) int { return n + 17 }

func itemBytes(typ string, raw []uint64) int {
	switch typ {
	case "bool":
		return len(raw)
	case "string":
		t := 0
		for _, v := range raw {
			t += len(strAlpha[v]) + 5
		}
		return t
	}
	return 8 * len(raw)
}

// bufStates are the initial states of the destination buffer, besides nil ("batch") and the old 40-value primer
// re-sliced to length 0 ("batch+buf-reused"). L = length of the encoding produced into a nil buffer, H = 3 x the raw
// input size + L + 128 (larger than any scratch space an encoder may want).
var bufStates = []string{
	"cap-ff",           // len 0, cap H, backing array all 0xff
	"exact-ff",         // len = cap = L, all 0xff
	"larger-ff",        // len = cap = L+24, all 0xff
	"huge-ff",          // len = cap = H, all 0xff
	"huge-aa",          // len = H/2, cap = H, all 0xaa
	"prev-longer",      // exactly what encoding a DIFFERENT sequence of n+17 items returned (its len, its cap)
	"prev-longer-full", // the same, re-sliced to its full capacity
	"prev-shorter",     // exactly what encoding a different sequence of n/2 items returned
}

func filled(ln, cp int, v byte) []byte {
	b := make([]byte, cp)
	for i := range b {
		b[i] = v
	}
	return b[:ln]
}

func mkBuf(state, typ string, raw []uint64, L int) []byte {
	H := 3*itemBytes(typ, raw) + L + 128
	switch state {
	case "cap-ff":
		return filled(0, H, 0xff)
	case "exact-ff":
		return filled(L, L, 0xff)
	case "larger-ff":
		return filled(L+24, L+24, 0xff)
	case "huge-ff":
		return filled(H, H, 0xff)
	case "huge-aa":
		return filled(H/2, H, 0xaa)
	case "prev-longer":
		return prevBuf(typ, longerLen(len(raw)))
	case "prev-longer-full":
		b := prevBuf(typ, longerLen(len(raw)))
		return b[:cap(b)]
	case "prev-shorter":
		return prevBuf(typ, len(raw)/2)
	}
	panic("bad buffer state " + state)
}

// stats of the buffer-state dimension (reported as coverage extras)
var bufStat struct{ encodes, differ, same, reuseScalar, reuseScalarDiffer, blockEncodes, blockDiffer int64 }

var blockBufStates = []string{"cap-ff", "larger-ff", "larger-aa", "prev-block"}

func branchName(typ string, b []byte) string {
	if len(b) == 0 {
		return "empty"
	}
	switch typ {
	case "time", "int", "uint":
		switch b[0] >> 4 {
		case 0:
			return "raw"
		case 1:
			return "s8b"
		case 2:
			return "rle"
		}
		return "?"
	case "float":
		return "gorilla"
	case "bool":
		return "bits"
	case "string":
		return "snappy"
	}
	return "?"
}

func nBucket(n int) string {
	switch {
	case n == 0:
		return "n=0"
	case n <= 2:
		return "n=1-2"
	case n <= 16:
		return "n=3-16"
	}
	return "n>16"
}

func firstDiff(want, got []uint64) string {
	if len(want) != len(got) {
		k := 0
		for k < len(want) && k < len(got) && want[k] == got[k] {
			k++
		}
		return fmt.Sprintf("length %d, expected %d (first difference at index %d)", len(got), len(want), k)
	}
	for i := range want {
		if want[i] != got[i] {
			return fmt.Sprintf("item[%d]=%#x, expected %#x", i, got[i], want[i])
		}
	}
	return "equal"
}

func equalU(a, b []uint64) bool {
	if len(a) != len(b) {
		return false
	}
	for i := range a {
		if a[i] != b[i] {
			return false
		}
	}
	return true
}

// floatFeatures describes a float input for signatures.
func floatFeatures(raw []uint64) (hasNaN bool, feat string) {
	var pinf, ninf bool
	for _, v := range raw {
		if isNaNBits(v) {
			hasNaN = true
		}
		pinf = pinf || v == 0x7FF0000000000000
		ninf = ninf || v == 0xFFF0000000000000
	}
	return hasNaN, fmt.Sprintf("nan=%v,+inf&-inf=%v", hasNaN, pinf && ninf)
}

func sortedI64(raw []uint64) bool {
	for i := 1; i < len(raw); i++ {
		if int64(raw[i]) < int64(raw[i-1]) {
			return false
		}
	}
	return true
}

// decRes is one failing decoder path of one encoder output.
type decRes struct{ dec, kind, tail, msg string }

func sameDecFails(a, b []decRes) bool {
	if len(a) != len(b) {
		return false
	}
	for i := range a {
		if a[i].dec != b[i].dec || a[i].kind != b[i].kind || a[i].tail != b[i].tail {
			return false
		}
	}
	return true
}

// foldDecFails reports decoder failures of one encoder; when every decoder fails the same way it is one class.
func foldDecFails(prefix []string, enc string, nDec int, rs []decRes, add func(sig, msg string)) {
	if len(rs) == 0 {
		return
	}
	all := len(rs) == nDec
	for _, r := range rs {
		all = all && r.kind == rs[0].kind && r.tail == rs[0].tail
	}
	sig := func(path string, r decRes) string {
		parts := append(append([]string(nil), prefix...), path, r.kind)
		if r.tail != "" {
			parts = append(parts, r.tail)
		}
		return vlib.JoinSig(parts...)
	}
	if all {
		add(sig(enc+"->all-decoders", rs[0]), rs[0].msg)
		return
	}
	// every dst variant of the batch decoder failing the same way is one class, not one per variant
	var batch []decRes
	for _, r := range rs {
		if strings.HasPrefix(r.dec, "batch") {
			batch = append(batch, r)
		}
	}
	foldBatch := len(batch) == len(dstNames) && nDec == 1+len(dstNames)
	for _, r := range batch {
		foldBatch = foldBatch && r.kind == batch[0].kind && r.tail == batch[0].tail
	}
	if foldBatch {
		add(sig(enc+"->batch-every-dst", batch[0]), batch[0].msg)
	}
	for _, r := range rs {
		if foldBatch && strings.HasPrefix(r.dec, "batch") {
			continue
		}
		add(sig(enc+"->"+r.dec, r), r.msg)
	}
}

// decodeBoth runs an encoder output through the scalar/iterator decoder AND the batch decoder (nil dst and a dirty
// exact-size dst) and returns the failing paths.
func decodeBoth(typ string, raw []uint64, b []byte, desc, path, feat string) []decRes {
	br := branchName(typ, b)
	var rs []decRes
	for _, dv := range []int{0, 1, 4} { // scalar, batch, batch+dst-exact
		var got []uint64
		var derr error
		dname := "scalar"
		if dv > 0 {
			dname = "batch" + dstNames[dv-1]
		}
		p, d := vlib.Guard(func() {
			if dv == 0 {
				got, derr = scalarDecode(typ, b, len(raw)+16)
			} else {
				got, derr = batchDecode(typ, b, dv-1, raw)
			}
		})
		pth := path + "->" + dname
		switch {
		case p:
			rs = append(rs, decRes{dname, "panic", br + "/" + frame(d), desc + ": " + pth + ": " + d})
		case derr != nil:
			rs = append(rs, decRes{dname, "decode-error", br + feat, fmt.Sprintf("%s: %s: decoder failed on the encoder's own output (%d bytes): %v", desc, pth, len(b), derr)})
		case !equalU(raw, got):
			rs = append(rs, decRes{dname, "mismatch", br + feat, fmt.Sprintf("%s: %s: decoded %s; input %s decoded %s", desc, pth, firstDiff(raw, got), hexs(raw, 6), hexs(got, 6))})
		}
	}
	return rs
}

func subsetDecFails(rs []decRes) []decRes {
	var o []decRes
	for _, r := range rs {
		if r.dec == "scalar" || r.dec == "batch" || r.dec == "batch+dst-exact" {
			o = append(o, r)
		}
	}
	return o
}

// checkBufferStates: the batch encoder is called once per destination-buffer state; its verdict must be the one it
// gave for a nil buffer, and its output must either be byte-identical to the nil-buffer output (whose decoding has
// been checked already) or decode to the input with the scalar and the batch decoder. The states are visited in the
// order of bufStates and only the first failing state of a case is reported, to keep the number of classes small.
func checkBufferStates(typ string, raw []uint64, desc, feat string, mustAccept, refOK bool, ref []byte, refErr error, refFails []decRes, add func(sig, msg string)) {
	L := len(ref)
	for _, st := range bufStates {
		buf := mkBuf(st, typ, raw, L)
		name := "batch+buf-" + st
		var b []byte
		var err error
		p, d := vlib.Guard(func() { b, err = batchEncode(typ, raw, buf) })
		bufStat.encodes++
		failed := false
		addf := func(sig, msg string) { failed = true; add(sig, msg) }
		switch {
		case p:
			if refOK {
				addf(vlib.JoinSig("codec", typ, name+"-encode", "panic", frame(d)), desc+": "+d)
			}
		case err != nil:
			if refOK && refErr == nil {
				if mustAccept {
					addf(vlib.JoinSig("codec", typ, name+"-encode", "rejects-valid"+feat), fmt.Sprintf("%s: batch encoder accepts the sequence with a nil buffer but rejects it with buffer state %s: %v", desc, st, err))
				} else {
					addf(vlib.JoinSig("codec", typ, "accept-disagree", "batch=true,"+name+"=false"+feat), fmt.Sprintf("%s: batch encoder err=nil with a nil buffer but err=%v with buffer state %s", desc, err, st))
				}
			}
		case refOK && refErr != nil:
			if !mustAccept { // where the statement demands acceptance the nil-buffer rejection is reported already
				addf(vlib.JoinSig("codec", typ, "accept-disagree", "batch=false,"+name+"=true"+feat), fmt.Sprintf("%s: batch encoder err=%v with a nil buffer but err=nil with buffer state %s", desc, refErr, st))
			}
		case refOK && bytes.Equal(ref, b):
			bufStat.same++
		default:
			bufStat.differ++
			rs := decodeBoth(typ, raw, b, desc+fmt.Sprintf(" [dst buffer %s: len=%d cap=%d; output %d bytes, nil-buffer output %d bytes]", st, len(buf), cap(buf), len(b), L), name, feat)
			if len(rs) > 0 && !sameDecFails(rs, subsetDecFails(refFails)) {
				foldDecFails([]string{"codec", typ}, name, 3, rs, addf)
			}
		}
		if failed {
			return
		}
	}
}

// checkScalarReuse: a scalar encoder object that has encoded another sequence and was Reset() must produce an
// output that is byte-identical to a fresh encoder's or at least decodes to the input on both decoder paths.
func checkScalarReuse(typ string, raw []uint64, desc, feat string, mustAccept, refOK bool, ref []byte, refErr error, refFails []decRes, add func(sig, msg string)) {
	m := longerLen(len(raw))
	if m > 81 {
		m = 81
	}
	prior := priorSeq(typ, m)
	name := "scalar+reset"
	var b []byte
	var err error
	p, d := vlib.Guard(func() { b, err = scalarEncodeReuse(typ, prior, true, raw) })
	bufStat.reuseScalar++
	switch {
	case p:
		if refOK {
			add(vlib.JoinSig("codec", typ, name+"-encode", "panic", frame(d)), desc+": "+d)
		}
	case err != nil:
		if refOK && refErr == nil {
			if mustAccept {
				add(vlib.JoinSig("codec", typ, name+"-encode", "rejects-valid"+feat), fmt.Sprintf("%s: a fresh scalar encoder accepts the sequence, a reused (Reset) one rejects it: %v", desc, err))
			} else {
				add(vlib.JoinSig("codec", typ, "accept-disagree", "scalar=true,"+name+"=false"+feat), fmt.Sprintf("%s: fresh scalar encoder err=nil, reused (Reset) one err=%v", desc, err))
			}
		}
	case refOK && refErr != nil:
		if !mustAccept {
			add(vlib.JoinSig("codec", typ, "accept-disagree", "scalar=false,"+name+"=true"+feat), fmt.Sprintf("%s: fresh scalar encoder err=%v, reused (Reset) one err=nil", desc, refErr))
		}
	case refOK && bytes.Equal(ref, b):
	default:
		bufStat.reuseScalarDiffer++
		rs := decodeBoth(typ, raw, b, desc, name, feat)
		if len(rs) > 0 && !sameDecFails(rs, subsetDecFails(refFails)) {
			foldDecFails([]string{"codec", typ}, name, 3, rs, add)
		}
	}
}

// checkCodec runs one sequence through every encoder x decoder path of one component codec.
func checkCodec(cs Case) (outcome string, fails []fail) {
	typ := cs.Type
	raw := cs.V.gen()
	add := func(sig, msg string) { fails = append(fails, fail{sig, msg}) }
	desc := fmt.Sprintf("%s values %s", typ, cs.V)

	mustAccept, feat := true, ""
	if typ == "float" {
		var nan bool
		nan, feat = floatFeatures(raw)
		mustAccept = !nan
		feat = "/" + feat
	}
	if typ == "time" {
		feat = fmt.Sprintf("/sorted=%v", sortedI64(raw))
	}

	type encRes struct {
		name string
		b    []byte
		err  error
		ok   bool // did not panic
	}
	encs := []encRes{{name: "scalar"}, {name: "batch"}, {name: "batch+buf-reused"}}
	for i := range encs {
		e := &encs[i]
		p, d := vlib.Guard(func() {
			switch i {
			case 0:
				e.b, e.err = scalarEncode(typ, raw)
			case 1:
				e.b, e.err = batchEncode(typ, raw, nil)
			case 2:
				e.b, e.err = batchEncode(typ, raw, primerBuf(typ))
			}
		})
		e.ok = !p
		if p {
			add(vlib.JoinSig("codec", typ, e.name+"-encode", "panic", frame(d)), desc+": "+d)
		}
	}
	verdict := "roundtrip"
	var decFails [3][]decRes
	for i := range encs {
		e := &encs[i]
		if !e.ok {
			continue
		}
		if e.err != nil {
			if mustAccept && i == 2 && encs[1].ok && encs[1].err != nil {
				continue // already reported for the plain batch encoder
			}
			if mustAccept {
				add(vlib.JoinSig("codec", typ, e.name+"-encode", "rejects-valid"+feat), fmt.Sprintf("%s: %s encoder rejected a sequence it must store: %v", desc, e.name, e.err))
			} else {
				verdict = "rejected"
			}
			continue
		}
		if !mustAccept {
			verdict = "accepted-optional"
		}
		br := branchName(typ, e.b)
		if i == 2 && encs[1].ok && encs[1].err == nil && bytes.Equal(encs[1].b, e.b) {
			decFails[2] = decFails[1] // byte-identical output: the decoders are deterministic functions of it
			continue
		}
		var rs []decRes
		for dv := 0; dv < nDecoders; dv++ {
			var got []uint64
			var derr error
			dname := "scalar"
			if dv > 0 {
				dname = "batch" + dstNames[dv-1]
			}
			p, d := vlib.Guard(func() {
				if dv == 0 {
					got, derr = scalarDecode(typ, e.b, len(raw)+16)
				} else {
					got, derr = batchDecode(typ, e.b, dv-1, raw)
				}
			})
			path := e.name + "->" + dname
			switch {
			case p:
				rs = append(rs, decRes{dname, "panic", br + "/" + frame(d), desc + ": " + path + ": " + d})
			case derr != nil:
				rs = append(rs, decRes{dname, "decode-error", br + feat, fmt.Sprintf("%s: %s: decoder failed on the encoder's own output (%d bytes): %v", desc, path, len(e.b), derr)})
			case !equalU(raw, got):
				rs = append(rs, decRes{dname, "mismatch", br + feat, fmt.Sprintf("%s: %s: decoded %s; input %s decoded %s", desc, path, firstDiff(raw, got), hexs(raw, 6), hexs(got, 6))})
			}
		}
		decFails[i] = rs
	}
	for i := range encs {
		if i == 2 && sameDecFails(decFails[1], decFails[2]) {
			continue // the reused buffer makes no difference: already reported for the plain batch encoder
		}
		foldDecFails([]string{"codec", typ}, encs[i].name, nDecoders, decFails[i], add)
	}
	checkBufferStates(typ, raw, desc, feat, mustAccept, encs[1].ok, encs[1].b, encs[1].err, decFails[1], add)
	checkScalarReuse(typ, raw, desc, feat, mustAccept, encs[0].ok, encs[0].b, encs[0].err, decFails[0], add)
	// where rejection is permitted (NaN), every encoder must take the same decision
	if !mustAccept {
		for i := 1; i < len(encs); i++ {
			if encs[0].ok && encs[i].ok && (encs[0].err == nil) != (encs[i].err == nil) {
				add(vlib.JoinSig("codec", typ, "accept-disagree", fmt.Sprintf("scalar=%v,%s=%v", encs[0].err == nil, encs[i].name, encs[i].err == nil)+feat),
					fmt.Sprintf("%s: scalar encoder err=%v but %s encoder err=%v", desc, encs[0].err, encs[i].name, encs[i].err))
			}
		}
	}
	if len(fails) > 0 {
		verdict = "VIOLATION"
	}
	outcome = fmt.Sprintf("codec/%s/sc=%s,ba=%s/%s/%s", typ, branchName(typ, encs[0].b), branchName(typ, encs[1].b), nBucket(len(raw)), verdict)
	return
}

// ---------------------------------------------------------------------------------------------------------
// simple8b (pkg/encoding/simple8b)

func wordsToBytes(w []uint64) []byte {
	b := make([]byte, 8*len(w))
	for i, v := range w {
		binary.BigEndian.PutUint64(b[8*i:], v)
	}
	return b
}

func checkS8b(cs Case) (outcome string, fails []fail) {
	u := cs.V.gen()
	add := func(sig, msg string) { fails = append(fails, fail{sig, msg}) }
	desc := fmt.Sprintf("simple8b values %s", cs.V)
	packable := true
	for _, v := range u {
		if v > s8Max {
			packable = false
		}
	}
	feat := fmt.Sprintf("packable=%v", packable)
	guard := func(api string, f func()) bool {
		p, d := vlib.Guard(f)
		if p {
			add(vlib.JoinSig("s8b", api, "panic", feat, frame(d)), desc+": "+d)
		}
		return !p
	}
	cmp := func(api string, got []uint64) {
		if !equalU(u, got) {
			add(vlib.JoinSig("s8b", api, "mismatch"), fmt.Sprintf("%s: %s: decoded %s; input %s decoded %s", desc, api, firstDiff(u, got), hexs(u, 6), hexs(got, 6)))
		}
	}
	decision := func(api string, err error) bool { // returns true when decoding should be checked
		if packable && err != nil {
			add(vlib.JoinSig("s8b", api, "rejects-packable"), fmt.Sprintf("%s: %s returned %v although every value <= 2^60-1", desc, api, err))
			return false
		}
		if !packable && err == nil {
			add(vlib.JoinSig("s8b", api, "accepts-unpackable"), fmt.Sprintf("%s: %s accepted a value > 2^60-1", desc, api))
			return false
		}
		return packable
	}

	// EncodeAll -> DecodeAll / DecodeBytesBigEndian / CountBytes / Count / Decode / Decoder
	var words []uint64
	var err error
	if guard("EncodeAll", func() { words, err = simple8b.EncodeAll(append([]uint64(nil), u...)) }) && decision("EncodeAll", err) {
		words = append([]uint64(nil), words...)
		bs := wordsToBytes(words)
		guard("EncodeAll->DecodeAll", func() {
			dst := make([]uint64, len(u)+240)
			n, e := simple8b.DecodeAll(dst, words)
			if e != nil || n < 0 || n > len(dst) {
				add(vlib.JoinSig("s8b", "EncodeAll->DecodeAll", "decode-error"), fmt.Sprintf("%s: DecodeAll n=%d err=%v", desc, n, e))
				return
			}
			cmp("EncodeAll->DecodeAll", dst[:n])
		})
		guard("EncodeAll->DecodeBytesBigEndian", func() {
			dst := make([]uint64, len(u)+240)
			n, e := simple8b.DecodeBytesBigEndian(dst, bs)
			if e != nil || n < 0 || n > len(dst) {
				add(vlib.JoinSig("s8b", "EncodeAll->DecodeBytesBigEndian", "decode-error"), fmt.Sprintf("%s: DecodeBytesBigEndian n=%d err=%v", desc, n, e))
				return
			}
			cmp("EncodeAll->DecodeBytesBigEndian", dst[:n])
		})
		guard("EncodeAll->CountBytes", func() {
			n, e := simple8b.CountBytes(bs)
			if e != nil || n != len(u) {
				add(vlib.JoinSig("s8b", "EncodeAll->CountBytes", "wrong-count"), fmt.Sprintf("%s: CountBytes=%d err=%v, expected %d", desc, n, e, len(u)))
			}
		})
		guard("EncodeAll->Decode", func() {
			var got []uint64
			total := 0
			for _, w := range words {
				var dst [240]uint64
				n, e := simple8b.Decode(&dst, w)
				c, e2 := simple8b.Count(w)
				if e != nil || e2 != nil || c != n {
					add(vlib.JoinSig("s8b", "EncodeAll->Decode", "decode-error"), fmt.Sprintf("%s: Decode n=%d err=%v Count=%d err=%v", desc, n, e, c, e2))
					return
				}
				total += n
				got = append(got, dst[:n]...)
			}
			cmp("EncodeAll->Decode", got)
		})
		guard("EncodeAll->Decoder", func() {
			d := simple8b.NewDecoder(bs)
			var got []uint64
			for d.Next() && len(got) < len(u)+16 {
				got = append(got, d.Read())
			}
			cmp("EncodeAll->Decoder", got)
		})
	}

	// streaming Encoder -> DecodeBytesBigEndian / Decoder
	var sb []byte
	guardOK := guard("Encoder", func() {
		e := simple8b.NewEncoder()
		err = nil
		for _, v := range u {
			if err = e.Write(v); err != nil {
				return
			}
		}
		var b []byte
		b, err = e.Bytes()
		sb = cp(b)
	})
	if guardOK && decision("Encoder", err) {
		guard("Encoder->DecodeBytesBigEndian", func() {
			dst := make([]uint64, len(u)+240)
			n, e := simple8b.DecodeBytesBigEndian(dst, sb)
			if e != nil || n < 0 || n > len(dst) {
				add(vlib.JoinSig("s8b", "Encoder->DecodeBytesBigEndian", "decode-error"), fmt.Sprintf("%s: n=%d err=%v", desc, n, e))
				return
			}
			cmp("Encoder->DecodeBytesBigEndian", dst[:n])
			if c, e := simple8b.CountBytes(sb); e != nil || c != len(u) {
				add(vlib.JoinSig("s8b", "Encoder->CountBytes", "wrong-count"), fmt.Sprintf("%s: CountBytes=%d err=%v, expected %d", desc, c, e, len(u)))
			}
		})
		guard("Encoder->Decoder", func() {
			d := simple8b.NewDecoder(sb)
			var got []uint64
			for d.Next() && len(got) < len(u)+16 {
				got = append(got, d.Read())
			}
			cmp("Encoder->Decoder", got)
		})
	}

	// greedy loop over the single-word Encode: must consume everything iff packable, and reject at the first
	// value that does not fit
	guard("Encode", func() {
		rest := u
		var got []uint64
		for len(rest) > 0 {
			w, n, e := simple8b.Encode(rest)
			if e != nil {
				if rest[0] <= s8Max {
					add(vlib.JoinSig("s8b", "Encode", "rejects-packable"), fmt.Sprintf("%s: Encode(%s) returned %v although the head value fits", desc, hexs(rest, 4), e))
				}
				break
			}
			if n <= 0 || n > len(rest) {
				if rest[0] > s8Max {
					add(vlib.JoinSig("s8b", "Encode", "accepts-unpackable"), fmt.Sprintf("%s: Encode(%s) n=%d without error", desc, hexs(rest, 4), n))
				} else {
					add(vlib.JoinSig("s8b", "Encode", "bad-count"), fmt.Sprintf("%s: Encode(%s) n=%d", desc, hexs(rest, 4), n))
				}
				break
			}
			var dst [240]uint64
			dn, de := simple8b.Decode(&dst, w)
			if de != nil || dn != n {
				add(vlib.JoinSig("s8b", "Encode->Decode", "wrong-count"), fmt.Sprintf("%s: Encode packed %d values, Decode returned %d err=%v", desc, n, dn, de))
				break
			}
			for k := 0; k < n; k++ {
				if rest[k] > s8Max {
					add(vlib.JoinSig("s8b", "Encode", "accepts-unpackable"), fmt.Sprintf("%s: Encode packed value %#x > 2^60-1", desc, rest[k]))
				}
			}
			got = append(got, dst[:n]...)
			rest = rest[n:]
		}
		if packable {
			cmp("Encode->Decode", got)
		} else if !equalU(u[:len(got)], got) {
			add(vlib.JoinSig("s8b", "Encode->Decode", "mismatch"), fmt.Sprintf("%s: prefix decoded %s", desc, firstDiff(u[:len(got)], got)))
		}
	})

	verdict := "roundtrip"
	if !packable {
		verdict = "rejected"
	}
	if len(fails) > 0 {
		verdict = "VIOLATION"
	}
	sel := "none"
	if packable && len(words) > 0 {
		sel = fmt.Sprintf("firstsel=%d", words[0]>>60)
	}
	outcome = fmt.Sprintf("s8b/%s/%s/%s", sel, nBucket(len(u)), verdict)
	return
}

// ---------------------------------------------------------------------------------------------------------
// Block level: Values.Encode / <T>Values.Encode / Encode<T>ArrayBlock  x  DecodeBlock / Decode<T>Block / Decode<T>ArrayBlock

func mkValue(typ string, ts int64, v uint64) tsm1.Value {
	switch typ {
	case "int":
		return tsm1.NewIntegerValue(ts, int64(v))
	case "uint":
		return tsm1.NewUnsignedValue(ts, v)
	case "float":
		return tsm1.NewFloatValue(ts, math.Float64frombits(v))
	case "bool":
		return tsm1.NewBooleanValue(ts, v != 0)
	case "string":
		return tsm1.NewStringValue(ts, strAlpha[v])
	}
	panic("bad type " + typ)
}

func rawOf(v tsm1.Value) uint64 {
	switch x := v.Value().(type) {
	case int64:
		return uint64(x)
	case uint64:
		return x
	case float64:
		return math.Float64bits(x)
	case bool:
		if x {
			return 1
		}
		return 0
	case string:
		return strIdx(x)
	}
	return 0xBADBADBADBAD
}

func blockEncode(typ string, which int, ts, raw []uint64, buf []byte) ([]byte, error) {
	var b []byte
	var err error
	switch which {
	case 0: // generic Values
		vals := make(tsm1.Values, len(raw))
		for i := range raw {
			vals[i] = mkValue(typ, int64(ts[i]), raw[i])
		}
		b, err = vals.Encode(buf)
	case 1: // typed values
		switch typ {
		case "int":
			a := make(tsm1.IntegerValues, len(raw))
			for i := range raw {
				a[i] = mkValue(typ, int64(ts[i]), raw[i]).(tsm1.IntegerValue)
			}
			b, err = a.Encode(buf)
		case "uint":
			a := make(tsm1.UnsignedValues, len(raw))
			for i := range raw {
				a[i] = mkValue(typ, int64(ts[i]), raw[i]).(tsm1.UnsignedValue)
			}
			b, err = a.Encode(buf)
		case "float":
			a := make(tsm1.FloatValues, len(raw))
			for i := range raw {
				a[i] = mkValue(typ, int64(ts[i]), raw[i]).(tsm1.FloatValue)
			}
			b, err = a.Encode(buf)
		case "bool":
			a := make(tsm1.BooleanValues, len(raw))
			for i := range raw {
				a[i] = mkValue(typ, int64(ts[i]), raw[i]).(tsm1.BooleanValue)
			}
			b, err = a.Encode(buf)
		case "string":
			a := make(tsm1.StringValues, len(raw))
			for i := range raw {
				a[i] = mkValue(typ, int64(ts[i]), raw[i]).(tsm1.StringValue)
			}
			b, err = a.Encode(buf)
		}
	case 2: // array (batch) block
		switch typ {
		case "int":
			b, err = tsm1.EncodeIntegerArrayBlock(&tsdb.IntegerArray{Timestamps: toI64(ts), Values: toI64(raw)}, buf)
		case "uint":
			b, err = tsm1.EncodeUnsignedArrayBlock(&tsdb.UnsignedArray{Timestamps: toI64(ts), Values: append([]uint64(nil), raw...)}, buf)
		case "float":
			b, err = tsm1.EncodeFloatArrayBlock(&tsdb.FloatArray{Timestamps: toI64(ts), Values: toF64(raw)}, buf)
		case "bool":
			b, err = tsm1.EncodeBooleanArrayBlock(&tsdb.BooleanArray{Timestamps: toI64(ts), Values: toBool(raw)}, buf)
		case "string":
			b, err = tsm1.EncodeStringArrayBlock(&tsdb.StringArray{Timestamps: toI64(ts), Values: toStr(raw)}, buf)
		}
	}
	return cp(b), err
}

var blockEncNames = [3]string{"Values.Encode", "TypedValues.Encode", "EncodeArrayBlock"}
var blockDecNames = [4]string{"DecodeBlock", "DecodeTypedBlock", "DecodeArrayBlock", "DecodeArrayBlock+dst-reused"}

func blockDecode(typ string, which int, block []byte) (ts, raw []uint64, err error) {
	switch which {
	case 0:
		var vals []tsm1.Value
		vals, err = tsm1.DecodeBlock(block, nil)
		for _, v := range vals {
			ts = append(ts, uint64(v.UnixNano()))
			raw = append(raw, rawOf(v))
		}
	case 1:
		switch typ {
		case "int":
			var buf []tsm1.IntegerValue
			var out []tsm1.IntegerValue
			out, err = tsm1.DecodeIntegerBlock(block, &buf)
			for _, v := range out {
				ts, raw = append(ts, uint64(v.UnixNano())), append(raw, uint64(v.RawValue()))
			}
		case "uint":
			var buf []tsm1.UnsignedValue
			var out []tsm1.UnsignedValue
			out, err = tsm1.DecodeUnsignedBlock(block, &buf)
			for _, v := range out {
				ts, raw = append(ts, uint64(v.UnixNano())), append(raw, v.RawValue())
			}
		case "float":
			var buf []tsm1.FloatValue
			var out []tsm1.FloatValue
			out, err = tsm1.DecodeFloatBlock(block, &buf)
			for _, v := range out {
				ts, raw = append(ts, uint64(v.UnixNano())), append(raw, math.Float64bits(v.RawValue()))
			}
		case "bool":
			var buf []tsm1.BooleanValue
			var out []tsm1.BooleanValue
			out, err = tsm1.DecodeBooleanBlock(block, &buf)
			for _, v := range out {
				ts, raw = append(ts, uint64(v.UnixNano())), append(raw, rawOf(v))
			}
		case "string":
			var buf []tsm1.StringValue
			var out []tsm1.StringValue
			out, err = tsm1.DecodeStringBlock(block, &buf)
			for _, v := range out {
				ts, raw = append(ts, uint64(v.UnixNano())), append(raw, strIdx(v.RawValue()))
			}
		}
	case 2, 3:
		var tdst []int64
		n := 0
		if which == 3 {
			n = 300
			tdst = make([]int64, n)
			for i := range tdst {
				tdst[i] = 0x1111111111111111
			}
		}
		switch typ {
		case "int":
			a := &tsdb.IntegerArray{Timestamps: tdst}
			if n > 0 {
				a.Values = make([]int64, n)
				for i := range a.Values {
					a.Values[i] = -77
				}
			}
			err = tsm1.DecodeIntegerArrayBlock(block, a)
			ts, raw = fromI64(a.Timestamps), fromI64(a.Values)
		case "uint":
			a := &tsdb.UnsignedArray{Timestamps: tdst}
			if n > 0 {
				a.Values = make([]uint64, n)
				for i := range a.Values {
					a.Values[i] = 0x7777
				}
			}
			err = tsm1.DecodeUnsignedArrayBlock(block, a)
			ts, raw = fromI64(a.Timestamps), append([]uint64(nil), a.Values...)
		case "float":
			a := &tsdb.FloatArray{Timestamps: tdst}
			if n > 0 {
				a.Values = make([]float64, n)
				for i := range a.Values {
					a.Values[i] = 7.75
				}
			}
			err = tsm1.DecodeFloatArrayBlock(block, a)
			ts, raw = fromI64(a.Timestamps), fromF64(a.Values)
		case "bool":
			a := &tsdb.BooleanArray{Timestamps: tdst}
			if n > 0 {
				a.Values = make([]bool, n)
				for i := range a.Values {
					a.Values[i] = i%2 == 0
				}
			}
			err = tsm1.DecodeBooleanArrayBlock(block, a)
			ts, raw = fromI64(a.Timestamps), fromBool(a.Values)
		case "string":
			a := &tsdb.StringArray{Timestamps: tdst}
			if n > 0 {
				a.Values = make([]string, n)
				for i := range a.Values {
					a.Values[i] = "stale"
				}
			}
			err = tsm1.DecodeStringArrayBlock(block, a)
			ts, raw = fromI64(a.Timestamps), fromStr(a.Values)
		}
	}
	return
}

func tbranchOf(block []byte) string {
	if len(block) > 2 {
		if l, k := binary.Uvarint(block[1:]); k > 0 && l > 0 && 1+k < len(block) {
			return "ts=" + branchName("time", block[1+k:])
		}
	}
	return "ts=?"
}

func checkBlock(cs Case) (outcome string, fails []fail) {
	typ := cs.Type
	raw := cs.V.gen()
	ts := cs.T.gen()
	add := func(sig, msg string) { fails = append(fails, fail{sig, msg}) }
	desc := fmt.Sprintf("%s block values %s timestamps %s", typ, cs.V, *cs.T)
	if len(raw) != len(ts) || len(raw) == 0 {
		add("harness/bad-block-case", desc)
		return "block/bad-case", fails
	}
	mustAccept, feat := true, ""
	if typ == "float" {
		var nan bool
		nan, feat = floatFeatures(raw)
		mustAccept = !nan
		feat = "/" + feat
	}
	var wantType byte
	switch typ {
	case "float":
		wantType = tsm1.BlockFloat64
	case "int":
		wantType = tsm1.BlockInteger
	case "bool":
		wantType = tsm1.BlockBoolean
	case "string":
		wantType = tsm1.BlockString
	case "uint":
		wantType = tsm1.BlockUnsigned
	}

	var accepted [3]int // 0 unknown(panic) 1 ok 2 rejected
	verdict := "roundtrip"
	var tbranch string
	for ei := 0; ei < 3; ei++ {
		var block []byte
		var err error
		p, d := vlib.Guard(func() { block, err = blockEncode(typ, ei, ts, raw, nil) })
		en := blockEncNames[ei]
		if p {
			add(vlib.JoinSig("block", typ, en, "panic", frame(d)), desc+": "+d)
			continue
		}
		if err != nil {
			accepted[ei] = 2
			if mustAccept {
				add(vlib.JoinSig("block", typ, en, "rejects-valid"+feat), fmt.Sprintf("%s: %s rejected a block it must store: %v", desc, en, err))
			} else {
				verdict = "rejected"
			}
			continue
		}
		accepted[ei] = 1
		if !mustAccept {
			verdict = "accepted-optional"
		}
		if ei == 0 {
			tbranch = tbranchOf(block) // coverage class only: which timestamp encoding was chosen
		}
		// header queries
		p, d = vlib.Guard(func() {
			bt, e := tsm1.BlockType(block)
			if e != nil || bt != wantType {
				add(vlib.JoinSig("block", typ, en+"->BlockType", "wrong"), fmt.Sprintf("%s: BlockType=%d err=%v expected %d", desc, bt, e, wantType))
			}
			bc, e := tsm1.BlockCount(block)
			if e != nil || bc != len(raw) {
				add(vlib.JoinSig("block", typ, en+"->BlockCount", "wrong"), fmt.Sprintf("%s: BlockCount=%d err=%v expected %d", desc, bc, e, len(raw)))
			}
		})
		if p {
			add(vlib.JoinSig("block", typ, en+"->BlockCount", "panic", frame(d)), desc+": "+d)
		}
		var rs []decRes
		for di := 0; di < 4; di++ {
			var gts, graw []uint64
			var derr error
			p, d := vlib.Guard(func() { gts, graw, derr = blockDecode(typ, di, block) })
			path := en + "->" + blockDecNames[di]
			switch {
			case p:
				rs = append(rs, decRes{blockDecNames[di], "panic", frame(d), desc + ": " + path + ": " + d})
			case derr != nil:
				rs = append(rs, decRes{blockDecNames[di], "decode-error", strings.TrimPrefix(feat, "/"), fmt.Sprintf("%s: %s failed on the encoder's own output: %v", desc, path, derr)})
			case !equalU(ts, gts):
				rs = append(rs, decRes{blockDecNames[di], "timestamp-mismatch", tbranchOf(block), fmt.Sprintf("%s: %s: timestamps: %s", desc, path, firstDiff(ts, gts))})
			case !equalU(raw, graw):
				rs = append(rs, decRes{blockDecNames[di], "value-mismatch", strings.TrimPrefix(feat, "/"), fmt.Sprintf("%s: %s: values: %s", desc, path, firstDiff(raw, graw))})
			}
		}
		foldDecFails([]string{"block", typ}, en, 4, rs, add)

		// destination-buffer states of the block encoder: same verdict, and byte-identical output or at least an
		// output that decodes to the input with the value-at-a-time and the array decoder
		nameOf := [2]string{"DecodeBlock", "DecodeArrayBlock"}
		for _, st := range blockBufStates {
			if len(rs) > 0 {
				break // the nil-buffer output fails already: nothing new to learn
			}
			L := len(block)
			var buf []byte
			switch st {
			case "cap-ff":
				buf = filled(0, L+64, 0xff)
			case "larger-ff":
				buf = filled(L+64, L+64, 0xff)
			case "larger-aa":
				buf = filled((L+64)/2, L+64, 0xaa)
			case "prev-block": // the block just produced followed by its complement: "an earlier, longer block"
				buf = append(cp(block), block...)
				for k := L; k < len(buf); k++ {
					buf[k] = ^buf[k]
				}
				buf = append(buf, filled(32, 32, 0x55)...)
			}
			var b2 []byte
			var err2 error
			p, d := vlib.Guard(func() { b2, err2 = blockEncode(typ, ei, ts, raw, buf) })
			bufStat.blockEncodes++
			name := en + "+buf-" + st
			var rs2 []decRes
			switch {
			case p:
				rs2 = append(rs2, decRes{"encode", "panic", frame(d), desc + ": " + name + ": " + d})
			case err2 != nil:
				rs2 = append(rs2, decRes{"encode", "verdict-differs-from-nil-buffer", strings.TrimPrefix(feat, "/"), fmt.Sprintf("%s: %s rejected a block that %s accepts with a nil buffer: %v", desc, name, en, err2)})
			case bytes.Equal(block, b2):
			default:
				bufStat.blockDiffer++
				for k, di := range []int{0, 2} {
					var gts, graw []uint64
					var derr error
					p, d := vlib.Guard(func() { gts, graw, derr = blockDecode(typ, di, b2) })
					path := name + "->" + nameOf[k]
					switch {
					case p:
						rs2 = append(rs2, decRes{nameOf[k], "panic", frame(d), desc + ": " + path + ": " + d})
					case derr != nil:
						rs2 = append(rs2, decRes{nameOf[k], "decode-error", strings.TrimPrefix(feat, "/"), fmt.Sprintf("%s: %s failed on the encoder's own output: %v", desc, path, derr)})
					case !equalU(ts, gts):
						rs2 = append(rs2, decRes{nameOf[k], "timestamp-mismatch", tbranchOf(b2), fmt.Sprintf("%s: %s: timestamps: %s", desc, path, firstDiff(ts, gts))})
					case !equalU(raw, graw):
						rs2 = append(rs2, decRes{nameOf[k], "value-mismatch", strings.TrimPrefix(feat, "/"), fmt.Sprintf("%s: %s: values: %s", desc, path, firstDiff(raw, graw))})
					}
				}
			}
			if len(rs2) > 0 { // first failing state only
				foldDecFails([]string{"block", typ}, name, 2, rs2, add)
				break
			}
		}
	}
	if !mustAccept {
		for ei := 1; ei < 3; ei++ {
			if accepted[0] != 0 && accepted[ei] != 0 && accepted[0] != accepted[ei] {
				add(vlib.JoinSig("block", typ, "accept-disagree", fmt.Sprintf("%s=%v,%s=%v", blockEncNames[0], accepted[0] == 1, blockEncNames[ei], accepted[ei] == 1)+feat), desc)
			}
		}
	}
	if len(fails) > 0 {
		verdict = "VIOLATION"
	}
	if tbranch == "" {
		tbranch = "ts=-"
	}
	outcome = fmt.Sprintf("block/%s/%s/%s/%s", typ, tbranch, nBucket(len(raw)), verdict)
	return
}

func b2i(b bool) int {
	if b {
		return 1
	}
	return 0
}

func frame(d string) string { return strings.TrimSpace(d[strings.LastIndex(d, "@")+1:]) }

func run(cs Case) (string, []fail) {
	switch cs.Level {
	case "codec":
		return checkCodec(cs)
	case "s8b":
		return checkS8b(cs)
	case "block":
		return checkBlock(cs)
	}
	return "bad-level", []fail{{"harness/bad-level", cs.Level}}
}

// ---------------------------------------------------------------------------------------------------------
// Enumeration

var allLens = []int{7, 8, 9, 16, 17, 59, 60, 61, 63, 64, 65, 119, 120, 121, 122, 239, 240, 241, 242, 481, 482, 999, 1000, 1001, 2048}
var quickLens = []int{7, 60, 61, 120, 121, 240, 241, 242}

// selector boundaries of simple8b: 2^b-1 and 2^b for every packing width b
var s8Set = func() []uint64 {
	s := []uint64{0}
	for _, b := range []uint{1, 2, 3, 4, 5, 6, 7, 8, 10, 12, 15, 20, 30, 60} {
		s = append(s, 1<<b-1, 1<<b)
	}
	s = append(s, 1<<63, math.MaxUint64)
	return uniq(s)
}()

var timeSet = func() []uint64 {
	s := append([]uint64(nil), s8Set...)
	p := uint64(1)
	for k := 1; k <= 13; k++ {
		p *= 10
		s = append(s, p, 3*p)
	}
	s = append(s, 1152922*1e12) // > 2^60 and divisible by 10^12
	return uniq(s)
}()

func uniq(s []uint64) []uint64 {
	seen := map[uint64]bool{}
	var o []uint64
	for _, v := range s {
		if !seen[v] {
			seen[v] = true
			o = append(o, v)
		}
	}
	return o
}

func outlierPositions(n int) []int {
	cand := []int{0, 1, 2, n / 2, n - 2, n - 1, 59, 60, 61, 118, 119, 120, 121, 238, 239, 240, 241}
	seen := map[int]bool{}
	var o []int
	for _, p := range cand {
		if p >= 0 && p < n && !seen[p] {
			seen[p] = true
			o = append(o, p)
		}
	}
	sort.Ints(o)
	return o
}

// boolRanges: the length ranges of family F5 (inclusive); lengths <= boolMax are covered by F1 with ALL sequences.
func boolRanges(thorough bool, boolMax int) [][2]int {
	rs := [][2]int{{boolMax + 1, 40}, {57, 72}, {113, 136}}
	if thorough {
		rs = append(rs, [2]int{41, 56}, [2]int{233, 264}, [2]int{993, 1008}, [2]int{2041, 2056}, [2]int{16377, 16392})
	}
	return rs
}

func boolOutlierPositions(n int) []int {
	if n <= 72 {
		o := make([]int, n)
		for i := range o {
			o[i] = i
		}
		return o
	}
	seen := map[int]bool{}
	var o []int
	for _, p := range outlierPositions(n) {
		seen[p] = true
		o = append(o, p)
	}
	for p := n - 9; p < n; p++ {
		if p >= 0 && !seen[p] {
			seen[p] = true
			o = append(o, p)
		}
	}
	sort.Ints(o)
	return o
}

type enumerator struct {
	c    *vlib.Ctx
	idx  int64
	mine int64
	stop bool
}

func (e *enumerator) visit(mk func() Case) {
	if e.stop {
		return
	}
	e.idx++
	if !e.c.Mine(e.idx) {
		return
	}
	e.mine++
	if e.mine&0xff == 0 && e.c.Expired() {
		e.c.Cap("wall budget expired; families are visited in the order F1 (quick bounds), F2 (F5 after the boolean part), F3, F4, then (thorough) the longer F1 sequences; the later ones are incomplete")
		e.stop = true
		return
	}
	cs := mk()
	outcome, fails := run(cs)
	e.c.Eval(1)
	if cs.V.Kind != "lit" || len(cs.V.Lit) > 0 {
		e.c.NontrivialN(1)
	}
	e.c.Outcome(outcome)
	for _, f := range fails {
		e.c.Violation(f.sig, f.msg, cs)
	}
	if e.c.WantSample() && e.idx%977 < 16 {
		e.c.Sample(map[string]any{"case": cs, "outcome": outcome})
	}
}

// allSeqs visits every sequence over alpha of every length 0..maxLen, shortest first.
func allSeqs(alpha []uint64, minLen, maxLen int, f func(lit []uint64)) {
	for n := minLen; n <= maxLen; n++ {
		ix := make([]int, n)
		lit := make([]uint64, n) // reused: callers copy what they keep
		for {
			for i, k := range ix {
				lit[i] = alpha[k]
			}
			f(lit)
			i := n - 1
			for i >= 0 {
				ix[i]++
				if ix[i] < len(alpha) {
					break
				}
				ix[i] = 0
				i--
			}
			if i < 0 {
				break
			}
		}
	}
}

// patterns enumerates the run-structured long sequences of one family.
func patterns(lens []int, consts, alts, beds, outl []uint64, mode string, start uint64, f func(s Spec)) {
	for _, n := range lens {
		for _, a := range consts {
			f(Spec{Kind: "const", N: n, A: a, Mode: mode, Start: start})
		}
		for _, a := range alts {
			for _, b := range alts {
				if a != b {
					f(Spec{Kind: "alt", N: n, A: a, B: b, Mode: mode, Start: start})
				}
			}
		}
		for _, bed := range beds {
			for _, b := range outl {
				if b == bed {
					continue
				}
				for _, p := range outlierPositions(n) {
					f(Spec{Kind: "outlier", N: n, A: bed, B: b, Pos: p, Mode: mode, Start: start})
				}
			}
		}
	}
}

func window(lead, trail int, full bool) uint64 {
	hi, lo := uint(63-lead), uint(trail)
	if !full {
		return 1<<hi | 1<<lo
	}
	var m uint64
	for b := lo; b <= hi; b++ {
		m |= 1 << b
	}
	return m
}

const tsBase = uint64(1600000000000000000)

// block-level timestamp patterns for a block of n points
func tsPatterns(n int) []Spec {
	return []Spec{
		{Kind: "const", N: n, A: 1e9, Mode: "delta", Start: tsBase},                                           // regular: RLE with divisor
		{Kind: "const", N: n, A: 0, Mode: "delta", Start: 42},                                                 // equal neighbours
		{Kind: "cycle", N: n, Lit: []uint64{1, 10, 3, 1000, 7}, Mode: "delta", Start: tsBase},                 // irregular: simple8b
		{Kind: "cycle", N: n, Lit: []uint64{0, 1 << 62, 1, 1<<63 + 5, 20}, Mode: "delta", Start: 1 << 63},     // huge deltas starting at MinInt64: uncompressed
		{Kind: "cycle", N: n, Lit: []uint64{5000, 1000, 1000, 2000}, Mode: "delta", Start: math.MaxInt64 - 9}, // simple8b with divisor, wraps past MaxInt64
	}
}

func explore(c *vlib.Ctx) {
	e := &enumerator{c: c}
	t0 := time.Now()
	lastIdx := int64(0)
	mark := func(name string) {
		c.Logf("shard %d: %-28s cases=%-9d elapsed=%.1fs", c.Shard, name, e.idx-lastIdx, time.Since(t0).Seconds())
		c.Extra("cases_"+name, (e.idx-lastIdx)*int64(b2i(c.Shard == 0)))
		lastIdx = e.idx
	}
	thorough := c.Thorough()
	longLens := quickLens
	if thorough {
		longLens = allLens
	}
	debug.SetGCPercent(400)

	// F1: every sequence of length 0..shortMax over each type's boundary alphabet, every component codec path. The
	// quick bounds come first; the longer sequences of the thorough tier come last (F1x) so that a thorough run that
	// hits its wall budget on a loaded machine has still covered everything the quick tier covers.
	f1Max := func(typ string, thorough bool) int {
		switch {
		case typ == "string" && !thorough:
			return 3
		case typ == "string":
			return 4
		case typ == "bool" && !thorough:
			return 12
		case typ == "bool":
			return 18
		case typ == "uint64" && thorough: // simple8b
			return 5
		case thorough:
			return 6
		}
		return 4
	}
	f1 := func(typ string, lo, hi int) {
		if lo > hi {
			return
		}
		level := "codec"
		if typ == "uint64" {
			level = "s8b"
		}
		allSeqs(alphaOf(typ), lo, hi, func(lit []uint64) {
			e.visit(func() Case { return Case{Level: level, Type: typ, V: Spec{Kind: "lit", Lit: clone(lit)}} })
		})
	}
	for _, typ := range []string{"time", "int", "uint", "float", "string"} {
		f1(typ, 0, f1Max(typ, false))
	}
	mark("F1-codec-short")
	boolMax := f1Max("bool", thorough) // F5 starts above the lengths F1/F1x cover with ALL sequences
	f1("bool", 0, f1Max("bool", false))
	mark("F1-bool-short")
	f1("uint64", 0, f1Max("uint64", false))
	mark("F1-s8b-short")
	// F2: run-structured long sequences
	altSet := []uint64{0, 1, 2, 255, 256, 1 << 30, 1<<60 - 1, 1 << 60, math.MaxUint64}
	patterns(longLens, s8Set, altSet, []uint64{0, 1, 3}, s8Set, "", 0, func(s Spec) {
		e.visit(func() Case { return Case{Level: "s8b", Type: "uint64", V: s} })
	})
	mark("F2-s8b")
	// timestamps: the pattern gives the deltas
	tAlt := []uint64{0, 1, 10, 1000, 3000, 1e12, 1 << 30, 1<<60 - 1, 1 << 60, math.MaxUint64}
	tBeds := []uint64{0, 1, 1000}
	if thorough {
		tBeds = []uint64{0, 1, 3, 1000, 1e12}
	}
	patterns(longLens, timeSet, tAlt, tBeds, timeSet, "delta", tsBase, func(s Spec) {
		e.visit(func() Case { return Case{Level: "codec", Type: "time", V: s} })
	})
	patterns(longLens, []uint64{0, 1, 1000, 1 << 60}, nil, nil, nil, "delta", 1<<63, func(s Spec) { // start at MinInt64
		e.visit(func() Case { return Case{Level: "codec", Type: "time", V: s} })
	})
	mark("F2-time")
	// integers / unsigned: the pattern gives the zig-zag encoded deltas
	iBeds := []uint64{0, 1, 2}
	if thorough {
		iBeds = []uint64{0, 1, 2, 3}
	}
	for _, typ := range []string{"int", "uint"} {
		typ := typ
		patterns(longLens, s8Set, altSet, iBeds, s8Set, "zz", 0, func(s Spec) {
			e.visit(func() Case { return Case{Level: "codec", Type: typ, V: s} })
		})
	}
	mark("F2-int-uint")
	// floats: constant / alternating / outlier over the finite alphabet plus both infinities, and bit-pattern walks
	fl := append(append([]uint64(nil), floatFinite...), 0x7FF0000000000000, 0xFFF0000000000000)
	patterns(longLens, fl, fl, []uint64{0, math.Float64bits(1), math.Float64bits(math.Pi)}, append(append([]uint64(nil), fl...), 0x7FF8000000000001), "", 0, func(s Spec) {
		e.visit(func() Case { return Case{Level: "codec", Type: "float", V: s} })
	})
	for _, n := range longLens {
		for _, start := range []uint64{0, math.Float64bits(1), math.Float64bits(-1e300), 0x7FEFFFFFFFFFFF00} {
			for _, inc := range []uint64{1, 1 << 52, 0x0010000000000001, 0x9E3779B97F4A7C15, 1<<63 | 1, 0x00000001FFFFFFFF} {
				n, start, inc := n, start, inc
				e.visit(func() Case {
					return Case{Level: "codec", Type: "float", V: Spec{Kind: "walk", N: n, A: inc, Start: start}}
				})
			}
		}
	}
	mark("F2-float")
	// booleans
	var boolLens []int
	for _, n := range longLens {
		if n > boolMax {
			boolLens = append(boolLens, n)
		}
	}
	patterns(boolLens, boolAlpha, boolAlpha, boolAlpha, boolAlpha, "", 0, func(s Spec) {
		e.visit(func() Case { return Case{Level: "codec", Type: "bool", V: s} })
	})
	mark("F2-bool")
	// F5: booleans are bit-packed, so the last byte of the value section is partial unless n%8 == 0: every length
	// around the byte / count-varint / block-size boundaries with constant, alternating and single-outlier runs, the
	// outlier at EVERY position for n <= 72, else at the boundary positions and each of the last 9 positions
	for _, r := range boolRanges(thorough, boolMax) {
		for n := r[0]; n <= r[1]; n++ {
			n := n
			for _, a := range boolAlpha {
				a := a
				e.visit(func() Case { return Case{Level: "codec", Type: "bool", V: Spec{Kind: "const", N: n, A: a}} })
				e.visit(func() Case { return Case{Level: "codec", Type: "bool", V: Spec{Kind: "alt", N: n, A: a, B: 1 - a}} })
				for _, pos := range boolOutlierPositions(n) {
					pos := pos
					e.visit(func() Case {
						return Case{Level: "codec", Type: "bool", V: Spec{Kind: "outlier", N: n, A: a, B: 1 - a, Pos: pos}}
					})
				}
			}
		}
	}
	mark("F5-bool-lengths")
	// strings: short strings at every length, the long strings only in blocks of up to 121
	var small, big []uint64
	for i := range strAlpha {
		if i < nSmallStr {
			small = append(small, uint64(i))
		} else {
			big = append(big, uint64(i))
		}
	}
	patterns(longLens, small, small, small[:3], small, "", 0, func(s Spec) {
		e.visit(func() Case { return Case{Level: "codec", Type: "string", V: s} })
	})
	bigLens := []int{7, 65}
	if thorough {
		bigLens = []int{7, 64, 65, 121}
	}
	patterns(bigLens, big, nil, small[:2], big, "", 0, func(s Spec) {
		e.visit(func() Case { return Case{Level: "codec", Type: "string", V: s} })
	})

	mark("F2-string")
	// F3: float XOR-window structure: [23, 23^w1, 23^w1^w2] for every pair of (leading,trailing) windows
	var wl []int
	if thorough {
		for i := 0; i < 64; i++ {
			wl = append(wl, i)
		}
	} else {
		wl = []int{0, 1, 5, 11, 12, 20, 30, 31, 32, 33, 51, 52, 62, 63}
	}
	fills := []bool{false}
	if thorough {
		fills = []bool{false, true}
	}
	base := math.Float64bits(23)
	for _, f1 := range fills {
		for _, l1 := range wl {
			for _, t1 := range wl {
				if l1+t1 > 63 {
					continue
				}
				w1 := window(l1, t1, f1)
				for _, l2 := range wl {
					for _, t2 := range wl {
						if l2+t2 > 63 {
							continue
						}
						w2 := window(l2, t2, !f1 && thorough)
						if f1 && 63-l1-t1 <= 1 && 63-l2-t2 <= 1 {
							continue // identical to the case of the first fill style
						}
						e.visit(func() Case {
							return Case{Level: "codec", Type: "float", V: Spec{Kind: "lit", Lit: []uint64{base, base ^ w1, base ^ w1 ^ w2, base ^ w1}}}
						})
					}
				}
			}
		}
	}

	mark("F3-float-windows")
	// F4: whole blocks
	blockLens := longLens
	if !thorough {
		blockLens = append(append([]int(nil), longLens...), 1001)
	}
	blockMax := 3
	if thorough {
		blockMax = 4
	}
	for _, typ := range []string{"int", "uint", "float", "bool", "string"} {
		typ := typ
		al := alphaOf(typ)
		if typ == "string" {
			al = al[:nSmallStr+1]
		}
		// every short value sequence x every timestamp pattern
		allSeqs(al, 1, blockMax, func(lit []uint64) {
			for _, tp := range tsPatterns(len(lit)) {
				tp := tp
				e.visit(func() Case { return Case{Level: "block", Type: typ, V: Spec{Kind: "lit", Lit: clone(lit)}, T: &tp} })
			}
		})
		// every short timestamp sequence x one value pattern
		cyc := al
		if typ == "float" {
			cyc = append(append([]uint64(nil), floatFinite...), 0x7FF0000000000000)
		}
		allSeqs(timeAlpha, 1, blockMax, func(lit []uint64) {
			e.visit(func() Case {
				return Case{Level: "block", Type: typ, V: Spec{Kind: "cycle", N: len(lit), Lit: cyc}, T: &Spec{Kind: "lit", Lit: clone(lit)}}
			})
		})
		// long blocks
		for _, n := range blockLens {
			vps := []Spec{
				{Kind: "const", N: n, A: cyc[1]},
				{Kind: "cycle", N: n, Lit: cyc},
				{Kind: "outlier", N: n, A: cyc[0], B: cyc[len(cyc)-1], Pos: n / 2},
				{Kind: "outlier", N: n, A: cyc[len(cyc)/2], B: cyc[0], Pos: n - 1},
			}
			if typ == "int" || typ == "uint" {
				vps = append(vps, Spec{Kind: "const", N: n, A: 2, Mode: "zz"}, Spec{Kind: "cycle", N: n, Lit: []uint64{1, 1, 1, 1, 1, 1, 1, 9}, Mode: "zz"})
			}
			for _, vp := range vps {
				for _, tp := range tsPatterns(n) {
					vp, tp := vp, tp
					e.visit(func() Case { return Case{Level: "block", Type: typ, V: vp, T: &tp} })
				}
			}
		}
	}
	mark("F4-blocks")
	if thorough {
		for _, typ := range []string{"bool", "uint64", "string", "time", "int", "uint", "float"} {
			f1(typ, f1Max(typ, false)+1, f1Max(typ, true))
		}
		mark("F1x-thorough-longer")
	}
	c.Extra("bufstate_batch_encodes", bufStat.encodes)
	c.Extra("bufstate_batch_output_identical_to_nil_buffer", bufStat.same)
	c.Extra("bufstate_batch_output_differs_decoded_on_both_paths", bufStat.differ)
	c.Extra("scalar_encoder_reuse_encodes", bufStat.reuseScalar)
	c.Extra("scalar_encoder_reuse_output_differs_decoded", bufStat.reuseScalarDiffer)
	c.Extra("bufstate_block_encodes", bufStat.blockEncodes)
	c.Extra("bufstate_block_output_differs_decoded", bufStat.blockDiffer)
}

func TestCheck(t *testing.T) {
	vlib.Main(t, &vlib.Check{
		ID: "C07", Level: "exploration",
		Rule: "F1: ALL sequences of length 0..4 (thorough: 0..6 for time/int/uint/float, 0..5 for simple8b; strings 0..3 / 0..4; booleans 0..12 / 0..18) over a 12-value boundary alphabet per type " +
			"(time: MinInt64,-1,0,1,10,1000,1e9,1e12,2e12,2^60-1,2^60,MaxInt64 incl. unsorted and equal neighbours; int: 0,±1,7,±2^59 and neighbours,2^60,-2^62,Min/MaxInt64; " +
			"uint: …2^60-1,2^60,2^63,MaxUint64; float bits: ±0,1,-1.5,pi,±min-subnormal,MaxFloat64,±Inf,2 NaN payloads; string: \"\",a,NUL,multi-byte,invalid UTF-8,127/128/16384/65536/65537 bytes; " +
			"simple8b: 0,1,2,3,7,8,255,2^20,2^30-1,2^60-1,2^60,MaxUint64). " +
			"F2: ALL run-structured sequences: length ∈ {7,8,9,16,17,59,60,61,63,64,65,119,120,121,122,239,240,241,242,481,482,999,1000,1001,2048} × pattern ∈ {constant a; alternating a,b; bed a with one outlier b at each of positions 0,1,2,n/2,n-2,n-1,59..61,118..121,238..241} " +
			"× a,b over every simple8b selector boundary (2^w-1, 2^w for w∈{1..8,10,12,15,20,30,60}, 2^63, 2^64-1), for timestamps additionally 10^k and 3·10^k (k=1..13) as deltas; the pattern is used directly (simple8b, bool, string, float), as timestamp deltas, and as zig-zag deltas (int, uint); floats also bit-pattern walks start+i·inc (4 starts × 6 increments). " +
			"F3: float XOR windows: [23, 23^w1, 23^w1^w2, 23^w1] for ALL pairs of (leading,trailing)-zero windows (quick: 14 boundary counts per side; thorough: all 0..63, two fill styles). " +
			"F4: whole blocks: ALL value sequences of length 1..3 (thorough 1..4) × 5 timestamp patterns (RLE+divisor, equal, simple8b, uncompressed from MinInt64, simple8b+divisor wrapping past MaxInt64), ALL timestamp sequences of length 1..3(4) over the time alphabet × a cyclic value pattern, long blocks (F2 lengths × 4-6 value patterns × 5 timestamp patterns) through {Values.Encode, <T>Values.Encode, Encode<T>ArrayBlock} × {DecodeBlock, Decode<T>Block, Decode<T>ArrayBlock with nil and reused arrays} + BlockCount/BlockType. " +
			"F5: booleans (bit-packed, partial last byte): EVERY length 13..40, 57..72, 113..136 (thorough 19..72, 113..136, 233..264, 993..1008, 2041..2056, 16377..16392; with F1 every n%8 at every byte / count-varint / block-size boundary) × {constant, alternating, bed with one outlier at EVERY position (n<=72) or at the boundary positions and each of the last 9 positions}. " +
			"Per codec case every encoder (scalar, batch, batch into a reused buffer) × every decoder (scalar/iterator; batch with dst ∈ {nil, large dirty cap with half length, tiny dirty, exact-size, one-too-short, 9-too-long — the last three full-length and pre-filled with the complement of every expected value}) is run; oracle = identity (Float64bits-exact, same length), NaN-containing float input may be rejected but then by every encoder alike. " +
			"DESTINATION-BUFFER DIMENSION: per codec case the batch encoder <T>ArrayEncodeAll(src,b) (T = Time, Integer, Unsigned, Float, Boolean, String) is additionally run with b ∈ {len 0 / cap H all 0xff; len=cap=L all 0xff; len=cap=L+24 all 0xff; len=cap=H all 0xff; len H/2 cap H all 0xaa; exactly the slice returned by encoding a DIFFERENT sequence of n+17 items (its len and cap); that slice re-sliced to full capacity; the slice returned by encoding a different sequence of n/2 items} (L = length of the nil-buffer output, H = 3×raw input bytes + L + 128), and a scalar encoder object that has encoded another sequence of min(n+17,81) items and was Reset(); oracle: same accept/reject verdict as with a nil buffer / fresh encoder, and the output is byte-identical to it or else decodes to the input through BOTH the scalar/iterator decoder and the batch decoder (nil and dirty exact-size dst). " +
			"Per block case each block encoder (Values.Encode(buf), <T>Values.Encode(buf), Encode<T>ArrayBlock(a,buf)) is additionally run with buf ∈ {len 0 cap L+64 0xff; len=cap=L+64 0xff; len (L+64)/2 cap L+64 0xaa; the block itself followed by its complement (an earlier longer block)} with the same oracle through DecodeBlock and Decode<T>ArrayBlock. Buffer states are tried in the listed order and only the first failing one of a case is reported. " +
			"simple8b (Encode, EncodeAll, Encoder, Decode, DecodeAll, DecodeBytesBigEndian, Decoder, CountBytes, Count) must reject exactly the inputs containing a value > 2^60-1. " +
			"Visiting order: F1 at the quick bounds, F2 (F5 after the boolean part), F3, F4, and in the thorough tier the longer F1 sequences last. " +
			"Non-trivial = non-empty sequence; cases are distinct by construction (families use disjoint lengths / a base value outside the alphabet).",
		Assumptions: []string{
			"explicit rejection (an error) of float sequences containing NaN is not a violation (float.go documents NaN as unstorable); all encoders must then agree",
			"empty blocks are checked at the component-codec level only: Values.Encode documents a panic on no values and the typed/array block encoders return nil for them",
			"scalar encoders are created fresh per case at the component level, plus one reused-after-Reset() encoder per case; the block level goes through the repo's own encoder/decoder pools",
			"with a non-nil destination buffer the encoded bytes need not equal the nil-buffer bytes (e.g. padding bits of the last boolean byte are unspecified): only the decoded values are demanded then, on both decoder paths",
			"the batch encoders may return a slice that does or does not alias the buffer passed in; writes beyond the returned length are not judged",
			"the scalar timestamp/integer codecs use github.com/jwilder/encoding/simple8b (third party); it is exercised only through them",
		},
		QuickBudgetS: 60, ThoroughBudgetS: 780,
		Run: explore,
		Replay: func(c *vlib.Ctx, raw json.RawMessage) (bool, string) {
			var cs Case
			if err := json.Unmarshal(raw, &cs); err != nil {
				return false, err.Error()
			}
			if cs.Level == "block" && cs.T == nil {
				return false, "block case without timestamps"
			}
			outcome, fails := run(cs)
			var sb strings.Builder
			fmt.Fprintf(&sb, "outcome=%s failures=%d\n", outcome, len(fails))
			for i, f := range fails {
				if i >= 12 {
					fmt.Fprintf(&sb, "  …\n")
					break
				}
				m := f.msg
				if len(m) > 500 {
					m = m[:500] + "…"
				}
				fmt.Fprintf(&sb, "  [%s] %s\n", f.sig, m)
			}
			return len(fails) > 0, sb.String()
		},
	})
}
