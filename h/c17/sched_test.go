// C17 part 2: schedules. A bucket delete (storage.Engine.DeleteBucketRangePredicate → tsdb.Store.DeleteSeriesWithPredicate
// → epochTracker/guard → Shard → tsm1.Engine.DeleteSeriesRange → tsi1 / series file) runs concurrently with one writer
// (tsdb.Store.WriteToShard – the call coordinator.PointsWriter makes per shard – → epochTracker.StartWrite / guard.Matches /
// guard.Wait → Shard.WritePoints → index + cache + WAL) on the real `mini` stack inside a synctest bubble. Every file of
// tsdb, tsm1 and tsi1 that uses sync / sync/atomic is compiled against the modelled primitives (shim.json); the vsched
// engine executes EVERY schedule with ≤ B deviations from the default schedule, branching at the synchronisation
// operations of Store, epochTracker, guard, Shard, tsm1.Engine and tsm1.Cache.
package c17

import (
	"context"
	"encoding/json"
	"fmt"
	"os"
	"runtime"
	"strings"
	"testing"
	"testing/synctest"
	"time"

	"github.com/influxdata/influxdb/v2/models"
	"github.com/influxdata/influxdb/v2/pkg/verifrt/vrt"
	"verif/h/mini"
	"verif/h/vlib"
)

var level = "model_checking"

// Scenario of part 2. All data lives in the first shard group. Stored before the threads start:
//
//	s0 = m0,a=x      f0 @ B+10 (and @ B+30 when S0Pts == "two")
//	s1 = m0,a=y,b=z  f0 @ B+10
//
// The delete always has the predicate `_measurement="m0" AND a="x"` (matches s0 and the new series m0,a=x,c=n, never s1)
// and the range Range = "lo" [B, B+10] or "all" [MinNanoTime, MaxNanoTime].
// Writer (one point, field f0, value 99):
//
//	other-series     s1 @ B+5            in the time range, series does not match        → does not conflict
//	match-out        s0 @ B+20           matching series, outside the range (lo only)     → does not conflict
//	match-in         s0 @ B+5            matching series inside the range                  → conflicts: either order
//	new-match-in     m0,a=x,c=n @ B+5    matching series that does not exist yet           → conflicts: either order
type Scenario struct {
	Layout string `json:"layout"` // cache | tsm
	S0Pts  string `json:"s0_points"`
	Range  string `json:"range"`
	Writer string `json:"writer"`
}

func (s Scenario) String() string {
	return fmt.Sprintf("layout=%s s0=%s-point(s): delete(m0 AND a=x, %s) || write(%s)", s.Layout, s.S0Pts, s.Range, s.Writer)
}

type SCase struct {
	Scenario Scenario `json:"scenario"`
	Choices  []int    `json:"schedule"`
	Sig      string   `json:"expect_signature,omitempty"`
	Trace    []string `json:"trace,omitempty"`
}

const (
	B      = mini.Base
	wVal   = 99.0
	sNewID = "m0,a=x,c=n"
)

type sresult struct {
	verdicts []string // "sig|msg" ("harness|..." = machinery problem)
	outcome  string
	waited   bool
}

func (s Scenario) delRange() (int64, int64) {
	if s.Range == "lo" {
		return B, B + 10
	}
	return models.MinNanoTime, models.MaxNanoTime
}

func (s Scenario) writerPoint() (key string, tags []mini.Tag, t int64) {
	switch s.Writer {
	case "other-series":
		return "m0,a=y,b=z", mini.T("a", "y", "b", "z"), B + 5
	case "match-out":
		return "m0,a=x", mini.T("a", "x"), B + 20
	case "match-in":
		return "m0,a=x", mini.T("a", "x"), B + 5
	default:
		return sNewID, mini.T("a", "x", "c", "n"), B + 5
	}
}

func (s Scenario) conflicts() bool { return s.Writer == "match-in" || s.Writer == "new-match-in" }

// state: series key -> t -> value (field f0 only)
type sstate map[string]map[int64]float64

func (st sstate) clone() sstate {
	out := sstate{}
	for k, m := range st {
		out[k] = map[int64]float64{}
		for t, v := range m {
			out[k][t] = v
		}
	}
	return out
}

func (st sstate) String() string {
	var parts []string
	for _, k := range []string{"m0,a=x", sNewID, "m0,a=y,b=z"} {
		m, ok := st[k]
		if !ok {
			continue
		}
		var ps []string
		for _, t := range []int64{B + 5, B + 10, B + 20, B + 30, B + 40} {
			if v, ok := m[t]; ok {
				ps = append(ps, fmt.Sprintf("B+%d=%g", t-B, v))
			}
		}
		parts = append(parts, k+"["+strings.Join(ps, " ")+"]")
	}
	return strings.Join(parts, " ")
}

func (s Scenario) initial() sstate {
	st := sstate{"m0,a=x": {B + 10: 1}, "m0,a=y,b=z": {B + 10: 2}}
	if s.S0Pts == "two" {
		st["m0,a=x"][B+30] = 3
	}
	return st
}

func applyDelete(st sstate, s Scenario) sstate {
	out := st.clone()
	min, max := s.delRange()
	for _, k := range []string{"m0,a=x", sNewID} {
		for t := range out[k] {
			if t >= min && t <= max {
				delete(out[k], t)
			}
		}
	}
	return out
}

func applyWrite(st sstate, s Scenario) sstate {
	out := st.clone()
	k, _, t := s.writerPoint()
	if out[k] == nil {
		out[k] = map[int64]float64{}
	}
	out[k][t] = wVal
	return out
}

// observe reads the bucket back: data per series (field f0) and the series-level listings.
type sobs struct {
	data     sstate
	listed   map[string]bool // series listed by SHOW SERIES
	card     int64
	tvSeries map[string]bool // "m|a=v" of Store.TagValues with a WHERE filter (walks the series)
	meas     map[string]bool
	err      string
}

func observe(f *mini.Fixture, b mini.Bucket) (o sobs) {
	o.data, o.listed, o.tvSeries, o.meas = sstate{}, map[string]bool{}, map[string]bool{}, map[string]bool{}
	ss, err := f.ReadFilter(b, models.MinNanoTime, models.MaxNanoTime, nil)
	if err != nil {
		o.err = "ReadFilter: " + err.Error()
		return
	}
	for _, s := range ss {
		if len(s.Points) == 0 {
			continue
		}
		key := s.Tag("_measurement")
		for _, t := range s.Tags {
			if t.K != "_measurement" && t.K != "_field" {
				key += "," + t.K + "=" + t.V
			}
		}
		if s.Tag("_field") != "f0" {
			o.err = "unexpected field " + s.Tag("_field")
			return
		}
		if o.data[key] == nil {
			o.data[key] = map[int64]float64{}
		}
		for _, p := range s.Points {
			v, _ := p.V.(float64)
			if _, dup := o.data[key][p.T]; dup {
				o.err = fmt.Sprintf("series %s returns t=B+%d twice", key, p.T-B)
				return
			}
			o.data[key][p.T] = v
		}
	}
	ctx := context.Background()
	rs, err := f.InfluxQL(b, "SHOW SERIES")
	if err != nil || len(rs) != 1 || rs[0].Err != "" {
		o.err = fmt.Sprintf("SHOW SERIES: %v %+v", err, rs)
		return
	}
	for _, row := range rs[0].Rows {
		for _, v := range row.Values {
			if len(v) > 0 {
				o.listed[fmt.Sprint(v[0])] = true
			}
		}
	}
	if o.card, err = f.TSDB.SeriesCardinality(ctx, b.DBName()); err != nil {
		o.err = "SeriesCardinality: " + err.Error()
		return
	}
	names, err := f.TSDB.MeasurementNames(ctx, nil, b.DBName(), nil)
	if err != nil {
		o.err = "MeasurementNames: " + err.Error()
		return
	}
	for _, n := range names {
		o.meas[string(n)] = true
	}
	return
}

// judgeFinal compares the observation with the allowed final states.
func judgeFinal(sc Scenario, o sobs, allowed []sstate, add func(sig, msg string)) {
	if o.err != "" {
		add("read-error", o.err)
		return
	}
	got := o.data.String()
	okData := false
	var want []string
	var final sstate
	for _, a := range allowed {
		// drop empty series from the expectation
		w := a.clone()
		for k, m := range w {
			if len(m) == 0 {
				delete(w, k)
			}
		}
		want = append(want, "{"+w.String()+"}")
		if w.String() == got {
			okData, final = true, w
		}
	}
	wk, _, wt := sc.writerPoint()
	if !okData {
		clause := "final-data-wrong"
		// classify the most telling difference
		min, max := sc.delRange()
		init := sc.initial()
		for _, k := range []string{"m0,a=x"} {
			for t, v := range init[k] {
				if gv, ok := o.data[k][t]; ok && gv == v && t >= min && t <= max {
					clause = "deleted-point-readable"
				}
			}
		}
		if clause == "final-data-wrong" {
			if _, ok := o.data[wk][wt]; !ok && !sc.conflicts() {
				clause = "nonconflicting-write-lost"
			} else if _, ok := o.data[wk][wt]; !ok {
				clause = "write-after-delete-lost"
			} else {
				clause = "surviving-point-missing"
			}
		}
		add(clause, fmt.Sprintf("after delete||write the bucket reads {%s}; the statement allows %s", got, strings.Join(want, " or ")))
		return
	}
	// data and index agree: a series is listed iff it has data
	for _, k := range []string{"m0,a=x", sNewID, "m0,a=y,b=z"} {
		has := len(final[k]) > 0
		if has && !o.listed[k] {
			add("series-with-data-not-listed", fmt.Sprintf("series %s has points {%s} but SHOW SERIES lists %s", k, got, setStr(o.listed)))
		}
		if !has && o.listed[k] {
			add("series-listed-without-data", fmt.Sprintf("series %s has no point left {%s} but SHOW SERIES lists %s", k, got, setStr(o.listed)))
		}
	}
	if int(o.card) != len(final) {
		cl := "series-listed-without-data"
		if int(o.card) < len(final) {
			cl = "series-with-data-not-listed"
		}
		add(cl, fmt.Sprintf("Store.SeriesCardinality = %d but %d series have points {%s}", o.card, len(final), got))
	}
	if !o.meas["m0"] || len(o.meas) != 1 {
		add("measurement-listing-wrong", fmt.Sprintf("Store.MeasurementNames = %s, data {%s}", setStr(o.meas), got))
	}
}

// branchHere selects the points at which schedules branch: the synchronisation operations of Store, epochTracker,
// guard, Shard, tsm1.Engine and tsm1.Cache (and the harness steps). The pure loads of IsIdle / Cache.Size / Cache.init are passed
// silently, like every lock of the other files (all are modelled: a contended one still disables the thread).
func branchHere(kind vrt.OpKind, label string) bool {
	if kind == vrt.OpHook {
		return true
	}
	for _, s := range []string{"IsIdle", "(*Cache).Size", "(*Cache).init"} {
		if strings.Contains(label, s) {
			return false
		}
	}
	for _, s := range []string{"tsdb.(*Store)", "(*epochTracker)", "(*epochDeleteState)", "(*epochWaiter)", "(*guard)", "tsdb.(*Shard)", "tsm1.(*Engine)", "tsm1.(*Cache)", "sync.(*Cond)"} {
		if strings.Contains(label, s) {
			return true
		}
	}
	return false
}

var schedDebug = os.Getenv("C17_SCHED_DEBUG") != ""

func runScenario(t *testing.T, sc Scenario, prefix []int) (*vrt.Result, sresult) {
	var res sresult
	add := func(sig, msg string) { res.verdicts = append(res.verdicts, sig+"|"+msg) }
	h := &vrt.Harness{Name: sc.String(), Filter: branchHere, DeviationCost: false, Body: func(x *vrt.Exec) {
		f, err := mini.Open(mini.Options{})
		if err != nil {
			add("harness", "open: "+err.Error())
			return
		}
		closed := false
		closeF := func() {
			if !closed {
				closed = true
				if err := f.Close(); err != nil {
					add("harness", "close: "+err.Error())
				}
			}
		}
		defer closeF()
		b, err := f.CreateBucket("db0", 0)
		if err != nil {
			add("harness", "bucket: "+err.Error())
			return
		}
		pts := []mini.Point{
			{M: "m0", Tags: mini.T("a", "x"), Fields: map[string]any{"f0": 1.0}, T: B + 10},
			{M: "m0", Tags: mini.T("a", "y", "b", "z"), Fields: map[string]any{"f0": 2.0}, T: B + 10},
		}
		if sc.S0Pts == "two" {
			pts = append(pts, mini.Point{M: "m0", Tags: mini.T("a", "x"), Fields: map[string]any{"f0": 3.0}, T: B + 30})
		}
		if err := f.Write(b, pts); err != nil {
			add("harness", "write: "+err.Error())
			return
		}
		if sc.Layout == "tsm" {
			if err := f.SnapshotAll(); err != nil {
				add("harness", "snapshot: "+err.Error())
				return
			}
		}
		shards := f.ShardIDs(b)
		if len(shards) != 1 {
			add("harness", fmt.Sprintf("expected one shard, got %v", shards))
			return
		}
		_, wtags, wt := sc.writerPoint()
		tm := map[string]string{}
		for _, tg := range wtags {
			tm[tg.K] = tg.V
		}
		wp, err := models.NewPoint("m0", models.NewTags(tm), models.Fields{"f0": wVal}, time.Unix(0, wt))
		if err != nil {
			add("harness", "point: "+err.Error())
			return
		}
		min, max := sc.delRange()
		// let every goroutine of the fixture build finish or block durably (e.g. the WAL's fsync goroutine outlives the
		// write it served for a moment): otherwise whether it is adopted as a thread depends on timing
		synctest.Wait()
		ev := 0
		var delCall, delRet, wCall, wRet int
		var delErr, wErr error
		x.Go("delete", func() {
			vrt.Hook("call:delete")
			ev++
			delCall = ev
			delErr = f.Delete(b, min, max, `_measurement="m0" AND a="x"`)
			ev++
			delRet = ev
		})
		x.Go("write", func() {
			vrt.Hook("call:write")
			ev++
			wCall = ev
			wErr = f.TSDB.WriteToShard(context.Background(), shards[0], []models.Point{wp})
			ev++
			wRet = ev
		})
		x.S.MaxSteps = 50000
		x.Run()
		dead, capHit := x.S.Deadlock, x.S.StepCap
		blocked := strings.Join(x.S.Blocked, "; ")
		// did the writer wait on the delete's guard? (it parked in sync.Cond.Wait called from guard.Wait: the wake-up
		// re-locks the guard's mutex, which is the only writer-thread step labelled with sync.(*Cond).Wait)
		delDone := -1
		for i, st := range x.S.Steps {
			if st.Thread == 1 && strings.Contains(st.Label, "sync.(*Cond).Wait") {
				res.waited = true
			}
			if st.Thread == 0 && delDone < 0 && strings.Contains(st.Label, "(*epochWaiter).Done") {
				delDone = i
			}
		}
		if dead {
			// a writer parked in guard.Wait when nobody can wake it up is also "waiting"
			for _, bl := range x.S.Blocked {
				if strings.HasPrefix(bl, "write(") {
					res.waited = true
				}
			}
		}
		x.S.Drain()
		if dead {
			add("deadlock", blocked)
		}
		if capHit {
			add("harness", "step cap")
		}
		if dead || capHit {
			return
		}
		if delErr != nil {
			add("delete-error", delErr.Error())
		}
		if wErr != nil {
			add("write-error", wErr.Error())
		}
		if delErr != nil || wErr != nil {
			return
		}
		init := sc.initial()
		var allowed []sstate
		switch {
		case !sc.conflicts():
			allowed = []sstate{applyWrite(applyDelete(init, sc), sc)} // the operations commute
		case wRet < delCall: // the write returned before the delete was called
			allowed = []sstate{applyDelete(applyWrite(init, sc), sc)}
		case wCall > delRet: // the write was called after the delete returned
			allowed = []sstate{applyWrite(applyDelete(init, sc), sc)}
		default:
			allowed = []sstate{applyDelete(applyWrite(init, sc), sc), applyWrite(applyDelete(init, sc), sc)}
		}
		if !sc.conflicts() && res.waited {
			add("nonconflicting-write-blocked", "the writer ("+sc.Writer+") parked in guard.Wait on the guard installed by the running delete (tsdb/store.go: WaitDelete(newGuard(min, max, nil, nil)) – the guard only knows the time range)")
		}
		o := observe(f, b)
		nv := len(res.verdicts)
		judgeFinal(sc, o, allowed, add)
		if len(res.verdicts) == nv {
			// data and index agree: nothing may be stored that the index does not know. Probe: one more point is
			// written (afterwards, sequentially) to the writer's series at B+40 – outside the range "lo", after the
			// delete "all" – which re-creates the series in the index if it was dropped; the bucket must then read
			// exactly as before plus that point. A point that was invisible and now shows up was stored without its
			// series being indexed.
			wk, wtags, _ := sc.writerPoint()
			if err := f.Write(b, []mini.Point{{M: "m0", Tags: wtags, Fields: map[string]any{"f0": 7.0}, T: B + 40}}); err != nil {
				add("probe-write-error", err.Error())
			} else {
				want := o.data.clone()
				if want[wk] == nil {
					want[wk] = map[int64]float64{}
				}
				want[wk][B+40] = 7
				o2 := observe(f, b)
				if o2.err != "" {
					add("read-error", o2.err)
				} else if o2.data.String() != want.String() {
					add("hidden-data-resurfaces", fmt.Sprintf("after delete||write the bucket read {%s}; after one more (sequential) write of %s @ B+40 it reads {%s} instead of {%s}: a point was stored for a series the index did not list", o.data.String(), wk, o2.data.String(), want.String()))
				}
			}
		}
		order := "overlap"
		if wRet < delCall {
			order = "write-first"
		} else if wCall > delRet {
			order = "delete-first"
		}
		res.outcome = fmt.Sprintf("%s/%s/waited=%v/final={%s}", sc.Writer, order, res.waited, o.data.String())
		x.Outcome = res.outcome
		closeF()
	}}
	// one P: goroutines woken between two points run one after the other, in a reproducible order
	defer runtime.GOMAXPROCS(runtime.GOMAXPROCS(1))
	r := vrt.RunOnce(t, h, prefix)
	if schedDebug && os.Getenv("C17_SCHED_DEBUG") == "steps" {
		for i, s := range r.Steps {
			fmt.Fprintf(os.Stderr, "%4d T%d %-70s en=%v c=%d\n", i, s.Thread, s.Label, s.Enabled, s.Choice)
		}
		fmt.Fprintf(os.Stderr, "names=%v outcome=%s verdicts=%v diverged=%q\n", r.Names, res.outcome, res.verdicts, r.Diverged)
	}
	return r, res
}

func scenarios(thorough bool) []Scenario {
	var out []Scenario
	for _, lay := range []string{"cache", "tsm"} {
		for _, n := range []string{"one", "two"} {
			for _, rg := range []string{"lo", "all"} {
				for _, w := range []string{"other-series", "match-out", "match-in", "new-match-in"} {
					if w == "match-out" && rg == "all" {
						continue // nothing is outside the range
					}
					if !thorough {
						keep := lay == "cache" && n == "one" ||
							lay == "tsm" && n == "one" && rg == "lo" && (w == "match-out" || w == "match-in") ||
							lay == "cache" && n == "two" && rg == "lo" && (w == "other-series" || w == "match-in")
						if !keep {
							continue
						}
					}
					out = append(out, Scenario{lay, n, rg, w})
				}
			}
		}
	}
	return out
}

// exploreScenario: DFS over choice prefixes with ≤ bound deviations. The root execution is run by every shard (it is
// needed to enumerate the children) and visited by shard 0; the subtree of the i-th child of the root belongs to
// shard (offset+i) mod n.
func exploreScenario(t *testing.T, sc Scenario, bound, shard, nshards, offset int, stop func() bool, visit func(*vrt.Result, sresult)) (st vrt.Stats) {
	st = vrt.Stats{Bound: bound, Complete: true}
	var rec func(prefix []int, level int, mine bool)
	child := 0
	rec = func(prefix []int, level int, mine bool) {
		if stop() {
			st.Complete = false
			return
		}
		x, res := runScenario(t, sc, prefix)
		if mine {
			st.Executions++
			st.Transitions += int64(len(x.Steps))
			visit(x, res)
		}
		if x.Diverged != "" {
			return
		}
		pre := 0
		for i := 0; i < len(x.Steps); i++ {
			sp := x.Steps[i]
			if i >= len(prefix) {
				if len(sp.Enabled) > 1 && mine {
					st.Nodes++
				}
				for alt := 1; alt < len(sp.Enabled); alt++ {
					if pre+sp.Costs[alt] > bound {
						continue
					}
					np := append(append([]int{}, x.Choices[:i]...), alt)
					if level == 0 {
						child++
						if (offset+child)%nshards == shard {
							rec(np, 1, true)
						}
					} else {
						rec(np, level+1, true)
					}
				}
			}
			if sp.Preempt {
				pre++
			}
		}
	}
	rec(nil, 0, shard == offset%nshards)
	return st
}

func ssig(sc Scenario, clause string) string {
	if clause == "nonconflicting-write-blocked" {
		return vlib.JoinSig("schedule", clause, "delete||write-"+sc.Writer) // the cause does not depend on layout / range
	}
	emptied := sc.Range == "all" || sc.S0Pts == "one"
	return vlib.JoinSig("schedule", clause, "delete||write-"+sc.Writer, fmt.Sprintf("delete-empties-series=%v", emptied), "layout="+sc.Layout)
}

func runSchedules(t *testing.T, c *vlib.Ctx, stop func() bool) {
	bound := 1
	if c.Thorough() {
		bound = 2
	}
	scs := scenarios(c.Thorough())
	c.Note("schedule_scenarios", fmt.Sprint(len(scs)))
	for si, sc := range scs {
		if only := os.Getenv("C17_SCEN"); only != "" && only != fmt.Sprint(si) {
			continue
		}
		if stop() {
			c.Cap("budget share of part 2 expired before all schedule scenarios were explored")
			return
		}
		st := exploreScenario(t, sc, bound, c.Shard, c.NShards, si, stop, func(r *vrt.Result, res sresult) {
			c.Eval(1)
			if r.Preempts > 0 {
				c.NontrivialN(1)
			}
			if r.Diverged != "" {
				c.HarnessError(sc.String() + ": " + r.Diverged)
				return
			}
			c.Outcome("schedule/" + res.outcome)
			for _, v := range res.verdicts {
				p := strings.SplitN(v, "|", 2)
				if p[0] == "harness" {
					c.HarnessError(sc.String() + ": " + p[1])
					continue
				}
				cs := SCase{Scenario: sc, Choices: r.Choices, Sig: ssig(sc, p[0])}
				for _, s := range r.Steps {
					cs.Trace = append(cs.Trace, fmt.Sprintf("T%d %s", s.Thread, s.Label))
				}
				c.Violation(cs.Sig, sc.String()+": "+p[1], cs)
				if schedDebug {
					j, _ := json.Marshal(map[string]any{"case": SCase{Scenario: sc, Choices: r.Choices, Sig: cs.Sig}})
					fmt.Fprintf(os.Stderr, "VIOLATING-CASE %s\n", j)
				}
			}
			if c.WantSample() && r.Preempts > 0 {
				c.Sample(map[string]any{"scenario": sc.String(), "schedule": r.Choices, "outcome": res.outcome})
			}
		})
		if !st.Complete {
			c.Cap("budget share of part 2 expired inside schedule scenario " + sc.String())
		}
		c.StateN(st.Nodes)
		c.Transition(st.Transitions)
		c.Trace(st.Executions)
	}
}

func replaySchedule(t *testing.T, raw json.RawMessage) (bool, string) {
	var cs SCase
	if err := json.Unmarshal(raw, &cs); err != nil {
		return false, err.Error()
	}
	r, res := runScenario(t, cs.Scenario, cs.Choices)
	if r.Diverged != "" {
		return false, "diverged: " + r.Diverged
	}
	var v []string
	bad := false
	for _, x := range res.verdicts {
		p := strings.SplitN(x, "|", 2)
		if p[0] == "harness" {
			continue
		}
		if cs.Sig == "" || ssig(cs.Scenario, p[0]) == cs.Sig {
			bad = true
			v = append(v, "VIOLATED "+x)
		} else {
			v = append(v, "(other class) "+x)
		}
	}
	return bad, cs.Scenario.String() + "\n" + strings.Join(v, "\n") + "\noutcome=" + res.outcome
}

var rule = "PART 1 (histories; real storage.Engine.DeleteBucketRangePredicate → tsdb.Store.DeleteSeriesWithPredicate as POST /api/v2/delete calls it, mini fixture). " +
	"Series pool m0{a=x}, m0{a=y,b=z}, m1{a=x,b=z}, m1{a=y}; fields f0(float) f1(integer), field layout fixed per series (m0{a=x}: both fields on every slot; m0{a=y,b=z}: f0 on even, f1 on odd slots; m1{a=x,b=z}: f0; m1{a=y}: f1); 4 time slots B+10, B+1h-1 | B+1h, B+1h+10 in two 1h shard groups; layouts cache / tsm (one TSM file per shard) / mixed (even slots TSM, odd slots cache). " +
	"Datasets: every series absent / shard A only / shard B only / both (255 sets). Deletes = ranges × predicates, complete product: ranges quick {all, [t1,t1], [t1,t2] across the boundary, [t0,t1] one shard, [t0+1,t3-1], empty [t0+1,t1-1]} + thorough {[t2,t2], [t0,t0], [t2,t3], [t2,MaxNanoTime], [MinNanoTime,t1], inverted [t2,t1]}; predicates quick {none, _measurement=m0, a=x, b=z, m0 AND a=y, m1 AND a=x, _measurement=m1, a!=x} + thorough {a=y, m0 AND a=x, m1 AND b=z, a=x AND b=z, _measurement=mz (absent), m0 AND a=q (no match), _measurement!=m0, _measurement!=m1, m1 AND a!=x}. " +
	"Depth 1: quick = the 5 sets with ≥3 series all in both shards × {mixed,tsm} + sets [A,both,B,both] and [both,B,A,A] × {mixed,cache} = 14 datasets × 48 deletes; thorough = all 255 sets, set i in layout (cache,tsm,mixed)[i mod 3], the 15 sets whose series are all in both shards in all 3 layouts = 285 datasets × 204 deletes. " +
	"Depth ≥2 on the full dataset: delete ; mid ; delete for every ordered pair of a reduced delete family (quick 3 ranges × 4 predicates = 12, thorough 5 × 5 = 25) × mid ∈ {nothing, rewrite all points with new values} (quick, layout mixed) + {rewrite+snapshot, snapshot} (thorough, 3 layouts). After EVERY operation: ReadFilter of the whole bucket and of each shard-group range, Store.MeasurementNames / TagKeys / TagValues (with and without a WHERE filter) / SeriesCardinality, InfluxQL SHOW SERIES / SHOW MEASUREMENTS, reads.Store TagKeys / TagValues(_measurement, a, b) for the whole bucket and per shard-group range, all compared with the statement's model. evaluations = verified operations; non-trivial = deletes that remove ≥1 point. " +
	"PART 2 (schedules; vsched, every tsdb/tsm1/tsi1 file that uses sync compiled against the modelled primitives). One shard holding s0=m0{a=x} (1 or 2 points) and s1=m0{a=y,b=z}; thread 1 = bucket delete `_measurement=m0 AND a=x` over [B,B+10] or everything (Engine.DeleteBucketRangePredicate), thread 2 = Store.WriteToShard of one point: other-series (s1 in range), match-out (s0 outside the range), match-in (s0 in range), new-match-in (new series m0{a=x,c=n} in range); layouts cache / tsm: quick 11 scenarios, thorough 28. EVERY schedule with ≤ B preemptions (B=1 quick, 2 thorough; a switch when the running thread blocks or ends is free) branching at the sync/atomic operations of Store, epochTracker, guard, Shard, tsm1.Engine, tsm1.Cache is executed; afterwards the bucket is read and SHOW SERIES / SeriesCardinality / MeasurementNames queried. Non-conflicting writes: final state = delete and write both applied, and the writer never parks in guard.Wait; conflicting writes: final state = one of the two orders (the real-time order when the calls do not overlap), and a series is listed iff it has data. states = decision nodes, transitions = scheduling steps, traces = executions."

var assumptions = []string{
	"delete range is inclusive on both ends ([min,max], as tsm1.Engine.DeleteSeriesRange documents); a delete predicate selects series by measurement and tags only (delete by field is rejected by the API)",
	"`!=` delete predicates are only used on keys that every series of the pool carries (no three-valued cases)",
	"a series returned by a read with an EMPTY cursor is not judged (C21); order and duplicates of listings are not judged (C42): listings are compared as sets",
	"metadata queries restricted to one shard group's time range: only data ⇒ listed is demanded; a name whose data lives only in the other shard may or may not be listed",
	"a write 'does not conflict' with a delete iff its point is outside the delete's time range or its series does not match the delete's predicate",
	"part 2: sequentially consistent interleavings at the granularity of the modelled mutex/atomic operations; branching only at Store/epochTracker/guard/Shard/Engine/Cache operations (size/idle bookkeeping atomics and all other locks are passed silently when free); the writer enters at tsdb.Store.WriteToShard (what coordinator.PointsWriter calls per shard), not through the PointsWriter's goroutine + timeout timer",
	"background compactions/retention are off (mini fixture); the level-compaction goroutine that DeleteSeriesRange starts has nothing to do with < 4 TSM files per shard",
}
