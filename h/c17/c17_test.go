// C17: bucket deletes remove exactly the matching data and reconcile metadata.
//
// Part 1 (histories, this file): bounded-exhaustive enumeration of datasets × delete histories on the `mini`
// fixture (real storage.Engine → tsdb.Store.DeleteSeriesWithPredicate → Shard → tsm1.Engine.DeleteSeriesRange,
// reached exactly as POST /api/v2/delete reaches it). After EVERY operation of a history the whole bucket is read
// back and the metadata APIs are queried; both are compared with a reference model that is nothing but the
// statement: "remove the points of matching series with min ≤ t ≤ max; a name is listed iff the model still holds
// data for it".
//
// Part 2 (schedules, second half of this file): the vsched engine explores the interleavings of a bucket delete with a
// concurrent writer on the same real stack.
//
// Part 3 (one delete over several shards, end of this file): the store's own per-shard delete goroutines of ONE
// DeleteSeriesWithPredicate call are scheduler threads; the compiled predicate is wrapped so that its use by two
// goroutines at once becomes a schedulable event; the delete result must be exact in every shard.
//
// What the oracle demands (nothing more than the statement):
//   - reads: after a history, a whole-bucket ReadFilter returns, for every (series, field), exactly the points the
//     model holds (a deleted point that is returned = "deleted-point-readable", a model point that is not returned =
//     "surviving-point-missing"). Series returned with an empty cursor are not judged (C21 territory).
//   - metadata, whole bucket: Store.MeasurementNames, Store.TagKeys, Store.TagValues, Store.SeriesCardinality and the
//     2.x storage API on top of them (reads.Store TagKeys / TagValues incl. _measurement) list a measurement, a tag key
//     of a measurement, a (key,value) of a measurement iff some series that carries it still has ≥ 1 point in the model
//     (any field, any shard); the cardinality is the number of such series.
//   - metadata restricted to the time range of ONE shard group: only "data ⇒ listed" is demanded (a series without data
//     in that shard but with data elsewhere may or may not be listed: the statement is silent).
//
// Ordering/duplicates of listings are C42's business and are not judged here (listings are compared as sets).
package c17

import (
	"context"
	"encoding/json"
	"fmt"
	"math"
	"os"
	"runtime"
	"sort"
	"strconv"
	"strings"
	"testing"
	"testing/synctest"
	"time"

	influxdb "github.com/influxdata/influxdb/v2"
	"github.com/influxdata/influxdb/v2/influxql/query"
	"github.com/influxdata/influxdb/v2/models"
	"github.com/influxdata/influxdb/v2/pkg/verifrt/vrt"
	"github.com/influxdata/influxdb/v2/predicate"
	"github.com/influxdata/influxdb/v2/storage/reads/datatypes"
	"github.com/influxdata/influxdb/v2/tsdb/cursors"
	"github.com/influxdata/influxql"
	"verif/h/mini"
	"verif/h/vlib"
)

// ---------------------------------------------------------------------------------------------------------
// domain

const H = mini.Hour

// four time slots: two in the first shard group, two in the second; slots 1 and 2 are adjacent nanoseconds
// across the shard-group boundary.
var slotT = [4]int64{mini.Base + 10, mini.Base + H - 1, mini.Base + H, mini.Base + H + 10}

type seriesDef struct {
	M    string
	Tags []mini.Tag
}

// 2 measurements × 2 values of tag a; two of the series also carry tag b (so that tag KEYS come and go).
// (measurement, a) identifies a series, so Store.TagValues(a) is a series-level listing.
var pool = []seriesDef{
	{"m0", mini.T("a", "x")},
	{"m0", mini.T("a", "y", "b", "z")},
	{"m1", mini.T("a", "x", "b", "z")},
	{"m1", mini.T("a", "y")},
}

var fieldNames = []string{"f0", "f1"} // f0 float, f1 integer

// Cell: field F of series S has points at the slots of Mask (bit k = slot k).
type Cell struct {
	S    int `json:"s"`
	F    int `json:"f"`
	Mask int `json:"mask"`
}

// Dataset: Mode is the storage layout at the time of the first delete:
//
//	cache  everything in the cache (+WAL)
//	tsm    everything snapshotted into one TSM file per shard
//	mixed  even slots in TSM, odd slots in the cache (every shard holds both)
type Dataset struct {
	Cells []Cell `json:"cells"`
	Mode  string `json:"mode"`
}

func value(s, f, k, gen int) any {
	if f == 0 {
		return float64(s*100+k) + 0.5 + float64(1000*gen)
	}
	return int64(s*100 + 10 + k + 1000*gen)
}

// cellsOf: pattern digit per pool series: 0 absent, 1 shard A only (slots 0,1), 2 shard B only (slots 2,3), 3 both.
// Field layout by series identity: s0 both fields everywhere; s1 f0 on even slots, f1 on odd slots (a one-slot
// delete removes a whole field); s2 only f0; s3 only f1.
func cellsOf(pat []int) []Cell {
	masks := []int{0, 0b0011, 0b1100, 0b1111}
	var cells []Cell
	for s, p := range pat {
		m := masks[p]
		if m == 0 {
			continue
		}
		switch s {
		case 0:
			cells = append(cells, Cell{0, 0, m}, Cell{0, 1, m})
		case 1:
			if m&0b0101 != 0 {
				cells = append(cells, Cell{1, 0, m & 0b0101})
			}
			if m&0b1010 != 0 {
				cells = append(cells, Cell{1, 1, m & 0b1010})
			}
		case 2:
			cells = append(cells, Cell{2, 0, m})
		case 3:
			cells = append(cells, Cell{3, 1, m})
		}
	}
	return cells
}

// P is a delete predicate of the family (what POST /api/v2/delete accepts: =, != and AND over tags and _measurement).
type P struct {
	Op string `json:"op"` // eq | ne | and
	K  string `json:"k,omitempty"`
	V  string `json:"v,omitempty"`
	L  *P     `json:"l,omitempty"`
	R  *P     `json:"r,omitempty"`
}

func eq(k, v string) *P { return &P{Op: "eq", K: k, V: v} }
func ne(k, v string) *P { return &P{Op: "ne", K: k, V: v} }
func and(l, r *P) *P    { return &P{Op: "and", L: l, R: r} }

// String renders the predicate in the DELETE API syntax ("" = no predicate).
func (p *P) String() string {
	if p == nil {
		return ""
	}
	switch p.Op {
	case "eq":
		return fmt.Sprintf("%s=%q", p.K, p.V)
	case "ne":
		return fmt.Sprintf("%s!=%q", p.K, p.V)
	default:
		return p.L.String() + " AND " + p.R.String()
	}
}

func (p *P) kind() string {
	if p == nil {
		return "none"
	}
	switch p.Op {
	case "eq", "ne":
		if p.K == "_measurement" {
			return "measurement-" + p.Op
		}
		return "tag-" + p.Op
	}
	return p.L.kind() + "+" + p.R.kind()
}

// match: does the series (tags incl. _measurement) match? Two-valued: `!=` is only used on keys every series has.
func match(p *P, tags map[string]string) bool {
	if p == nil {
		return true
	}
	switch p.Op {
	case "eq":
		v, ok := tags[p.K]
		return ok && v == p.V
	case "ne":
		v, ok := tags[p.K]
		return ok && v != p.V
	default:
		return match(p.L, tags) && match(p.R, tags)
	}
}

// Op is one step of a history.
type Op struct {
	Kind string `json:"op"` // delete | rewrite | snapshot
	Min  int64  `json:"min,omitempty"`
	Max  int64  `json:"max,omitempty"`
	Pred *P     `json:"pred,omitempty"`
	RK   string `json:"range_kind,omitempty"`
}

func relT(t int64) string {
	switch t {
	case math.MinInt64:
		return "MinInt64"
	case math.MaxInt64:
		return "MaxInt64"
	case models.MinNanoTime:
		return "MinNanoTime"
	case models.MaxNanoTime:
		return "MaxNanoTime"
	}
	d := t - mini.Base
	if d >= H/2 {
		return fmt.Sprintf("B+H%+d", d-H)
	}
	return fmt.Sprintf("B%+d", d)
}

func (o Op) String() string {
	if o.Kind != "delete" {
		return o.Kind
	}
	p := o.Pred.String()
	if p == "" {
		p = "<none>"
	}
	return fmt.Sprintf("delete[%s,%s](%s)", relT(o.Min), relT(o.Max), p)
}

type Case struct {
	DS  Dataset `json:"dataset"`
	Ops []Op    `json:"history"`
	// Sig: in a recorded violation, the class signature the replay has to reproduce ("" = any problem)
	Sig string `json:"expect_signature,omitempty"`
}

func shape(ops []Op) string {
	var s []string
	for _, o := range ops {
		s = append(s, o.Kind)
	}
	return strings.Join(s, ",")
}

// ---------------------------------------------------------------------------------------------------------
// families

type rng struct {
	kind     string
	min, max int64
}

func delRanges(thorough bool) []rng {
	t := slotT
	out := []rng{
		{"all", models.MinNanoTime, models.MaxNanoTime},
		{"slot", t[1], t[1]},
		{"cross-boundary", t[1], t[2]},
		{"one-shard", t[0], t[1]},
		{"inner", t[0] + 1, t[3] - 1},
		{"empty", t[0] + 1, t[1] - 1},
	}
	if thorough {
		out = append(out,
			rng{"slot", t[2], t[2]},
			rng{"one-shard", t[2], t[3]},
			rng{"open-end", t[2], models.MaxNanoTime},
			rng{"inverted", t[2], t[1]},
		)
	}
	return out
}

func delPreds(thorough bool) []*P {
	m := func(v string) *P { return eq("_measurement", v) }
	out := []*P{nil, m("m0"), eq("a", "x"), eq("b", "z"), and(m("m0"), eq("a", "y")), and(m("m1"), eq("a", "x")), m("m1"), ne("a", "x")}
	if thorough {
		out = append(out, eq("a", "y"), and(m("m0"), eq("a", "x")), and(eq("a", "x"), eq("b", "z")),
			m("mz"), and(m("m0"), eq("a", "q")), ne("_measurement", "m0"), ne("_measurement", "m1"), and(m("m1"), ne("a", "x")))
	}
	return out
}

func deletes(thorough bool) []Op {
	var out []Op
	for _, r := range delRanges(thorough) {
		for _, p := range delPreds(thorough) {
			out = append(out, Op{Kind: "delete", Min: r.min, Max: r.max, Pred: p, RK: r.kind})
		}
	}
	return out
}

func present(p []int) int {
	n := 0
	for _, x := range p {
		if x != 0 {
			n++
		}
	}
	return n
}

// patterns: every assignment absent / shard A / shard B / both to the 4 pool series (255 non-empty), simplest first.
func patterns() [][]int {
	var pats [][]int
	for x := 1; x < 256; x++ {
		pat := make([]int, 4)
		y := x
		for i := range pat {
			pat[i] = y % 4
			y /= 4
		}
		pats = append(pats, pat)
	}
	sort.SliceStable(pats, func(i, j int) bool { return present(pats[i]) < present(pats[j]) })
	return pats
}

// ---------------------------------------------------------------------------------------------------------
// reference model

type mcell struct {
	key   string
	s, f  int
	tags  map[string]string // series tags incl. _measurement
	pts   map[int64]any
	everT map[int64]bool // every time stamp ever written to the cell
}

type model struct {
	ds    Dataset
	cells map[string]*mcell
	keys  []string
	gen   int
}

func seriesKey(s int) string {
	sd := pool[s]
	k := sd.M
	for _, t := range sd.Tags {
		k += "," + t.K + "=" + t.V
	}
	return k
}

func seriesTags(s int) map[string]string {
	m := map[string]string{"_measurement": pool[s].M}
	for _, t := range pool[s].Tags {
		m[t.K] = t.V
	}
	return m
}

func newModel(ds Dataset) *model {
	md := &model{ds: ds, cells: map[string]*mcell{}}
	for _, c := range ds.Cells {
		mc := &mcell{key: seriesKey(c.S) + "#" + fieldNames[c.F], s: c.S, f: c.F, tags: seriesTags(c.S), pts: map[int64]any{}, everT: map[int64]bool{}}
		md.cells[mc.key] = mc
		md.keys = append(md.keys, mc.key)
	}
	sort.Strings(md.keys)
	md.rewrite()
	md.gen = 0
	return md
}

// rewrite stores every point of the dataset (again) with the value of the next generation.
func (md *model) rewrite() {
	for _, c := range md.ds.Cells {
		mc := md.cells[seriesKey(c.S)+"#"+fieldNames[c.F]]
		for k := 0; k < 4; k++ {
			if c.Mask>>k&1 == 1 {
				mc.pts[slotT[k]] = value(c.S, c.F, k, md.gen)
				mc.everT[slotT[k]] = true
			}
		}
	}
	md.gen++
}

// del applies the statement: points of matching series inside [min,max] go, everything else stays.
func (md *model) del(o Op) (removed int) {
	for _, k := range md.keys {
		mc := md.cells[k]
		if !match(o.Pred, mc.tags) {
			continue
		}
		for t := range mc.pts {
			if t >= o.Min && t <= o.Max {
				delete(mc.pts, t)
				removed++
			}
		}
	}
	return
}

func inShard(t int64, sh int) bool { // sh: 0 = group A, 1 = group B, -1 = anywhere
	switch sh {
	case 0:
		return t < mini.Base+H
	case 1:
		return t >= mini.Base+H
	}
	return true
}

// liveSeries: pool indexes of the series with ≥ 1 point (any field) in shard sh (-1: anywhere).
func (md *model) liveSeries(sh int) []int {
	live := map[int]bool{}
	for _, k := range md.keys {
		mc := md.cells[k]
		for t := range mc.pts {
			if inShard(t, sh) {
				live[mc.s] = true
			}
		}
	}
	var out []int
	for s := range pool {
		if live[s] {
			out = append(out, s)
		}
	}
	return out
}

// names derived from a set of live series
type listing struct {
	meas    map[string]bool
	tagKeys map[string]bool // "m|k"
	tagVals map[string]bool // "m|k=v"
	keysAny map[string]bool // k (any measurement)
	valsAny map[string]bool // "k=v" (any measurement)
}

func listingOf(series []int) listing {
	l := listing{map[string]bool{}, map[string]bool{}, map[string]bool{}, map[string]bool{}, map[string]bool{}}
	for _, s := range series {
		sd := pool[s]
		l.meas[sd.M] = true
		for _, t := range sd.Tags {
			l.tagKeys[sd.M+"|"+t.K] = true
			l.tagVals[sd.M+"|"+t.K+"="+t.V] = true
			l.keysAny[t.K] = true
			l.valsAny[t.K+"="+t.V] = true
		}
	}
	return l
}

// ---------------------------------------------------------------------------------------------------------
// execution + oracle

type problem struct {
	clause string
	api    string // metadata clauses: the API that listed / failed to list (part of the signature)
	detail string
}

func setStr(m map[string]bool) string {
	var ks []string
	for k, v := range m {
		if v {
			ks = append(ks, k)
		}
	}
	sort.Strings(ks)
	return "{" + strings.Join(ks, " ") + "}"
}

// cmpSets: got must list everything in must, and nothing outside may. rng names the queried range (detail only).
func cmpSets(api, rng, what string, got, must, may map[string]bool, probs *[]problem) {
	for _, k := range sortedKeys(got) {
		if !may[k] {
			*probs = append(*probs, problem{what + "-listed-without-data", api, fmt.Sprintf("%s(%s) lists %s but no series carrying it has any point left; listed %s, with data %s", api, rng, k, setStr(got), setStr(must))})
			break
		}
	}
	for _, k := range sortedKeys(must) {
		if !got[k] {
			*probs = append(*probs, problem{what + "-with-data-not-listed", api, fmt.Sprintf("%s(%s) does not list %s although a series carrying it still has points; listed %s, with data %s", api, rng, k, setStr(got), setStr(must))})
			break
		}
	}
}

func sortedKeys(m map[string]bool) []string {
	var ks []string
	for k, v := range m {
		if v {
			ks = append(ks, k)
		}
	}
	sort.Strings(ks)
	return ks
}

func drainStrings(it cursors.StringIterator) map[string]bool {
	out := map[string]bool{}
	if it == nil {
		return out
	}
	for it.Next() {
		out[it.Value()] = true
	}
	return out
}

func fmtPts(m map[int64]any) string {
	var ts []int64
	for t := range m {
		ts = append(ts, t)
	}
	sort.Slice(ts, func(i, j int) bool { return ts[i] < ts[j] })
	var sb strings.Builder
	sb.WriteByte('[')
	for i, t := range ts {
		if i > 0 {
			sb.WriteByte(' ')
		}
		fmt.Fprintf(&sb, "%s:%v", relT(t), m[t])
	}
	sb.WriteByte(']')
	return sb.String()
}

func sameVal(a, b any) bool {
	switch x := a.(type) {
	case float64:
		y, ok := b.(float64)
		return ok && x == y
	case int64:
		y, ok := b.(int64)
		return ok && x == y
	}
	return false
}

// checkRead compares a whole-range ReadFilter with the model, restricted to shard sh (-1 = everything).
func checkRead(api string, ss []mini.Series, md *model, sh int, probs *[]problem) {
	add := func(clause, detail string) { *probs = append(*probs, problem{clause, "", detail}) }
	seen := map[string]bool{}
	for _, s := range ss {
		if len(s.Points) == 0 {
			continue // index series without points: not judged here
		}
		tags := map[string]string{}
		for _, t := range s.Tags {
			tags[t.K] = t.V
		}
		var ks []string
		for k := range tags {
			if k != "_measurement" && k != "_field" {
				ks = append(ks, k)
			}
		}
		sort.Strings(ks)
		key := tags["_measurement"]
		for _, k := range ks {
			key += "," + k + "=" + tags[k]
		}
		key += "#" + tags["_field"]
		mc := md.cells[key]
		if mc == nil {
			add("unknown-series-readable", fmt.Sprintf("%s returned series %s with %d points; it was never written", api, key, len(s.Points)))
			continue
		}
		if seen[key] {
			add("series-returned-twice", fmt.Sprintf("%s returned series %s twice with points", api, key))
			continue
		}
		seen[key] = true
		got := map[int64]any{}
		for i, p := range s.Points {
			if _, dup := got[p.T]; dup || (i > 0 && p.T <= s.Points[i-1].T) {
				add("points-malformed", fmt.Sprintf("%s series %s: points not strictly ascending", api, key))
			}
			got[p.T] = p.V
		}
		want := map[int64]any{}
		for t, v := range mc.pts {
			if inShard(t, sh) {
				want[t] = v
			}
		}
		for _, p := range s.Points {
			wv, ok := want[p.T]
			switch {
			case !ok && mc.everT[p.T]:
				add("deleted-point-readable", fmt.Sprintf("%s series %s returns %s: got %s, model %s", api, key, relT(p.T), fmtPts(got), fmtPts(want)))
			case !ok:
				add("unknown-point-readable", fmt.Sprintf("%s series %s returns never-written t=%s: got %s", api, key, relT(p.T), fmtPts(got)))
			case !sameVal(wv, p.V):
				add("wrong-value", fmt.Sprintf("%s series %s at %s: got %v(%T) want %v(%T)", api, key, relT(p.T), p.V, p.V, wv, wv))
			}
		}
		for _, t := range slotT {
			if _, w := want[t]; w {
				if _, ok := got[t]; !ok {
					add("surviving-point-missing", fmt.Sprintf("%s series %s lost %s (not matched by any delete): got %s, model %s", api, key, relT(t), fmtPts(got), fmtPts(want)))
					break
				}
			}
		}
	}
	for _, k := range md.keys {
		mc := md.cells[k]
		n := 0
		for t := range mc.pts {
			if inShard(t, sh) {
				n++
			}
		}
		if n > 0 && !seen[k] {
			add("surviving-point-missing", fmt.Sprintf("%s does not return series %s at all; model %s", api, k, fmtPts(mc.pts)))
		}
	}
}

type shardRange struct {
	sh         int
	start, end int64
	name       string
}

var shardRanges = []shardRange{
	{-1, math.MinInt64, math.MaxInt64, "whole-bucket"},
	{0, mini.Base, mini.Base + H, "shard-A-range"},
	{1, mini.Base + H, mini.Base + 2*H, "shard-B-range"},
}

// conditions of the Store-level listings
var (
	// all values of the tag keys a and b, straight from the index' tag blocks
	condKeys = influxql.MustParseExpr(`_tagKey = 'a' OR _tagKey = 'b'`)
	// the same with a WHERE filter that every series of the pool satisfies (a != 'q'): the store then walks the
	// matching SERIES, so this is a series-level listing ((measurement, a) identifies a series of the pool)
	condKeysFiltered = influxql.MustParseExpr(`(_tagKey = 'a' OR _tagKey = 'b') AND a != 'q'`)
	condFilterOnly   = influxql.MustParseExpr(`a != 'q'`)
)

func prefixed(m map[string]bool, prefix string) map[string]bool {
	out := map[string]bool{}
	for k, v := range m {
		if v && strings.HasPrefix(k, prefix) {
			out[k] = true
		}
	}
	return out
}

// verify reads everything back and queries the metadata APIs.
func verify(f *mini.Fixture, b mini.Bucket, md *model) (probs []problem) {
	ctx := context.Background()
	add := func(clause, api, detail string) { probs = append(probs, problem{clause, api, detail}) }

	// ---- reads
	for _, sr := range shardRanges {
		ss, err := f.ReadFilter(b, sr.start, sr.end, nil)
		if err != nil {
			add("read-error", "", fmt.Sprintf("ReadFilter(%s): %v", sr.name, err))
			continue
		}
		checkRead("ReadFilter("+sr.name+")", ss, md, sr.sh, &probs)
	}

	if len(probs) > 0 {
		// the stored data itself differs from the model: the metadata would only echo that difference
		return
	}

	// ---- whole-bucket metadata: listed ⇔ data
	live := md.liveSeries(-1)
	want := listingOf(live)
	const wb = "whole-bucket"
	if names, err := f.TSDB.MeasurementNames(ctx, query.OpenAuthorizer, b.DBName(), nil); err != nil {
		add("metadata-error", "Store.MeasurementNames", err.Error())
	} else {
		got := map[string]bool{}
		for _, n := range names {
			got[string(n)] = true
		}
		cmpSets("Store.MeasurementNames", wb, "measurement", got, want.meas, want.meas, &probs)
	}
	shards := f.ShardIDs(b)
	if len(shards) > 0 {
		for _, q := range []struct {
			api  string
			cond influxql.Expr
		}{{"Store.TagKeys", nil}, {"Store.TagKeys(WHERE)", condFilterOnly}} {
			if tks, err := f.TSDB.TagKeys(ctx, query.OpenAuthorizer, shards, q.cond); err != nil {
				add("metadata-error", q.api, err.Error())
			} else {
				got := map[string]bool{}
				for _, tk := range tks {
					for _, k := range tk.Keys {
						got[tk.Measurement+"|"+k] = true
					}
				}
				cmpSets(q.api, wb, "tag-key", got, want.tagKeys, want.tagKeys, &probs)
			}
		}
		for _, q := range []struct {
			api, what string
			cond      influxql.Expr
		}{{"Store.TagValues", "tag-value", condKeys}, {"Store.TagValues(WHERE)", "series", condKeysFiltered}} {
			if tvs, err := f.TSDB.TagValues(ctx, query.OpenAuthorizer, shards, q.cond); err != nil {
				add("metadata-error", q.api, err.Error())
			} else {
				got := map[string]bool{}
				for _, tv := range tvs {
					for _, kv := range tv.Values {
						got[tv.Measurement+"|"+kv.Key+"="+kv.Value] = true
					}
				}
				cmpSets(q.api, wb, q.what, got, want.tagVals, want.tagVals, &probs)
			}
		}
	}
	if n, err := f.TSDB.SeriesCardinality(ctx, b.DBName()); err != nil {
		add("metadata-error", "Store.SeriesCardinality", err.Error())
	} else if int(n) > len(live) {
		add("series-listed-without-data", "Store.SeriesCardinality", fmt.Sprintf("Store.SeriesCardinality = %d but only %d series have any point left", n, len(live)))
	} else if int(n) < len(live) {
		add("series-with-data-not-listed", "Store.SeriesCardinality", fmt.Sprintf("Store.SeriesCardinality = %d but %d series still have points", n, len(live)))
	}
	// InfluxQL SHOW SERIES / SHOW MEASUREMENTS through the statement executor
	if rs, err := f.InfluxQL(b, "SHOW SERIES"); err != nil || len(rs) != 1 || rs[0].Err != "" {
		add("metadata-error", "SHOW SERIES", fmt.Sprintf("%v %+v", err, rs))
	} else {
		got, must := map[string]bool{}, map[string]bool{}
		for _, row := range rs[0].Rows {
			for _, v := range row.Values {
				if len(v) > 0 {
					got[fmt.Sprint(v[0])] = true
				}
			}
		}
		for _, s := range live {
			must[seriesKey(s)] = true
		}
		cmpSets("SHOW SERIES", wb, "series", got, must, must, &probs)
	}
	if rs, err := f.InfluxQL(b, "SHOW MEASUREMENTS"); err != nil || len(rs) != 1 || rs[0].Err != "" {
		add("metadata-error", "SHOW MEASUREMENTS", fmt.Sprintf("%v %+v", err, rs))
	} else {
		got := map[string]bool{}
		for _, row := range rs[0].Rows {
			for _, v := range row.Values {
				if len(v) > 0 {
					got[fmt.Sprint(v[0])] = true
				}
			}
		}
		cmpSets("SHOW MEASUREMENTS", wb, "measurement", got, want.meas, want.meas, &probs)
	}

	// ---- the 2.x storage API (what the Flux schema functions call), whole bucket and per shard-group range
	for _, sr := range shardRanges {
		must := listingOf(md.liveSeries(sr.sh))
		may := must
		if sr.sh >= 0 {
			may = want // a series with data in the other shard may still be listed: the statement is silent
		}
		src := f.ReadSource(b)
		tr := &datatypes.TimestampRange{Start: sr.start, End: sr.end}
		if it, err := f.Reads.TagValues(ctx, &datatypes.TagValuesRequest{TagsSource: src, Range: tr, TagKey: "_measurement"}); err != nil {
			add("metadata-error", "reads.Store.TagValues(_measurement)", err.Error())
		} else {
			cmpSets("reads.Store.TagValues(_measurement)", sr.name, "measurement", drainStrings(it), must.meas, may.meas, &probs)
		}
		for _, k := range []string{"a", "b"} {
			if it, err := f.Reads.TagValues(ctx, &datatypes.TagValuesRequest{TagsSource: src, Range: tr, TagKey: k}); err != nil {
				add("metadata-error", "reads.Store.TagValues", err.Error())
			} else {
				got := map[string]bool{}
				for v := range drainStrings(it) {
					got[k+"="+v] = true
				}
				cmpSets("reads.Store.TagValues", sr.name, "tag-value", got, prefixed(must.valsAny, k+"="), prefixed(may.valsAny, k+"="), &probs)
			}
		}
		if it, err := f.Reads.TagKeys(ctx, &datatypes.TagKeysRequest{TagsSource: src, Range: tr}); err != nil {
			add("metadata-error", "reads.Store.TagKeys", err.Error())
		} else {
			got := drainStrings(it)
			// _measurement and _field are always listed by this API: only real tag keys are judged
			for k := range got {
				if k != "a" && k != "b" {
					delete(got, k)
				}
			}
			cmpSets("reads.Store.TagKeys", sr.name, "tag-key", got, must.keysAny, may.keysAny, &probs)
		}
	}
	return
}

// load builds the dataset in its layout.
func load(ds Dataset) (*mini.Fixture, mini.Bucket, error) {
	f, err := mini.Open(mini.Options{})
	if err != nil {
		return nil, mini.Bucket{}, err
	}
	b, err := f.CreateBucket("db0", 0)
	if err != nil {
		f.Close()
		return nil, b, err
	}
	all := func(int) bool { return true }
	even := func(k int) bool { return k%2 == 0 }
	odd := func(k int) bool { return k%2 == 1 }
	type step struct {
		slots func(int) bool
		snap  bool
	}
	var steps []step
	switch ds.Mode {
	case "cache":
		steps = []step{{all, false}}
	case "tsm":
		steps = []step{{all, true}}
	case "mixed":
		steps = []step{{even, true}, {odd, false}}
	default:
		f.Close()
		return nil, b, fmt.Errorf("unknown mode %q", ds.Mode)
	}
	for _, st := range steps {
		if err := write(f, b, ds, st.slots, 0); err != nil {
			f.Close()
			return nil, b, err
		}
		if st.snap {
			if err := f.SnapshotAll(); err != nil {
				f.Close()
				return nil, b, fmt.Errorf("snapshot: %w", err)
			}
		}
	}
	return f, b, nil
}

func write(f *mini.Fixture, b mini.Bucket, ds Dataset, slots func(int) bool, gen int) error {
	var pts []mini.Point
	for s := range pool {
		for k := 0; k < 4; k++ {
			if !slots(k) {
				continue
			}
			fields := map[string]any{}
			for _, c := range ds.Cells {
				if c.S == s && c.Mask>>k&1 == 1 {
					fields[fieldNames[c.F]] = value(c.S, c.F, k, gen)
				}
			}
			if len(fields) > 0 {
				pts = append(pts, mini.Point{M: pool[s].M, Tags: pool[s].Tags, Fields: fields, T: slotT[k]})
			}
		}
	}
	if len(pts) == 0 {
		return nil
	}
	if err := f.Write(b, pts); err != nil {
		return fmt.Errorf("write: %w", err)
	}
	return nil
}

type stepResult struct {
	op       Op
	removed  int
	dropped  int // series that lost their last point
	mdropped int // measurements that lost their last point
	probs    []problem
	panicked string
	err      error
}

// runCase executes the history; after every op the bucket is verified (every step is judged; an error or panic of an
// operation, or stored data that differs from the model, ends the history early).
func runCase(cs Case) (steps []stepResult, herr error) {
	f, b, err := load(cs.DS)
	if err != nil {
		return nil, err
	}
	defer f.Close()
	md := newModel(cs.DS)
	if probs := verify(f, b, md); len(probs) > 0 {
		// the dataset itself does not read back: C21's business, not a delete problem
		return nil, fmt.Errorf("dataset does not read back before any delete: %s: %s", probs[0].clause, probs[0].detail)
	}
	for _, op := range cs.Ops {
		sr := stepResult{op: op}
		lb, mb := len(md.liveSeries(-1)), len(listingOf(md.liveSeries(-1)).meas)
		p, d := vlib.Guard(func() {
			switch op.Kind {
			case "delete":
				sr.err = f.Delete(b, op.Min, op.Max, op.Pred.String())
				sr.removed = md.del(op)
			case "rewrite":
				g := md.gen
				md.rewrite()
				sr.err = write(f, b, cs.DS, func(int) bool { return true }, g)
			case "snapshot":
				sr.err = f.SnapshotAll()
			}
			if sr.err == nil {
				sr.probs = verify(f, b, md)
			}
		})
		if p {
			sr.panicked = d
		}
		sr.dropped = lb - len(md.liveSeries(-1))
		sr.mdropped = mb - len(listingOf(md.liveSeries(-1)).meas)
		steps = append(steps, sr)
		diverged := false
		for _, pr := range sr.probs {
			diverged = diverged || pr.api == "" // a read clause: the stored data differs from the model
		}
		if p || sr.err != nil || diverged {
			break // the model and the store now disagree about what is stored
		}
	}
	return steps, nil
}

// sigOf: metadata clauses are classified by clause + API only (their cause does not depend on how the data was
// deleted); read clauses and errors carry the discriminating features of the step.
func sigOf(cs Case, step int, p problem) string {
	if p.api != "" {
		return vlib.JoinSig("history", p.clause, p.api)
	}
	op := cs.Ops[step]
	feat := "after=" + op.Kind
	if op.Kind == "delete" {
		feat += "/pred=" + op.Pred.kind()
	}
	return vlib.JoinSig("history", p.clause, feat, "layout="+cs.DS.Mode)
}

func capN(n, c int) int {
	if n > c {
		return c
	}
	return n
}

func describe(cs Case) string {
	var ops []string
	for _, o := range cs.Ops {
		ops = append(ops, o.String())
	}
	md := newModel(cs.DS)
	var cells []string
	for _, k := range md.keys {
		cells = append(cells, k+fmtPts(md.cells[k].pts))
	}
	return fmt.Sprintf("layout=%s data={%s} history=%s", cs.DS.Mode, strings.Join(cells, "; "), strings.Join(ops, " ; "))
}

// report turns the step results of one case into counters / violations. Returns the number of evaluated steps.
func report(c *vlib.Ctx, cs Case, steps []stepResult) {
	for i, sr := range steps {
		c.Eval(1)
		if sr.removed > 0 {
			c.NontrivialN(1)
		}
		if sr.op.Kind == "delete" {
			c.Outcome(fmt.Sprintf("%s/points-removed=%d/series-emptied=%d/measurements-emptied=%d", shape(cs.Ops[:i+1]), capN(sr.removed, 4), capN(sr.dropped, 2), sr.mdropped))
		} else {
			c.Outcome(shape(cs.Ops[:i+1]))
		}
		sub := Case{DS: cs.DS, Ops: cs.Ops[:i+1]}
		switch {
		case sr.panicked != "":
			fr := sr.panicked[strings.LastIndex(sr.panicked, "@ ")+2:]
			sub.Sig = sigOf(cs, i, problem{clause: "panic/" + fr})
			c.Violation(sub.Sig, describe(sub)+": "+sr.panicked, sub)
		case sr.err != nil:
			sub.Sig = sigOf(cs, i, problem{clause: "error"})
			c.Violation(sub.Sig, describe(sub)+": "+sr.op.Kind+" returned error: "+sr.err.Error(), sub)
		default:
			seen := map[string]bool{}
			for _, p := range sr.probs {
				sg := sigOf(cs, i, p)
				if seen[sg] {
					continue
				}
				seen[sg] = true
				sub.Sig = sg
				c.Violation(sg, describe(sub)+": "+p.detail, sub)
			}
		}
	}
}

// bothOrAbsent: every series is absent or present in BOTH shards.
func bothOrAbsent(p []int) bool {
	for _, x := range p {
		if x != 0 && x != 3 {
			return false
		}
	}
	return true
}

// historyCases enumerates the cases of part 1 in a fixed order (simplest first) and calls visit(case).
func historyCases(thorough bool, visit func(cs Case)) {
	pats := patterns()
	dels := deletes(thorough)
	allModes := []string{"cache", "tsm", "mixed"}
	// depth 1: datasets × layouts × deletes, complete product
	for i, p := range pats {
		var modes []string
		switch {
		case thorough && bothOrAbsent(p):
			modes = allModes
		case thorough:
			modes = []string{allModes[i%3]}
		case bothOrAbsent(p) && present(p) == 4:
			modes = allModes
		case bothOrAbsent(p) && present(p) == 3:
			modes = []string{"mixed"}
		case fmt.Sprint(p) == "[1 3 2 3]" || fmt.Sprint(p) == "[3 2 1 1]":
			modes = []string{"mixed"}
		}
		for _, mode := range modes {
			ds := Dataset{Cells: cellsOf(p), Mode: mode}
			for _, d := range dels {
				visit(Case{DS: ds, Ops: []Op{d}})
			}
		}
	}
	// depth ≥ 2: delete ; [rewrite] ; [snapshot] ; delete on the full dataset (all 4 series in both shards)
	full := cellsOf([]int{3, 3, 3, 3})
	var d2 []Op
	t := slotT
	m := func(v string) *P { return eq("_measurement", v) }
	rs := []rng{{"all", models.MinNanoTime, models.MaxNanoTime}, {"slot", t[1], t[1]}, {"one-shard", t[0], t[1]}}
	ps := []*P{nil, m("m0"), eq("a", "x"), and(m("m0"), eq("a", "y"))}
	mids := [][]Op{{}, {{Kind: "rewrite"}}}
	modes := []string{"mixed"}
	if thorough {
		rs = append(rs, rng{"one-shard", t[2], t[3]}, rng{"slot", t[0], t[0]})
		ps = append(ps, eq("b", "z"))
		mids = append(mids, []Op{{Kind: "rewrite"}, {Kind: "snapshot"}})
		modes = allModes
	}
	for _, r := range rs {
		for _, p := range ps {
			d2 = append(d2, Op{Kind: "delete", Min: r.min, Max: r.max, Pred: p, RK: r.kind})
		}
	}
	for _, mode := range modes {
		ds := Dataset{Cells: full, Mode: mode}
		for _, mid := range mids {
			for _, a := range d2 {
				for _, bb := range d2 {
					ops := append(append([]Op{a}, mid...), bb)
					visit(Case{DS: ds, Ops: ops})
				}
			}
		}
	}
}

func replayHistory(raw json.RawMessage) (bool, string) {
	var cs Case
	if err := json.Unmarshal(raw, &cs); err != nil {
		return false, err.Error()
	}
	steps, err := runCase(cs)
	if err != nil {
		return false, "fixture: " + err.Error()
	}
	var sb strings.Builder
	sb.WriteString(describe(cs) + "\n")
	bad := false
	hit := func(p problem, i int) string {
		if cs.Sig == "" || sigOf(cs, i, p) == cs.Sig {
			bad = true
			return "VIOLATED"
		}
		return "(other class)"
	}
	for i, sr := range steps {
		fmt.Fprintf(&sb, "step %d %s: ", i+1, sr.op)
		switch {
		case sr.panicked != "":
			fr := sr.panicked[strings.LastIndex(sr.panicked, "@ ")+2:]
			fmt.Fprintf(&sb, "%s PANIC %s\n", hit(problem{clause: "panic/" + fr}, i), sr.panicked)
		case sr.err != nil:
			fmt.Fprintf(&sb, "%s ERROR %v\n", hit(problem{clause: "error"}, i), sr.err)
		case len(sr.probs) == 0:
			sb.WriteString("ok\n")
		default:
			sb.WriteString("\n")
			for _, p := range sr.probs {
				fmt.Fprintf(&sb, "  %s %s: %s\n", hit(p, i), p.clause, p.detail)
			}
		}
	}
	return bad, sb.String()
}

// =========================================================================================================
// PART 2: schedules
// =========================================================================================================
//
// A bucket delete (storage.Engine.DeleteBucketRangePredicate → tsdb.Store.DeleteSeriesWithPredicate
// → epochTracker/guard → Shard → tsm1.Engine.DeleteSeriesRange → tsi1 / series file) runs concurrently with one writer
// (tsdb.Store.WriteToShard – the call coordinator.PointsWriter makes per shard – → epochTracker.StartWrite / guard.Matches /
// guard.Wait → Shard.WritePoints → index + cache + WAL) on the real `mini` stack inside a synctest bubble. Every file of
// tsdb, tsm1 and tsi1 that uses sync / sync/atomic is compiled against the modelled primitives (shim.json); the vsched
// engine executes EVERY schedule with ≤ B preemptions (a switch when the running thread blocks or ends is free), branching at the synchronisation
// operations of Store, epochTracker, guard, Shard, tsm1.Engine and tsm1.Cache.
var level = "model_checking"

// Scenario of part 2. All data lives in the first shard group. Stored before the threads start:
//
//	s0 = m0,a=x      f0 @ B+10 (and @ B+30 when S0Pts == "two")
//	s1 = m0,a=y,b=z  f0 @ B+10
//
// The delete always has the predicate `_measurement="m0" AND a="x"` (matches s0 and the new series m0,a=x,c=n, never s1)
// and the range Range = "lo" [B, B+10] or "all" [MinNanoTime, MaxNanoTime].
// Writer (one point, field f0, value 99):
//
//	other-series     s1 @ B+5            in the time range, series does not match        → does not conflict
//	match-out        s0 @ B+20           matching series, outside the range (lo only)     → does not conflict
//	match-in         s0 @ B+5            matching series inside the range                  → conflicts: either order
//	new-match-in     m0,a=x,c=n @ B+5    matching series that does not exist yet           → conflicts: either order
type Scenario struct {
	Layout string `json:"layout"` // cache | tsm
	S0Pts  string `json:"s0_points"`
	Range  string `json:"range"`
	Writer string `json:"writer"`
}

func (s Scenario) String() string {
	return fmt.Sprintf("layout=%s s0=%s-point(s): delete(m0 AND a=x, %s) || write(%s)", s.Layout, s.S0Pts, s.Range, s.Writer)
}

type SCase struct {
	Scenario Scenario `json:"scenario"`
	Choices  []int    `json:"schedule"`
	Sig      string   `json:"expect_signature,omitempty"`
	Trace    []string `json:"trace,omitempty"`
}

const (
	B      = mini.Base
	wVal   = 99.0
	sNewID = "m0,a=x,c=n"
)

type sresult struct {
	verdicts []string // "sig|msg" ("harness|..." = machinery problem)
	outcome  string
	waited   bool
}

func (s Scenario) delRange() (int64, int64) {
	if s.Range == "lo" {
		return B, B + 10
	}
	return models.MinNanoTime, models.MaxNanoTime
}

func (s Scenario) writerPoint() (key string, tags []mini.Tag, t int64) {
	switch s.Writer {
	case "other-series":
		return "m0,a=y,b=z", mini.T("a", "y", "b", "z"), B + 5
	case "match-out":
		return "m0,a=x", mini.T("a", "x"), B + 20
	case "match-in":
		return "m0,a=x", mini.T("a", "x"), B + 5
	default:
		return sNewID, mini.T("a", "x", "c", "n"), B + 5
	}
}

func (s Scenario) conflicts() bool { return s.Writer == "match-in" || s.Writer == "new-match-in" }

// state: series key -> t -> value (field f0 only)
type sstate map[string]map[int64]float64

func (st sstate) clone() sstate {
	out := sstate{}
	for k, m := range st {
		out[k] = map[int64]float64{}
		for t, v := range m {
			out[k][t] = v
		}
	}
	return out
}

func (st sstate) String() string {
	var parts []string
	for _, k := range []string{"m0,a=x", sNewID, "m0,a=y,b=z"} {
		m, ok := st[k]
		if !ok {
			continue
		}
		var ps []string
		for _, t := range []int64{B + 5, B + 10, B + 20, B + 30, B + 40} {
			if v, ok := m[t]; ok {
				ps = append(ps, fmt.Sprintf("B+%d=%g", t-B, v))
			}
		}
		parts = append(parts, k+"["+strings.Join(ps, " ")+"]")
	}
	return strings.Join(parts, " ")
}

func (s Scenario) initial() sstate {
	st := sstate{"m0,a=x": {B + 10: 1}, "m0,a=y,b=z": {B + 10: 2}}
	if s.S0Pts == "two" {
		st["m0,a=x"][B+30] = 3
	}
	return st
}

func applyDelete(st sstate, s Scenario) sstate {
	out := st.clone()
	min, max := s.delRange()
	for _, k := range []string{"m0,a=x", sNewID} {
		for t := range out[k] {
			if t >= min && t <= max {
				delete(out[k], t)
			}
		}
	}
	return out
}

func applyWrite(st sstate, s Scenario) sstate {
	out := st.clone()
	k, _, t := s.writerPoint()
	if out[k] == nil {
		out[k] = map[int64]float64{}
	}
	out[k][t] = wVal
	return out
}

// observe reads the bucket back: data per series (field f0) and the series-level listings.
type sobs struct {
	data     sstate
	listed   map[string]bool // series listed by SHOW SERIES
	card     int64
	tvSeries map[string]bool // "m|a=v" of Store.TagValues with a WHERE filter (walks the series)
	meas     map[string]bool
	err      string
}

func observe(f *mini.Fixture, b mini.Bucket) (o sobs) {
	o.data, o.listed, o.tvSeries, o.meas = sstate{}, map[string]bool{}, map[string]bool{}, map[string]bool{}
	ss, err := f.ReadFilter(b, models.MinNanoTime, models.MaxNanoTime, nil)
	if err != nil {
		o.err = "ReadFilter: " + err.Error()
		return
	}
	for _, s := range ss {
		if len(s.Points) == 0 {
			continue
		}
		key := s.Tag("_measurement")
		for _, t := range s.Tags {
			if t.K != "_measurement" && t.K != "_field" {
				key += "," + t.K + "=" + t.V
			}
		}
		if s.Tag("_field") != "f0" {
			o.err = "unexpected field " + s.Tag("_field")
			return
		}
		if o.data[key] == nil {
			o.data[key] = map[int64]float64{}
		}
		for _, p := range s.Points {
			v, _ := p.V.(float64)
			if _, dup := o.data[key][p.T]; dup {
				o.err = fmt.Sprintf("series %s returns t=B+%d twice", key, p.T-B)
				return
			}
			o.data[key][p.T] = v
		}
	}
	ctx := context.Background()
	rs, err := f.InfluxQL(b, "SHOW SERIES")
	if err != nil || len(rs) != 1 || rs[0].Err != "" {
		o.err = fmt.Sprintf("SHOW SERIES: %v %+v", err, rs)
		return
	}
	for _, row := range rs[0].Rows {
		for _, v := range row.Values {
			if len(v) > 0 {
				o.listed[fmt.Sprint(v[0])] = true
			}
		}
	}
	if o.card, err = f.TSDB.SeriesCardinality(ctx, b.DBName()); err != nil {
		o.err = "SeriesCardinality: " + err.Error()
		return
	}
	names, err := f.TSDB.MeasurementNames(ctx, nil, b.DBName(), nil)
	if err != nil {
		o.err = "MeasurementNames: " + err.Error()
		return
	}
	for _, n := range names {
		o.meas[string(n)] = true
	}
	return
}

// judgeFinal compares the observation with the allowed final states.
func judgeFinal(sc Scenario, o sobs, allowed []sstate, add func(sig, msg string)) {
	if o.err != "" {
		add("read-error", o.err)
		return
	}
	got := o.data.String()
	okData := false
	var want []string
	var final sstate
	for _, a := range allowed {
		// drop empty series from the expectation
		w := a.clone()
		for k, m := range w {
			if len(m) == 0 {
				delete(w, k)
			}
		}
		want = append(want, "{"+w.String()+"}")
		if w.String() == got {
			okData, final = true, w
		}
	}
	wk, _, wt := sc.writerPoint()
	if !okData {
		clause := "final-data-wrong"
		// classify the most telling difference
		min, max := sc.delRange()
		init := sc.initial()
		for _, k := range []string{"m0,a=x"} {
			for t, v := range init[k] {
				if gv, ok := o.data[k][t]; ok && gv == v && t >= min && t <= max {
					clause = "deleted-point-readable"
				}
			}
		}
		if clause == "final-data-wrong" {
			if _, ok := o.data[wk][wt]; !ok && !sc.conflicts() {
				clause = "nonconflicting-write-lost"
			} else if _, ok := o.data[wk][wt]; !ok {
				clause = "write-after-delete-lost"
			} else {
				clause = "surviving-point-missing"
			}
		}
		add(clause, fmt.Sprintf("after delete||write the bucket reads {%s}; the statement allows %s", got, strings.Join(want, " or ")))
		return
	}
	// data and index agree: a series is listed iff it has data
	for _, k := range []string{"m0,a=x", sNewID, "m0,a=y,b=z"} {
		has := len(final[k]) > 0
		if has && !o.listed[k] {
			add("series-with-data-not-listed", fmt.Sprintf("series %s has points {%s} but SHOW SERIES lists %s", k, got, setStr(o.listed)))
		}
		if !has && o.listed[k] {
			add("series-listed-without-data", fmt.Sprintf("series %s has no point left {%s} but SHOW SERIES lists %s", k, got, setStr(o.listed)))
		}
	}
	if int(o.card) != len(final) {
		cl := "series-listed-without-data"
		if int(o.card) < len(final) {
			cl = "series-with-data-not-listed"
		}
		add(cl, fmt.Sprintf("Store.SeriesCardinality = %d but %d series have points {%s}", o.card, len(final), got))
	}
	if !o.meas["m0"] || len(o.meas) != 1 {
		add("measurement-listing-wrong", fmt.Sprintf("Store.MeasurementNames = %s, data {%s}", setStr(o.meas), got))
	}
}

// branchHere selects the points at which schedules branch: the synchronisation operations of Store, epochTracker,
// guard, Shard, tsm1.Engine and tsm1.Cache (and the harness steps). The pure loads of IsIdle / Cache.Size / Cache.init are passed
// silently, like every lock of the other files (all are modelled: a contended one still disables the thread).
func branchHere(kind vrt.OpKind, label string) bool {
	if kind == vrt.OpHook {
		return true
	}
	for _, s := range []string{"IsIdle", "(*Cache).Size", "(*Cache).init"} {
		if strings.Contains(label, s) {
			return false
		}
	}
	for _, s := range []string{"tsdb.(*Store)", "(*epochTracker)", "(*epochDeleteState)", "(*epochWaiter)", "(*guard)", "tsdb.(*Shard)", "tsm1.(*Engine)", "tsm1.(*Cache)", "sync.(*Cond)"} {
		if strings.Contains(label, s) {
			return true
		}
	}
	return false
}

var schedDebug = os.Getenv("C17_SCHED_DEBUG") != ""

func runScenario(t *testing.T, sc Scenario, prefix []int) (*vrt.Result, sresult) {
	var res sresult
	add := func(sig, msg string) { res.verdicts = append(res.verdicts, sig+"|"+msg) }
	h := &vrt.Harness{Name: sc.String(), Filter: branchHere, DeviationCost: false, Body: func(x *vrt.Exec) {
		f, err := mini.Open(mini.Options{})
		if err != nil {
			add("harness", "open: "+err.Error())
			return
		}
		closed := false
		closeF := func() {
			if !closed {
				closed = true
				if err := f.Close(); err != nil {
					add("harness", "close: "+err.Error())
				}
			}
		}
		defer closeF()
		b, err := f.CreateBucket("db0", 0)
		if err != nil {
			add("harness", "bucket: "+err.Error())
			return
		}
		pts := []mini.Point{
			{M: "m0", Tags: mini.T("a", "x"), Fields: map[string]any{"f0": 1.0}, T: B + 10},
			{M: "m0", Tags: mini.T("a", "y", "b", "z"), Fields: map[string]any{"f0": 2.0}, T: B + 10},
		}
		if sc.S0Pts == "two" {
			pts = append(pts, mini.Point{M: "m0", Tags: mini.T("a", "x"), Fields: map[string]any{"f0": 3.0}, T: B + 30})
		}
		if err := f.Write(b, pts); err != nil {
			add("harness", "write: "+err.Error())
			return
		}
		if sc.Layout == "tsm" {
			if err := f.SnapshotAll(); err != nil {
				add("harness", "snapshot: "+err.Error())
				return
			}
		}
		shards := f.ShardIDs(b)
		if len(shards) != 1 {
			add("harness", fmt.Sprintf("expected one shard, got %v", shards))
			return
		}
		_, wtags, wt := sc.writerPoint()
		tm := map[string]string{}
		for _, tg := range wtags {
			tm[tg.K] = tg.V
		}
		wp, err := models.NewPoint("m0", models.NewTags(tm), models.Fields{"f0": wVal}, time.Unix(0, wt))
		if err != nil {
			add("harness", "point: "+err.Error())
			return
		}
		min, max := sc.delRange()
		// let every goroutine of the fixture build finish or block durably (e.g. the WAL's fsync goroutine outlives the
		// write it served for a moment): otherwise whether it is adopted as a thread depends on timing
		synctest.Wait()
		ev := 0
		var delCall, delRet, wCall, wRet int
		var delErr, wErr error
		x.Go("delete", func() {
			vrt.Hook("call:delete")
			ev++
			delCall = ev
			delErr = f.Delete(b, min, max, `_measurement="m0" AND a="x"`)
			ev++
			delRet = ev
		})
		x.Go("write", func() {
			vrt.Hook("call:write")
			ev++
			wCall = ev
			wErr = f.TSDB.WriteToShard(context.Background(), shards[0], []models.Point{wp})
			ev++
			wRet = ev
		})
		x.S.MaxSteps = 50000
		x.Run()
		dead, capHit := x.S.Deadlock, x.S.StepCap
		blocked := strings.Join(x.S.Blocked, "; ")
		// did the writer wait on the delete's guard? (it parked in sync.Cond.Wait called from guard.Wait: the wake-up
		// re-locks the guard's mutex, which is the only writer-thread step labelled with sync.(*Cond).Wait)
		delDone := -1
		for i, st := range x.S.Steps {
			if st.Thread == 1 && strings.Contains(st.Label, "sync.(*Cond).Wait") {
				res.waited = true
			}
			if st.Thread == 0 && delDone < 0 && strings.Contains(st.Label, "(*epochWaiter).Done") {
				delDone = i
			}
		}
		if dead {
			// a writer parked in guard.Wait when nobody can wake it up is also "waiting"
			for _, bl := range x.S.Blocked {
				if strings.HasPrefix(bl, "write(") {
					res.waited = true
				}
			}
		}
		x.S.Drain()
		if dead {
			add("deadlock", blocked)
		}
		if capHit {
			add("harness", "step cap")
		}
		if dead || capHit {
			return
		}
		if delErr != nil {
			add("delete-error", delErr.Error())
		}
		if wErr != nil {
			add("write-error", wErr.Error())
		}
		if delErr != nil || wErr != nil {
			return
		}
		init := sc.initial()
		var allowed []sstate
		switch {
		case !sc.conflicts():
			allowed = []sstate{applyWrite(applyDelete(init, sc), sc)} // the operations commute
		case wRet < delCall: // the write returned before the delete was called
			allowed = []sstate{applyDelete(applyWrite(init, sc), sc)}
		case wCall > delRet: // the write was called after the delete returned
			allowed = []sstate{applyWrite(applyDelete(init, sc), sc)}
		default:
			allowed = []sstate{applyDelete(applyWrite(init, sc), sc), applyWrite(applyDelete(init, sc), sc)}
		}
		if !sc.conflicts() && res.waited {
			add("nonconflicting-write-blocked", "the writer ("+sc.Writer+") parked in guard.Wait on the guard installed by the running delete (tsdb/store.go: WaitDelete(newGuard(min, max, nil, nil)) – the guard only knows the time range)")
		}
		o := observe(f, b)
		nv := len(res.verdicts)
		judgeFinal(sc, o, allowed, add)
		if len(res.verdicts) == nv {
			// data and index agree: nothing may be stored that the index does not know. Probe: one more point is
			// written (afterwards, sequentially) to the writer's series at B+40 – outside the range "lo", after the
			// delete "all" – which re-creates the series in the index if it was dropped; the bucket must then read
			// exactly as before plus that point. A point that was invisible and now shows up was stored without its
			// series being indexed.
			wk, wtags, _ := sc.writerPoint()
			if err := f.Write(b, []mini.Point{{M: "m0", Tags: wtags, Fields: map[string]any{"f0": 7.0}, T: B + 40}}); err != nil {
				add("probe-write-error", err.Error())
			} else {
				want := o.data.clone()
				if want[wk] == nil {
					want[wk] = map[int64]float64{}
				}
				want[wk][B+40] = 7
				o2 := observe(f, b)
				if o2.err != "" {
					add("read-error", o2.err)
				} else if o2.data.String() != want.String() {
					add("hidden-data-resurfaces", fmt.Sprintf("after delete||write the bucket read {%s}; after one more (sequential) write of %s @ B+40 it reads {%s} instead of {%s}: a point was stored for a series the index did not list", o.data.String(), wk, o2.data.String(), want.String()))
				}
			}
		}
		order := "overlap"
		if wRet < delCall {
			order = "write-first"
		} else if wCall > delRet {
			order = "delete-first"
		}
		res.outcome = fmt.Sprintf("%s/%s/waited=%v/final={%s}", sc.Writer, order, res.waited, o.data.String())
		x.Outcome = res.outcome
		closeF()
	}}
	// one P: goroutines woken between two points run one after the other, in a reproducible order
	defer runtime.GOMAXPROCS(runtime.GOMAXPROCS(1))
	r := vrt.RunOnce(t, h, prefix)
	if schedDebug && os.Getenv("C17_SCHED_DEBUG") == "steps" {
		for i, s := range r.Steps {
			fmt.Fprintf(os.Stderr, "%4d T%d %-70s en=%v c=%d\n", i, s.Thread, s.Label, s.Enabled, s.Choice)
		}
		fmt.Fprintf(os.Stderr, "names=%v outcome=%s verdicts=%v diverged=%q\n", r.Names, res.outcome, res.verdicts, r.Diverged)
	}
	return r, res
}

func scenarios(thorough bool) []Scenario {
	var out []Scenario
	for _, lay := range []string{"cache", "tsm"} {
		for _, n := range []string{"one", "two"} {
			for _, rg := range []string{"lo", "all"} {
				for _, w := range []string{"other-series", "match-out", "match-in", "new-match-in"} {
					if w == "match-out" && rg == "all" {
						continue // nothing is outside the range
					}
					if !thorough {
						keep := lay == "cache" && n == "one" ||
							lay == "tsm" && n == "one" && rg == "lo" && (w == "match-out" || w == "match-in") ||
							lay == "cache" && n == "two" && rg == "lo" && (w == "other-series" || w == "match-in")
						if !keep {
							continue
						}
					}
					out = append(out, Scenario{lay, n, rg, w})
				}
			}
		}
	}
	return out
}

// exploreScenario: DFS over choice prefixes with ≤ bound deviations. The root execution is run by every shard (it is
// needed to enumerate the children) and visited by shard 0; the subtree of the i-th child of the root belongs to
// shard (offset+i) mod n.
func exploreScenario(t *testing.T, sc Scenario, bound, shard, nshards, offset int, stop func() bool, visit func(*vrt.Result, sresult)) (st vrt.Stats) {
	st = vrt.Stats{Bound: bound, Complete: true}
	var rec func(prefix []int, level int, mine bool)
	child := 0
	rec = func(prefix []int, level int, mine bool) {
		if stop() {
			st.Complete = false
			return
		}
		x, res := runScenario(t, sc, prefix)
		if mine {
			st.Executions++
			st.Transitions += int64(len(x.Steps))
			visit(x, res)
		}
		if x.Diverged != "" {
			return
		}
		pre := 0
		for i := 0; i < len(x.Steps); i++ {
			sp := x.Steps[i]
			if i >= len(prefix) {
				if len(sp.Enabled) > 1 && mine {
					st.Nodes++
				}
				for alt := 1; alt < len(sp.Enabled); alt++ {
					if pre+sp.Costs[alt] > bound {
						continue
					}
					np := append(append([]int{}, x.Choices[:i]...), alt)
					if level == 0 {
						child++
						if (offset+child)%nshards == shard {
							rec(np, 1, true)
						}
					} else {
						rec(np, level+1, true)
					}
				}
			}
			if sp.Preempt {
				pre++
			}
		}
	}
	rec(nil, 0, shard == offset%nshards)
	return st
}

func ssig(sc Scenario, clause string) string {
	if clause == "nonconflicting-write-blocked" {
		return vlib.JoinSig("schedule", clause, "delete||write-"+sc.Writer) // the cause does not depend on layout / range
	}
	emptied := sc.Range == "all" || sc.S0Pts == "one"
	return vlib.JoinSig("schedule", clause, "delete||write-"+sc.Writer, fmt.Sprintf("delete-empties-series=%v", emptied), "layout="+sc.Layout)
}

func runSchedules(t *testing.T, c *vlib.Ctx, stop func() bool) {
	scs := scenarios(c.Thorough())
	c.Note("schedule_scenarios", fmt.Sprint(len(scs)))
	for si, sc := range scs {
		if only := os.Getenv("C17_SCEN"); only != "" && only != fmt.Sprint(si) {
			continue
		}
		if stop() {
			c.Cap("budget share of part 2 expired before all schedule scenarios were explored")
			return
		}
		// preemption bound: 1 in the quick tier; thorough: 2 for the cache layout and for tsm / one point / range lo, else 1
		bound := 1
		if c.Thorough() && (sc.Layout == "cache" || sc.S0Pts == "one" && sc.Range == "lo") {
			bound = 2
		}
		st := exploreScenario(t, sc, bound, c.Shard, c.NShards, si, stop, func(r *vrt.Result, res sresult) {
			c.Eval(1)
			if r.Preempts > 0 {
				c.NontrivialN(1)
			}
			if r.Diverged != "" {
				c.HarnessError(sc.String() + ": " + r.Diverged)
				return
			}
			c.Outcome("schedule/" + res.outcome)
			for _, v := range res.verdicts {
				p := strings.SplitN(v, "|", 2)
				if p[0] == "harness" {
					c.HarnessError(sc.String() + ": " + p[1])
					continue
				}
				cs := SCase{Scenario: sc, Choices: r.Choices, Sig: ssig(sc, p[0])}
				for _, s := range r.Steps {
					cs.Trace = append(cs.Trace, fmt.Sprintf("T%d %s", s.Thread, s.Label))
				}
				c.Violation(cs.Sig, sc.String()+": "+p[1], cs)
				if schedDebug {
					j, _ := json.Marshal(map[string]any{"case": SCase{Scenario: sc, Choices: r.Choices, Sig: cs.Sig}})
					fmt.Fprintf(os.Stderr, "VIOLATING-CASE %s\n", j)
				}
			}
			if c.WantSample() && r.Preempts > 0 {
				c.Sample(map[string]any{"scenario": sc.String(), "schedule": r.Choices, "outcome": res.outcome})
			}
		})
		if !st.Complete {
			c.Cap("budget share of part 2 expired inside schedule scenario " + sc.String())
		}
		c.StateN(st.Nodes)
		c.Transition(st.Transitions)
		c.Trace(st.Executions)
	}
}

func replaySchedule(t *testing.T, raw json.RawMessage) (bool, string) {
	var cs SCase
	if err := json.Unmarshal(raw, &cs); err != nil {
		return false, err.Error()
	}
	r, res := runScenario(t, cs.Scenario, cs.Choices)
	if r.Diverged != "" {
		return false, "diverged: " + r.Diverged
	}
	var v []string
	bad := false
	for _, x := range res.verdicts {
		p := strings.SplitN(x, "|", 2)
		if p[0] == "harness" {
			continue
		}
		if cs.Sig == "" || ssig(cs.Scenario, p[0]) == cs.Sig {
			bad = true
			v = append(v, "VIOLATED "+x)
		} else {
			v = append(v, "(other class) "+x)
		}
	}
	return bad, cs.Scenario.String() + "\n" + strings.Join(v, "\n") + "\noutcome=" + res.outcome
}

// =========================================================================================================
// PART 3: one bucket delete over SEVERAL shards (the store's own per-shard delete goroutines)
// =========================================================================================================
//
// Store.DeleteSeriesWithPredicate hands ONE compiled predicate to the per-shard goroutines of walkShards. A compiled
// predicate (tsm1 predicateMatcher) keeps the state of the key being matched inside the object and is not safe for
// use by two goroutines at once (influxdb.Predicate has Clone for that). Its Matches has no synchronisation operation,
// so the scheduler cannot split it; the API takes the interface, so the harness passes the REAL compiled predicate
// wrapped in hookPred: Matches keeps the key being matched in the wrapper object (as the real matcher keeps its tag
// slots), passes a hook point, and then lets the real compiled predicate evaluate the stored key. Used by one goroutine
// at a time (or through Clone) the wrapper is exactly the real predicate; used by two goroutines at once it mixes up
// their keys, as the real one mixes up its state. The oracle is the statement only: after the delete the bucket holds
// exactly the points of the non-matching series, in every shard, and a series is listed iff it has data. "Predicate
// used by two goroutines at once" is reported as a diagnostic inside the message, never as a violation by itself.
type hookPred struct {
	inner   influxdb.Predicate
	cur     []byte
	inside  int
	calls   int
	overlap bool // two goroutines were inside Matches of this object at the same time
}

func (p *hookPred) Clone() influxdb.Predicate { return &hookPred{inner: p.inner.Clone()} }
func (p *hookPred) Marshal() ([]byte, error)  { return p.inner.Marshal() }
func (p *hookPred) Matches(key []byte) bool {
	p.calls++
	p.inside++
	if p.inside > 1 {
		p.overlap = true
	}
	p.cur = append(p.cur[:0], key...)
	vrt.Hook("pred:Matches/key-loaded")
	r := p.inner.Matches(p.cur)
	p.inside--
	return r
}

// MScenario: Shards shard groups g = 0..Shards-1, each holding one point (field f0 @ B+g·1h+10) of every series of
// mPool – the shards are identical up to the time offset. One bucket delete over all time with predicate Pred.
type MScenario struct {
	Layout string `json:"layout"` // cache | tsm
	Shards int    `json:"shards"`
	Pred   string `json:"pred"` // tag-eq | measurement+tag-eq | tag-ne
}

var mPool = []struct {
	key  string
	m    string
	tags []mini.Tag
}{
	{"m0,a=x", "m0", mini.T("a", "x")},
	{"m0,a=y", "m0", mini.T("a", "y")},
	{"m1,a=x", "m1", mini.T("a", "x")},
}

func (s MScenario) predText() string {
	switch s.Pred {
	case "tag-eq":
		return `a="x"`
	case "measurement+tag-eq":
		return `_measurement="m0" AND a="x"`
	default:
		return `a!="x"`
	}
}

func (s MScenario) matches(i int) bool {
	switch s.Pred {
	case "tag-eq":
		return i == 0 || i == 2
	case "measurement+tag-eq":
		return i == 0
	default:
		return i == 1
	}
}

func (s MScenario) String() string {
	return fmt.Sprintf("layout=%s, %d identical shards each holding {m0,a=x m0,a=y m1,a=x}: one bucket delete(all time, %s)", s.Layout, s.Shards, s.predText())
}

type MCase struct {
	M       *MScenario `json:"multi_shard"`
	Choices []int      `json:"schedule"`
	Sig     string     `json:"expect_signature,omitempty"`
	Trace   []string   `json:"trace,omitempty"`
}

func branchPred(kind vrt.OpKind, label string) bool {
	return kind == vrt.OpHook && (strings.HasPrefix(label, "pred:") || strings.HasPrefix(label, "call:"))
}

// deleteWrapped is mini.Fixture.Delete with the compiled predicate passed through wrap.
func deleteWrapped(f *mini.Fixture, b mini.Bucket, min, max int64, pred string, wrap func(influxdb.Predicate) influxdb.Predicate) error {
	node, err := predicate.Parse(pred)
	if err != nil {
		return err
	}
	p, err := predicate.New(node)
	if err != nil {
		return err
	}
	expr, err := influxql.ParseExpr(pred)
	if err != nil {
		return err
	}
	measurement, _, err := influxql.PartitionExpr(influxql.CloneExpr(expr), func(e influxql.Expr) (bool, error) {
		if be, ok := e.(*influxql.BinaryExpr); ok {
			switch be.Op {
			case influxql.EQ, influxql.NEQ, influxql.EQREGEX, influxql.NEQREGEX:
				if tag, ok := be.LHS.(*influxql.VarRef); ok && tag.Val == "_measurement" {
					return true, nil
				}
			}
		}
		return false, nil
	})
	if err != nil {
		return err
	}
	return f.Engine.DeleteBucketRangePredicate(context.Background(), b.OrgID, b.ID, min, max, wrap(p), measurement)
}

// shardViews renders what each shard holds, one string per shard, WITHOUT the shard's identity (the shards are
// identical and the store visits them in map order), sorted.
func (s MScenario) shardViews(data sstate) []string {
	var out []string
	for g := 0; g < s.Shards; g++ {
		var p []string
		for _, sd := range mPool {
			st := "gone"
			if _, ok := data[sd.key][B+int64(g)*H+10]; ok {
				st = "kept"
			}
			p = append(p, sd.key+":"+st)
		}
		out = append(out, "{"+strings.Join(p, " ")+"}")
	}
	sort.Strings(out)
	return out
}

func runMulti(t *testing.T, sc MScenario, prefix []int) (*vrt.Result, sresult) {
	var res sresult
	add := func(sig, msg string) { res.verdicts = append(res.verdicts, sig+"|"+msg) }
	h := &vrt.Harness{Name: sc.String(), Filter: branchPred, Body: func(x *vrt.Exec) {
		f, err := mini.Open(mini.Options{})
		if err != nil {
			add("harness", "open: "+err.Error())
			return
		}
		closed := false
		closeF := func() {
			if !closed {
				closed = true
				if err := f.Close(); err != nil {
					add("harness", "close: "+err.Error())
				}
			}
		}
		defer closeF()
		b, err := f.CreateBucket("db0", 0)
		if err != nil {
			add("harness", "bucket: "+err.Error())
			return
		}
		var pts []mini.Point
		for g := 0; g < sc.Shards; g++ {
			for i, sd := range mPool {
				pts = append(pts, mini.Point{M: sd.m, Tags: sd.tags, Fields: map[string]any{"f0": float64(10*g + i + 1)}, T: B + int64(g)*H + 10})
			}
		}
		if err := f.Write(b, pts); err != nil {
			add("harness", "write: "+err.Error())
			return
		}
		if sc.Layout == "tsm" {
			if err := f.SnapshotAll(); err != nil {
				add("harness", "snapshot: "+err.Error())
				return
			}
		}
		if n := len(f.ShardIDs(b)); n != sc.Shards {
			add("harness", fmt.Sprintf("expected %d shards, got %d", sc.Shards, n))
			return
		}
		synctest.Wait()
		var hp *hookPred
		var delErr error
		x.Go("delete", func() {
			vrt.Hook("call:delete")
			delErr = deleteWrapped(f, b, models.MinNanoTime, models.MaxNanoTime, sc.predText(), func(p influxdb.Predicate) influxdb.Predicate {
				hp = &hookPred{inner: p}
				return hp
			})
		})
		x.S.MaxSteps = 100000
		x.Run()
		dead, capHit := x.S.Deadlock, x.S.StepCap
		blocked := strings.Join(x.S.Blocked, "; ")
		x.S.Drain()
		if dead {
			add("deadlock", blocked)
		}
		if capHit {
			add("harness", "step cap")
		}
		if dead || capHit {
			return
		}
		if delErr != nil {
			add("delete-error", delErr.Error())
			return
		}
		diag := ""
		if hp != nil && hp.overlap {
			diag = " [diagnostic: the one compiled predicate object was inside Matches for two shard goroutines at the same time]"
		}
		o := observe(f, b)
		if o.err != "" {
			add("read-error", o.err)
			return
		}
		want := sstate{}
		for g := 0; g < sc.Shards; g++ {
			for i, sd := range mPool {
				if !sc.matches(i) {
					if want[sd.key] == nil {
						want[sd.key] = map[int64]float64{}
					}
					want[sd.key][B+int64(g)*H+10] = float64(10*g + i + 1)
				}
			}
		}
		got, exp := sc.shardViews(o.data), sc.shardViews(want)
		survived, lost, other := false, false, false
		for i, sd := range mPool {
			for g := 0; g < sc.Shards; g++ {
				tt := B + int64(g)*H + 10
				v, ok := o.data[sd.key][tt]
				switch {
				case ok && sc.matches(i):
					survived = true
				case !ok && !sc.matches(i):
					lost = true
				case ok && v != float64(10*g+i+1):
					other = true
				}
			}
			for tt := range o.data[sd.key] {
				if g := (tt - B - 10) / H; (tt-B-10)%H != 0 || g < 0 || g >= int64(sc.Shards) {
					other = true
				}
			}
		}
		for k := range o.data {
			if k != mPool[0].key && k != mPool[1].key && k != mPool[2].key {
				other = true
			}
		}
		msg := fmt.Sprintf("after the delete the shards hold %s; the statement demands %s%s", strings.Join(got, " "), strings.Join(exp, " "), diag)
		if survived {
			add("deleted-point-readable", msg)
		}
		if lost {
			add("surviving-point-missing", msg)
		}
		if other {
			add("final-data-wrong", msg+fmt.Sprintf("; bucket reads {%s}", o.data.String()))
		}
		if !survived && !lost && !other {
			n := 0
			for i, sd := range mPool {
				has := !sc.matches(i)
				if has {
					n++
				}
				if has && !o.listed[sd.key] {
					add("series-with-data-not-listed", fmt.Sprintf("series %s has points but SHOW SERIES lists %s%s", sd.key, setStr(o.listed), diag))
				}
				if !has && o.listed[sd.key] {
					add("series-listed-without-data", fmt.Sprintf("series %s has no point left but SHOW SERIES lists %s%s", sd.key, setStr(o.listed), diag))
				}
			}
			if int(o.card) != n {
				cl := "series-listed-without-data"
				if int(o.card) < n {
					cl = "series-with-data-not-listed"
				}
				add(cl, fmt.Sprintf("Store.SeriesCardinality = %d but %d series have points%s", o.card, n, diag))
			}
		}
		calls := 0
		if hp != nil {
			calls = hp.calls
		}
		res.outcome = fmt.Sprintf("multi-shard/%s/shards=%d/matches-calls=%d/concurrent-use=%v/final=%s", sc.Pred, sc.Shards, calls, hp != nil && hp.overlap, strings.Join(got, ""))
		x.Outcome = res.outcome
		closeF()
	}}
	defer runtime.GOMAXPROCS(runtime.GOMAXPROCS(1))
	r := vrt.RunOnce(t, h, prefix)
	if schedDebug && os.Getenv("C17_SCHED_DEBUG") == "steps" {
		for i, s := range r.Steps {
			fmt.Fprintf(os.Stderr, "%4d T%d %-70s en=%v c=%d\n", i, s.Thread, s.Label, s.Enabled, s.Choice)
		}
		fmt.Fprintf(os.Stderr, "names=%v outcome=%s verdicts=%v diverged=%q\n", r.Names, res.outcome, res.verdicts, r.Diverged)
	}
	return r, res
}

func mscenarios() []MScenario {
	var out []MScenario
	for _, n := range []int{2, 3} {
		for _, lay := range []string{"cache", "tsm"} {
			for _, p := range []string{"tag-eq", "measurement+tag-eq", "tag-ne"} {
				out = append(out, MScenario{lay, n, p})
			}
		}
	}
	return out
}

func msig(sc MScenario, clause string) string {
	return vlib.JoinSig("shards", clause, "one-delete-over-several-shards", "pred="+sc.Pred, "layout="+sc.Layout)
}

// exploreMulti: every schedule of the scenario with ≤ bound preemptions at the predicate's hook points (DFS, not
// sub-sharded: a scenario belongs to one worker).
func exploreMulti(t *testing.T, sc MScenario, bound int, stop func() bool, visit func(*vrt.Result, sresult)) (st vrt.Stats) {
	st = vrt.Stats{Bound: bound, Complete: true}
	var rec func(prefix []int)
	rec = func(prefix []int) {
		if stop() {
			st.Complete = false
			return
		}
		x, res := runMulti(t, sc, prefix)
		st.Executions++
		st.Transitions += int64(len(x.Steps))
		visit(x, res)
		if x.Diverged != "" {
			return
		}
		pre := 0
		for i := 0; i < len(x.Steps); i++ {
			sp := x.Steps[i]
			if i >= len(prefix) {
				if len(sp.Enabled) > 1 {
					st.Nodes++
				}
				for alt := 1; alt < len(sp.Enabled); alt++ {
					if pre+sp.Costs[alt] > bound {
						continue
					}
					rec(append(append([]int{}, x.Choices[:i]...), alt))
				}
			}
			if sp.Preempt {
				pre++
			}
		}
	}
	rec(nil)
	return st
}

func runMultiShard(t *testing.T, c *vlib.Ctx, stop func() bool) {
	scs := mscenarios()
	c.Note("multi_shard_scenarios", fmt.Sprint(len(scs)))
	for si, sc := range scs {
		if !c.Mine(int64(si)) {
			continue
		}
		if stop() {
			c.Cap("budget share of part 3 expired before all multi-shard scenarios were explored")
			return
		}
		st := exploreMulti(t, sc, 2, stop, func(r *vrt.Result, res sresult) {
			c.Eval(1)
			c.NontrivialN(1) // every execution deletes ≥ 1 point in ≥ 2 shards
			if r.Diverged != "" {
				c.HarnessError(sc.String() + ": " + r.Diverged)
				return
			}
			c.Outcome("schedule/" + res.outcome)
			for _, v := range res.verdicts {
				p := strings.SplitN(v, "|", 2)
				if p[0] == "harness" {
					c.HarnessError(sc.String() + ": " + p[1])
					continue
				}
				scc := sc
				cs := MCase{M: &scc, Choices: r.Choices, Sig: msig(sc, p[0])}
				for _, s := range r.Steps {
					if len(s.Enabled) > 1 || strings.HasPrefix(s.Label, "pred:") {
						cs.Trace = append(cs.Trace, fmt.Sprintf("T%d %s", s.Thread, s.Label))
					}
				}
				c.Violation(cs.Sig, sc.String()+": "+p[1], cs)
			}
			if c.WantSample() {
				c.Sample(map[string]any{"scenario": sc.String(), "schedule_len": len(r.Choices), "outcome": res.outcome})
			}
		})
		if !st.Complete {
			c.Cap("budget share of part 3 expired inside multi-shard scenario " + sc.String())
		}
		c.StateN(st.Nodes)
		c.Transition(st.Transitions)
		c.Trace(st.Executions)
	}
}

func replayMulti(t *testing.T, raw json.RawMessage) (bool, string) {
	var cs MCase
	if err := json.Unmarshal(raw, &cs); err != nil || cs.M == nil {
		return false, "bad case"
	}
	r, res := runMulti(t, *cs.M, cs.Choices)
	if r.Diverged != "" {
		return false, "diverged: " + r.Diverged
	}
	var v []string
	bad := false
	for _, x := range res.verdicts {
		p := strings.SplitN(x, "|", 2)
		if p[0] == "harness" {
			continue
		}
		if cs.Sig == "" || msig(*cs.M, p[0]) == cs.Sig {
			bad = true
			v = append(v, "VIOLATED "+x)
		} else {
			v = append(v, "(other class) "+x)
		}
	}
	return bad, cs.M.String() + "\n" + strings.Join(v, "\n") + "\noutcome=" + res.outcome
}

var rule = "PART 1 (histories; real storage.Engine.DeleteBucketRangePredicate → tsdb.Store.DeleteSeriesWithPredicate as POST /api/v2/delete calls it, mini fixture). " +
	"Series pool m0{a=x}, m0{a=y,b=z}, m1{a=x,b=z}, m1{a=y}; fields f0(float) f1(integer), field layout fixed per series (m0{a=x}: both fields on every slot; m0{a=y,b=z}: f0 on even, f1 on odd slots; m1{a=x,b=z}: f0; m1{a=y}: f1); 4 time slots B+10, B+1h-1 | B+1h, B+1h+10 in two 1h shard groups; layouts cache / tsm (one TSM file per shard) / mixed (even slots TSM, odd slots cache). " +
	"Datasets: every series absent / shard A only / shard B only / both (255 sets). Deletes = ranges × predicates, complete product: ranges quick {all, [t1,t1], [t1,t2] across the boundary, [t0,t1] one shard, [t0+1,t3-1], empty [t0+1,t1-1]} + thorough {[t2,t2], [t2,t3], [t2,MaxNanoTime], inverted [t2,t1]}; predicates quick {none, _measurement=m0, a=x, b=z, m0 AND a=y, m1 AND a=x, _measurement=m1, a!=x} + thorough {a=y, m0 AND a=x, a=x AND b=z, _measurement=mz (absent), m0 AND a=q (no match), _measurement!=m0, _measurement!=m1, m1 AND a!=x}. " +
	"Depth 1: quick = the full set (4 series in both shards) × 3 layouts + the 4 sets with 3 series in both shards and the sets [A,both,B,both], [both,B,A,A] in layout mixed = 9 datasets × 48 deletes; thorough = all 255 sets, set i in layout (cache,tsm,mixed)[i mod 3], the 15 sets whose series are all in both shards in all 3 layouts = 285 datasets × 160 deletes. " +
	"Depth ≥2 on the full dataset: delete ; mid ; delete for every ordered pair of a reduced delete family (quick 3 ranges × 4 predicates = 12, thorough 5 × 5 = 25) × mid ∈ {nothing, rewrite all points with new values} (quick, layout mixed) + {rewrite+snapshot} (thorough, 3 layouts). After EVERY operation: ReadFilter of the whole bucket and of each shard-group range, Store.MeasurementNames / TagKeys / TagValues (with and without a WHERE filter) / SeriesCardinality, InfluxQL SHOW SERIES / SHOW MEASUREMENTS, reads.Store TagKeys / TagValues(_measurement, a, b) for the whole bucket and per shard-group range, all compared with the statement's model. evaluations = verified operations; non-trivial = deletes that remove ≥1 point. " +
	"PART 2 (schedules; vsched, every tsdb/tsm1/tsi1 file that uses sync compiled against the modelled primitives). One shard holding s0=m0{a=x} (1 or 2 points) and s1=m0{a=y,b=z}; thread 1 = bucket delete `_measurement=m0 AND a=x` over [B,B+10] or everything (Engine.DeleteBucketRangePredicate), thread 2 = Store.WriteToShard of one point: other-series (s1 in range), match-out (s0 outside the range), match-in (s0 in range), new-match-in (new series m0{a=x,c=n} in range); layouts cache / tsm: quick 11 scenarios, thorough 28. EVERY schedule with ≤ B preemptions (B=1 quick; thorough B=2 for the 14 cache-layout scenarios and the 4 tsm scenarios with one point and range [B,B+10], B=1 for the other 10; a switch when the running thread blocks or ends is free) branching at the sync/atomic operations of Store, epochTracker, guard, Shard, tsm1.Engine, tsm1.Cache is executed; afterwards the bucket is read and SHOW SERIES / SeriesCardinality / MeasurementNames queried. Non-conflicting writes: final state = delete and write both applied, and the writer never parks in guard.Wait; conflicting writes: final state = one of the two orders (the real-time order when the calls do not overlap), and a series is listed iff it has data. states = decision nodes, transitions = scheduling steps, traces = executions. " +
	"PART 3 (one delete over several shards; vsched). 2 or 3 identical shard groups each holding one point of m0{a=x}, m0{a=y}, m1{a=x}; layouts cache / tsm; ONE bucket delete over all time with predicate a=x, _measurement=m0 AND a=x, or a!=x (12 scenarios, both tiers) through Engine.DeleteBucketRangePredicate; the store's own per-shard delete goroutines (walkShards) are scheduler threads. The real compiled predicate is passed wrapped in a harness predicate whose Matches keeps the key being matched in the wrapper object, passes a hook point and then lets the real predicate evaluate the stored key (single-goroutine or Clone'd use = the real predicate; simultaneous use by two goroutines mixes up their keys, like the real matcher's per-key state). EVERY schedule with ≤ 2 preemptions at those hook points is executed (one execution per scenario as long as the store serialises its per-shard deletes); afterwards every shard must hold exactly the points of the non-matching series, and SHOW SERIES / SeriesCardinality list exactly the series with data."

var assumptions = []string{
	"delete range is inclusive on both ends ([min,max], as tsm1.Engine.DeleteSeriesRange documents); a delete predicate selects series by measurement and tags only (delete by field is rejected by the API)",
	"`!=` delete predicates are only used on keys that every series of the pool carries (no three-valued cases)",
	"a series returned by a read with an EMPTY cursor is not judged (C21); order and duplicates of listings are not judged (C42): listings are compared as sets",
	"metadata queries restricted to one shard group's time range: only data ⇒ listed is demanded; a name whose data lives only in the other shard may or may not be listed",
	"a write 'does not conflict' with a delete iff its point is outside the delete's time range or its series does not match the delete's predicate",
	"part 2: sequentially consistent interleavings at the granularity of the modelled mutex/atomic operations; branching only at Store/epochTracker/guard/Shard/Engine/Cache operations (the pure loads of IsIdle / Cache.Size / Cache.init and all other locks are passed silently when free); the writer enters at tsdb.Store.WriteToShard (what coordinator.PointsWriter calls per shard), not through the PointsWriter's goroutine + timeout timer",
	"part 3: a compiled delete predicate (influxdb.Predicate) is not safe for use by two goroutines at once (the tsm1 predicateMatcher keeps generation counter, tag slots and memoised node results in the object; the interface offers Clone); the harness makes that visible to the cooperative scheduler – which cannot preempt inside the real Matches, as it contains no synchronisation operation – by wrapping the real compiled predicate: the wrapper holds the key between a hook point and the real evaluation. 'Predicate used by two goroutines at once' is only a diagnostic in the message; the violation is always a wrong delete result. The shards of a scenario are identical up to their time offset and are reported without their identity (the store visits its shards in map order)",
	"background compactions/retention are off (mini fixture); the level-compaction goroutine that DeleteSeriesRange starts has nothing to do with < 4 TSM files per shard",
}

const quickBudgetS, thoroughBudgetS = 60, 1300

func TestCheck(t *testing.T) {
	vlib.Main(t, &vlib.Check{
		ID: "C17", Level: level,
		Rule:         rule,
		Assumptions:  assumptions,
		QuickBudgetS: quickBudgetS, ThoroughBudgetS: thoroughBudgetS,
		WorkerEnv: []string{"GOMAXPROCS=1"},
		Run: func(c *vlib.Ctx) {
			part := os.Getenv("C17_PART") // debugging aid: "hist" or "sched" runs only that part
			// parts 3 and 2 (schedules) first, with at most 55% of the wall budget together; part 1 gets the rest
			budget := time.Duration(quickBudgetS) * time.Second
			if c.Thorough() {
				budget = time.Duration(thoroughBudgetS) * time.Second
			}
			if v, err := strconv.Atoi(os.Getenv("VERIF_BUDGET_S")); err == nil && v > 0 {
				budget = time.Duration(v) * time.Second
			}
			// part 3 (one delete over several shards): a scenario is one execution unless the store runs its per-shard
			// deletes concurrently; at most 25% of the wall budget
			t0 := time.Now()
			multiDeadline := t0.Add(budget * 25 / 100)
			if part == "" || part == "multi" {
				runMultiShard(t, c, func() bool { return c.Expired() || time.Now().After(multiDeadline) })
			}
			if part == "multi" {
				return
			}
			schedDeadline := t0.Add(budget * 55 / 100)
			if part != "hist" {
				runSchedules(t, c, func() bool { return c.Expired() || time.Now().After(schedDeadline) })
			}
			var idx int64
			done, capped := 0, false
			historyCases(c.Thorough(), func(cs Case) {
				idx++
				if !c.Mine(idx) || capped || part == "sched" {
					return
				}
				if c.Expired() {
					c.Cap(fmt.Sprintf("wall budget: history cases are visited simplest-first; this shard completed %d of its cases", done))
					capped = true
					return
				}
				steps, err := runCase(cs)
				if err != nil {
					c.HarnessError(describe(cs) + ": " + err.Error())
					return
				}
				report(c, cs, steps)
				done++
				if c.WantSample() && len(steps) > 0 && steps[len(steps)-1].removed > 0 && steps[len(steps)-1].dropped > 0 {
					c.Sample(map[string]any{"case": cs, "points_removed": steps[len(steps)-1].removed, "series_emptied": steps[len(steps)-1].dropped})
				}
			})
			c.Note("history_cases_total", fmt.Sprint(idx))
		},
		Replay: func(c *vlib.Ctx, raw json.RawMessage) (bool, string) {
			var probe struct {
				Scenario *json.RawMessage `json:"scenario"`
				Multi    *json.RawMessage `json:"multi_shard"`
			}
			if json.Unmarshal(raw, &probe) == nil && probe.Multi != nil {
				return replayMulti(t, raw)
			}
			if json.Unmarshal(raw, &probe) == nil && probe.Scenario != nil {
				return replaySchedule(t, raw)
			}
			return replayHistory(raw)
		},
	})
}
