// C05: compaction plans never reorder data or double-book files.
//
// Three parts, all on the REAL tsm1.DefaultPlanner (compact.go):
//
//  1. inputs × call orders (explicit-state BFS): for every fake file store of a bounded family (generations
//     with level / file count / size / first-block count / tombstone attributes) the planner's state space
//     (set of handed-out groups, forceFull flag) is explored to CLOSURE under the operations
//     PlanLevel(1..4), Plan(hot|cold), PlanOptimize(hot|cold), ForceFull and Release(one held group); every
//     in-use set is obtained by really acquiring earlier plans. Every returned group is judged by judge().
//  2. schedules (vsched): two threads run planner calls concurrently on the shimmed DefaultPlanner.mu
//     (compact.go compiled against the modelled sync); every schedule with ≤ B preemptions; same judge on
//     every group against all groups held at the moment the call returns.
//  3. end-to-end witness on a real tsm1.Engine (tsi1, series file, WAL): the engine's own PlanCompactions on a
//     cold shard, the engine's own compaction strategies applied to what it planned, reads compared with a
//     map model. A stale read here demonstrates that a non-contiguous group is not harmless.
package c05

import (
	"context"
	"encoding/json"
	"fmt"
	"os"
	"path/filepath"
	"sort"
	"strings"
	"testing"
	"time"

	"github.com/influxdata/influxdb/v2/models"
	"github.com/influxdata/influxdb/v2/pkg/verifrt/vrt"
	"github.com/influxdata/influxdb/v2/tsdb"
	"github.com/influxdata/influxdb/v2/tsdb/engine/tsm1"
	_ "github.com/influxdata/influxdb/v2/tsdb/index/tsi1"
	"github.com/influxdata/influxql"
	"verif/h/vlib"
)

// ---------------------------------------------------------------------------------------------------
// fake file store
// ---------------------------------------------------------------------------------------------------

const (
	szSmall = uint32(64 << 20)
	szHalf  = uint32(3 << 29)       // 1.5 GB: two of them exceed MaxTSMFileSize, one does not
	szExact = uint32(1 << 31)       // == tsdb.MaxTSMFileSize
	szBig   = uint32(1<<31 + 65536) // > tsdb.MaxTSMFileSize
)

type File struct {
	Size uint32 `json:"size"`
	FBC  int    `json:"first_block_count"`
}

// Gen is one TSM generation of the fake store. Level is the sequence number of its first file (1..4).
type Gen struct {
	Level int    `json:"level"`
	Tomb  bool   `json:"tomb,omitempty"`
	Files []File `json:"files"`
}

type Store []Gen

func (s Store) String() string {
	var b strings.Builder
	for i, g := range s {
		if i > 0 {
			b.WriteByte(' ')
		}
		fmt.Fprintf(&b, "g%d:L%d", i+1, g.Level)
		if g.Tomb {
			b.WriteString("+tomb")
		}
		var tot uint64
		for _, f := range g.Files {
			tot += uint64(f.Size)
		}
		if len(g.Files) != 1 || g.Files[0].Size != szSmall {
			fmt.Fprintf(&b, "(%df,%dMB,fbc=%d)", len(g.Files), tot>>20, g.Files[0].FBC)
		}
	}
	return b.String()
}

type layout struct {
	stats []tsm1.ExtFileStat
	genOf map[string]int // path -> generation index
	pos   map[string]int // path -> position in the store's file order
	files [][]string     // generation index -> paths
	size  []uint64
}

func mkLayout(s Store) *layout {
	l := &layout{genOf: map[string]int{}, pos: map[string]int{}}
	for gi, g := range s {
		var fs []string
		var tot uint64
		for fi, f := range g.Files {
			id, seq := gi+1, g.Level+fi
			p := fmt.Sprintf("%09d-%09d.tsm", id, seq)
			st := tsm1.ExtFileStat{FileStat: tsm1.FileStat{Path: p, Size: f.Size, Generation: id, Sequence: seq, HasTombstone: g.Tomb && fi == 0}, FirstBlockCount: f.FBC}
			l.stats = append(l.stats, st)
			l.genOf[p] = gi
			l.pos[p] = len(l.pos)
			fs = append(fs, p)
			tot += uint64(f.Size)
		}
		l.files = append(l.files, fs)
		l.size = append(l.size, tot)
	}
	return l
}

// fakeFS implements the (unexported) tsm1 fileStore interface the planner plans against.
type fakeFS struct{ stats []tsm1.ExtFileStat }

func (f *fakeFS) Stats() []tsm1.ExtFileStat { return f.stats }

// LastModified: always newer than the planner's lastPlanCheck, so that the "nothing changed since the last plan"
// shortcut of Plan (which only suppresses plans and has no side effect) never hides a plan.
func (f *fakeFS) LastModified() time.Time                    { return time.Unix(1<<40, 0) }
func (f *fakeFS) ParseFileName(p string) (int, int, error)   { return tsm1.DefaultParseFileName(p) }
func (f *fakeFS) NextGeneration() int                        { return 1 << 20 }
func (f *fakeFS) TSMReader(string) (*tsm1.TSMReader, error)  { return nil, nil }
func (f *fakeFS) SupportsCompactionPlanning() bool           { return true }
func newPlanner(l *layout) *tsm1.DefaultPlanner {
	return tsm1.NewDefaultPlanner(&fakeFS{stats: l.stats}, 4*time.Hour)
}

// ---------------------------------------------------------------------------------------------------
// operations
// ---------------------------------------------------------------------------------------------------

type Op struct {
	K     string   `json:"op"` // PlanLevel | Plan | PlanOptimize | ForceFull | Release | ReleaseMine | ReleaseSetup
	Level int      `json:"level,omitempty"`
	Cold  bool     `json:"cold,omitempty"`
	Group []string `json:"group,omitempty"`
}

func (o Op) String() string {
	t := "hot"
	if o.Cold {
		t = "cold"
	}
	switch o.K {
	case "PlanLevel":
		return fmt.Sprintf("PlanLevel(%d)", o.Level)
	case "Plan", "PlanOptimize":
		return o.K + "(" + t + ")"
	case "Release":
		return "Release(" + strings.Join(short(o.Group), ",") + ")"
	}
	return o.K
}

func short(g []string) []string {
	out := make([]string, len(g))
	for i, f := range g {
		var gen, seq int
		fmt.Sscanf(filepath.Base(f), "%d-%d.tsm", &gen, &seq)
		out[i] = fmt.Sprintf("%d-%02d", gen, seq)
	}
	return out
}

func lastWrite(cold bool) time.Time {
	if cold {
		return time.Unix(0, 0)
	}
	return time.Now().Add(time.Hour)
}

func apply(p *tsm1.DefaultPlanner, gens tsm1.TsmGenerations, o Op) []tsm1.CompactionGroup {
	switch o.K {
	case "PlanLevel":
		g, _ := p.PlanLevel(gens, o.Level)
		return g
	case "Plan":
		g, _ := p.Plan(gens, lastWrite(o.Cold))
		return g
	case "PlanOptimize":
		g, _, _ := p.PlanOptimize(gens, lastWrite(o.Cold))
		return g
	case "ForceFull":
		p.ForceFull()
	case "Release":
		p.Release([]tsm1.CompactionGroup{o.Group})
	}
	return nil
}

var planOps = []Op{
	{K: "PlanLevel", Level: 1}, {K: "PlanLevel", Level: 2}, {K: "PlanLevel", Level: 3}, {K: "PlanLevel", Level: 4},
	{K: "Plan"}, {K: "Plan", Cold: true}, {K: "PlanOptimize"}, {K: "PlanOptimize", Cold: true}, {K: "ForceFull"},
}

// ---------------------------------------------------------------------------------------------------
// the oracle: the property statement, transcribed
// ---------------------------------------------------------------------------------------------------

type verdict struct{ sig, msg string }

// lazyGroup formats a group only when a message is really built.
type lazyGroup []string

func (g lazyGroup) String() string { return strings.Join(short(g), ",") }

// judge checks the groups one planner call returned against the store and the groups held at that moment:
// every group is (a) made of files of the store, each at most once, (b) disjoint from every other held or
// simultaneously returned group, (c) made of whole generations, (d) an interval of the store's generation order
// (no live generation strictly between two members is left out), (e) listed in ascending file order.
func judge(l *layout, held [][]string, op string, groups []tsm1.CompactionGroup) []verdict {
	if len(groups) == 0 {
		return nil
	}
	var out []verdict
	seen := map[string]bool{}
	add := func(sig, msg string) {
		if !seen[sig] {
			seen[sig] = true
			out = append(out, verdict{sig, msg})
		}
	}
	opk := op
	if i := strings.IndexByte(opk, '('); i >= 0 {
		opk = opk[:i]
	}
	heldFile := map[string]bool{}
	for _, g := range held {
		for _, f := range g {
			heldFile[f] = true
		}
	}
	inCall := map[string]int{}
	for gi, g := range groups {
		gs := lazyGroup(g)
		if len(g) == 0 {
			add("empty-group/"+opk, fmt.Sprintf("%s returned an empty group", op))
			continue
		}
		gens := map[int]bool{}
		inGroup := map[string]bool{}
		unknown := false
		for _, f := range g {
			idx, ok := l.genOf[f]
			if !ok {
				add("unknown-file/"+opk, fmt.Sprintf("%s returned group {%s} with a file that is not in the store", op, gs))
				unknown = true
				continue
			}
			if inGroup[f] {
				add("double-booked/within-group/"+opk, fmt.Sprintf("%s returned group {%s} listing a file twice", op, gs))
			}
			inGroup[f] = true
			if prev, dup := inCall[f]; dup && prev != gi {
				add("double-booked/same-call/"+opk, fmt.Sprintf("%s returned two groups sharing file %s", op, short([]string{f})[0]))
			}
			inCall[f] = gi
			if heldFile[f] {
				add("double-booked/held-group/"+opk, fmt.Sprintf("%s returned group {%s} whose file %s belongs to a group that is still held", op, gs, short([]string{f})[0]))
			}
			gens[idx] = true
		}
		if unknown {
			continue
		}
		lo, hi := len(l.files), -1
		for k := range gens {
			if k < lo {
				lo = k
			}
			if k > hi {
				hi = k
			}
		}
		for k := lo; k <= hi; k++ {
			if !gens[k] {
				continue
			}
			for _, f := range l.files[k] {
				if !inGroup[f] {
					add("partial-generation/"+opk, fmt.Sprintf("%s returned group {%s} with only some files of generation %d", op, gs, k+1))
				}
			}
		}
		kinds := map[string]bool{}
		var gaps []string
		for k := lo + 1; k < hi; k++ {
			if gens[k] {
				continue
			}
			kind := "other"
			for _, f := range l.files[k] {
				if heldFile[f] {
					kind = "in-use"
				}
			}
			if kind == "other" && l.size[k] >= uint64(szExact) {
				kind = "oversized"
			}
			kinds[kind] = true
			gaps = append(gaps, fmt.Sprintf("g%d(%s)", k+1, kind))
		}
		if len(gaps) > 0 {
			// one class per cause, the strongest cause present wins: in-use > oversized > other
			k := "other"
			if kinds["in-use"] {
				k = "in-use"
			} else if kinds["oversized"] {
				k = "oversized"
			}
			add("non-contiguous-group/"+opk+"/skipped="+k,
				fmt.Sprintf("%s returned group {%s} which leaves out live generation(s) %s lying between its members: compacting it moves the older data behind the skipped generation(s)", op, gs, strings.Join(gaps, ",")))
		}
		for i := 1; i < len(g); i++ {
			if l.pos[g[i-1]] > l.pos[g[i]] {
				add("files-out-of-order/"+opk, fmt.Sprintf("%s returned group {%s} whose files are not in ascending (generation, sequence) order", op, gs))
				break
			}
		}
	}
	return out
}

// ---------------------------------------------------------------------------------------------------
// part 1: BFS of the planner state space per store
// ---------------------------------------------------------------------------------------------------

type node struct {
	held  [][]string
	ff    bool
	path  []Op
	depth int
}

func heldKey(held [][]string, ff bool) string {
	var b strings.Builder
	if ff {
		b.WriteString("FF|")
	}
	for _, g := range held {
		b.WriteString(strings.Join(g, ","))
		b.WriteByte(';')
	}
	return b.String()
}

func sortHeld(h [][]string) {
	sort.Slice(h, func(i, j int) bool { return strings.Join(h[i], ",") < strings.Join(h[j], ",") })
}

func nfiles(h [][]string) int {
	n := 0
	for _, g := range h {
		n += len(g)
	}
	return n
}

// SeqCase is a replayable case of part 1.
type SeqCase struct {
	Kind  string `json:"kind"` // "seq"
	Store Store  `json:"store"`
	Path  []Op   `json:"path"`
	Op    Op     `json:"op"`
}

// step applies one op on the planner and the model; returns the groups and the verdicts.
func step(l *layout, p *tsm1.DefaultPlanner, gens tsm1.TsmGenerations, held [][]string, ff bool, o Op) (groups []tsm1.CompactionGroup, nheld [][]string, nff bool, vs []verdict) {
	groups = apply(p, gens, o)
	if len(groups) == 0 && o.K != "ForceFull" && o.K != "Release" && !(o.K == "Plan" && ff) {
		return nil, held, ff, nil // nothing returned, model state unchanged
	}
	nheld = append([][]string{}, held...)
	nff = ff
	switch o.K {
	case "ForceFull":
		nff = true
	case "Release":
		k := strings.Join(o.Group, ",")
		for i, g := range nheld {
			if strings.Join(g, ",") == k {
				nheld = append(nheld[:i:i], nheld[i+1:]...)
				break
			}
		}
	default:
		if o.K == "Plan" {
			nff = false
		}
		vs = judge(l, held, o.String(), groups)
		for _, g := range groups {
			nheld = append(nheld, append([]string{}, g...))
		}
		sortHeld(nheld)
	}
	return
}

type bfsStats struct {
	states, transitions int64
	maxDepth            int
	live                map[string]bool // ops that returned ≥1 group in some reachable state
	liveRoot            map[string]bool // ... in the initial state
	capped              bool
}

var planOpNames = func() []string {
	out := make([]string, len(planOps))
	for i, o := range planOps {
		out[i] = o.String()
	}
	return out
}()

// modelBroken: verdicts after which the harness' model of the held set is no longer meaningful.
func modelBroken(vs []verdict) bool {
	for _, v := range vs {
		if !strings.HasPrefix(v.sig, "non-contiguous-group/") && !strings.HasPrefix(v.sig, "files-out-of-order/") {
			return true
		}
	}
	return false
}

const maxStatesPerStore = 3000

// bfs explores the planner states reachable for one store. report (may be nil) receives each transition.
func bfs(s Store, report func(nd *node, oi int, o Op, groups []tsm1.CompactionGroup, vs []verdict)) bfsStats {
	l := mkLayout(s)
	st := bfsStats{live: map[string]bool{}, liveRoot: map[string]bool{}}
	build := func(path []Op) (*tsm1.DefaultPlanner, tsm1.TsmGenerations) {
		p := newPlanner(l)
		gens := p.FindGenerations()
		for _, o := range path {
			apply(p, gens, o)
		}
		return p, gens
	}
	root := &node{}
	seen := map[string]bool{heldKey(nil, false): true}
	queue := []*node{root}
	for len(queue) > 0 {
		nd := queue[0]
		queue = queue[1:]
		st.states++
		if nd.depth > st.maxDepth {
			st.maxDepth = nd.depth
		}
		ops := append([]Op{}, planOps...)
		for _, g := range nd.held {
			ops = append(ops, Op{K: "Release", Group: g})
		}
		p, gens := build(nd.path)
		here := heldKey(nd.held, nd.ff)
		nhere := nfiles(nd.held)
		for oi, o := range ops {
			if p == nil {
				p, gens = build(nd.path)
			}
			groups, nheld, nff, vs := step(l, p, gens, nd.held, nd.ff, o)
			st.transitions++
			if len(groups) > 0 {
				st.live[planOpNames[oi]] = true
				if nd.depth == 0 {
					st.liveRoot[planOpNames[oi]] = true
				}
			}
			if report != nil {
				report(nd, oi, o, groups, vs)
			}
			k := here
			if len(groups) > 0 || nff != nd.ff || len(nheld) != len(nd.held) {
				k = heldKey(nheld, nff)
			}
			if k != here || p.InUseCount() != nhere {
				p = nil // the planner left this state: rebuild it for the next op
			}
			if modelBroken(vs) || k == here || seen[k] {
				continue
			}
			if len(seen) >= maxStatesPerStore {
				st.capped = true
				continue
			}
			seen[k] = true
			queue = append(queue, &node{held: nheld, ff: nff, path: append(append([]Op{}, nd.path...), o), depth: nd.depth + 1})
		}
	}
	return st
}

func replaySeq(cs SeqCase) (bool, string) {
	l := mkLayout(cs.Store)
	p := newPlanner(l)
	gens := p.FindGenerations()
	var held [][]string
	ff := false
	var log []string
	for _, o := range cs.Path {
		var groups []tsm1.CompactionGroup
		groups, held, ff, _ = step(l, p, gens, held, ff, o)
		log = append(log, o.String()+"->"+fmtGroups(groups))
	}
	groups, _, _, vs := step(l, p, gens, held, ff, cs.Op)
	log = append(log, cs.Op.String()+"->"+fmtGroups(groups))
	var msgs []string
	for _, v := range vs {
		msgs = append(msgs, v.sig+": "+v.msg)
	}
	return len(vs) > 0, fmt.Sprintf("store [%s]; calls: %s; verdicts: %s", cs.Store, strings.Join(log, " ; "), strings.Join(msgs, " | "))
}

func fmtGroups(gs []tsm1.CompactionGroup) string {
	if len(gs) == 0 {
		return "none"
	}
	var parts []string
	for _, g := range gs {
		parts = append(parts, "{"+strings.Join(short(g), ",")+"}")
	}
	return strings.Join(parts, "")
}

// ---------------------------------------------------------------------------------------------------
// store families
// ---------------------------------------------------------------------------------------------------

func shape(name string) []File {
	switch name {
	case "s":
		return []File{{szSmall, 500}}
	case "s2":
		return []File{{szSmall, 500}, {szSmall, 500}}
	case "B":
		return []File{{szBig, 1000}}
	case "b":
		return []File{{szBig, 999}}
	case "B2":
		return []File{{szHalf, 1000}, {szHalf, 1000}}
	case "E":
		return []File{{szExact, 1000}}
	}
	panic(name)
}

func kinds(name string) []Gen {
	var out []Gen
	for lv := 1; lv <= 4; lv++ {
		switch name {
		case "K8":
			out = append(out, Gen{lv, false, shape("s")}, Gen{lv, true, shape("s")})
		case "K16":
			out = append(out, Gen{lv, false, shape("s")}, Gen{lv, true, shape("s")}, Gen{lv, false, shape("B")}, Gen{lv, false, shape("s2")})
		case "K48":
			for _, sh := range []string{"s", "s2", "B", "b", "B2", "E"} {
				out = append(out, Gen{lv, false, shape(sh)}, Gen{lv, true, shape(sh)})
			}
		}
	}
	return out
}

type family struct {
	name       string
	minN, maxN int
	maxTomb    int // -1: no limit; else only lists with at most that many tombstoned generations
}

// singles: every single-generation store with 1..3 files, each file small/big × first-block count 500/1000/10000.
func singles() []Store {
	var out []Store
	fk := []File{}
	for _, sz := range []uint32{szSmall, szBig} {
		for _, fbc := range []int{500, 1000, 10000} {
			fk = append(fk, File{sz, fbc})
		}
	}
	for nf := 1; nf <= 3; nf++ {
		tot := 1
		for i := 0; i < nf; i++ {
			tot *= len(fk)
		}
		for x := 0; x < tot; x++ {
			fs := make([]File, nf)
			y := x
			for i := 0; i < nf; i++ {
				fs[i] = fk[y%len(fk)]
				y /= len(fk)
			}
			for lv := 1; lv <= 4; lv++ {
				out = append(out, Store{{lv, false, fs}}, Store{{lv, true, fs}})
			}
		}
	}
	return out
}

func families(thorough bool) []family {
	if thorough {
		return []family{{"K48", 2, 3, -1}, {"K16", 4, 4, -1}, {"K8", 5, 5, -1}, {"K8", 6, 6, 2}}
	}
	return []family{{"K48", 2, 2, -1}, {"K16", 3, 3, -1}, {"K8", 4, 4, -1}, {"K8", 5, 5, 1}}
}

func familyText(thorough bool) string {
	var p []string
	for _, f := range families(thorough) {
		lim := ""
		if f.maxTomb >= 0 {
			lim = fmt.Sprintf(" with ≤%d tombstoned generation(s)", f.maxTomb)
		}
		p = append(p, fmt.Sprintf("%s^n for n=%d..%d%s", f.name, f.minN, f.maxN, lim))
	}
	return strings.Join(p, ", ")
}

// forEachStore enumerates the stores simplest first; f returns false to stop.
func forEachStore(thorough bool, f func(s Store) bool) {
	for _, s := range singles() {
		if !f(s) {
			return
		}
	}
	for _, fam := range families(thorough) {
		ks := kinds(fam.name)
		for n := fam.minN; n <= fam.maxN; n++ {
			od := make([]int, n)
			for {
				s := make(Store, n)
				tombs := 0
				for i := range od {
					s[i] = ks[od[i]]
					if s[i].Tomb {
						tombs++
					}
				}
				if (fam.maxTomb < 0 || tombs <= fam.maxTomb) && !f(s) {
					return
				}
				i := n - 1
				for ; i >= 0; i-- {
					od[i]++
					if od[i] < len(ks) {
						break
					}
					od[i] = 0
				}
				if i < 0 {
					break
				}
			}
		}
	}
}

// ---------------------------------------------------------------------------------------------------
// part 2: schedules
// ---------------------------------------------------------------------------------------------------

type Prog struct {
	Name string `json:"name"`
	Ops  []Op   `json:"ops"`
}

type SchedCase struct {
	Kind    string   `json:"kind"` // "sched"
	Store   Store    `json:"store"`
	Setup   []Op     `json:"setup,omitempty"`
	Progs   []Prog   `json:"threads"`
	Choices []int    `json:"schedule,omitempty"`
	Trace   []string `json:"trace,omitempty"`
}

func (sc SchedCase) String() string {
	var p []string
	for _, pr := range sc.Progs {
		var o []string
		for _, op := range pr.Ops {
			o = append(o, op.String())
		}
		p = append(p, pr.Name+"["+strings.Join(o, ";")+"]")
	}
	su := ""
	if len(sc.Setup) > 0 {
		su = "after " + sc.Setup[0].String() + ": "
	}
	return fmt.Sprintf("store [%s]: %s%s", sc.Store, su, strings.Join(p, " || "))
}

type schedResult struct {
	verdicts []verdict
	outcome  string
	harness  string
}

func schedHarness(sc SchedCase, out *schedResult) *vrt.Harness {
	return &vrt.Harness{Name: sc.String(), Body: func(x *vrt.Exec) {
		*out = schedResult{}
		l := mkLayout(sc.Store)
		p := newPlanner(l)
		var held [][]string
		remove := func(g []string) {
			k := strings.Join(g, ",")
			for i, h := range held {
				if strings.Join(h, ",") == k {
					held = append(held[:i:i], held[i+1:]...)
					return
				}
			}
		}
		gens0 := p.FindGenerations()
		var setupGroups [][]string
		for _, o := range sc.Setup {
			gs := apply(p, gens0, o)
			out.verdicts = append(out.verdicts, judge(l, held, o.String(), gs)...)
			for _, g := range gs {
				held = append(held, g)
				setupGroups = append(setupGroups, g)
			}
		}
		got := make([][]string, len(sc.Progs))
		busy := make([]bool, len(sc.Progs)) // thread is inside a planner call (its acquisitions/releases are in flight)
		epoch := 0                          // bumped whenever the harness' books of held groups change
		for ti, pr := range sc.Progs {
			ti, pr := ti, pr
			x.Go(pr.Name, func() {
				var mine [][]string
				gens := p.FindGenerations()
				rel := func(g []string) {
					remove(g) // no longer protected from the moment Release is called
					epoch++
					busy[ti] = true
					p.Release([]tsm1.CompactionGroup{g})
					busy[ti] = false
					epoch++
				}
				for _, o := range pr.Ops {
					switch o.K {
					case "ReleaseMine":
						for _, g := range mine {
							rel(g)
						}
						mine = nil
					case "ReleaseSetup":
						for _, g := range setupGroups {
							rel(g)
						}
					default:
						busy[ti] = true
						e0 := epoch
						gs := apply(p, gens, o)
						busy[ti] = false
						otherBusy := epoch != e0
						for k := range busy {
							otherBusy = otherBusy || (k != ti && busy[k])
						}
						if len(gs) > 0 {
							epoch++
						}
						for _, v := range judge(l, held, o.String(), gs) {
							if otherBusy && strings.HasSuffix(v.sig, "skipped=other") {
								// the skipped generation is free in the harness' books only because the other thread acquired or
								// released it while this call was running (or is still in the middle of doing so)
								v.sig = strings.TrimSuffix(v.sig, "other") + "in-use"
								v.msg = strings.ReplaceAll(v.msg, "(other)", "(in use while the call was running)")
							}
							v.msg = pr.Name + ": " + v.msg
							out.verdicts = append(out.verdicts, v)
						}
						for _, g := range gs {
							held = append(held, g)
							mine = append(mine, g)
						}
						if o.K != "ForceFull" {
							got[ti] = append(got[ti], fmt.Sprintf("%s=%d", o.String(), len(gs)))
						}
					}
				}
			})
		}
		x.S.MaxSteps = 5000
		x.Run()
		if x.S.Deadlock {
			out.verdicts = append(out.verdicts, verdict{"deadlock", strings.Join(x.S.Blocked, "; ")})
		}
		if x.S.StepCap {
			out.harness = "step cap"
		}
		x.S.Drain()
		var o []string
		for ti := range got {
			o = append(o, strings.Join(got[ti], ","))
		}
		out.outcome = strings.Join(o, " || ")
		x.Outcome = out.outcome
	}}
}

func single(name string, o ...Op) Prog {
	return Prog{Name: name, Ops: append(append([]Op{}, o...), Op{K: "ReleaseMine"})}
}

func tick(name string, cold bool) Prog {
	return single(name, Op{K: "PlanLevel", Level: 1}, Op{K: "PlanLevel", Level: 2}, Op{K: "PlanLevel", Level: 3}, Op{K: "Plan", Cold: cold}, Op{K: "PlanOptimize", Cold: cold})
}

// schedConfigs lists the concurrent scenarios of one store (needs the store's sequential BFS result).
func schedConfigs(s Store, st bfsStats) []SchedCase {
	type named struct {
		key string
		ops []Op
	}
	cands := []named{
		{"PlanLevel(1)", []Op{{K: "PlanLevel", Level: 1}}}, {"PlanLevel(2)", []Op{{K: "PlanLevel", Level: 2}}}, {"PlanLevel(3)", []Op{{K: "PlanLevel", Level: 3}}},
		{"Plan(hot)", []Op{{K: "Plan"}}}, {"Plan(cold)", []Op{{K: "Plan", Cold: true}}}, {"PlanOptimize(cold)", []Op{{K: "PlanOptimize", Cold: true}}},
	}
	var live []named
	for _, c := range cands {
		if st.live[c.key] {
			live = append(live, c)
		}
	}
	if len(live) == 0 {
		return nil
	}
	// ForceFull followed by Plan behaves like the cold plan; it is live whenever Plan(cold) is or ≥2 generations are free
	if len(s) > 1 {
		live = append(live, named{"ForceFull;Plan(hot)", []Op{{K: "ForceFull"}, {K: "Plan"}}})
	}
	var out []SchedCase
	// (a) two planning threads, each plan → release
	for i, a := range live {
		for _, b := range live[i:] {
			out = append(out, SchedCase{Kind: "sched", Store: s, Progs: []Prog{single("A", a.ops...), single("B", b.ops...)}})
		}
	}
	// (b) a group acquired earlier is released by a compaction thread while another thread plans
	for _, su := range cands {
		if !st.liveRoot[su.key] {
			continue
		}
		for _, a := range live {
			out = append(out, SchedCase{Kind: "sched", Store: s, Setup: su.ops, Progs: []Prog{single("A", a.ops...), {Name: "R", Ops: []Op{{K: "ReleaseSetup"}}}}})
		}
	}
	// (c) the engine's planning round (planCompactionsInner order) against itself, a releaser, and ForceFull
	for _, cold := range []bool{true, false} {
		out = append(out, SchedCase{Kind: "sched", Store: s, Progs: []Prog{tick("T1", cold), tick("T2", true)}})
		out = append(out, SchedCase{Kind: "sched", Store: s, Progs: []Prog{tick("T1", cold), {Name: "F", Ops: []Op{{K: "ForceFull"}}}}})
		for _, su := range cands {
			if st.liveRoot[su.key] {
				out = append(out, SchedCase{Kind: "sched", Store: s, Setup: su.ops, Progs: []Prog{tick("T1", cold), {Name: "R", Ops: []Op{{K: "ReleaseSetup"}}}}})
			}
		}
	}
	return out
}

func forEachSchedStore(thorough bool, f func(s Store) bool) {
	maxN := 3
	if thorough {
		maxN = 4
	}
	ks := kinds("K8")
	for n := 1; n <= maxN; n++ {
		od := make([]int, n)
		for {
			s := make(Store, n)
			tombs := 0
			for i := range od {
				s[i] = ks[od[i]]
				if s[i].Tomb {
					tombs++
				}
			}
			if (n < 4 || tombs <= 1) && !f(s) {
				return
			}
			i := n - 1
			for ; i >= 0; i-- {
				od[i]++
				if od[i] < len(ks) {
					break
				}
				od[i] = 0
			}
			if i < 0 {
				break
			}
		}
	}
}

func replaySched(t *testing.T, cs SchedCase) (bool, string) {
	var res schedResult
	r := vrt.RunOnce(t, schedHarness(cs, &res), cs.Choices)
	if r.Diverged != "" {
		return false, "diverged: " + r.Diverged
	}
	var msgs []string
	for _, v := range res.verdicts {
		msgs = append(msgs, v.sig+": "+v.msg)
	}
	return len(res.verdicts) > 0, fmt.Sprintf("%s; outcome %s; verdicts: %s", cs.String(), res.outcome, strings.Join(msgs, " | "))
}

// ---------------------------------------------------------------------------------------------------
// part 3: end-to-end witness on the real engine
// ---------------------------------------------------------------------------------------------------

type idSets []*tsdb.SeriesIDSet

func (a idSets) ForEach(f func(ids *tsdb.SeriesIDSet)) error {
	for _, v := range a {
		f(v)
	}
	return nil
}

type eng struct {
	e     *tsm1.Engine
	root  string
	idx   tsdb.Index
	sfile *tsdb.SeriesFile
}

// openEng opens a real engine the way tsdb.Shard does, with the background snapshot/compaction loops off.
func openEng(root string) (*eng, error) {
	dbPath := filepath.Join(root, "data", "db0")
	if err := os.MkdirAll(dbPath, 0o777); err != nil {
		return nil, err
	}
	sfile := tsdb.NewSeriesFile(filepath.Join(dbPath, tsdb.SeriesFileDirectory))
	if err := sfile.Open(); err != nil {
		return nil, err
	}
	opt := tsdb.NewEngineOptions()
	opt.IndexVersion = tsdb.TSI1IndexName
	ids := tsdb.NewSeriesIDSet()
	opt.SeriesIDSets = idSets{ids}
	idx, err := tsdb.NewIndex(1, "db0", filepath.Join(dbPath, "index"), ids, sfile, opt)
	if err != nil {
		sfile.Close()
		return nil, err
	}
	if err := idx.Open(); err != nil {
		sfile.Close()
		return nil, err
	}
	e := tsm1.NewEngine(1, idx, filepath.Join(root, "data"), filepath.Join(root, "wal"), sfile, opt).(*tsm1.Engine)
	e.SetEnabled(false)
	if err := e.Open(context.Background()); err != nil {
		idx.Close()
		sfile.Close()
		return nil, err
	}
	if err := e.LoadMetadataIndex(1, idx); err != nil {
		e.Close(false)
		idx.Close()
		sfile.Close()
		return nil, err
	}
	return &eng{e: e, root: root, idx: idx, sfile: sfile}, nil
}

func (g *eng) close() { g.e.Close(false); g.idx.Close(); g.sfile.Close() }

const wSeries, wField = "cpu,host=a", "v"

func (g *eng) write(t int64, v float64) error {
	name, tags := models.ParseKey([]byte(wSeries))
	mp, err := models.NewPoint(name, tags, models.Fields{wField: v}, time.Unix(0, t))
	if err != nil {
		return err
	}
	f, created, err := g.e.MeasurementFields([]byte(name)).CreateFieldIfNotExists(wField, influxql.Float)
	if err != nil {
		return err
	}
	if created {
		ch := tsdb.FieldChanges{&tsdb.FieldChange{FieldCreate: tsdb.FieldCreate{Measurement: []byte(name), Field: f}, ChangeType: tsdb.AddMeasurementField}}
		if err := g.e.MeasurementFieldSet().Save(ch); err != nil {
			return err
		}
	}
	if err := g.e.CreateSeriesIfNotExists(mp.Key(), mp.Name(), mp.Tags()); err != nil {
		return err
	}
	return g.e.WritePoints(context.Background(), []models.Point{mp})
}

func (g *eng) read() (map[int64]float64, string, error) {
	name, tags := models.ParseKey([]byte(wSeries))
	ctx := context.Background()
	it, err := g.e.CreateCursorIterator(ctx)
	if err != nil {
		return nil, "", err
	}
	cur, err := it.Next(ctx, &tsdb.CursorRequest{Name: []byte(name), Tags: tags, Field: wField, Ascending: true, StartTime: models.MinNanoTime, EndTime: models.MaxNanoTime})
	if err != nil {
		return nil, "", err
	}
	out := map[int64]float64{}
	var sb strings.Builder
	if cur == nil {
		return out, "", nil
	}
	defer cur.Close()
	fc, ok := cur.(tsdb.FloatArrayCursor)
	if !ok {
		return nil, "", fmt.Errorf("cursor of type %T", cur)
	}
	for {
		a := fc.Next()
		if a.Len() == 0 {
			break
		}
		for i := range a.Timestamps {
			out[a.Timestamps[i]] = a.Values[i]
			fmt.Fprintf(&sb, "%d=%g ", a.Timestamps[i], a.Values[i])
		}
	}
	return out, strings.TrimSpace(sb.String()), fc.Err()
}

func (g *eng) tsmFiles() []string {
	var out []string
	for _, s := range g.e.FileStore.Stats() {
		out = append(out, s.Path)
	}
	sort.Strings(out)
	return out
}

// realLayout describes the engine's file store in the terms judge() needs.
func (g *eng) realLayout() *layout {
	l := &layout{genOf: map[string]int{}, pos: map[string]int{}}
	stats := append([]tsm1.ExtFileStat{}, g.e.FileStore.Stats()...)
	sort.Slice(stats, func(i, j int) bool { return stats[i].Path < stats[j].Path })
	last := -1
	for _, s := range stats {
		if s.Generation != last {
			l.files = append(l.files, nil)
			l.size = append(l.size, 0)
			last = s.Generation
		}
		k := len(l.files) - 1
		l.files[k] = append(l.files[k], s.Path)
		l.size[k] += uint64(s.Size)
		l.genOf[s.Path] = k
		l.pos[s.Path] = len(l.pos)
	}
	return l
}

// WitnessCase is the replayable end-to-end scenario: levels of the generations to build, oldest first.
type WitnessCase struct {
	Kind   string `json:"kind"` // "witness"
	Levels []int  `json:"levels"`
}

type witnessResult struct {
	verdicts []verdict
	outcome  string
	log      []string
	harness  string
}

// runWitness builds, with real snapshots and real compactions of ADJACENT generations only, a shard whose
// generations have the given levels; generation i holds point t=100+i, generation 0 additionally holds t=1 v=1 and
// generation 1 overwrites t=1 with v=2. The shard is then made cold (file times 5 h in the past, reopen). Then the
// engine's compaction loop body is replayed by hand, twice: PlanCompactions, pick a level as Scheduler.next would, keep
// that compaction "running" (not yet applied), release the rest; second tick: PlanCompactions again and apply what the
// full planner hands out, then let the first compaction finish. After every compaction the series is read back.
func runWitness(wc WitnessCase) (res witnessResult) {
	logf := func(f string, a ...any) { res.log = append(res.log, fmt.Sprintf(f, a...)) }
	dir := vlib.Scratch("c05w-")
	defer os.RemoveAll(dir)
	g, err := openEng(dir)
	if err != nil {
		res.harness = "open: " + err.Error()
		return
	}
	defer func() {
		if g != nil {
			g.close()
		}
	}()
	model := map[int64]float64{}
	w := func(t int64, v float64) bool {
		if err := g.write(t, v); err != nil {
			res.harness = "write: " + err.Error()
			return false
		}
		model[t] = v
		return true
	}
	snap := func() bool {
		if err := g.e.WriteSnapshot(); err != nil {
			res.harness = "snapshot: " + err.Error()
			return false
		}
		return true
	}
	check := func(when string) bool {
		got, s, err := g.read()
		if err != nil {
			res.harness = "read: " + err.Error()
			return false
		}
		ok := len(got) == len(model)
		for t, v := range model {
			if gv, in := got[t]; !in || gv != v {
				ok = false
			}
		}
		logf("read %s: [%s]", when, s)
		if !ok {
			var ts []int64
			for t := range model {
				ts = append(ts, t)
			}
			sort.Slice(ts, func(i, j int) bool { return ts[i] < ts[j] })
			var sb strings.Builder
			for _, t := range ts {
				fmt.Fprintf(&sb, "%d=%g ", t, model[t])
			}
			res.verdicts = append(res.verdicts, verdict{"e2e-stale-read/" + when, fmt.Sprintf("series %s field %s reads [%s] %s, but the acknowledged writes (last write wins) are [%s]", wSeries, wField, s, when, strings.TrimSpace(sb.String()))})
		}
		return ok
	}
	for gi, lv := range wc.Levels {
		// first snapshot of the generation carries the interesting points
		if !w(int64(100+gi), float64(gi)) {
			return
		}
		if gi == 0 && !w(1, 1) {
			return
		}
		if gi == 1 && !w(1, 2) {
			return
		}
		if !snap() {
			return
		}
		// raise the level by rewriting the generation on its own (a one-generation group is trivially contiguous):
		// x-0k -> x-0(k+1), the way a tombstoned generation is rewritten by the level planner
		for k := 1; k < lv; k++ {
			fs := g.tsmFiles()
			grp := tsm1.CompactionGroup(fs[len(fs)-1:])
			g.e.VerifApplyLevelCompaction(grp, false, k)
		}
	}
	logf("built files %v", short(g.tsmFiles()))
	if !check("after building the layout (adjacent compactions only)") {
		return
	}
	// make the shard cold: nothing written for 5 hours
	g.close()
	old := time.Now().Add(-5 * time.Hour)
	filepath.Walk(dir, func(p string, fi os.FileInfo, err error) error {
		if err == nil {
			os.Chtimes(p, old, old)
		}
		return nil
	})
	if g, err = openEng(dir); err != nil {
		g = nil
		res.harness = "reopen: " + err.Error()
		return
	}
	if !check("after reopening the cold shard") {
		return
	}
	lay := g.realLayout()
	var held [][]string
	type planned struct {
		level int
		grp   tsm1.PlannedCompactionGroup
	}
	tickOnce := func(tickNo int) []planned {
		l1, l2, l3, l4, l5 := g.e.PlanCompactions()
		var all []planned
		var flat []tsm1.CompactionGroup
		for lv, gs := range [][]tsm1.PlannedCompactionGroup{l1, l2, l3, l4, l5} {
			for _, pg := range gs {
				all = append(all, planned{lv + 1, pg})
				flat = append(flat, pg.Group)
				logf("tick %d: PlanCompactions level %d group {%s}", tickNo, lv+1, strings.Join(short(pg.Group), ","))
			}
		}
		// judge the groups one by one in the order they were acquired
		for i, pl := range all {
			h := append([][]string{}, held...)
			for _, q := range all[:i] {
				h = append(h, q.grp.Group)
			}
			for _, v := range judge(lay, h, fmt.Sprintf("Engine.PlanCompactions/level%d", pl.level), []tsm1.CompactionGroup{pl.grp.Group}) {
				v.sig = "e2e/" + v.sig
				res.verdicts = append(res.verdicts, v)
			}
		}
		return all
	}
	release := func(pl planned) {
		g.e.CompactionPlan.Release([]tsm1.CompactionGroup{pl.grp.Group})
	}
	applyPl := func(pl planned) {
		switch {
		case pl.level <= 3:
			g.e.VerifApplyLevelCompaction(pl.grp.Group, pl.level == 3, pl.level)
		default:
			g.e.VerifApplyFullCompaction(pl.grp.Group)
		}
		release(pl)
	}
	// tick 1: start the compaction Scheduler.next() prefers (weights 0.4,0.3,0.2,0.1,0.01 × queue depth), release the rest
	t1 := tickOnce(1)
	if len(t1) == 0 {
		res.outcome = "e2e:nothing-planned"
		return
	}
	weights := []float64{0.4, 0.3, 0.2, 0.1, 0.01}
	depth := map[int]int{}
	for _, pl := range t1 {
		depth[pl.level]++
	}
	best, bw := 0, 0.0
	for lv := 1; lv <= 5; lv++ {
		if w := float64(depth[lv]) * weights[lv-1]; w > bw {
			best, bw = lv, w
		}
	}
	var running *planned
	for i := range t1 {
		if t1[i].level == best && running == nil {
			running = &t1[i]
			held = append(held, t1[i].grp.Group)
			logf("tick 1: level %d compaction of {%s} starts (still running at the next tick)", best, strings.Join(short(t1[i].grp.Group), ","))
		} else {
			release(t1[i])
		}
	}
	// tick 2, one second later: the first compaction is still running, the shard is still cold
	t2 := tickOnce(2)
	n2 := 0
	for _, pl := range t2 {
		logf("tick 2: level %d compaction of {%s} runs to completion", pl.level, strings.Join(short(pl.grp.Group), ","))
		applyPl(pl)
		n2++
		logf("files now %v", short(g.tsmFiles()))
		check(fmt.Sprintf("after the level-%d compaction planned while another compaction was running", pl.level))
	}
	applyPl(*running)
	logf("first compaction finishes; files now %v", short(g.tsmFiles()))
	check("after all planned compactions finished")
	g.close()
	if g, err = openEng(dir); err != nil {
		g = nil
		res.harness = "reopen2: " + err.Error()
		return
	}
	check("after restart")
	res.outcome = fmt.Sprintf("e2e:tick1=%d-groups,tick2=%d-groups,violations=%d", len(t1), n2, len(res.verdicts))
	return
}

func replayWitness(wc WitnessCase) (bool, string) {
	r := runWitness(wc)
	if r.harness != "" {
		return false, "harness: " + r.harness
	}
	var msgs []string
	for _, v := range r.verdicts {
		msgs = append(msgs, v.sig+": "+v.msg)
	}
	return len(r.verdicts) > 0, strings.Join(r.log, " ; ") + " ;; verdicts: " + strings.Join(msgs, " | ")
}

// ---------------------------------------------------------------------------------------------------

func outcomeClass(o Op, groups []tsm1.CompactionGroup, nheld int) string {
	n := "none"
	if len(groups) == 1 {
		n = "1-group"
	} else if len(groups) > 1 {
		n = "2+groups"
	}
	h := ""
	if nheld > 0 {
		h = "/while-holding"
	}
	name := o.String()
	if o.K == "Release" {
		name = "Release"
	}
	return name + ":" + n + h
}

const quickBudgetS, thoroughBudgetS = 40, 780

func budgetS(thorough bool) int {
	if v := os.Getenv("VERIF_BUDGET_S"); v != "" {
		var n int
		if _, err := fmt.Sscanf(v, "%d", &n); err == nil && n > 0 {
			return n
		}
	}
	if thorough {
		return thoroughBudgetS
	}
	return quickBudgetS
}

func TestCheck(t *testing.T) {
	vlib.Main(t, &vlib.Check{
		ID: "C05", Level: "model_checking",
		Rule: "PART 1 (inputs × call orders): fake file stores = every single generation with 1–3 files (file size 64MB|>2GB × first-block count 500|1000|10000, level 1–4, tombstone y/n) plus every list of generations over per-generation kinds K8 = level 1–4 × tombstone y/n (one small file), K16 = K8 + level 1–4 × {one >2GB file of full blocks, two small files}, K48 = level 1–4 × tombstone × {1 small, 2 small, 1 >2GB full-block, 1 >2GB 999-point-block, 2×1.5GB, 1 file of exactly 2GB}; quick: K48^2, K16^3, K8^4, K8^5 restricted to ≤1 tombstoned generation; thorough: K48^2..3, K16^4, K8^5, K8^6 restricted to ≤2 tombstoned generations. For each store the state space of the real DefaultPlanner (set of held groups, forceFull pending) is explored by BFS to closure (no depth bound) under PlanLevel(1..4), Plan(lastWrite hot|cold), PlanOptimize(hot|cold), ForceFull and Release(g) of each single held group; every in-use set is obtained by really acquiring earlier plans. Oracle per plan call (statement transcribed): groups consist of whole generations of the store, are disjoint from each other and from every held group, each is an interval of the live generation order, files ascending. PART 2 (schedules): stores K8^1..3 (thorough: + K8^4 with ≤1 tombstoned generation) × scenarios {two plan→release threads over all unordered pairs of live plan ops incl. ForceFull;Plan, plan thread || releaser of a group acquired before, the engine's planning round PlanLevel 1,2,3,Plan,PlanOptimize against itself / ForceFull / a releaser}; every schedule with ≤B preemptions at the Lock/RLock operations of DefaultPlanner.mu (quick: B=2 for stores of ≤2 generations, 1 for 3; thorough: B=2 for ≤3 generations, 1 for 4); same oracle against all groups held when a call returns. PART 3: end-to-end witnesses on a real tsm1.Engine for generation level lists [4,3,3,4] and [4,2,2,4]. states = distinct (store, planner state) pairs + schedule decision nodes; transitions = planner calls + scheduling steps; traces = BFS paths replayed on the implementation + executed schedules; non-trivial = transitions returning ≥1 group (part 1), executions with ≥1 preemption (part 2)",
		Assumptions: []string{
			"the fake file store reports LastModified later than any lastPlanCheck: the 'nothing changed' shortcut of Plan only returns nil without side effects, so its behaviours are a subgraph of the explored ones",
			"generation ids are consecutive and the store does not change during a planning round (the engine passes one FindGenerations result to all five plan calls)",
			"schedules: sequentially consistent interleavings at the granularity of DefaultPlanner.mu operations",
			"generation attributes beyond the listed values (e.g. sizes between 64MB and 1.5GB) are not enumerated; the planner compares sizes only with MaxTSMFileSize and with twice the neighbour's size",
		},
		QuickBudgetS: quickBudgetS, ThoroughBudgetS: thoroughBudgetS, WorkerEnv: []string{"GOMAXPROCS=1"},
		Run: func(c *vlib.Ctx) {
			var idx, widx int64
			budget := time.Duration(budgetS(c.Thorough())) * time.Second
			part1Deadline := time.Now().Add(budget * 7 / 10) // part 1 may use 70% of the budget, the schedules get the rest
			maxDepth, nstores := 0, 0
			var evals, nontriv int64
			var ocount [10][3][2]int64
			vioSeen := map[string]bool{}
			only := os.Getenv("C05_ONLY_PART") // debugging aid; never set by the registered commands
			// ---- part 3 (cheap and the most telling: run it first)
			for _, lv := range [][]int{{4, 3, 3, 4}, {4, 2, 2, 4}} {
				if only != "" && only != "3" {
					break
				}
				widx++
				if !c.Mine(widx) {
					continue
				}
				wc := WitnessCase{Kind: "witness", Levels: lv}
				r := runWitness(wc)
				c.Eval(1)
				if r.harness != "" {
					c.HarnessError("witness " + fmt.Sprint(lv) + ": " + r.harness)
					continue
				}
				c.Outcome(r.outcome)
				for _, v := range r.verdicts {
					sig := v.sig
					if strings.HasPrefix(sig, "e2e-stale-read/") {
						sig = "e2e-stale-read/Engine.PlanCompactions+compaction-of-non-contiguous-group"
					}
					c.Violation(sig, fmt.Sprintf("real engine, generation levels %v: %s", lv, v.msg), wc)
				}
			}

			// ---- part 1
			forEachStore(c.Thorough(), func(s Store) bool {
				if only != "" && only != "1" {
					return false
				}
				idx++
				if !c.Mine(idx) {
					return true
				}
				nstores++
				if nstores%64 == 0 && (c.Expired() || time.Now().After(part1Deadline)) {
					c.Cap("budget expired during part 1 (store families)")
					return false
				}
				c.Extra("part1_stores", 1)
				st := bfs(s, func(nd *node, oi int, o Op, groups []tsm1.CompactionGroup, vs []verdict) {
					evals++
					if len(groups) > 0 {
						nontriv++
					}
					ng := len(groups)
					if ng > 2 {
						ng = 2
					}
					hh := 0
					if len(nd.held) > 0 {
						hh = 1
					}
					if oi > len(planOps) {
						oi = len(planOps)
					}
					ocount[oi][ng][hh]++
					for _, v := range vs {
						if vioSeen[v.sig] {
							c.Violation(v.sig, "", nil) // counts only
							continue
						}
						vioSeen[v.sig] = true
						c.Violation(v.sig, fmt.Sprintf("store [%s], after %v: %s", s, nd.path, v.msg), SeqCase{Kind: "seq", Store: s, Path: nd.path, Op: o})
					}
					if len(groups) > 0 && len(nd.held) > 0 && c.WantSample() {
						c.Sample(map[string]any{"store": s.String(), "path": fmt.Sprint(nd.path), "op": o.String(), "returned": fmtGroups(groups)})
					}
				})
				c.StateN(st.states)
				c.Transition(st.transitions)
				c.Trace(st.states)
				if st.maxDepth > maxDepth {
					maxDepth = st.maxDepth
				}
				if st.capped {
					c.Cap(fmt.Sprintf("more than %d planner states for one store", maxStatesPerStore))
				}
				return true
			})
			c.Eval(evals)
			c.NontrivialN(nontriv)
			for oi := range ocount {
				for ng := range ocount[oi] {
					for hh := range ocount[oi][ng] {
						if n := ocount[oi][ng][hh]; n > 0 {
							name := "Release"
							if oi < len(planOps) {
								name = planOpNames[oi]
							}
							c.OutcomeN(name+":"+[]string{"none", "1-group", "2+groups"}[ng]+[]string{"", "/while-holding"}[hh], n)
						}
					}
				}
			}
			c.Note("part1_store_families", "singles(1–3 files) + "+familyText(c.Thorough()))
			c.Extra(fmt.Sprintf("part1_bfs_depth_reached_%02d", maxDepth), 1)

			// ---- part 2
			idx = 0
			forEachSchedStore(c.Thorough(), func(s Store) bool {
				// quick: ≤2 preemptions for stores of ≤2 generations, ≤1 for 3; thorough: ≤2 for ≤3 generations, ≤1 for 4
				bound := 2
				if (c.Quick() && len(s) >= 3) || len(s) >= 4 {
					bound = 1
				}
				if only != "" && only != "2" {
					return false
				}
				st := bfs(s, nil)
				for _, sc := range schedConfigs(s, st) {
					idx++
					if !c.Mine(idx) {
						continue
					}
					if c.Expired() {
						c.Cap("budget expired during part 2 (schedules)")
						return false
					}
					var res schedResult
					h := schedHarness(sc, &res)
					est := vrt.Explore(t, h, bound, 0, 1, c.Expired, func(r *vrt.Result) {
						c.Eval(1)
						if r.Preempts > 0 {
							c.NontrivialN(1)
						}
						if r.Diverged != "" {
							c.HarnessError(sc.String() + ": " + r.Diverged)
							return
						}
						if res.harness != "" {
							c.HarnessError(sc.String() + ": " + res.harness)
							return
						}
						c.Outcome("sched:" + schedOutcomeClass(res))
						for _, v := range res.verdicts {
							cs := sc
							cs.Choices = r.Choices
							for _, sp := range r.Steps {
								cs.Trace = append(cs.Trace, fmt.Sprintf("%s %s", r.Names[sp.Thread], sp.Label))
							}
							c.Violation("sched/"+v.sig, sc.String()+": "+v.msg, cs)
						}
						if r.Preempts > 0 && c.WantSample() {
							c.Sample(map[string]any{"scenario": sc.String(), "schedule": r.Choices, "outcome": res.outcome})
						}
					})
					if !est.Complete {
						c.Cap("budget expired inside a schedule scenario")
					}
					c.StateN(est.Nodes)
					c.Transition(est.Transitions)
					c.Trace(est.Executions)
					c.Extra("part2_scenarios", 1)
				}
				return true
			})
		},
		Replay: func(c *vlib.Ctx, raw json.RawMessage) (bool, string) {
			var k struct {
				Kind string `json:"kind"`
			}
			if err := json.Unmarshal(raw, &k); err != nil {
				return false, err.Error()
			}
			switch k.Kind {
			case "seq":
				var cs SeqCase
				if err := json.Unmarshal(raw, &cs); err != nil {
					return false, err.Error()
				}
				return replaySeq(cs)
			case "sched":
				var cs SchedCase
				if err := json.Unmarshal(raw, &cs); err != nil {
					return false, err.Error()
				}
				return replaySched(t, cs)
			case "witness":
				var wc WitnessCase
				if err := json.Unmarshal(raw, &wc); err != nil {
					return false, err.Error()
				}
				return replayWitness(wc)
			}
			return false, "unknown case kind " + k.Kind
		},
	})
}

// schedOutcomeClass abstracts an execution's outcome to "how many plan calls of each thread returned groups".
func schedOutcomeClass(r schedResult) string {
	var parts []string
	for _, th := range strings.Split(r.outcome, " || ") {
		n, m := 0, 0
		for _, kv := range strings.Split(th, ",") {
			if kv == "" {
				continue
			}
			m++
			if !strings.HasSuffix(kv, "=0") {
				n++
			}
		}
		parts = append(parts, fmt.Sprintf("%d/%d", n, m))
	}
	v := ""
	if len(r.verdicts) > 0 {
		v = "!violation"
	}
	return strings.Join(parts, "||") + v
}
