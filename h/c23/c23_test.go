// C23: InfluxQL transformation functions follow their documented definitions.
//
// Every small series (times non-decreasing over {0,1,2,4,7} incl. duplicate times and gaps, values over
// {-2,-1,0,1,3}; float, integer and unsigned) is fed through the REAL iterator pipeline that
// exprIteratorBuilder.buildCallIterator assembles for the call (new*Iterator constructors of call_iterator.go ->
// stream/reduce iterators -> reducers of functions.go / functions.gen.go, plus NewIntervalIterator for aggregates as
// the builder does) and the emitted points are compared with the documented definition computed directly.
package c23

import (
	"encoding/json"
	"fmt"
	"math"
	"runtime"
	"runtime/debug"
	"sort"
	"testing"
	"time"

	"github.com/influxdata/influxdb/v2/influxql/query"
	"github.com/influxdata/influxql"
	"verif/h/vlib"
)

// ---------------------------------------------------------------------------------------------------------------
// case

type Case struct {
	Fn   string  `json:"function"`
	Type string  `json:"type"`          // float | integer | unsigned
	Unit int64   `json:"unit_ns"`       // derivative / elapsed / integral: 0 = no unit argument (documented default)
	N    int     `json:"n,omitempty"`   // moving_average window, top/bottom count
	P    float64 `json:"percentile"`    // percentile
	Ival int64   `json:"group_by_time"` // 0 = no GROUP BY time, else interval in ns
	T    []int64 `json:"times"`         // non-decreasing
	V    []int64 `json:"values"`        // value of each point (unsigned: v+2)
}

type pt struct {
	t   int64
	v   float64
	nan bool
}

func (c *Case) val(i int) float64 {
	if c.Type == "unsigned" {
		return float64(c.V[i] + 2)
	}
	return float64(c.V[i])
}

// ---------------------------------------------------------------------------------------------------------------
// input iterators (slice iterators over the public iterator interfaces)

type base struct{ i int }

func (b *base) Stats() query.IteratorStats { return query.IteratorStats{} }
func (b *base) Close() error               { return nil }

type fIter struct {
	base
	pts []query.FloatPoint
}

func (it *fIter) Next() (*query.FloatPoint, error) {
	if it.i >= len(it.pts) {
		return nil, nil
	}
	p := &it.pts[it.i]
	it.i++
	return p, nil
}

type iIter struct {
	base
	pts []query.IntegerPoint
}

func (it *iIter) Next() (*query.IntegerPoint, error) {
	if it.i >= len(it.pts) {
		return nil, nil
	}
	p := &it.pts[it.i]
	it.i++
	return p, nil
}

type uIter struct {
	base
	pts []query.UnsignedPoint
}

func (it *uIter) Next() (*query.UnsignedPoint, error) {
	if it.i >= len(it.pts) {
		return nil, nil
	}
	p := &it.pts[it.i]
	it.i++
	return p, nil
}

func (c *Case) input() query.Iterator {
	switch c.Type {
	case "float":
		it := &fIter{pts: make([]query.FloatPoint, len(c.T))}
		for i := range c.T {
			it.pts[i] = query.FloatPoint{Name: "m", Time: c.T[i], Value: float64(c.V[i])}
		}
		return it
	case "integer":
		it := &iIter{pts: make([]query.IntegerPoint, len(c.T))}
		for i := range c.T {
			it.pts[i] = query.IntegerPoint{Name: "m", Time: c.T[i], Value: c.V[i]}
		}
		return it
	default:
		it := &uIter{pts: make([]query.UnsignedPoint, len(c.T))}
		for i := range c.T {
			it.pts[i] = query.UnsignedPoint{Name: "m", Time: c.T[i], Value: uint64(c.V[i] + 2)}
		}
		return it
	}
}

// ---------------------------------------------------------------------------------------------------------------
// the real pipeline, assembled like exprIteratorBuilder.buildCallIterator does

var valueRef = &influxql.VarRef{Val: "value"}

func (c *Case) options() query.IteratorOptions {
	opt := query.IteratorOptions{
		StartTime: influxql.MinTime, EndTime: influxql.MaxTime,
		Ascending: true, Ordered: true, Fill: influxql.NoFill,
	}
	if c.Ival > 0 {
		// SELECT ... WHERE time >= 0 AND time <= 7 GROUP BY time(<ival>ns) fill(none)
		opt.StartTime, opt.EndTime = 0, 7
		opt.Interval = query.Interval{Duration: time.Duration(c.Ival)}
	}
	call := &influxql.Call{Name: c.Fn, Args: []influxql.Expr{valueRef}}
	switch c.Fn {
	case "derivative", "non_negative_derivative", "elapsed", "integral":
		if c.Unit > 0 {
			call.Args = append(call.Args, &influxql.DurationLiteral{Val: time.Duration(c.Unit)})
		}
	case "moving_average", "top", "bottom":
		call.Args = append(call.Args, &influxql.IntegerLiteral{Val: int64(c.N)})
	case "percentile":
		call.Args = append(call.Args, &influxql.NumberLiteral{Val: c.P})
	}
	opt.Expr = call
	return opt
}

func (c *Case) build() (query.Iterator, error) {
	in := c.input()
	opt := c.options()
	aggregate := func(itr query.Iterator, err error) (query.Iterator, error) {
		if err != nil {
			return nil, err
		}
		// buildCallIterator: "if !b.selector || !opt.Interval.IsZero() { itr = NewIntervalIterator(itr, opt) }"
		return query.NewIntervalIterator(itr, opt), nil
	}
	switch c.Fn {
	case "derivative":
		return query.VerifC23NewDerivativeIterator(in, opt, opt.DerivativeInterval(), false)
	case "non_negative_derivative":
		return query.VerifC23NewDerivativeIterator(in, opt, opt.DerivativeInterval(), true)
	case "difference":
		return query.VerifC23NewDifferenceIterator(in, opt, false)
	case "moving_average":
		return query.VerifC23NewMovingAverageIterator(in, c.N, opt)
	case "cumulative_sum":
		return query.VerifC23NewCumulativeSumIterator(in, opt)
	case "elapsed":
		return query.VerifC23NewElapsedIterator(in, opt, opt.ElapsedInterval())
	case "integral":
		return query.VerifC23NewIntegralIterator(in, opt, opt.IntegralInterval())
	case "percentile":
		itr, err := query.VerifC23NewPercentileIterator(in, opt, c.P)
		if err == nil && c.Ival > 0 { // a lone selector keeps the point's time unless there is a GROUP BY time
			itr = query.NewIntervalIterator(itr, opt)
		}
		return itr, err
	case "median":
		return aggregate(query.NewMedianIterator(in, opt))
	case "mode":
		return aggregate(query.NewModeIterator(in, opt))
	case "spread":
		return aggregate(query.VerifC23NewSpreadIterator(in, opt))
	case "stddev":
		return aggregate(query.VerifC23NewStddevIterator(in, opt))
	case "distinct":
		return aggregate(query.NewDistinctIterator(in, opt))
	case "top":
		return query.VerifC23NewTopIterator(in, opt, c.N, false)
	case "bottom":
		return query.VerifC23NewBottomIterator(in, opt, c.N, false)
	}
	return nil, fmt.Errorf("unknown function %s", c.Fn)
}

// observe runs the real pipeline and returns the emitted points and the kind of the output iterator.
func (c *Case) observe() (kind string, out []pt, err error) {
	itr, err := c.build()
	if err != nil {
		return "", nil, err
	}
	defer itr.Close()
	const limit = 64
	switch it := itr.(type) {
	case query.FloatIterator:
		kind = "float"
		for len(out) < limit {
			p, err := it.Next()
			if err != nil {
				return kind, out, err
			}
			if p == nil {
				break
			}
			if p.Nil {
				continue
			}
			out = append(out, pt{t: p.Time, v: p.Value, nan: math.IsNaN(p.Value)})
		}
	case query.IntegerIterator:
		kind = "integer"
		for len(out) < limit {
			p, err := it.Next()
			if err != nil {
				return kind, out, err
			}
			if p == nil {
				break
			}
			if p.Nil {
				continue
			}
			out = append(out, pt{t: p.Time, v: float64(p.Value)})
		}
	case query.UnsignedIterator:
		kind = "unsigned"
		for len(out) < limit {
			p, err := it.Next()
			if err != nil {
				return kind, out, err
			}
			if p == nil {
				break
			}
			if p.Nil {
				continue
			}
			out = append(out, pt{t: p.Time, v: float64(p.Value)})
		}
	default:
		kind = fmt.Sprintf("%T", itr)
	}
	return
}

// ---------------------------------------------------------------------------------------------------------------
// documented definitions

// expectation: a list of acceptable outputs (more than one where the documentation leaves a choice).
type expectation struct {
	kind      string
	alts      [][]pt
	anyOrder  bool      // the order of the output points is not specified
	timeAlts  [][]int64 // per output point: acceptable times (nil: the time in alts is exact)
	note      string
	tieBroken bool // mode/top/bottom/percentile: the documented tie rule decided the answer
	notJudged bool // the documented result is not representable in the output type (negative unsigned difference)
}

func unitOf(c *Case) float64 {
	if c.Unit > 0 {
		return float64(c.Unit)
	}
	if c.Fn == "elapsed" {
		return 1 // documented default 1ns
	}
	return float64(time.Second) // derivative, integral: documented default 1s
}

// dedupe keeps one point of every run of equal times: the first (keepLast=false) or the last.
func dedupe(in []pt, keepLast bool) []pt {
	var out []pt
	for i, p := range in {
		if len(out) > 0 && out[len(out)-1].t == p.t {
			if keepLast {
				out[len(out)-1] = in[i]
			}
			continue
		}
		out = append(out, p)
	}
	return out
}

func hasDupTimes(in []pt) bool {
	for i := 1; i < len(in); i++ {
		if in[i].t == in[i-1].t {
			return true
		}
	}
	return false
}

func sortedVals(in []pt) []float64 {
	vs := make([]float64, len(in))
	for i, p := range in {
		vs[i] = p.v
	}
	sort.Float64s(vs)
	return vs
}

// windows splits the series by GROUP BY time(ival); ival 0 = one window stamped 0 (epoch, no time range given).
func windows(in []pt, ival int64) (starts []int64, groups [][]pt) {
	if len(in) == 0 {
		return
	}
	if ival == 0 {
		return []int64{0}, [][]pt{in}
	}
	for _, p := range in {
		s := p.t - ((p.t%ival)+ival)%ival
		if n := len(starts); n == 0 || starts[n-1] != s {
			starts = append(starts, s)
			groups = append(groups, nil)
		}
		groups[len(groups)-1] = append(groups[len(groups)-1], p)
	}
	return
}

func floatKind(typ string) string { return "float" }

func expect(c *Case) expectation {
	in := make([]pt, len(c.T))
	for i := range c.T {
		in[i] = pt{t: c.T[i], v: c.val(i)}
	}
	same := c.Type
	switch c.Fn {
	case "derivative", "non_negative_derivative", "difference":
		// rate of change / difference between subsequent field values, stamped with the later point's time.
		// Points sharing a time stamp: the documentation is silent which one represents the instant -> the first or
		// the last of every run is accepted.
		e := expectation{kind: "float"}
		if c.Fn == "difference" {
			e.kind = same
		}
		variants := []bool{false}
		if hasDupTimes(in) {
			variants = []bool{false, true}
		}
		for _, keepLast := range variants {
			k := dedupe(in, keepLast)
			var out []pt
			for j := 1; j < len(k); j++ {
				diff := k[j].v - k[j-1].v
				v := diff
				if c.Fn != "difference" {
					v = diff / (float64(k[j].t-k[j-1].t) / unitOf(c))
					if c.Fn == "non_negative_derivative" && diff < 0 {
						continue
					}
				}
				if c.Fn == "difference" && c.Type == "unsigned" && v < 0 {
					// the documented result (a negative number) has no unsigned representation: not judged
					e.notJudged = true
				}
				out = append(out, pt{t: k[j].t, v: v})
			}
			e.alts = append(e.alts, out)
		}
		return e
	case "moving_average":
		e := expectation{kind: "float"}
		var out []pt
		for i := c.N - 1; i < len(in); i++ {
			s := 0.0
			for j := i - c.N + 1; j <= i; j++ {
				s += in[j].v
			}
			out = append(out, pt{t: in[i].t, v: s / float64(c.N)})
		}
		e.alts = [][]pt{out}
		return e
	case "cumulative_sum":
		e := expectation{kind: same}
		var out []pt
		s := 0.0
		for _, p := range in {
			s += p.v
			out = append(out, pt{t: p.t, v: s})
		}
		e.alts = [][]pt{out}
		return e
	case "elapsed":
		e := expectation{kind: "integer"}
		var out []pt
		for i := 1; i < len(in); i++ {
			out = append(out, pt{t: in[i].t, v: float64((in[i].t - in[i-1].t) / int64(unitOf(c)))})
		}
		e.alts = [][]pt{out}
		return e
	case "integral":
		// area under the curve through subsequent field values (trapezoids), in units; one value stamped epoch 0
		e := expectation{kind: "float"}
		if len(in) == 0 {
			e.alts = [][]pt{nil}
			return e
		}
		area := 0.0
		for i := 1; i < len(in); i++ {
			area += 0.5 * (in[i].v + in[i-1].v) * float64(in[i].t-in[i-1].t) / unitOf(c)
		}
		e.alts = [][]pt{{{t: 0, v: area}}}
		if in[0].t == in[len(in)-1].t {
			// no extent in time: the area is 0; whether a row is produced at all is not documented
			e.alts = append(e.alts, nil)
		}
		return e
	}

	// functions evaluated per GROUP BY time window
	starts, groups := windows(in, c.Ival)
	switch c.Fn {
	case "percentile":
		e := expectation{kind: same}
		var out []pt
		for w, g := range groups {
			n := len(g)
			rank := int(math.Floor(float64(n)*c.P/100 + 0.5)) // nearest rank
			if alt := int(math.Ceil(float64(n) * c.P / 100)); alt != rank {
				// fractional percentiles: the two usual nearest-rank formulas disagree here and the documentation
				// does not pick one: not judged
				e.notJudged = true
				return e
			}
			if rank < 1 || rank > n {
				continue // documented: percentile(0) returns nothing
			}
			v := sortedVals(g)[rank-1]
			p := pt{t: starts[w], v: v}
			var times []int64
			if c.Ival == 0 { // selector: the time of the selected point; equal values: any of them
				for _, q := range g {
					if q.v == v {
						times = append(times, q.t)
					}
				}
				p.t = times[0]
			}
			out = append(out, p)
			e.timeAlts = append(e.timeAlts, times)
		}
		e.alts = [][]pt{out}
		return e
	case "median":
		e := expectation{kind: "float"}
		var out []pt
		for w, g := range groups {
			vs := sortedVals(g)
			n := len(vs)
			m := vs[n/2]
			if n%2 == 0 {
				m = (vs[n/2-1] + vs[n/2]) / 2
			}
			out = append(out, pt{t: starts[w], v: m})
		}
		e.alts = [][]pt{out}
		return e
	case "spread":
		e := expectation{kind: same}
		var out []pt
		for w, g := range groups {
			vs := sortedVals(g)
			out = append(out, pt{t: starts[w], v: vs[len(vs)-1] - vs[0]})
		}
		e.alts = [][]pt{out}
		return e
	case "stddev":
		// sample standard deviation; a single value has none: NaN (rendered as null) or no row are accepted
		e := expectation{kind: "float"}
		alts := [][]pt{nil}
		for w, g := range groups {
			n := float64(len(g))
			var next [][]pt
			if len(g) < 2 {
				for _, a := range alts {
					next = append(next, append(append([]pt{}, a...), pt{t: starts[w], nan: true}), append([]pt{}, a...))
				}
			} else {
				mean := 0.0
				for _, p := range g {
					mean += p.v
				}
				mean /= n
				ss := 0.0
				for _, p := range g {
					ss += (p.v - mean) * (p.v - mean)
				}
				for _, a := range alts {
					next = append(next, append(append([]pt{}, a...), pt{t: starts[w], v: math.Sqrt(ss / (n - 1))}))
				}
			}
			alts = next
		}
		e.alts = alts
		return e
	case "distinct":
		e := expectation{kind: same, anyOrder: c.Ival == 0}
		var out []pt
		for w, g := range groups {
			seen := map[float64]bool{}
			var vals []float64
			for _, p := range g {
				if !seen[p.v] {
					seen[p.v] = true
					vals = append(vals, p.v)
				}
			}
			sort.Float64s(vals) // canonical order inside a window; compared as a set per window
			for _, v := range vals {
				out = append(out, pt{t: starts[w], v: v})
			}
		}
		e.alts = [][]pt{out}
		e.anyOrder = true
		return e
	case "mode":
		// most frequent value; documented tie rule: "returns the field value with the earliest timestamp if there's
		// a tie for the maximum number of occurrences". Values tied on their earliest time stamp too: any of them.
		e := expectation{kind: same}
		alts := [][]pt{nil}
		for w, g := range groups {
			count := map[float64]int{}
			first := map[float64]int64{}
			for _, p := range g {
				if _, ok := first[p.v]; !ok {
					first[p.v] = p.t
				}
				count[p.v]++
			}
			best := 0
			for _, n := range count {
				best = max(best, n)
			}
			earliest := int64(math.MaxInt64)
			tied := 0
			for v, n := range count {
				if n == best {
					tied++
					earliest = min(earliest, first[v])
				}
			}
			if tied > 1 {
				e.tieBroken = true
			}
			var cands []float64
			for v, n := range count {
				if n == best && first[v] == earliest {
					cands = append(cands, v)
				}
			}
			sort.Float64s(cands)
			var next [][]pt
			for _, a := range alts {
				for _, v := range cands {
					next = append(next, append(append([]pt{}, a...), pt{t: starts[w], v: v}))
				}
			}
			alts = next
		}
		e.alts = alts
		return e
	case "top", "bottom":
		// the N greatest / smallest values; documented tie rule: the earliest time stamp wins; rows in time order
		e := expectation{kind: same}
		var out []pt
		for _, g := range groups {
			s := append([]pt{}, g...)
			sort.SliceStable(s, func(a, b int) bool {
				if s[a].v != s[b].v {
					if c.Fn == "top" {
						return s[a].v > s[b].v
					}
					return s[a].v < s[b].v
				}
				return s[a].t < s[b].t
			})
			k := min(c.N, len(s))
			if k < len(s) && s[k-1].v == s[k].v {
				e.tieBroken = true
			}
			sel := append([]pt{}, s[:k]...)
			sort.SliceStable(sel, func(a, b int) bool { return sel[a].t < sel[b].t })
			out = append(out, sel...)
		}
		e.alts = [][]pt{out}
		e.anyOrder = true // compared as a multiset; time order is checked separately
		return e
	}
	return expectation{note: "unknown function"}
}

func approx(a, b float64) bool {
	if a == b {
		return true
	}
	return math.Abs(a-b) <= 1e-9*math.Max(1, math.Max(math.Abs(a), math.Abs(b)))
}

func canon(in []pt) []pt {
	out := append([]pt{}, in...)
	sort.SliceStable(out, func(a, b int) bool {
		if out[a].t != out[b].t {
			return out[a].t < out[b].t
		}
		return out[a].v < out[b].v
	})
	return out
}

// judge returns "" or the violated clause
func judge(c *Case, kind string, got []pt, e *expectation) string {
	if e.notJudged {
		return ""
	}
	if kind != e.kind {
		return "value-type"
	}
	if c.Fn == "top" || c.Fn == "bottom" {
		for i := 1; i < len(got); i++ {
			if got[i].t < got[i-1].t {
				return "row-order"
			}
		}
	}
	g := got
	if e.anyOrder {
		g = canon(got)
	}
	clause := ""
	for _, alt := range e.alts {
		a := alt
		if e.anyOrder {
			a = canon(alt)
		}
		if len(a) != len(g) {
			clause = worse(clause, "row-count")
			continue
		}
		cl := ""
		for i := range a {
			if a[i].nan != g[i].nan || (!a[i].nan && !approx(a[i].v, g[i].v)) {
				cl = "value"
				break
			}
		}
		if cl == "" {
			for i := range a {
				okT := a[i].t == g[i].t
				if !okT && e.timeAlts != nil && i < len(e.timeAlts) {
					for _, t := range e.timeAlts[i] {
						okT = okT || t == g[i].t
					}
				}
				if !okT {
					cl = "timestamp"
					break
				}
			}
		}
		if cl == "" {
			return ""
		}
		clause = worse(clause, cl)
	}
	return clause
}

// worse keeps the most specific clause seen over the alternatives (timestamp > value > row-count)
func worse(a, b string) string {
	rank := map[string]int{"": 0, "row-count": 1, "value": 2, "timestamp": 3}
	if rank[b] > rank[a] {
		return b
	}
	return a
}

func fmtPts(in []pt) string {
	s := "["
	for i, p := range in {
		if i > 0 {
			s += " "
		}
		if p.nan {
			s += fmt.Sprintf("%d:NaN", p.t)
		} else {
			s += fmt.Sprintf("%d:%g", p.t, p.v)
		}
	}
	return s + "]"
}

// evaluate runs one case; clause "" = conforms. obs() renders the observation (only built when needed).
func evaluate(c *Case) (clause string, obs func() string, nOut int, e expectation) {
	e = expect(c)
	var kind string
	var got []pt
	var err error
	panicked, desc := vlib.Guard(func() { kind, got, err = c.observe() })
	switch {
	case panicked:
		return "panic", func() string { return desc }, 0, e
	case err != nil:
		return "error", func() string { return "error: " + err.Error() }, 0, e
	}
	clause = judge(c, kind, got, &e)
	obs = func() string {
		alts := ""
		for i, a := range e.alts {
			if i > 0 {
				alts += " or "
			}
			alts += fmtPts(a)
		}
		return fmt.Sprintf("got %s %s | documented %s %s (time:value)", kind, fmtPts(got), e.kind, alts)
	}
	return clause, obs, len(got), e
}

// sig: function / input type / violated clause / discriminating features (a tie decided by the documented tie rule;
// the single-point code paths)
func sig(c *Case, clause string, e *expectation) string {
	return vlib.JoinSig(c.Fn, c.Type, clause, fmt.Sprintf("points=%s,tie=%v", sizeClass(len(c.T)), e.tieBroken))
}

func hasDup(ts []int64) bool {
	for i := 1; i < len(ts); i++ {
		if ts[i] == ts[i-1] {
			return true
		}
	}
	return false
}

func sizeClass(n int) string {
	switch n {
	case 0, 1:
		return fmt.Sprint(n)
	}
	return "2+"
}

// ---------------------------------------------------------------------------------------------------------------
// enumeration

type fnInst struct {
	Fn   string
	Unit int64
	N    int
	P    float64
	Ival int64
}

func instances() []fnInst {
	var out []fnInst
	for _, u := range []int64{1, 2, 0} {
		out = append(out, fnInst{Fn: "derivative", Unit: u}, fnInst{Fn: "non_negative_derivative", Unit: u},
			fnInst{Fn: "elapsed", Unit: u}, fnInst{Fn: "integral", Unit: u})
	}
	out = append(out, fnInst{Fn: "difference"}, fnInst{Fn: "cumulative_sum"})
	for _, n := range []int{1, 2, 3} {
		out = append(out, fnInst{Fn: "moving_average", N: n})
	}
	for _, iv := range []int64{0, 4} {
		for _, p := range []float64{0, 50, 90, 100, 12.5, 62.5, 97.5} {
			out = append(out, fnInst{Fn: "percentile", P: p, Ival: iv})
		}
		for _, f := range []string{"median", "mode", "spread", "stddev", "distinct"} {
			out = append(out, fnInst{Fn: f, Ival: iv})
		}
		for _, n := range []int{1, 2} {
			out = append(out, fnInst{Fn: "top", N: n, Ival: iv}, fnInst{Fn: "bottom", N: n, Ival: iv})
		}
	}
	return out
}

var timeDomain = []int64{0, 1, 2, 4, 7}
var valueDomain = []int64{-2, -1, 0, 1, 3}

// forSeries enumerates all non-decreasing time sequences of length n over timeDomain x all value sequences.
func forSeries(n int, f func(ts, vs []int64)) {
	ts := make([]int64, n)
	vs := make([]int64, n)
	var recT func(i, lo int)
	var recV func(i int)
	recV = func(i int) {
		if i == n {
			f(ts, vs)
			return
		}
		for _, v := range valueDomain {
			vs[i] = v
			recV(i + 1)
		}
	}
	recT = func(i, lo int) {
		if i == n {
			recV(0)
			return
		}
		for k := lo; k < len(timeDomain); k++ {
			ts[i] = timeDomain[k]
			recT(i+1, k)
		}
	}
	recT(0, 0)
}

func run(c *vlib.Ctx) {
	// a worker is single-threaded with a tiny live heap and many short-lived objects
	defer runtime.GOMAXPROCS(runtime.GOMAXPROCS(2))
	defer debug.SetGCPercent(debug.SetGCPercent(400))
	// quick: all series up to length 3, length 4 with strictly increasing times; float and integer.
	// thorough: all series up to length 5 (unsigned: up to length 4).
	maxLen := 4
	types := []string{"float", "integer"}
	if c.Thorough() {
		maxLen = 5
		types = []string{"float", "integer", "unsigned"}
	}
	insts := instances()
	var idx int64
	var evals, nontriv int64
	ocount := make([][12]int64, len(insts))
	seen := map[string]bool{}
	flush := func() {
		c.Eval(evals)
		c.NontrivialN(nontriv)
		evals, nontriv = 0, 0
		for ii := range ocount {
			for oi, v := range ocount[ii] {
				if v == 0 {
					continue
				}
				oc := insts[ii].Fn + ":rows=" + []string{"0", "1", "2+"}[oi%3]
				if (oi/3)%2 == 1 {
					oc += ":tie-rule-decides"
				}
				if oi >= 6 {
					oc += ":doc-leaves-choice"
				}
				c.OutcomeN(oc, v)
			}
			ocount[ii] = [12]int64{}
		}
	}
	for n := 0; n <= maxLen; n++ {
		stop := false
		forSeries(n, func(ts, vs []int64) {
			idx++
			if stop || !c.Mine(idx) {
				return
			}
			if c.Quick() && n == 4 && hasDup(ts) {
				return
			}
			if c.Expired() {
				stop = true
				return
			}
			for _, typ := range types {
				if typ == "unsigned" && n == 5 {
					continue
				}
				for ii, in := range insts {
					cs := &Case{Fn: in.Fn, Type: typ, Unit: in.Unit, N: in.N, P: in.P, Ival: in.Ival, T: ts, V: vs}
					clause, obs, nOut, e := evaluate(cs)
					evals++
					if n > 0 {
						nontriv++
					}
					oi := min(nOut, 2)
					if e.tieBroken {
						oi += 3
					}
					if len(e.alts) > 1 {
						oi += 6
					}
					ocount[ii][oi]++
					if clause == "" {
						if n >= 3 && nOut > 0 && c.WantSample() {
							keep := *cs
							keep.T, keep.V = append([]int64{}, ts...), append([]int64{}, vs...)
							c.Sample(map[string]any{"case": keep, "observation": obs()})
						}
						continue
					}
					sg := sig(cs, clause, &e)
					if seen[sg] {
						c.Violation(sg, "", nil)
						continue
					}
					seen[sg] = true
					keep := *cs
					keep.T, keep.V = append([]int64{}, ts...), append([]int64{}, vs...)
					c.Violation(sg, fmt.Sprintf("%s(%s) unit=%dns n=%d p=%g group-by-time=%dns over times=%v values=%v: clause %q: %s",
						cs.Fn, cs.Type, cs.Unit, cs.N, cs.P, cs.Ival, keep.T, keep.V, clause, obs()), &keep)
				}
			}
			if evals > 1<<16 {
				flush()
			}
		})
		flush()
		if stop {
			c.Cap(fmt.Sprintf("wall budget expired while enumerating series of length %d", n))
			return
		}
	}
}

func TestCheck(t *testing.T) {
	vlib.Main(t, &vlib.Check{
		ID: "C23", Level: "exploration",
		Rule: "EVERY series of length 0..5 with non-decreasing times over {0,1,2,4,7} ns (all gaps, all duplicate-time patterns) x EVERY value sequence over {-2,-1,0,1,3}, as float, integer and (length<=4) unsigned (values+2) " +
			"[quick: length 0..3 complete, length 4 with strictly increasing times only, float and integer], " +
			"x derivative/non_negative_derivative/elapsed/integral with unit in {1ns,2ns,default}, difference, cumulative_sum, moving_average N in {1,2,3}, and - without and with GROUP BY time(4ns) - percentile in {0,50,90,100}, median, mode, spread, stddev, distinct, top/bottom N in {1,2}; " +
			"each through the real iterator pipeline that buildCallIterator assembles (new*Iterator of call_iterator.go -> stream/reduce iterators -> reducers, NewIntervalIterator for aggregates) on a slice iterator, compared with the documented definition computed directly " +
			"(floats within 1e-9 relative); non-trivial = series not empty; cases distinct by construction",
		Assumptions: []string{
			"documented output time stamps: transformations = time of the (later) point; aggregates = epoch 0 without GROUP BY time (the builder's NewIntervalIterator applies it), else the window start; a lone selector (percentile, top, bottom) = the selected point's time",
			"unsigned difference whose documented result is negative (not representable as unsigned; the code wraps around) is not judged; where the documentation is silent every answer is accepted: points sharing a time stamp for derivative/difference (first or last of the run), stddev of one value (NaN or no row), integral of a series without extent in time (0 or no row), order of distinct values, time of percentile among equal values",
			"percentile = nearest rank floor(n*p/100+0.5) (coincides with ceil(n*p/100) on the whole domain); percentile 0 returns nothing (documented)",
			"mode tie rule as documented: 'returns the field value with the earliest timestamp if there's a tie for the maximum number of occurrences' (earliest = smallest time stamp at which the value occurs); top/bottom ties: earliest time stamp wins",
			"defaults: derivative and integral unit 1s, elapsed unit 1ns (documented)",
		},
		QuickBudgetS: 40, ThoroughBudgetS: 700,
		Run: run,
		Replay: func(c *vlib.Ctx, raw json.RawMessage) (bool, string) {
			var cs Case
			if err := json.Unmarshal(raw, &cs); err != nil {
				return false, err.Error()
			}
			clause, obs, _, _ := evaluate(&cs)
			return clause != "", fmt.Sprintf("clause=%q %s", clause, obs())
		},
	})
}
