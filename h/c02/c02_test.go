// C02: acknowledged writes and deletes survive a crash at any point.
//
// Engine: verif/h/crashfs. A history writer (this binary re-executed under strace) drives a REAL tsm1.Engine
// (WAL on, background compaction loops off, opened the way tsdb.Shard opens it; writes register fields through
// the MeasurementFieldSet change log exactly as Shard.WritePoints does) through a short history; every prefix /
// torn-write / unsynced-tail image of the syscall log is materialized and recovered by a fresh subprocess with
// the real Engine.Open + LoadMetadataIndex, read through the real cursor iterator, written to once more, then
// copied without closing (second process death) and recovered again. The oracle is a map written from the
// property statement.
//
// Reader-held family (heldHistories): the ops "hold" / "release" keep read cursors (TSM file references) open
// across a compaction, so that FileStore.replace commits through its in-use path (rename to *.tsm.tmp, tombstone
// removal, purger); every syscall boundary of that path is a crash cut.
//
// Schedule family (engine: vsched, h/shim/vrt; the build overlay of this check compiles every tsm1 file that uses
// sync against the modelled sync/atomic, see shim.json): concurrent snapshot / write clients of one engine, every
// schedule within a deviation bound, process death (directory copy) at the quiescent point. See "SCHEDULE family".
package c02

import (
	"bufio"
	"context"
	"crypto/sha256"
	"encoding/hex"
	"encoding/json"
	"errors"
	"fmt"
	"io"
	"math"
	"os"
	"os/exec"
	"path/filepath"
	"runtime"
	"runtime/debug"
	"runtime/pprof"
	"sort"
	"strconv"
	"strings"
	"sync"
	"testing"
	"testing/synctest"
	"time"

	"github.com/influxdata/influxdb/v2/models"
	"github.com/influxdata/influxdb/v2/pkg/verifrt/vrt"
	"github.com/influxdata/influxdb/v2/tsdb"
	"github.com/influxdata/influxdb/v2/tsdb/engine/tsm1"
	_ "github.com/influxdata/influxdb/v2/tsdb/index/tsi1"
	"github.com/influxdata/influxql"
	"verif/h/crashfs"
	"verif/h/vlib"
)

// ---------------------------------------------------------------------------------------------------------
// history specification

// Pt is one field value of one point. V is a typed literal: "f:1.5", "i:3", "s:text".
type Pt struct {
	S string `json:"s"` // series key, e.g. "cpu,host=A"
	F string `json:"f"`
	T int64  `json:"t"`
	V string `json:"v"`
}

// Op is one logical operation of a history.
type Op struct {
	Kind   string `json:"op"` // write | delrange | delseries | snapshot | compact_level | compact_full | close | close_flush | hold | release
	Pts    []Pt   `json:"pts,omitempty"`
	Series string `json:"series,omitempty"`
	Min    int64  `json:"min,omitempty"`
	Max    int64  `json:"max,omitempty"`
	// hold: open one read cursor (Engine.KeyCursor, field "v", from t=0 ascending) per series of Hold and keep it
	// open - i.e. keep the references on the TSM files holding blocks of those series - until "release". InUse is
	// the expected in-use pattern right after the hold, one '1'/'0' per TSM file in path order (the writer fails,
	// as a harness error, if the real reference state differs: the history would not reach the intended path).
	Hold  []string `json:"hold,omitempty"`
	InUse string   `json:"in_use,omitempty"`
}

// History is a named op list plus the WAL segment size (0 = default 10 MiB, i.e. no roll).
type History struct {
	Name           string `json:"name"`
	WALSegmentSize int    `json:"wal_segment_size,omitempty"`
	Ops            []Op   `json:"ops"`
	// WindowFrom > 0: only the crash images whose cut lies after the BEGIN marker of op WindowFrom are recovered
	// (the ops before it only build the fixture; their commit sequences are the subject of other histories).
	WindowFrom int `json:"window_from_op,omitempty"`
	// POnly: only prefix images (crash between two syscalls) are taken inside the window.
	POnly bool `json:"prefix_images_only,omitempty"`
}

const (
	sA = "cpu,host=A"
	sB = "cpu,host=B"
	sM = "mem,host=A"
	sC = "cpu,host=C" // only used by the reader-held histories (a TSM file that stays out of the compaction)
)

func w(pts ...Pt) Op                    { return Op{Kind: "write", Pts: pts} }
func fv(s string, t int64, v int) Pt    { return Pt{S: s, F: "v", T: t, V: fmt.Sprintf("f:%d", v)} }
func iw(s string, t int64, v int) Pt    { return Pt{S: s, F: "w", T: t, V: fmt.Sprintf("i:%d", v)} }
func ss(s string, t int64, v string) Pt { return Pt{S: s, F: "s", T: t, V: "s:" + v} }
func delr(s string, a, b int64) Op      { return Op{Kind: "delrange", Series: s, Min: a, Max: b} }
func dels(s string) Op                  { return Op{Kind: "delseries", Series: s} }
func hold(inUse string, s ...string) Op { return Op{Kind: "hold", Hold: s, InUse: inUse} }

var (
	snap  = Op{Kind: "snapshot"}
	lvl   = Op{Kind: "compact_level"}
	full  = Op{Kind: "compact_full"}
	closE = Op{Kind: "close"}
	closF = Op{Kind: "close_flush"}
	rel   = Op{Kind: "release"}
)

// heldHistories is the reader-held family: a compaction commits (FileStore.replace) while read cursors still hold
// references on some of the files it replaces, so replace takes its in-use path for those files (rename the old
// file to *.tsm.tmp, remove its tombstone file, hand the file to the purger, which unlinks it once the readers
// are gone) and its ordinary path (close, remove file and tombstone) for the others. The family is the full product
//
//	compaction {full, level(first two of three files)} x acknowledged delete on file 1 {range, whole series}
//	x files held {the tombstoned file 1 only, the tombstone-free file 2 only, both (file 1 twice)}
//
// Layout: file 1 = cpu,host=A t=1..3 + cpu,host=B t=1 (then the delete => tombstone next to file 1); file 2 =
// cpu,host=A t=2 (overwrite), t=5 + mem,host=A t=1; level only: file 3 = cpu,host=C t=1. Only the images cut after
// "hold" began are recovered (WindowFrom): what precedes is the fixture.
func heldHistories(tier string) []History {
	var hs []History
	n := 2000
	for _, comp := range []string{"full", "level"} {
		for _, del := range []string{"range", "series"} {
			for _, hd := range []string{"tombstoned", "other", "all"} {
				n += 20
				ops := []Op{
					w(fv(sA, 1, n+1), fv(sA, 2, n+2), fv(sA, 3, n+3), fv(sB, 1, n+4)),
					snap,
				}
				if del == "range" {
					ops = append(ops, delr(sA, 2, 3))
				} else {
					ops = append(ops, dels(sA))
				}
				ops = append(ops, w(fv(sA, 2, n+5), fv(sA, 5, n+6), fv(sM, 1, n+7)), snap)
				third := ""
				if comp == "level" {
					ops = append(ops, w(fv(sC, 1, n+8)), snap)
					third = "0"
				}
				from := len(ops)
				switch hd {
				case "tombstoned":
					ops = append(ops, hold("10"+third, sB))
				case "other":
					ops = append(ops, hold("01"+third, sM))
				case "all":
					ops = append(ops, hold("11"+third, sA, sB, sM))
				}
				if comp == "full" {
					ops = append(ops, full)
				} else {
					ops = append(ops, lvl)
				}
				ops = append(ops, rel)
				hs = append(hs, History{Name: "held/" + comp + "/del-" + del + "/hold-" + hd, Ops: ops, WindowFrom: from, POnly: tier != "thorough"})
			}
		}
	}
	return hs
}

// histories returns the canonical histories; every written value is unique so "most recent" is observable.
// Coverage intent (which commit sequence is in flight at some cut) is noted per history.
func histories(tier string) []History {
	hs := []History{
		// WAL append+sync of writes and delete entries; new measurement/field (fields.idxl append); clean close
		// (fields.idx rewrite).
		{Name: "wal-only", Ops: []Op{
			w(fv(sA, 1, 101), fv(sA, 2, 102), fv(sB, 1, 103)),
			w(fv(sA, 2, 104), fv(sA, 3, 105)), // overwrite + new point
			delr(sA, 2, 2),
			w(fv(sB, 2, 106)),
			dels(sB),
			w(ss(sM, 1, "x107")), // new measurement + field
			closE,
		}},
		// snapshot commit: tmp write → fsync → rename → SyncDir → ClearSnapshot → WAL remove; tombstone commit on
		// a TSM file (tmp → fsync → rename → SyncDir) together with cache delete + WAL delete entry.
		{Name: "snapshot-delete", Ops: []Op{
			w(fv(sA, 1, 201), fv(sA, 2, 202), fv(sA, 3, 203), fv(sB, 1, 204)),
			snap,
			w(fv(sA, 2, 205), fv(sA, 4, 206)), // overwrite a flushed point from the cache
			delr(sA, 1, 2),                    // hits TSM (tombstone) and cache (+WAL entry)
			snap,
			w(fv(sB, 2, 207)),
			closE,
		}},
		// level compaction of two snapshots (replace: rename tmp, remove old files, SyncDir) with an overwrite across
		// the two generations.
		{Name: "compact-level", Ops: []Op{
			w(fv(sA, 1, 251), fv(sB, 1, 252)),
			snap,
			w(fv(sA, 1, 253), fv(sA, 2, 254)),
			snap,
			lvl,
			closE,
		}},
	}
	if tier != "thorough" {
		return append(hs, heldHistories(tier)...)
	}
	hs = append(hs,
		// level compaction of two snapshots and full compaction, tombstone on a compacted file, delete of a whole
		// series and its re-creation.
		History{Name: "compactions", Ops: []Op{
			w(fv(sA, 1, 301), fv(sB, 1, 302)),
			snap,
			w(fv(sA, 1, 303), fv(sA, 2, 304)), // overwrite across generations
			snap,
			lvl,
			dels(sB),
			w(fv(sB, 5, 305)), // re-create a deleted series
			snap,
			full,
			closE,
		}},
		// WAL segment roll mid-history (segment size 60 bytes: every entry after the first rolls), snapshot removes
		// several closed segments, delete entry in its own segment.
		History{Name: "wal-roll", WALSegmentSize: 60, Ops: []Op{
			w(fv(sA, 1, 401), fv(sA, 2, 402)),
			w(fv(sA, 3, 403), fv(sB, 1, 404)),
			delr(sA, 1, 1),
			w(fv(sA, 1, 405)),
			snap,
			w(fv(sB, 2, 406)),
			w(fv(sB, 3, 407)),
			closE,
		}},
		// second and third delete on the same TSM file: the tombstone file is rewritten through a tmp copy
		// (copy_file_range) + append; series re-created after a full delete; full compaction drops tombstones.
		History{Name: "tombstone-append", Ops: []Op{
			w(fv(sA, 1, 501), fv(sA, 2, 502), fv(sB, 1, 503), fv(sB, 2, 504)),
			snap,
			delr(sA, 1, 1),
			delr(sB, 2, 2),
			dels(sA),
			w(fv(sA, 1, 505)),
			snap,
			full,
			closE,
		}},
		// delete that hits data both in a TSM file and in the cache, then snapshot of the remainder.
		History{Name: "delete-tsm-and-cache", Ops: []Op{
			w(fv(sA, 1, 601), fv(sB, 1, 602)),
			snap,
			w(fv(sA, 2, 603)),
			w(fv(sB, 2, 604)),
			dels(sA),
			snap,
			w(fv(sA, 3, 605)),
			closE,
		}},
		// new field of another type, new measurement, delete of the only series of a measurement (measurement
		// removed from the field set: fields.idxl delete entry), re-creation.
		History{Name: "fields", Ops: []Op{
			w(fv(sA, 1, 701)),
			w(iw(sA, 1, 702)),
			w(ss(sM, 1, "x703")),
			snap,
			dels(sM),
			w(ss(sM, 2, "x704")),
			closE,
		}},
		// overwrites across snapshot, level compaction and full compaction with a range delete in between.
		History{Name: "overwrite-compaction", Ops: []Op{
			w(fv(sA, 1, 801), fv(sA, 2, 802)),
			snap,
			w(fv(sA, 1, 803)),
			snap,
			lvl,
			delr(sA, 1, 1),
			w(fv(sA, 1, 804)),
			snap,
			full,
			closE,
		}},
		// Close(flush=true): snapshot with CloseAllSegments, WAL left without segments.
		History{Name: "close-flush", Ops: []Op{
			w(fv(sA, 1, 901), fv(sB, 1, 902)),
			delr(sB, 1, 1),
			w(fv(sA, 2, 903)),
			closF,
		}},
		// WAL roll + delete range covering points in several segments + snapshot + more WAL.
		History{Name: "wal-roll-delete", WALSegmentSize: 60, Ops: []Op{
			w(fv(sA, 1, 1001)),
			w(fv(sA, 2, 1002)),
			w(fv(sA, 3, 1003)),
			delr(sA, 1, 2),
			snap,
			w(fv(sA, 2, 1004)),
			dels(sA),
			closE,
		}},
		// full compaction of three generations with tombstones present, then a delete on the result.
		History{Name: "full-with-tombstones", Ops: []Op{
			w(fv(sA, 1, 1101), fv(sA, 2, 1102)),
			snap,
			w(fv(sB, 1, 1103)),
			snap,
			delr(sA, 2, 2),
			w(fv(sA, 3, 1104)),
			snap,
			full,
			delr(sA, 1, 1),
			closE,
		}},
		// a delete that writes tombstones for TWO TSM files (FileStore.Apply runs them concurrently): a crash between
		// the two commits leaves the delete half applied, which is allowed only while it is in flight.
		History{Name: "delete-two-files", Ops: []Op{
			w(fv(sA, 1, 1301), fv(sA, 2, 1302)),
			snap,
			w(fv(sA, 3, 1303)),
			snap,
			delr(sA, 2, 3),
			w(fv(sA, 2, 1304)),
			closE,
		}},
		// out-of-order batch, multi-field points, string values; snapshot; overwrite of one field only.
		History{Name: "multi-field", Ops: []Op{
			w(fv(sA, 3, 1201), fv(sA, 1, 1202), iw(sA, 3, 1203), iw(sA, 1, 1204)),
			w(ss(sM, 2, "x1205"), ss(sM, 1, "x1206")),
			snap,
			w(iw(sA, 1, 1207)),
			delr(sA, 3, 3),
			snap,
			lvl,
			closE,
		}},
	)
	return append(hs, heldHistories(tier)...)
}

// ---------------------------------------------------------------------------------------------------------
// real engine plumbing (shared by writer and recovery)

type idSets []*tsdb.SeriesIDSet

func (a idSets) ForEach(f func(ids *tsdb.SeriesIDSet)) error {
	for _, v := range a {
		f(v)
	}
	return nil
}

// aux is the series file + tsi1 index the engine needs; they live OUTSIDE the crash image (their own crash
// behaviour belongs to C13/C14) and C02 never reads through them.
type aux struct {
	sfile *tsdb.SeriesFile
	idx   tsdb.Index
	ids   *tsdb.SeriesIDSet
}

func openAux(dir string) (*aux, error) {
	sf := tsdb.NewSeriesFile(filepath.Join(dir, "_series"))
	if err := sf.Open(); err != nil {
		return nil, err
	}
	ids := tsdb.NewSeriesIDSet()
	opt := tsdb.NewEngineOptions()
	idx, err := tsdb.NewIndex(1, "db0", filepath.Join(dir, "index"), ids, sf, opt)
	if err != nil {
		return nil, err
	}
	if err := idx.Open(); err != nil {
		return nil, err
	}
	return &aux{sfile: sf, idx: idx, ids: ids}, nil
}

func (a *aux) close() { a.idx.Close(); a.sfile.Close() }

// openEngine opens root/{data,wal} the way tsdb.Shard.openNoLock does (SetEnabled(false), Open, LoadMetadataIndex).
func openEngine(a *aux, root string, segSize int) (*tsm1.Engine, error) {
	opt := tsdb.NewEngineOptions()
	opt.SeriesIDSets = idSets{a.ids}
	e := tsm1.NewEngine(1, a.idx, filepath.Join(root, "data"), filepath.Join(root, "wal"), a.sfile, opt).(*tsm1.Engine)
	if segSize > 0 {
		e.WAL.SegmentSize = segSize
	}
	e.SetEnabled(false) // no background snapshot/compaction loops; Compactor itself is enabled by Open
	t0 := time.Now()
	if err := e.Open(context.Background()); err != nil {
		return nil, err
	}
	lap("engine.Open:"+filepath.Base(root), &t0)
	if err := e.LoadMetadataIndex(1, a.idx); err != nil {
		e.Close(false)
		return nil, fmt.Errorf("LoadMetadataIndex: %w", err)
	}
	lap("engine.LoadMetadataIndex:"+filepath.Base(root), &t0)
	return e, nil
}

func toPoints(pts []Pt) ([]models.Point, error) {
	// group fields of the same (series, time) into one point, keeping first-appearance order
	type k struct {
		s string
		t int64
	}
	var order []k
	fields := map[k]models.Fields{}
	for _, p := range pts {
		kk := k{p.S, p.T}
		if fields[kk] == nil {
			fields[kk] = models.Fields{}
			order = append(order, kk)
		}
		switch {
		case strings.HasPrefix(p.V, "f:"):
			f, err := strconv.ParseFloat(p.V[2:], 64)
			if err != nil {
				return nil, err
			}
			fields[kk][p.F] = f
		case strings.HasPrefix(p.V, "i:"):
			i, err := strconv.ParseInt(p.V[2:], 10, 64)
			if err != nil {
				return nil, err
			}
			fields[kk][p.F] = i
		case strings.HasPrefix(p.V, "s:"):
			fields[kk][p.F] = p.V[2:]
		default:
			return nil, fmt.Errorf("bad value literal %q", p.V)
		}
	}
	var out []models.Point
	for _, kk := range order {
		name, tags := models.ParseKeyBytes([]byte(kk.s))
		p, err := models.NewPoint(string(name), tags, fields[kk], time.Unix(0, kk.t))
		if err != nil {
			return nil, err
		}
		out = append(out, p)
	}
	return out, nil
}

// shardWrite does what tsdb.Shard.WritePoints does around Engine.WritePoints, with exported API only: create the
// series in the index, validate/create the fields, persist new fields through the field set change log, write.
func shardWrite(e *tsm1.Engine, pts []Pt) error {
	points, err := toPoints(pts)
	if err != nil {
		return err
	}
	keys := make([][]byte, len(points))
	names := make([][]byte, len(points))
	tags := make([]models.Tags, len(points))
	for i, p := range points {
		keys[i], names[i], tags[i] = p.Key(), p.Name(), p.Tags()
	}
	if err := e.CreateSeriesListIfNotExists(keys, names, tags); err != nil {
		return fmt.Errorf("CreateSeriesListIfNotExists: %w", err)
	}
	var changes tsdb.FieldChanges
	for _, p := range points {
		created, pwe := tsdb.ValidateAndCreateFields(e.MeasurementFields(p.Name()), p, false)
		for _, fc := range created {
			changes = append(changes, &tsdb.FieldChange{FieldCreate: *fc, ChangeType: tsdb.AddMeasurementField})
		}
		if pwe != nil {
			return fmt.Errorf("field validation: %s", pwe.Reason)
		}
	}
	if len(changes) > 0 {
		if err := e.MeasurementFieldSet().Save(changes); err != nil {
			return fmt.Errorf("MeasurementFieldSet.Save: %w", err)
		}
	}
	return e.WritePoints(context.Background(), points)
}

type seriesIter struct{ keys [][]byte }
type seriesElem struct {
	name []byte
	tags models.Tags
}

func (s seriesElem) Name() []byte        { return s.name }
func (s seriesElem) Tags() models.Tags   { return s.tags }
func (s seriesElem) Deleted() bool       { return false }
func (s seriesElem) Expr() influxql.Expr { return nil }
func (it *seriesIter) Close() error      { return nil }
func (it *seriesIter) Next() (tsdb.SeriesElem, error) {
	if len(it.keys) == 0 {
		return nil, nil
	}
	name, tags := models.ParseKeyBytes(it.keys[0])
	it.keys = it.keys[1:]
	return seriesElem{name, tags}, nil
}

func tsmPaths(e *tsm1.Engine) []string {
	var out []string
	for _, f := range e.FileStore.Files() {
		out = append(out, f.Path())
	}
	sort.Strings(out)
	return out
}

func doOp(e *tsm1.Engine, op Op) error {
	ctx := context.Background()
	switch op.Kind {
	case "write":
		return shardWrite(e, op.Pts)
	case "delrange":
		return e.DeleteSeriesRange(ctx, &seriesIter{keys: [][]byte{[]byte(op.Series)}}, op.Min, op.Max)
	case "delseries":
		return e.DeleteSeriesRange(ctx, &seriesIter{keys: [][]byte{[]byte(op.Series)}}, math.MinInt64, math.MaxInt64)
	case "snapshot":
		return e.WriteSnapshot()
	case "compact_level":
		fs := tsmPaths(e)
		if len(fs) < 2 {
			return fmt.Errorf("compact_level needs 2 TSM files, have %d", len(fs))
		}
		e.VerifApplyLevelCompaction(tsm1.CompactionGroup(fs[:2]), false, 1)
		if n := len(tsmPaths(e)); n != len(fs)-1 {
			return fmt.Errorf("level compaction of %v left %d files", fs[:2], n)
		}
		return nil
	case "compact_full":
		fs := tsmPaths(e)
		if len(fs) < 2 {
			return fmt.Errorf("compact_full needs 2 TSM files, have %d", len(fs))
		}
		e.VerifApplyFullCompaction(tsm1.CompactionGroup(fs))
		if n := len(tsmPaths(e)); n != 1 {
			return fmt.Errorf("full compaction of %v left %d files", fs, n)
		}
		return nil
	case "close":
		return e.Close(false)
	case "close_flush":
		return e.Close(true)
	case "hold":
		for _, s := range op.Hold {
			heldCursors = append(heldCursors, e.KeyCursor(ctx, tsm1.SeriesFieldKeyBytes(s, "v"), 0, true))
		}
		if got := inUsePattern(e); got != op.InUse {
			return fmt.Errorf("hold %v: TSM files in use %q, the history expects %q", op.Hold, got, op.InUse)
		}
		return nil
	case "release":
		for _, c := range heldCursors {
			c.Close()
		}
		heldCursors = nil
		// the purger (a goroutine polling once per second) unlinks the replaced files the readers held; the op is
		// complete when it has done so
		for i := 0; ; i++ {
			left, err := filepath.Glob(filepath.Join(e.Path(), "*."+tsm1.TSMFileExtension+"."+tsm1.TmpTSMFileExtension))
			if err != nil {
				return err
			}
			if len(left) == 0 {
				return nil
			}
			if i > 300 {
				return fmt.Errorf("release: the purger left %v after 30 s", left)
			}
			time.Sleep(100 * time.Millisecond)
		}
	}
	return fmt.Errorf("unknown op %q", op.Kind)
}

// heldCursors are the read cursors the history writer keeps open between "hold" and "release".
var heldCursors []*tsm1.KeyCursor

// inUsePattern is one '1' (referenced by a reader) or '0' per TSM file of the file store, in path order.
func inUsePattern(e *tsm1.Engine) string {
	fs := append([]tsm1.TSMFile{}, e.FileStore.Files()...)
	sort.Slice(fs, func(i, j int) bool { return fs[i].Path() < fs[j].Path() })
	var b strings.Builder
	for _, f := range fs {
		if f.InUse() {
			b.WriteByte('1')
		} else {
			b.WriteByte('0')
		}
	}
	return b.String()
}

// ---------------------------------------------------------------------------------------------------------
// history writer (runs under strace)

type writerSpec struct {
	Root    string  `json:"root"` // crash image root: engine in root/data, WAL in root/wal
	Aux     string  `json:"aux"`
	Markers string  `json:"markers"`
	History History `json:"history"`
}

func writerMain(js string) int {
	var sp writerSpec
	if err := json.Unmarshal([]byte(js), &sp); err != nil {
		fmt.Fprintln(os.Stderr, "c02 writer: bad spec:", err)
		return 2
	}
	m, err := crashfs.OpenMarkers(sp.Markers)
	if err != nil {
		fmt.Fprintln(os.Stderr, "c02 writer:", err)
		return 2
	}
	a, err := openAux(sp.Aux)
	if err != nil {
		fmt.Fprintln(os.Stderr, "c02 writer: aux:", err)
		return 2
	}
	e, err := openEngine(a, sp.Root, sp.History.WALSegmentSize)
	if err != nil {
		fmt.Fprintln(os.Stderr, "c02 writer: open:", err)
		return 2
	}
	closed := false
	for k, op := range sp.History.Ops {
		m.Begin(k, op)
		if err := doOp(e, op); err != nil {
			// histories are designed to succeed; a failing op is a harness problem, not an acknowledged op
			fmt.Fprintf(os.Stderr, "c02 writer: op %d %s failed: %v\n", k, op.Kind, err)
			return 1
		}
		m.Ack(k, "ok")
		closed = closed || op.Kind == "close" || op.Kind == "close_flush"
	}
	_ = closed // the process simply exits; an unclosed engine is the normal case for a crash check
	return 0
}

// ---------------------------------------------------------------------------------------------------------
// recovery checker (fresh subprocess; batch of images; one JSON line per image)

// State is key ("series#!~#field") → decimal timestamp → typed value literal.
type State map[string]map[string]string

// Obs is what the real code did on one image.
type Obs struct {
	ID        string `json:"id"`
	Panic     string `json:"panic,omitempty"`
	OpenErr   string `json:"open_err,omitempty"`
	ReadErr   string `json:"read_err,omitempty"`
	S1        State  `json:"s1,omitempty"` // after the first recovery
	WriteErr  string `json:"write_err,omitempty"`
	S2        State  `json:"s2,omitempty"` // after one more acknowledged write
	Open2Err  string `json:"open2_err,omitempty"`
	S3        State  `json:"s3,omitempty"` // after the second restart (directory copied without closing)
	Write2Err string `json:"write2_err,omitempty"`
	S4        State  `json:"s4,omitempty"`
	Stage     int    `json:"stage"` // last stage completed (0..4)
}

const sX = "cpu,host=X" // series of the post-recovery writes (never used by histories)

func extra(n int) []Pt {
	return []Pt{{S: sX, F: "v", T: int64(9000 + n), V: fmt.Sprintf("f:%d", 990000+n)}}
}

var universe = []string{sA, sB, sM, sX, sC}
var universeFields = []string{"v", "w", "s"}

func readAll(e *tsm1.Engine) (State, error) {
	ctx := context.Background()
	keys := map[string]struct{}{}
	for k := range e.FileStore.Keys() {
		keys[k] = struct{}{}
	}
	for _, k := range e.Cache.Keys() {
		keys[string(k)] = struct{}{}
	}
	for _, s := range universe {
		for _, f := range universeFields {
			keys[s+"#!~#"+f] = struct{}{}
		}
	}
	sorted := make([]string, 0, len(keys))
	for k := range keys {
		sorted = append(sorted, k)
	}
	sort.Strings(sorted)
	itr, err := e.CreateCursorIterator(ctx)
	if err != nil {
		return nil, err
	}
	st := State{}
	for _, k := range sorted {
		sk, field := tsm1.SeriesAndFieldFromCompositeKey([]byte(k))
		name, tags := models.ParseKeyBytes(sk)
		cur, err := itr.Next(ctx, &tsdb.CursorRequest{Name: name, Tags: tags, Field: string(field), Ascending: true,
			StartTime: models.MinNanoTime, EndTime: models.MaxNanoTime})
		if err != nil {
			return nil, fmt.Errorf("cursor for %s: %w", k, err)
		}
		if cur == nil {
			continue
		}
		m := map[string]string{}
		put := func(t int64, v string) error {
			ts := strconv.FormatInt(t, 10)
			if _, dup := m[ts]; dup {
				return fmt.Errorf("cursor for %s returned timestamp %d twice", k, t)
			}
			m[ts] = v
			return nil
		}
		var rerr error
		switch c := cur.(type) {
		case tsdb.FloatArrayCursor:
			for a := c.Next(); a.Len() > 0 && rerr == nil; a = c.Next() {
				for i, t := range a.Timestamps {
					if rerr = put(t, "f:"+strconv.FormatFloat(a.Values[i], 'g', -1, 64)); rerr != nil {
						break
					}
				}
			}
		case tsdb.IntegerArrayCursor:
			for a := c.Next(); a.Len() > 0 && rerr == nil; a = c.Next() {
				for i, t := range a.Timestamps {
					if rerr = put(t, "i:"+strconv.FormatInt(a.Values[i], 10)); rerr != nil {
						break
					}
				}
			}
		case tsdb.StringArrayCursor:
			for a := c.Next(); a.Len() > 0 && rerr == nil; a = c.Next() {
				for i, t := range a.Timestamps {
					if rerr = put(t, "s:"+a.Values[i]); rerr != nil {
						break
					}
				}
			}
		case tsdb.UnsignedArrayCursor:
			for a := c.Next(); a.Len() > 0 && rerr == nil; a = c.Next() {
				for i, t := range a.Timestamps {
					if rerr = put(t, "u:"+strconv.FormatUint(a.Values[i], 10)); rerr != nil {
						break
					}
				}
			}
		case tsdb.BooleanArrayCursor:
			for a := c.Next(); a.Len() > 0 && rerr == nil; a = c.Next() {
				for i, t := range a.Timestamps {
					if rerr = put(t, "b:"+strconv.FormatBool(a.Values[i])); rerr != nil {
						break
					}
				}
			}
		default:
			rerr = fmt.Errorf("unknown cursor type %T", cur)
		}
		if rerr == nil {
			rerr = cur.Err()
		}
		cur.Close()
		if rerr != nil {
			return nil, rerr
		}
		if len(m) > 0 {
			st[k] = m
		}
	}
	return st, nil
}

func copyTree(src, dst string) error {
	return filepath.Walk(src, func(p string, fi os.FileInfo, err error) error {
		if err != nil {
			return err
		}
		rel, _ := filepath.Rel(src, p)
		t := filepath.Join(dst, rel)
		if fi.IsDir() {
			return os.MkdirAll(t, 0o777)
		}
		b, err := os.ReadFile(p)
		if err != nil {
			return err
		}
		return os.WriteFile(t, b, 0o666)
	})
}

type recJob struct {
	Aux     string   `json:"aux"`
	SegSize int      `json:"seg_size"`
	Dirs    []string `json:"dirs"` // each holds root/ (the image); root2/ is created next to it
	IDs     []string `json:"ids"`
	Out     string   `json:"out"`
}

var prof = map[string]time.Duration{}

func lap(name string, t0 *time.Time) {
	now := time.Now()
	prof[name] += now.Sub(*t0)
	*t0 = now
}

// scrub removes the scratch location from error texts so that observations are identical across replays.
func scrub(o *Obs, dir string) {
	for _, p := range []*string{&o.Panic, &o.OpenErr, &o.ReadErr, &o.WriteErr, &o.Open2Err, &o.Write2Err} {
		*p = strings.ReplaceAll(*p, dir+string(filepath.Separator), "<image>/")
		*p = strings.ReplaceAll(*p, dir, "<image>")
	}
}

func recoverOne(a *aux, dir string, segSize int, id string) (o Obs) {
	o.ID = id
	defer scrub(&o, dir)
	t0 := time.Now()
	defer lap("close", &t0)
	defer func() {
		if r := recover(); r != nil {
			o.Panic = fmt.Sprintf("%v @ %s", r, topFrame(string(debug.Stack())))
		}
	}()
	root := filepath.Join(dir, "root")
	e1, err := openEngine(a, root, segSize)
	if err != nil {
		o.OpenErr = err.Error()
		return
	}
	defer e1.Close(false)
	lap("open1", &t0)
	if o.S1, err = readAll(e1); err != nil {
		o.ReadErr = err.Error()
		return
	}
	o.Stage = 1
	lap("read1", &t0)
	if err := shardWrite(e1, extra(1)); err != nil {
		o.WriteErr = err.Error()
		return
	}
	lap("write1", &t0)
	if o.S2, err = readAll(e1); err != nil {
		o.ReadErr = err.Error()
		return
	}
	o.Stage = 2
	lap("read2", &t0)
	root2 := filepath.Join(dir, "root2")
	if err := copyTree(root, root2); err != nil { // second process death: the first engine is still open
		panic("harness: copy: " + err.Error())
	}
	lap("copy", &t0)
	e2, err := openEngine(a, root2, segSize)
	if err != nil {
		o.Open2Err = err.Error()
		return
	}
	defer e2.Close(false)
	lap("open2", &t0)
	if o.S3, err = readAll(e2); err != nil {
		o.ReadErr = err.Error()
		return
	}
	o.Stage = 3
	if err := shardWrite(e2, extra(2)); err != nil {
		o.Write2Err = err.Error()
		return
	}
	if o.S4, err = readAll(e2); err != nil {
		o.ReadErr = err.Error()
		return
	}
	o.Stage = 4
	lap("read3+write2+read4", &t0)
	return
}

func topFrame(stack string) string {
	for _, l := range strings.Split(stack, "\n") {
		if strings.HasPrefix(l, "github.com/influxdata/influxdb/v2") {
			if i := strings.IndexByte(l, '('); i > 0 {
				return l[:i]
			}
			return l
		}
	}
	return "?"
}

func recoverMain(jobPath string) int {
	b, err := os.ReadFile(jobPath)
	if err != nil {
		fmt.Fprintln(os.Stderr, "c02 recover:", err)
		return 2
	}
	var job recJob
	if err := json.Unmarshal(b, &job); err != nil {
		fmt.Fprintln(os.Stderr, "c02 recover:", err)
		return 2
	}
	if p := os.Getenv("VERIF_C02_PROF"); p != "" && p != "1" {
		if f, err := os.Create(p); err == nil {
			pprof.StartCPUProfile(f)
			defer pprof.StopCPUProfile()
		}
	}
	t00 := time.Now()
	a, err := openAux(job.Aux)
	if err != nil {
		fmt.Fprintln(os.Stderr, "c02 recover: aux:", err)
		return 2
	}
	lap("auxopen", &t00)
	out, err := os.OpenFile(job.Out, os.O_CREATE|os.O_WRONLY|os.O_APPEND, 0o666)
	if err != nil {
		fmt.Fprintln(os.Stderr, "c02 recover:", err)
		return 2
	}
	for i, d := range job.Dirs {
		fmt.Fprintf(os.Stderr, "c02 recover: image %s\n", job.IDs[i])
		o := recoverOne(a, d, job.SegSize, job.IDs[i])
		line, _ := json.Marshal(o)
		out.Write(append(line, '\n'))
	}
	out.Close()
	t0 := time.Now()
	a.close()
	lap("auxclose", &t0)
	if os.Getenv("VERIF_C02_PROF") != "" {
		fmt.Fprintf(os.Stderr, "c02 recover profile: %v\n", prof)
	}
	return 0
}

// ---------------------------------------------------------------------------------------------------------
// reference model (from the property statement) and comparison

const absent = ""

type refModel struct {
	cur  State                          // after the acknowledged ops, in order
	ever map[string]map[string]struct{} // "key\x00t" → values acknowledged at some time (for classification)
}

func newModel() *refModel { return &refModel{cur: State{}, ever: map[string]map[string]struct{}{}} }

func (m *refModel) apply(op Op) {
	switch op.Kind {
	case "write":
		for _, p := range op.Pts {
			k := p.S + "#!~#" + p.F
			if m.cur[k] == nil {
				m.cur[k] = map[string]string{}
			}
			ts := strconv.FormatInt(p.T, 10)
			m.cur[k][ts] = p.V
			ek := k + "\x00" + ts
			if m.ever[ek] == nil {
				m.ever[ek] = map[string]struct{}{}
			}
			m.ever[ek][p.V] = struct{}{}
		}
	case "delrange", "delseries":
		lo, hi := op.Min, op.Max
		if op.Kind == "delseries" {
			lo, hi = math.MinInt64, math.MaxInt64
		}
		for k, pts := range m.cur {
			if !strings.HasPrefix(k, op.Series+"#!~#") {
				continue
			}
			for ts := range pts {
				t, _ := strconv.ParseInt(ts, 10, 64)
				if t >= lo && t <= hi {
					delete(pts, ts)
				}
			}
			if len(pts) == 0 {
				delete(m.cur, k)
			}
		}
	}
}

// allowedExtra returns, for the op in flight, the additional value allowed per (key, ts): the new value of a
// write, or absent for a delete.
func allowedExtra(op *Op) map[string]string {
	out := map[string]string{}
	if op == nil {
		return out
	}
	switch op.Kind {
	case "write":
		for _, p := range op.Pts {
			out[p.S+"#!~#"+p.F+"\x00"+strconv.FormatInt(p.T, 10)] = p.V
		}
	}
	return out
}

func inDeleteRange(op *Op, key string, ts string) bool {
	if op == nil || (op.Kind != "delrange" && op.Kind != "delseries") {
		return false
	}
	if !strings.HasPrefix(key, op.Series+"#!~#") {
		return false
	}
	if op.Kind == "delseries" {
		return true
	}
	t, _ := strconv.ParseInt(ts, 10, 64)
	return t >= op.Min && t <= op.Max
}

// compare checks an observed state against the model: every (key, ts) must hold the model's value, or — only
// where the in-flight op touches it — the in-flight op's outcome. Returns "" or (clause, detail); the
// mismatches are visited in sorted order so the text is deterministic. inflightSeen reports how much of the
// in-flight op is visible ("none", "all", "part", "n/a").
func compare(got State, m *refModel, infl *Op) (clause, detail, inflightSeen string) {
	ext := allowedExtra(infl)
	type kt struct{ k, ts string }
	set := map[kt]struct{}{}
	for k, pts := range got {
		for ts := range pts {
			set[kt{k, ts}] = struct{}{}
		}
	}
	for k, pts := range m.cur {
		for ts := range pts {
			set[kt{k, ts}] = struct{}{}
		}
	}
	for e := range ext {
		i := strings.IndexByte(e, 0)
		set[kt{e[:i], e[i+1:]}] = struct{}{}
	}
	all := make([]kt, 0, len(set))
	for x := range set {
		all = append(all, x)
	}
	sort.Slice(all, func(i, j int) bool {
		if all[i].k != all[j].k {
			return all[i].k < all[j].k
		}
		a, _ := strconv.ParseInt(all[i].ts, 10, 64)
		b, _ := strconv.ParseInt(all[j].ts, 10, 64)
		return a < b
	})
	touched, applied := 0, 0
	for _, x := range all {
		g := got[x.k][x.ts]
		want := m.cur[x.k][x.ts]
		alt, hasAlt := ext[x.k+"\x00"+x.ts]
		if inDeleteRange(infl, x.k, x.ts) && want != absent {
			alt, hasAlt = absent, true
		}
		if hasAlt && alt != want {
			touched++
			if g == alt {
				applied++
			}
		}
		if g == want || (hasAlt && g == alt) {
			continue
		}
		if clause != "" {
			continue
		}
		allowed := fmt.Sprintf("%q", want)
		if hasAlt {
			allowed += fmt.Sprintf(" or %q (op in flight)", alt)
		}
		detail = fmt.Sprintf("%s@%s: read %q, allowed %s", x.k, x.ts, g, allowed)
		_, wasAcked := m.ever[x.k+"\x00"+x.ts][g]
		switch {
		case g == absent:
			clause = "lost-acked-write"
		case want == absent && len(m.ever[x.k+"\x00"+x.ts]) > 0 && wasAcked:
			clause = "deleted-data-reappears"
		case want != absent && wasAcked:
			clause = "lost-acked-write" // an older acknowledged value shows instead of the newest
		default:
			clause = "phantom-data"
		}
	}
	switch {
	case infl == nil || touched == 0:
		inflightSeen = "n/a"
	case applied == 0:
		inflightSeen = "none"
	case applied == touched:
		inflightSeen = "all"
	default:
		inflightSeen = "part"
	}
	return
}

func hasAll(got State, pts []Pt) string {
	for _, p := range pts {
		if g := got[p.S+"#!~#"+p.F][strconv.FormatInt(p.T, 10)]; g != p.V {
			return fmt.Sprintf("%s#!~#%s@%d: read %q after the write returned success, want %q", p.S, p.F, p.T, g, p.V)
		}
	}
	return ""
}

// judge applies the three-step oracle of the check to one observation under one acknowledgement context.
func judge(o *Obs, acked []Op, infl *Op) (clause, detail, inflightSeen string) {
	m := newModel()
	for _, op := range acked {
		m.apply(op)
	}
	inflightSeen = "n/a"
	if o.Panic != "" {
		return "open-fails", "panic during recovery: " + o.Panic, inflightSeen
	}
	if o.OpenErr != "" {
		return "open-fails", "Engine.Open: " + o.OpenErr, inflightSeen
	}
	if o.Stage < 1 {
		return "open-fails", "reading after Open: " + o.ReadErr, inflightSeen
	}
	if c, d, s := compare(o.S1, m, infl); c != "" {
		return c, "after recovery: " + d, s
	} else {
		inflightSeen = s
	}
	// (2) one more write
	if o.WriteErr != "" {
		return "rejects-writes", "write after recovery: " + o.WriteErr, inflightSeen
	}
	if o.Stage < 2 {
		return "rejects-writes", "reading after the post-recovery write: " + o.ReadErr, inflightSeen
	}
	m.apply(Op{Kind: "write", Pts: extra(1)})
	if d := hasAll(o.S2, extra(1)); d != "" {
		return "rejects-writes", d, inflightSeen
	}
	if c, d, _ := compare(o.S2, m, infl); c != "" {
		return c, "after the post-recovery write: " + d, inflightSeen
	}
	// (3) second restart
	if o.Open2Err != "" {
		return "lost-after-second-restart", "second Engine.Open: " + o.Open2Err, inflightSeen
	}
	if o.Stage < 3 {
		return "lost-after-second-restart", "reading after the second restart: " + o.ReadErr, inflightSeen
	}
	if c, d, _ := compare(o.S3, m, infl); c != "" {
		return "lost-after-second-restart", c + " after the second restart: " + d, inflightSeen
	}
	if o.Write2Err != "" {
		return "rejects-writes", "write after the second restart: " + o.Write2Err, inflightSeen
	}
	if o.Stage < 4 {
		return "rejects-writes", "reading after the write that followed the second restart: " + o.ReadErr, inflightSeen
	}
	if d := hasAll(o.S4, extra(2)); d != "" {
		return "rejects-writes", "after the second restart: " + d, inflightSeen
	}
	return "", "", inflightSeen
}

func opsOf(im *crashfs.Image) (acked []Op, infl *Op, err error) {
	for _, a := range im.Acked() {
		var op Op
		if err := json.Unmarshal([]byte(a.Op), &op); err != nil {
			return nil, nil, err
		}
		acked = append(acked, op)
	}
	if f := im.InFlight(); f != nil {
		var op Op
		if err := json.Unmarshal([]byte(f.Op), &op); err != nil {
			return nil, nil, err
		}
		infl = &op
	}
	return
}

// ---------------------------------------------------------------------------------------------------------
// driver

var imgOpts = crashfs.Options{SyncClasses: []string{"*.wal", "*.tsm", "*.tombstone", "*.tmp"}, Torn: true, Unsynced: true}

func selfEnv(extra ...string) []string {
	var env []string
	for _, e := range os.Environ() {
		if strings.HasPrefix(e, "VERIF_WORKER") || strings.HasPrefix(e, "VERIF_REPLAY=") || strings.HasPrefix(e, "VERIF_CRASH_WRITER=") || (strings.HasPrefix(e, "VERIF_C02_") && !strings.HasPrefix(e, "VERIF_C02_PROF=")) {
			continue
		}
		env = append(env, e)
	}
	return append(env, extra...)
}

func recordHistory(scratch string, h History) (*crashfs.Log, error) {
	dir, err := os.MkdirTemp(scratch, "rec-")
	if err != nil {
		return nil, err
	}
	defer os.RemoveAll(dir)
	sp := writerSpec{Root: filepath.Join(dir, "root"), Aux: filepath.Join(dir, "aux"), Markers: filepath.Join(dir, "markers"), History: h}
	js, _ := json.Marshal(sp)
	return crashfs.Record(crashfs.RecordSpec{
		Argv: []string{os.Args[0], "-test.run", "^TestCheck$", "-test.timeout", "0"},
		// GOMAXPROCS=1: FileStore.Apply then runs per-file work (tombstone commits of a delete that hits several TSM
		// files) one file at a time, which keeps recordings of one history nearly deterministic (replayable).
		Env:        selfEnv("VERIF_CRASH_WRITER="+string(js), "GOMAXPROCS=1"),
		DataDir:    sp.Root,
		MarkerFile: sp.Markers,
	})
}

// windowStart returns the index of the event that is the BEGIN marker of op h.WindowFrom (-1 for histories without
// a window, i.e. every cut counts; -2 if the marker is missing).
func windowStart(l *crashfs.Log, h History) int {
	if h.WindowFrom <= 0 {
		return -1
	}
	for i := range l.Events {
		if m := l.Events[i].Marker; m != nil && m.Kind == "BEGIN" && m.K == h.WindowFrom {
			return i
		}
	}
	return -2
}

func shapeHash(l *crashfs.Log) string {
	s := sha256.Sum256([]byte(l.Shape()))
	return hex.EncodeToString(s[:8])
}

// prefixDigest pins the part of a log a descriptor depends on: every event up to the cut (and the torn write),
// with paths, offsets and payload bytes. Two recordings with equal digests give byte-identical images. (Recordings
// of one history can differ: a WAL entry holding two keys is encoded in Go map order.)
func prefixDigest(l *crashfs.Log, d crashfs.Descriptor) string {
	n := d.Cut
	if d.TornLen >= 0 && d.TornEvent >= n {
		n = d.TornEvent + 1
	}
	if n > len(l.Events) {
		return "log-too-short"
	}
	h := sha256.New()
	for i := 0; i < n; i++ {
		e := &l.Events[i]
		fmt.Fprintf(h, "%s|%s|%s|%d|%d|%d|%x|", e.Op, e.Path, e.Path2, e.Ino, e.Off, e.Size, sha256.Sum256(e.Data))
		if e.Marker != nil {
			fmt.Fprintf(h, "%s|%d|%s|", e.Marker.Kind, e.Marker.K, e.Marker.Payload)
		}
	}
	return hex.EncodeToString(h.Sum(nil)[:8])
}

// logCache holds the recordings made by this process, per history. The explorer's own recordings seed it, so
// the in-process confirmation replays re-run only the recovery (the image bytes are pinned by prefixDigest
// anyway); `vf replay` starts with an empty cache and records from scratch.
var (
	logCacheMu sync.Mutex
	logCache   = map[string][]*crashfs.Log{}
)

func historyKey(h History) string { b, _ := json.Marshal(h); return string(b) }

func cacheLog(h History, l *crashfs.Log) {
	logCacheMu.Lock()
	logCache[historyKey(h)] = append(logCache[historyKey(h)], l)
	logCacheMu.Unlock()
}

func findLog(scratch string, h History, d crashfs.Descriptor, digest string) (*crashfs.Log, string) {
	logCacheMu.Lock()
	cached := append([]*crashfs.Log{}, logCache[historyKey(h)]...)
	logCacheMu.Unlock()
	for _, l := range cached {
		if digest == "" || prefixDigest(l, d) == digest {
			return l, ""
		}
	}
	const tries = 12
	for try := 0; try < tries; try++ {
		l, err := recordHistory(scratch, h)
		if err != nil {
			return nil, "recording failed: " + err.Error()
		}
		cacheLog(h, l)
		if digest == "" || prefixDigest(l, d) == digest {
			return l, ""
		}
	}
	return nil, fmt.Sprintf("could not re-record a log with the same event prefix in %d attempts (the history is not deterministic enough for this descriptor)", tries)
}

// runRecovery materializes the images into dir/<i>/root and runs ONE recovery subprocess over them. It returns
// the observations by id; ids missing from the map were not reached (the subprocess died or hung at the first
// missing one); tail is the end of its stderr.
func runRecovery(dir string, segSize int, ims []*crashfs.Image, ids []string, timeout time.Duration) (map[string]*Obs, string, error) {
	job := recJob{Aux: filepath.Join(dir, "aux"), SegSize: segSize, IDs: ids, Out: filepath.Join(dir, "out.jsonl")}
	for i, im := range ims {
		d := filepath.Join(dir, strconv.Itoa(i))
		if err := im.Materialize(filepath.Join(d, "root")); err != nil {
			return nil, "", fmt.Errorf("materialize %v: %w", im.Desc, err)
		}
		job.Dirs = append(job.Dirs, d)
	}
	jb, _ := json.Marshal(job)
	jp := filepath.Join(dir, "job.json")
	if err := os.WriteFile(jp, jb, 0o666); err != nil {
		return nil, "", err
	}
	cmd := exec.Command(os.Args[0], "-test.run", "^TestCheck$", "-test.timeout", "0")
	cmd.Env = selfEnv("VERIF_C02_RECOVER=" + jp)
	var stderr strings.Builder
	cmd.Stdout = &stderr
	cmd.Stderr = &stderr
	if err := cmd.Start(); err != nil {
		return nil, "", err
	}
	done := make(chan error, 1)
	go func() { done <- cmd.Wait() }()
	timedOut := false
	select {
	case <-done:
	case <-time.After(timeout):
		timedOut = true
		cmd.Process.Kill()
		<-done
	}
	res := map[string]*Obs{}
	if f, err := os.Open(job.Out); err == nil {
		sc := bufio.NewScanner(f)
		sc.Buffer(make([]byte, 1<<20), 64<<20)
		for sc.Scan() {
			var o Obs
			if json.Unmarshal(sc.Bytes(), &o) == nil && o.ID != "" {
				oo := o
				res[o.ID] = &oo
			}
		}
		f.Close()
	}
	t := stderr.String()
	if len(t) > 1500 {
		t = t[len(t)-1500:]
	}
	if timedOut {
		t = "TIMEOUT after " + timeout.String() + "\n" + t
	}
	return res, t, nil
}

// Case is the replayable form of one violation.
type Case struct {
	History History            `json:"history"`
	Desc    crashfs.Descriptor `json:"image"`
	Shape   string             `json:"log_prefix_digest"` // digest of the events (incl. payloads) the descriptor depends on
	Cut     string             `json:"cut_description"`
}

type group struct {
	im   *crashfs.Image   // first image with this content (materialized)
	ctxs []*crashfs.Image // all (content, context) images of the group, incl. im
	hi   int
}

func opKind(o *Op) string {
	if o == nil {
		return "none"
	}
	return o.Kind
}

func fileClass(c string) string {
	switch c {
	case ".wal", ".tsm", ".tmp", ".tombstone", ".idx", ".idxl":
		return c
	}
	return "none"
}

func stateHash(s State) string {
	b, _ := json.Marshal(s) // maps are marshalled with sorted keys
	h := sha256.Sum256(b)
	return hex.EncodeToString(h[:8])
}

func run(c *vlib.Ctx) {
	defer func() {
		if r := recover(); r != nil { // a bug of the machinery must never look like a finding or kill the report
			c.HarnessError(fmt.Sprintf("explorer panicked: %v\n%s", r, debug.Stack()))
		}
	}()
	hs := histories(c.Tier)
	scratch := vlib.Scratch("c02-")
	defer os.RemoveAll(scratch)

	// 0. the schedule family first, within its share of the budget (the crash-image families get the rest)
	if os.Getenv("VERIF_C02_ONLY") != "crash" {
		runSchedFamily(c, scratch, schedBudget(c))
	}
	if os.Getenv("VERIF_C02_ONLY") == "sched" {
		return
	}

	tPhase := time.Now()
	// 1. record (in parallel)
	logs := make([]*crashfs.Log, len(hs))
	errs := make([]error, len(hs))
	var wg sync.WaitGroup
	for hi := range hs {
		if !c.Mine(int64(hi)) {
			continue
		}
		wg.Add(1)
		go func(hi int) {
			defer wg.Done()
			logs[hi], errs[hi] = recordHistory(scratch, hs[hi])
			if errs[hi] == nil {
				cacheLog(hs[hi], logs[hi])
			}
		}(hi)
	}
	wg.Wait()
	for hi, err := range errs {
		if err == nil {
			continue
		}
		if errors.Is(err, crashfs.ErrNoTrace) {
			c.Cap("strace cannot trace in this environment: no crash image was produced (" + err.Error() + ")")
			return
		}
		c.HarnessError(fmt.Sprintf("recording history %s: %v", hs[hi].Name, err))
		logs[hi] = nil
	}

	c.Logf("phase record: %v", time.Since(tPhase).Round(time.Millisecond))
	tPhase = time.Now()
	// 2. enumerate images, group by content
	var groups []*group
	final := map[int]string{} // per history: hash of the final model state
	for hi, l := range logs {
		if l == nil {
			continue
		}
		c.Extra("histories", 1)
		c.Extra("events", int64(len(l.Events)))
		c.Extra("syscalls_in_logs", int64(l.Syscalls))
		var st crashfs.Stats
		byHash := map[string]*group{}
		from := windowStart(l, hs[hi])
		if from == -2 {
			c.HarnessError(fmt.Sprintf("history %s: no BEGIN marker for op %d in the recording", hs[hi].Name, hs[hi].WindowFrom))
			continue
		}
		for im := range l.Images(imgOpts, &st) {
			if im.Desc.Cut <= from {
				c.Extra("images_before_window_not_recovered", 1)
				continue
			}
			if hs[hi].POnly && im.Desc.Kind != crashfs.KindP {
				c.Extra("torn_and_unsynced_images_in_window_left_to_thorough", 1)
				continue
			}
			if hs[hi].WindowFrom > 0 {
				c.Extra("reader_held_window_images:"+im.Desc.Kind, 1)
				if im.Desc.Kind == crashfs.KindP && (im.NextOp == crashfs.OpRename || im.NextOp == crashfs.OpUnlink) {
					c.Extra("reader_held_window_cuts_before:"+im.NextOp+"_"+fileClass(im.NextClass), 1)
				}
			}
			g := byHash[im.Hash]
			if g == nil {
				g = &group{im: im, hi: hi}
				byHash[im.Hash] = g
				groups = append(groups, g)
			}
			g.ctxs = append(g.ctxs, im)
		}
		for _, k := range []string{"P", "T", "U"} {
			c.Extra("images_generated_"+k, int64(st.Generated[k]))
			c.Extra("images_distinct_"+k, int64(st.Distinct[k]))
		}
		c.Extra("distinct_image_contents", int64(st.Contents))
		c.Extra("writes_with_subsampled_torn_lengths", int64(st.LongTorn))
		m := newModel()
		for _, op := range hs[hi].Ops {
			m.apply(op)
		}
		final[hi] = stateHash(m.cur)
		c.Logf("history %s: %d events, generated %v, distinct %v, contents %d", hs[hi].Name, len(l.Events), st.Generated, st.Distinct, st.Contents)
	}

	c.Logf("phase enumerate: %v (%d distinct contents)", time.Since(tPhase).Round(time.Millisecond), len(groups))
	tPhase = time.Now()
	// 3. recover every distinct content in subprocess batches
	nw := runtime.NumCPU()
	if nw > 16 {
		nw = 16
	}
	// one subprocess opens a series file + index once (~1 s under load): keep batches large, but small enough
	// that all workers stay busy
	batch := len(groups) / (3 * nw)
	if batch < 16 {
		batch = 16
	}
	if batch > 96 {
		batch = 96
	}
	type job struct{ gs []*group }
	var jobs []job
	for i := 0; i < len(groups); {
		j := i
		for j < len(groups) && j-i < batch && hs[groups[j].hi].WALSegmentSize == hs[groups[i].hi].WALSegmentSize { // a batch shares one WAL segment size
			j++
		}
		jobs = append(jobs, job{groups[i:j]})
		i = j
	}
	results := make(map[*group]*Obs, len(groups))
	notes := make(map[*group]string)
	var mu sync.Mutex
	jobCh := make(chan int)
	var pool sync.WaitGroup
	var capped bool
	for wk := 0; wk < nw; wk++ {
		pool.Add(1)
		go func() {
			defer pool.Done()
			for ji := range jobCh {
				gs := jobs[ji].gs
				for len(gs) > 0 {
					dir, err := os.MkdirTemp(scratch, "b-")
					if err != nil {
						c.HarnessError(err.Error())
						return
					}
					ims := make([]*crashfs.Image, len(gs))
					ids := make([]string, len(gs))
					for i, g := range gs {
						ims[i], ids[i] = g.im, strconv.Itoa(i)
					}
					res, tail, err := runRecovery(dir, hs[gs[0].hi].WALSegmentSize, ims, ids, 5*time.Minute+time.Duration(len(gs))*10*time.Second)
					os.RemoveAll(dir)
					if err != nil {
						c.HarnessError("recovery batch: " + err.Error())
						return
					}
					next := len(gs)
					mu.Lock()
					for i, g := range gs {
						if o := res[ids[i]]; o != nil {
							results[g] = o
						} else if i < next {
							next = i
						}
					}
					mu.Unlock()
					if next == len(gs) {
						break
					}
					// the subprocess died or hung at image `next`: isolate it, then go on with the rest
					g := gs[next]
					d2, _ := os.MkdirTemp(scratch, "iso-")
					r2, tail2, err2 := runRecovery(d2, hs[g.hi].WALSegmentSize, []*crashfs.Image{g.im}, []string{"0"}, 3*time.Minute)
					os.RemoveAll(d2)
					mu.Lock()
					if err2 == nil && r2["0"] != nil {
						results[g] = r2["0"] // passed alone: the batch death was not caused by this image
						notes[g] = "recovery subprocess died in a batch but the image recovered when isolated: " + tail
					} else {
						notes[g] = "recovery subprocess died/hung on this image, also when isolated: " + tail2
					}
					mu.Unlock()
					gs = gs[next+1:]
				}
			}
		}()
	}
	for ji := range jobs {
		if c.Expired() {
			capped = true
			break
		}
		jobCh <- ji
	}
	close(jobCh)
	pool.Wait()
	if capped {
		c.Cap("wall budget reached: recovery was run for a prefix of the (history-ordered, simplest-first) image list only")
	}

	c.Logf("phase recover: %v (%d batches)", time.Since(tPhase).Round(time.Millisecond), len(jobs))
	// 4. judge every (content, context)
	recovered := map[string]struct{}{}
	for _, g := range groups {
		o := results[g]
		if o == nil {
			if n, ok := notes[g]; ok {
				c.HarnessError(fmt.Sprintf("history %s image %v: %s", hs[g.hi].Name, g.im.Desc, n))
			}
			continue
		}
		if o.Stage >= 1 {
			recovered[strconv.Itoa(g.hi)+"/"+stateHash(o.S1)] = struct{}{}
		}
		for _, im := range g.ctxs {
			acked, infl, err := opsOf(im)
			if err != nil {
				c.HarnessError("marker payload: " + err.Error())
				continue
			}
			clause, detail, seen := judge(o, acked, infl)
			c.Eval(1)
			if o.Stage >= 1 && len(o.S1) > 0 && stateHash(o.S1) != final[g.hi] {
				c.NontrivialN(1)
			} else if hs[g.hi].WindowFrom > 0 && infl != nil && infl.Kind != "hold" {
				c.NontrivialN(1) // reader-held family: the cut is inside the compaction commit or the purge of the held files
			}
			res := "ok"
			if clause != "" {
				res = clause
			}
			c.Outcome(fmt.Sprintf("%s/inflight=%s/seen=%s:%s", im.Desc.Kind, opKind(infl), seen, res))
			c.Extra("cuts_by_file_class_in_flight:"+fileClass(im.NextClass), 1)
			if clause != "" {
				cutDesc := fmt.Sprintf("%v: %s %s", im.Desc, im.NextOp, im.NextPath)
				sig := vlib.JoinSig(clause, "Engine.Open", "file="+fileClass(im.NextClass), "cut="+im.Desc.Kind, "inflight="+opKind(infl))
				c.Violation(sig, fmt.Sprintf("history %s, crash image %s, %d ops acknowledged, in flight: %s — %s", hs[g.hi].Name, cutDesc, len(acked), opKind(infl), detail),
					Case{History: hs[g.hi], Desc: im.Desc, Shape: prefixDigest(logs[g.hi], im.Desc), Cut: cutDesc})
			}
			if c.WantSample() && infl != nil && clause == "" && im.Desc.Kind != crashfs.KindP {
				c.Sample(map[string]any{"history": hs[g.hi].Name, "image": im.Desc.String(), "at": im.NextOp + " " + im.NextPath,
					"acked_ops": len(acked), "in_flight": infl.Kind, "in_flight_visible": seen, "recovered_keys": len(o.S1)})
			}
		}
	}
	c.Extra("distinct_recovered_states", int64(len(recovered)))
}

func replay(c *vlib.Ctx, raw json.RawMessage) (bool, string) {
	var sc SchedCase
	if json.Unmarshal(raw, &sc) == nil && sc.Sched != nil {
		return replaySched(c, sc)
	}
	var cs Case
	if err := json.Unmarshal(raw, &cs); err != nil {
		return false, "bad case: " + err.Error()
	}
	scratch := vlib.Scratch("c02r-")
	defer os.RemoveAll(scratch)
	l, msg := findLog(scratch, cs.History, cs.Desc, cs.Shape)
	if l == nil {
		return false, msg
	}
	im, err := l.Build(cs.Desc, imgOpts)
	if err != nil {
		return false, "cannot rebuild the image: " + err.Error()
	}
	dir, _ := os.MkdirTemp(scratch, "img-")
	res, tail, err := runRecovery(dir, cs.History.WALSegmentSize, []*crashfs.Image{im}, []string{"0"}, 5*time.Minute)
	if err != nil {
		return false, "recovery could not be run: " + err.Error()
	}
	o := res["0"]
	if o == nil {
		// deterministic part of the death only: the top repo frame of the stack, if any
		return true, "open-fails: recovery subprocess died: " + topFrame(tail)
	}
	acked, infl, err := opsOf(im)
	if err != nil {
		return false, err.Error()
	}
	clause, detail, _ := judge(o, acked, infl)
	obs := fmt.Sprintf("history %s image %v (in flight at cut: %s %s; %d ops acknowledged, op in flight: %s): ", cs.History.Name, cs.Desc, im.NextOp, classOnly(im.NextPath), len(acked), opKind(infl))
	if clause == "" {
		return false, obs + "recovered state satisfies the model"
	}
	return true, obs + clause + ": " + detail
}

func classOnly(p string) string { return "*" + filepath.Ext(p) }

func dumpMain(name string) {
	for _, h := range histories("thorough") {
		if h.Name != name {
			continue
		}
		scratch := vlib.Scratch("c02d-")
		defer os.RemoveAll(scratch)
		l, err := recordHistory(scratch, h)
		if err != nil {
			fmt.Println("record:", err)
			return
		}
		for _, e := range l.Events {
			b, _ := json.Marshal(e)
			fmt.Println(string(b))
		}
		var st crashfs.Stats
		for range l.Images(imgOpts, &st) {
		}
		fmt.Printf("events=%d syscalls=%d ignored=%v shape=%s generated=%v distinct=%v contents=%d\n", len(l.Events), l.Syscalls, l.Ignored, shapeHash(l), st.Generated, st.Distinct, st.Contents)
		if os.Getenv("VERIF_C02_BENCH") != "" {
			var ims []*crashfs.Image
			var ids []string
			seen := map[string]bool{}
			for im := range l.Images(imgOpts, nil) {
				if !seen[im.Hash] && len(ims) < 48 && im.Desc.Cut > 20 {
					seen[im.Hash] = true
					ims = append(ims, im)
					ids = append(ids, strconv.Itoa(len(ids)))
				}
			}
			t0 := time.Now()
			dir, _ := os.MkdirTemp(scratch, "bench-")
			res, tail, err := runRecovery(dir, h.WALSegmentSize, ims, ids, 10*time.Minute)
			fmt.Printf("bench: %d images, %d results, %v, err=%v\n%s\n", len(ims), len(res), time.Since(t0), err, tail)
		}
	}
}

// ---------------------------------------------------------------------------------------------------------
// SCHEDULE family (controlled scheduler vrt, see shim.json): concurrent clients of ONE engine, then a crash at the
// quiescent point.
//
// The crash-image families above record sequential histories (one op at a time), so a commit sequence that is only
// wrong under an interleaving - e.g. a cache snapshot that removes a WAL segment which was closed AFTER the snapshot
// took its copy of the cache - is outside their space. Here every thread runs a short program over
// {snap = Engine.WriteSnapshot, write = acknowledged write of one NEW point} on a real engine built with the modelled
// sync/atomic (every tsm1 file that uses sync); every schedule within the deviation bound is executed, branching at
// the Engine / Cache / WAL operations. When all threads have finished and the scheduler is drained the process
// "dies": data and WAL directories are copied, the copy is inspected file by file and recovered by a new engine.

// SchedScenario is one concurrent scenario.
type SchedScenario struct {
	Layout  string     `json:"layout"`                     // empty | cache | tsm+cache
	SegSize int        `json:"wal_segment_size,omitempty"` // 0 = default (10 MiB: only snapshots close segments); 1 = every write after the first of a segment rolls it
	Threads [][]string `json:"threads"`                    // per thread, in registration order (= default schedule order): its program
}

func (s SchedScenario) shape() string {
	var ops []string
	for _, p := range s.Threads {
		ops = append(ops, strings.Join(p, ";"))
	}
	return strings.Join(ops, " || ")
}

// opsMultiset is the order-free part of a scenario (signature feature: order variants fall into one class).
func (s SchedScenario) opsMultiset() string {
	var ops []string
	for _, p := range s.Threads {
		ops = append(ops, strings.Join(p, ";"))
	}
	sort.Strings(ops)
	return strings.Join(ops, "+")
}

func (s SchedScenario) seg() string {
	if s.SegSize == 0 {
		return "default"
	}
	return "tiny"
}

func (s SchedScenario) String() string {
	return fmt.Sprintf("layout=%s wal-segments=%s: %s", s.Layout, s.seg(), s.shape())
}

// SchedCase is the replayable form of one schedule-family violation.
type SchedCase struct {
	Sched   *SchedScenario `json:"sched"`
	Choices []int          `json:"schedule"`
	Trace   []string       `json:"trace,omitempty"`
}

// schedFixture is the acknowledged history that precedes the concurrent part (one key per write: deterministic).
func schedFixture(layout string) []Op {
	switch layout {
	case "empty":
		return nil
	case "cache":
		return []Op{w(fv(sA, 1, 11)), w(fv(sA, 2, 12)), w(fv(sB, 1, 13))}
	case "tsm+cache":
		return []Op{w(fv(sA, 1, 11)), w(fv(sB, 1, 13)), snap, w(fv(sA, 2, 12))}
	}
	panic("unknown layout " + layout)
}

// schedPoint is the NEW point written by the n-th write op of a scenario (n = 1, 2, ...).
func schedPoint(n int) Pt { return fv(sA, int64(100+n), 1000+n) }

type schedVerdict struct{ sig, msg string }

type schedRes struct {
	harness  string
	verdicts []schedVerdict
	outcome  string
}

// schedBranch selects the points at which schedules branch: harness steps and the sync operations of Engine, Cache
// (with its entries) and WAL. All other tsm1 locks are modelled too (a contended one disables the thread) but are
// passed silently when free.
func schedBranch(kind vrt.OpKind, label string) bool {
	return kind == vrt.OpHook || strings.Contains(label, "(*Engine)") || strings.Contains(label, "(*Cache)") ||
		strings.Contains(label, "(*entry)") || strings.Contains(label, "(*WAL)")
}

// imageFiles decodes what the copied directories hold WITHOUT the engine: the values of every key in every *.tsm file
// and in every WAL segment (write entries; the family has no deletes). key -> timestamp -> set of value literals.
func imageFiles(root string) (tsm, wal map[string]map[int64]map[string]bool, nTSM, nWAL int, err error) {
	lit := func(v tsm1.Value) string {
		switch x := v.Value().(type) {
		case float64:
			return "f:" + strconv.FormatFloat(x, 'g', -1, 64)
		case int64:
			return "i:" + strconv.FormatInt(x, 10)
		case string:
			return "s:" + x
		}
		return fmt.Sprintf("?:%v", v.Value())
	}
	put := func(m map[string]map[int64]map[string]bool, k string, v tsm1.Value) {
		if m[k] == nil {
			m[k] = map[int64]map[string]bool{}
		}
		if m[k][v.UnixNano()] == nil {
			m[k][v.UnixNano()] = map[string]bool{}
		}
		m[k][v.UnixNano()][lit(v)] = true
	}
	tsm, wal = map[string]map[int64]map[string]bool{}, map[string]map[int64]map[string]bool{}
	tf, _ := filepath.Glob(filepath.Join(root, "data", "*."+tsm1.TSMFileExtension))
	sort.Strings(tf)
	for _, p := range tf {
		f, err := os.Open(p)
		if err != nil {
			return nil, nil, 0, 0, err
		}
		r, err := tsm1.NewTSMReader(f)
		if err != nil {
			f.Close()
			continue // an unreadable TSM file holds nothing for this purpose
		}
		nTSM++
		for i := 0; i < r.KeyCount(); i++ {
			k, _ := r.KeyAt(i)
			vs, err := r.ReadAll(k)
			if err != nil {
				continue
			}
			for _, v := range vs {
				put(tsm, string(k), v)
			}
		}
		r.Close()
	}
	wf, _ := filepath.Glob(filepath.Join(root, "wal", "*."+tsm1.WALFileExtension))
	sort.Strings(wf)
	for _, p := range wf {
		f, err := os.Open(p)
		if err != nil {
			return nil, nil, 0, 0, err
		}
		nWAL++
		r := tsm1.NewWALSegmentReader(f)
		for r.Next() {
			en, err := r.Read()
			if err != nil {
				break
			}
			if we, ok := en.(*tsm1.WriteWALEntry); ok {
				ks := make([]string, 0, len(we.Values))
				for k := range we.Values {
					ks = append(ks, k)
				}
				sort.Strings(ks)
				for _, k := range ks {
					for _, v := range we.Values[k] {
						put(wal, k, v)
					}
				}
			}
		}
		r.Close()
	}
	return tsm, wal, nTSM, nWAL, nil
}

type schedPt struct {
	pt    Pt
	class string // fixture | concurrent-write
	acked bool   // its write returned nil
}

// judgeSchedState compares one read with the statement: every acknowledged point is there with its value, a write
// that returned an error may be there or not, nothing else is.
func judgeSchedState(sc SchedScenario, when string, got State, pts []schedPt, add func(sig, msg string)) {
	known := map[string]schedPt{}
	for _, p := range pts {
		known[p.pt.S+"#!~#"+p.pt.F+"\x00"+strconv.FormatInt(p.pt.T, 10)] = p
	}
	for _, p := range pts {
		if !p.acked {
			continue
		}
		if g := got[p.pt.S+"#!~#"+p.pt.F][strconv.FormatInt(p.pt.T, 10)]; g != p.pt.V {
			add(vlib.JoinSig("sched", "lost-acked-write", when, "point="+p.class, "ops="+sc.opsMultiset(), "wal-segments="+sc.seg()),
				fmt.Sprintf("%s: %s#!~#%s@%d (%s, its write returned success) reads %q, want %q", when, p.pt.S, p.pt.F, p.pt.T, p.class, g, p.pt.V))
		}
	}
	ks := make([]string, 0, len(got))
	for k := range got {
		ks = append(ks, k)
	}
	sort.Strings(ks)
	for _, k := range ks {
		tss := make([]string, 0, len(got[k]))
		for ts := range got[k] {
			tss = append(tss, ts)
		}
		sort.Strings(tss)
		for _, ts := range tss {
			p, ok := known[k+"\x00"+ts]
			if !ok || got[k][ts] != p.pt.V {
				add(vlib.JoinSig("sched", "phantom-data", when, "ops="+sc.opsMultiset(), "wal-segments="+sc.seg()),
					fmt.Sprintf("%s: %s@%s reads %q, which nobody wrote", when, k, ts, got[k][ts]))
			}
		}
	}
}

func schedBody(x *vrt.Exec, sc SchedScenario, res *schedRes) {
	add := func(sig, msg string) { res.verdicts = append(res.verdicts, schedVerdict{sig, msg}) }
	dir := vlib.Scratch("c02s-")
	defer os.RemoveAll(dir)
	a, err := openAux(filepath.Join(dir, "aux"))
	if err != nil {
		res.harness = "aux: " + err.Error()
		return
	}
	defer a.close()
	root := filepath.Join(dir, "root")
	e, err := openEngine(a, root, sc.SegSize)
	if err != nil {
		res.harness = "open: " + err.Error()
		return
	}
	defer e.Close(false)
	var pts []schedPt
	for _, op := range schedFixture(sc.Layout) {
		if err := doOp(e, op); err != nil {
			res.harness = "fixture: " + err.Error()
			return
		}
		for _, p := range op.Pts {
			pts = append(pts, schedPt{pt: p, class: "fixture", acked: true})
		}
	}
	type opRes struct {
		kind string
		pt   int // index into pts, for writes
		done bool
		err  error
	}
	results := make([][]opRes, len(sc.Threads))
	nw := 0
	for ti, prog := range sc.Threads {
		results[ti] = make([]opRes, len(prog))
		for oi, op := range prog {
			results[ti][oi].kind = op
			if op == "write" {
				nw++
				pts = append(pts, schedPt{pt: schedPoint(nw), class: "concurrent-write"})
				results[ti][oi].pt = len(pts) - 1
			}
		}
		ti, prog := ti, prog
		x.Go(fmt.Sprintf("T%d(%s)", ti, strings.Join(prog, ";")), func() {
			for oi, op := range prog {
				if oi > 0 {
					vrt.Hook("call:" + op)
				}
				r := &results[ti][oi]
				switch op {
				case "snap":
					r.err = e.WriteSnapshot()
				case "write":
					r.err = shardWrite(e, []Pt{pts[r.pt].pt})
				default:
					r.err = fmt.Errorf("unknown op %q", op)
				}
				r.done = true
			}
		})
	}
	x.S.MaxSteps = 20000
	x.Run()
	dead, capHit, blocked := x.S.Deadlock, x.S.StepCap, strings.Join(x.S.Blocked, "; ")
	if dead || capHit {
		x.S.Abort()
		if dead {
			res.harness = "deadlock (not a C02 clause; the schedule was not judged): " + blocked
		} else {
			res.harness = "step cap"
		}
		return
	}
	x.S.Drain()
	synctest.Wait() // quiescent: every goroutine of the engine has finished or is parked for good
	var opsOut []string
	for ti := range results {
		for oi := range results[ti] {
			r := &results[ti][oi]
			o := "ok"
			switch {
			case !r.done:
				res.harness = fmt.Sprintf("thread %d op %d did not finish", ti, oi)
				return
			case r.err == nil && r.kind == "write":
				pts[r.pt].acked = true
				o = "ack"
			case r.err != nil && strings.Contains(r.err.Error(), "snapshot in progress"):
				o = "in-progress"
			case r.err != nil:
				o = "error" // not acknowledged: the statement demands nothing of it
			}
			opsOut = append(opsOut, r.kind+":"+o)
		}
	}
	sort.Strings(opsOut)

	// live engine
	live, err := readAll(e)
	if err != nil {
		add(vlib.JoinSig("sched", "read-error", "live-read", "ops="+sc.opsMultiset()), "reading the live engine: "+err.Error())
	} else {
		judgeSchedState(sc, "live-read", live, pts, add)
	}

	// process death at the quiescent point: data + WAL directories as they are on disk now
	root2 := filepath.Join(dir, "root2")
	if err := copyTree(root, root2); err != nil {
		res.harness = "copy: " + err.Error()
		return
	}
	tsmHas, walHas, nTSM, nWAL, err := imageFiles(root2)
	if err != nil {
		res.harness = "decoding the image: " + err.Error()
		return
	}
	for _, p := range pts {
		k, lit := p.pt.S+"#!~#"+p.pt.F, p.pt.V
		if p.acked && !tsmHas[k][p.pt.T][lit] && !walHas[k][p.pt.T][lit] {
			add(vlib.JoinSig("sched", "acked-point-in-no-tsm-file-and-no-wal-segment", "crash-image", "point="+p.class, "ops="+sc.opsMultiset(), "wal-segments="+sc.seg()),
				fmt.Sprintf("crash image at the quiescent point (%d TSM files, %d WAL segments): %s@%d=%s (%s, its write returned success) is in no TSM file and in no WAL segment on disk (it exists only in the cache)", nTSM, nWAL, k, p.pt.T, lit, p.class))
		}
	}
	recovered := "ok"
	var stage string
	panicked, desc := vlib.Guard(func() {
		stage = "Engine.Open"
		e2, err := openEngine(a, root2, sc.SegSize)
		if err != nil {
			recovered = "open-fails"
			add(vlib.JoinSig("sched", "open-fails", "after-crash-reopen", "ops="+sc.opsMultiset()), "Engine.Open on the crash image: "+scrubDir(err.Error(), dir))
			return
		}
		defer e2.Close(false)
		stage = "read"
		s1, err := readAll(e2)
		if err != nil {
			recovered = "read-error"
			add(vlib.JoinSig("sched", "read-error", "after-crash-reopen", "ops="+sc.opsMultiset()), "reading the recovered engine: "+scrubDir(err.Error(), dir))
			return
		}
		n0 := len(res.verdicts)
		judgeSchedState(sc, "after-crash-reopen", s1, pts, add)
		if len(res.verdicts) > n0 {
			recovered = "wrong-state"
		}
		stage = "write"
		if err := shardWrite(e2, extra(1)); err != nil {
			recovered = "rejects-writes"
			add(vlib.JoinSig("sched", "rejects-writes", "after-crash-reopen", "ops="+sc.opsMultiset()), "write after recovery: "+scrubDir(err.Error(), dir))
			return
		}
		s2, err := readAll(e2)
		if err != nil {
			add(vlib.JoinSig("sched", "read-error", "after-crash-reopen", "ops="+sc.opsMultiset()), "reading after the post-recovery write: "+scrubDir(err.Error(), dir))
			return
		}
		if d := hasAll(s2, extra(1)); d != "" {
			recovered = "rejects-writes"
			add(vlib.JoinSig("sched", "rejects-writes", "after-crash-reopen", "ops="+sc.opsMultiset()), d)
		}
	})
	if panicked {
		recovered = "panic"
		add(vlib.JoinSig("sched", "open-fails", "after-crash-reopen", "panic", "ops="+sc.opsMultiset()), "panic during recovery ("+stage+"): "+scrubDir(desc, dir))
	}
	res.outcome = fmt.Sprintf("sched:%s image:tsm=%d,wal=%d recovery=%s", strings.Join(opsOut, ","), nTSM, nWAL, recovered)
	x.Outcome = res.outcome
}

func scrubDir(s, dir string) string {
	return strings.ReplaceAll(strings.ReplaceAll(s, dir+string(filepath.Separator), "<scratch>/"), dir, "<scratch>")
}

func runSched(t *testing.T, sc SchedScenario, prefix []int) (*vrt.Result, *schedRes) {
	res := &schedRes{}
	h := &vrt.Harness{Name: sc.String(), Filter: schedBranch, DeviationCost: true, Body: func(x *vrt.Exec) { schedBody(x, sc, res) }}
	return vrt.RunOnce(t, h, prefix), res
}

// exploreSched runs every schedule of sc with <= bound deviations from the default schedule (DFS over choice
// prefixes, every execution runs to completion). The tree is split over the shards at its first level: every shard
// runs the root execution (visited by shard 0) and the subtrees of the root's alternatives are dealt round-robin (an
// alternative at step i owns the deviations behind step i, so subtree sizes fall linearly: round-robin balances).
func exploreSched(t *testing.T, sc SchedScenario, bound, shard, nshards int, stop func() bool, visit func(*vrt.Result, *schedRes)) vrt.Stats {
	st := vrt.Stats{Bound: bound, Complete: true}
	child := 0
	var rec func(prefix []int, level int)
	rec = func(prefix []int, level int) {
		if stop() {
			st.Complete = false
			return
		}
		r, res := runSched(t, sc, prefix)
		mine := level > 0 || shard == 0
		if mine {
			st.Executions++
			st.Transitions += int64(len(r.Steps))
			if len(r.Steps) > st.MaxDepth {
				st.MaxDepth = len(r.Steps)
			}
			visit(r, res)
		}
		if r.Diverged != "" {
			return
		}
		pre := 0
		for i := 0; i < len(r.Steps); i++ {
			sp := r.Steps[i]
			if i >= len(prefix) {
				if len(sp.Enabled) > 1 && mine {
					st.Nodes++
				}
				for alt := 1; alt < len(sp.Enabled); alt++ {
					if pre+sp.Costs[alt] > bound {
						continue
					}
					if level == 0 {
						child++
						if child%nshards != shard {
							continue
						}
					}
					rec(append(append([]int{}, r.Choices[:i]...), alt), level+1)
				}
			}
			if sp.Preempt {
				pre++
			}
		}
	}
	rec(nil, 0)
	return st
}

// schedScenarios is the scenario list with the deviation bound of each, simplest first. Threads: snap =
// Engine.WriteSnapshot (the second one of a scenario is "an attempt": it rolls the WAL segment and then backs off with
// ErrSnapshotInProgress, or runs through, depending on the schedule), write = acknowledged write of a new point.
// Thread multisets: {snap, write}, {snap, snap}, {snap, write, snap} with default WAL segments (only a snapshot closes
// a segment) and {snap, write, write} with 1-byte segments (the write after the first one of a segment rolls it);
// thorough adds {snap, write} and {snap, write, snap} with 1-byte segments and {snap, write, write} with default
// ones. Every multiset in every distinct registration order (the order is the default schedule, deviations are counted
// against it). quick: layout cache at bound 1; thorough: tsm+cache and empty at bound 1, cache at bound 2.
func schedScenarios(tier string) (scs []SchedScenario, bounds []int) {
	perms := func(ops []string) [][]string {
		seen := map[string]bool{}
		var out [][]string
		var rec func(cur []string, used []bool)
		rec = func(cur []string, used []bool) {
			if len(cur) == len(ops) {
				if k := strings.Join(cur, ","); !seen[k] {
					seen[k] = true
					out = append(out, append([]string{}, cur...))
				}
				return
			}
			for i := range ops {
				if !used[i] {
					used[i] = true
					rec(append(cur, ops[i]), used)
					used[i] = false
				}
			}
		}
		rec(nil, make([]bool, len(ops)))
		return out
	}
	type fam struct {
		ops []string
		seg int
	}
	fams := []fam{
		{[]string{"snap", "write"}, 0},
		{[]string{"snap", "snap"}, 0},
		{[]string{"snap", "write", "snap"}, 0},
		{[]string{"snap", "write", "write"}, 1},
	}
	type pass struct {
		layout string
		bound  int
	}
	passes := []pass{{"cache", 1}}
	if tier == "thorough" {
		fams = append(fams, fam{[]string{"snap", "write"}, 1}, fam{[]string{"snap", "write", "write"}, 0}, fam{[]string{"snap", "write", "snap"}, 1})
		passes = []pass{{"tsm+cache", 1}, {"empty", 1}, {"cache", 2}} // the bound-2 tree contains the bound-1 tree
	}
	for _, ps := range passes {
		for _, f := range fams {
			for _, order := range perms(f.ops) {
				sc := SchedScenario{Layout: ps.layout, SegSize: f.seg}
				for _, op := range order {
					sc.Threads = append(sc.Threads, []string{op})
				}
				scs = append(scs, sc)
				bounds = append(bounds, ps.bound)
			}
		}
	}
	return
}

// schedOut is what one schedule-family subprocess reports.
type schedOut struct {
	Evals, Nontrivial, Nodes, Transitions, Traces int64
	Outcomes                                      map[string]int64
	Extra                                         map[string]int64
	VioCount                                      map[string]int64
	VioCase                                       map[string]SchedCase
	VioSummary                                    map[string]string
	Samples                                       []map[string]any
	Caps                                          []string
	HarnessErrs                                   []string
}

type schedJob struct {
	Tier    string  `json:"tier"`
	Shard   int     `json:"shard"`
	NShards int     `json:"nshards"`
	BudgetS float64 `json:"budget_s"`
	Out     string  `json:"out"`
}

func traceOf(r *vrt.Result) []string {
	var tr []string
	for _, s := range r.Steps {
		name := "?"
		if s.Thread < len(r.Names) {
			name = r.Names[s.Thread]
		}
		mark := ""
		if s.Preempt {
			mark = "  <== deviation"
		}
		tr = append(tr, fmt.Sprintf("%s %s%s", name, s.Label, mark))
	}
	return tr
}

// schedWorker explores shard job.Shard of every scenario (runs in its own process with GOMAXPROCS=1).
func schedWorker(t *testing.T, job schedJob) *schedOut {
	out := &schedOut{Outcomes: map[string]int64{}, Extra: map[string]int64{}, VioCount: map[string]int64{}, VioCase: map[string]SchedCase{}, VioSummary: map[string]string{}}
	deadline := time.Now().Add(time.Duration(job.BudgetS * float64(time.Second)))
	stop := func() bool { return time.Now().After(deadline) }
	scs, bounds := schedScenarios(job.Tier)
	for si, sc := range scs {
		if v := os.Getenv("VERIF_C02_SCHED_ONLY"); v != "" && v != strconv.Itoa(si) { // debugging aid
			continue
		}
		if v, err := strconv.Atoi(os.Getenv("VERIF_C02_SCHED_BOUND")); err == nil { // debugging aid
			bounds[si] = v
		}
		if stop() {
			out.Caps = append(out.Caps, "schedule family: wall budget reached before every scenario was explored (scenarios are ordered simplest first)")
			break
		}
		sc := sc
		st := exploreSched(t, sc, bounds[si], job.Shard, job.NShards, stop, func(r *vrt.Result, res *schedRes) {
			out.Evals++
			if r.Preempts > 0 {
				out.Nontrivial++
			}
			herr := func(m string) {
				out.Extra["sched_executions_not_judged"]++
				if len(out.HarnessErrs) < 5 {
					out.HarnessErrs = append(out.HarnessErrs, fmt.Sprintf("schedule family, %s, schedule %v: %s", sc, r.Choices, m))
				}
			}
			if r.Diverged != "" {
				herr(r.Diverged)
				return
			}
			if res.harness != "" {
				herr(res.harness)
				return
			}
			out.Outcomes[res.outcome]++
			out.Extra[fmt.Sprintf("sched_executions_with_%d_deviations", r.Preempts)]++
			for _, v := range res.verdicts {
				out.VioCount[v.sig]++
				if old, ok := out.VioCase[v.sig]; !ok || len(r.Choices) < len(old.Choices) {
					scc := sc
					out.VioCase[v.sig] = SchedCase{Sched: &scc, Choices: r.Choices, Trace: traceOf(r)}
					out.VioSummary[v.sig] = fmt.Sprintf("schedule family, %s, %d deviation(s) from the default schedule: %s", sc, r.Preempts, v.msg)
				}
			}
			if job.Shard == 0 && len(out.Samples) < 2 && r.Preempts == bounds[si] && len(res.verdicts) == 0 { // leave sample slots to the crash families
				out.Samples = append(out.Samples, map[string]any{"family": "schedule", "scenario": sc.String(), "schedule": r.Choices, "deviations": r.Preempts, "outcome": res.outcome})
			}
		})
		if !st.Complete {
			out.Caps = append(out.Caps, "schedule family: wall budget reached inside a scenario (its remaining schedules were not run)")
		}
		if os.Getenv("VERIF_C02_SCHED_ONLY") != "" {
			fmt.Fprintf(os.Stderr, "scenario %d %s bound %d: %+v\n", si, sc, bounds[si], st)
		}
		out.Nodes += st.Nodes
		out.Transitions += st.Transitions
		out.Traces += st.Executions
		if job.Shard == 0 {
			out.Extra["sched_scenarios"]++
		}
	}
	return out
}

func schedMain(t *testing.T, jobPath string) {
	b, err := os.ReadFile(jobPath)
	if err != nil {
		fmt.Fprintln(os.Stderr, "c02 sched:", err)
		os.Exit(2)
	}
	var job schedJob
	if err := json.Unmarshal(b, &job); err != nil {
		fmt.Fprintln(os.Stderr, "c02 sched:", err)
		os.Exit(2)
	}
	runtime.GOMAXPROCS(1)
	out := schedWorker(t, job)
	ob, _ := json.Marshal(out)
	if err := os.WriteFile(job.Out, ob, 0o666); err != nil {
		fmt.Fprintln(os.Stderr, "c02 sched:", err)
		os.Exit(2)
	}
}

// runSchedFamily runs the schedule family in nproc subprocesses (one shard each) within budget and merges their
// reports into c.
func runSchedFamily(c *vlib.Ctx, scratch string, budget time.Duration) {
	nproc := runtime.NumCPU()
	if nproc > 16 {
		nproc = 16
	}
	// on an oversubscribed machine more processes only add contention (measured: the same 1035 executions cost 33 s
	// CPU in 1 process and 218 s in 16 at load average 150 on 16 cores); this changes the parallelism, not the space
	if b, err := os.ReadFile("/proc/loadavg"); err == nil {
		if f := strings.Fields(string(b)); len(f) > 0 {
			if load, err := strconv.ParseFloat(f[0], 64); err == nil {
				switch {
				case load > 2*float64(runtime.NumCPU()) && nproc > 2:
					nproc = 2
				case load > float64(runtime.NumCPU()) && nproc > 4:
					nproc = 4
				}
			}
		}
	}
	if v := os.Getenv("VERIF_C02_SCHED_PROCS"); v != "" {
		if n, err := strconv.Atoi(v); err == nil && n > 0 {
			nproc = n
		}
	}
	t0 := time.Now()
	outs := make([]*schedOut, nproc)
	errs := make([]string, nproc)
	var wg sync.WaitGroup
	for i := 0; i < nproc; i++ {
		wg.Add(1)
		go func(i int) {
			defer wg.Done()
			job := schedJob{Tier: c.Tier, Shard: i, NShards: nproc, BudgetS: budget.Seconds(), Out: filepath.Join(scratch, fmt.Sprintf("sched-%d.json", i))}
			jb, _ := json.Marshal(job)
			jp := filepath.Join(scratch, fmt.Sprintf("sched-job-%d.json", i))
			if err := os.WriteFile(jp, jb, 0o666); err != nil {
				errs[i] = err.Error()
				return
			}
			cmd := exec.Command(os.Args[0], "-test.run", "^TestCheck$", "-test.timeout", "0")
			cmd.Env = selfEnv("VERIF_C02_SCHED="+jp, "GOMAXPROCS=1", "VERIF_SCRATCH="+scratch)
			var stderr strings.Builder
			cmd.Stdout, cmd.Stderr = &stderr, &stderr
			if err := cmd.Start(); err != nil {
				errs[i] = err.Error()
				return
			}
			done := make(chan error, 1)
			go func() { done <- cmd.Wait() }()
			var werr error
			select {
			case werr = <-done:
			case <-time.After(3*budget + 5*time.Minute):
				cmd.Process.Kill()
				<-done
				werr = fmt.Errorf("killed after 3x budget + 5m")
			}
			ob, rerr := os.ReadFile(job.Out)
			if rerr != nil {
				tail := stderr.String()
				if len(tail) > 2000 {
					tail = tail[len(tail)-2000:]
				}
				errs[i] = fmt.Sprintf("schedule-family subprocess %d produced no report (%v): %s", i, werr, tail)
				return
			}
			var o schedOut
			if err := json.Unmarshal(ob, &o); err != nil {
				errs[i] = fmt.Sprintf("schedule-family subprocess %d: unreadable report: %v", i, err)
				return
			}
			outs[i] = &o
		}(i)
	}
	wg.Wait()
	for _, e := range errs {
		if e != "" {
			c.HarnessError(e)
		}
	}
	// merge; per class keep the shortest schedule
	best := map[string]SchedCase{}
	bestSum := map[string]string{}
	count := map[string]int64{}
	for _, o := range outs {
		if o == nil {
			continue
		}
		c.Eval(o.Evals)
		c.NontrivialN(o.Nontrivial)
		c.StateN(o.Nodes)
		c.Transition(o.Transitions)
		c.Trace(o.Traces)
		c.Extra("sched_executions", o.Evals)
		for k, v := range o.Outcomes {
			c.OutcomeN(k, v)
		}
		for k, v := range o.Extra {
			c.Extra(k, v)
		}
		for _, m := range o.Caps {
			c.Cap(m)
		}
		for _, m := range o.HarnessErrs {
			c.HarnessError(m)
		}
		for _, s := range o.Samples {
			c.Sample(s)
		}
		for sig, n := range o.VioCount {
			count[sig] += n
			if old, ok := best[sig]; !ok || len(o.VioCase[sig].Choices) < len(old.Choices) {
				best[sig], bestSum[sig] = o.VioCase[sig], o.VioSummary[sig]
			}
		}
	}
	sigs := make([]string, 0, len(best))
	for s := range best {
		sigs = append(sigs, s)
	}
	sort.Strings(sigs)
	for _, s := range sigs {
		for i := int64(0); i < count[s]; i++ {
			c.Violation(s, bestSum[s], best[s])
		}
	}
	c.Logf("phase schedule family: %v (%d subprocesses)", time.Since(t0).Round(time.Millisecond), nproc)
}

// schedBudget is the schedule family's share of the wall budget.
func schedBudget(c *vlib.Ctx) time.Duration {
	if c.Thorough() {
		return 240 * time.Second
	}
	return 25 * time.Second
}

func replaySched(c *vlib.Ctx, cs SchedCase) (bool, string) {
	// adopted goroutines are ordered by goroutine id, which follows creation order only with one P
	defer runtime.GOMAXPROCS(runtime.GOMAXPROCS(1))
	r, res := runSched(c.T, *cs.Sched, cs.Choices)
	if r.Diverged != "" {
		return false, "diverged: " + r.Diverged
	}
	if res.harness != "" {
		return false, "harness: " + res.harness
	}
	var v []string
	for _, x := range res.verdicts {
		v = append(v, x.sig+": "+x.msg)
	}
	if os.Getenv("VERIF_C02_TRACE") != "" { // debugging aid
		for i, l := range traceOf(r) {
			fmt.Fprintf(os.Stderr, "%3d %v %s\n", i, r.Steps[i].Enabled, l)
		}
	}
	return len(v) > 0, fmt.Sprintf("schedule family, %s, schedule %v: %s outcome=%s", cs.Sched, cs.Choices, strings.Join(v, " ;; "), res.outcome)
}

func TestCheck(t *testing.T) {
	if js := os.Getenv("VERIF_CRASH_WRITER"); js != "" {
		os.Exit(writerMain(js))
	}
	if jp := os.Getenv("VERIF_C02_RECOVER"); jp != "" {
		os.Exit(recoverMain(jp))
	}
	if n := os.Getenv("VERIF_C02_DUMP"); n != "" {
		dumpMain(n)
		return
	}
	if jp := os.Getenv("VERIF_C02_SCHED"); jp != "" {
		schedMain(t, jp)
		return
	}
	vlib.Main(t, &vlib.Check{
		ID: "C02", Level: "fault_enumeration",
		Rule: "crash images of recorded real histories on a tsm1.Engine (quick: 3 histories wal-only / snapshot-delete / compact-level; thorough: 14 incl. full compaction, WAL segment roll with 60-byte segments, tombstone rewrite, delete over two TSM files, field-set changes, Close(flush); both tiers: the 12 reader-held histories = {full compaction of 2 files, level compaction of the first 2 of 3 files} x {acknowledged range delete, acknowledged whole-series delete leaving a tombstone file next to TSM file 1} x {read cursors (Engine.KeyCursor, kept open = TSM file references held) on the tombstoned file 1 only, on the tombstone-free file 2 only, on both} as [write, snapshot, delete, write, snapshot, (write, snapshot,) hold, compaction, release]: FileStore.replace then takes its in-use path (rename old file to .tsm.tmp, remove its tombstone file, purger unlinks the .tsm.tmp once the cursors are closed) for the held files and its ordinary path for the others; of these histories only the images cut after the hold op began are recovered (the ops before it build the fixture), quick: prefix images P only = every syscall boundary of the compaction commit and of the purge, thorough: P, T and U); per history every prefix of the syscall-level event list (P), every torn length 1..n-1 of the write in flight (T; all lengths, writes > 4096 bytes would be subsampled and counted), and for *.wal/*.tsm/*.tombstone/*.tmp files the images with un-fsynced data dropped or its last write torn (U); directory operations in program order; images deduplicated by (content, acknowledged ops, op in flight); one evaluation = one (image, acknowledgement context) recovered by a fresh process with Engine.Open+LoadMetadataIndex, read over all keys and the full time range through CreateCursorIterator, written once more, copied without closing, reopened, read and written again; oracle = map of acknowledged ops applied in order, the one op in flight may be applied per point or not; non-trivial = images whose recovered state is neither empty nor the history's final state; reader-held histories: images cut inside the compaction or the release op. SCHEDULE family (signatures sched/..., run first in subprocesses with GOMAXPROCS=1, one shard of every scenario's schedule tree each): concurrent clients of ONE real engine built with the modelled sync/atomic (every tsm1 source file that uses sync, see shim.json), threads = single ops over {snap = Engine.WriteSnapshot (a second one is an attempt: it closes the current WAL segment under the engine lock and then backs off with ErrSnapshotInProgress, or runs through, depending on the schedule), write = write of ONE new point of series cpu,host=A done as in the histories}; thread multisets {snap,write}, {snap,snap}, {snap,write,snap} with default WAL segments and {snap,write,write} with 1-byte WAL segments (every write after the first of a segment rolls it; thorough adds {snap,write}, {snap,write,snap} with 1-byte and {snap,write,write} with default segments), each in every distinct registration order (= default schedule); fixture layouts: cache (3 acknowledged points of 2 series in cache+WAL) [quick], tsm+cache and empty [thorough]; EVERY schedule with <= B deviations from the default schedule (quick: B=1 on layout cache; thorough: B=2 on layout cache, B=1 on tsm+cache and empty), branching at the sync/atomic operations of Engine, Cache, entry and WAL (incl. the WAL fsync goroutine) and at harness steps; after all threads finished and the scheduler is drained (quiescent) the process 'dies': data and WAL directories are copied while the engine is still open; oracle per execution: (a) the live engine returns every acknowledged point (fixture points and every write that returned nil) with its value and nothing nobody wrote, (b) in the copied image every acknowledged point is in some *.tsm file (tsm1.NewTSMReader) or in some WAL segment (tsm1.NewWALSegmentReader), (c) a NEW engine opened on the copy (Engine.Open + LoadMetadataIndex: WAL replay) returns the same, accepts one more write and returns it; a write that returned an error may be present or not; one evaluation = one executed schedule, states = decision nodes, transitions = scheduling steps; non-trivial = executions with >= 1 deviation",
		Assumptions: []string{
			"ordered-metadata crash model: directory operations persist in program order (un-fsynced renames/unlinks are not dropped); file data of sync-class files may be lost back to the last fsync (U images)",
			"the series file and the tsi1 index live outside the crash image (their crash clauses are C13/C14); reads go through the engine's cursor iterator, which does not consult them",
			"event order between concurrent threads of the writer is syscall completion order",
			"reader-held histories: a reader is a tsm1.KeyCursor obtained from Engine.KeyCursor (what every query cursor holds underneath) that stays open across the compaction; the writer verifies the intended in-use pattern of the TSM files right after the hold op; the release op is complete when the purger has unlinked the replaced files",
			"writes are performed as tsdb.Shard.WritePoints does (series creation, ValidateAndCreateFields, MeasurementFieldSet.Save, Engine.WritePoints) using exported API, not through a tsdb.Shard object",
			"schedule family: sequentially consistent interleavings at the granularity of the mutex/atomic operations of Engine, Cache, entry and WAL (all other tsm1 locks are modelled and can disable a thread but are passed without branching when free; goroutines of the tsi1 index and the series file run unscheduled between those points); the crash is taken only at the quiescent point after all threads returned (crash points inside the commit sequences are the crash-image families' subject); deletes and compactions are not among the concurrent ops; a deadlock or step cap would be reported as a harness error, not as a C02 violation",
		},
		Workers: 1, QuickBudgetS: 100, ThoroughBudgetS: 1080,
		Run:    run,
		Replay: replay,
	})
}

var _ = io.EOF
