// Hand-written reproduction (no crashfs, no strace, no explorer) of the defect the C02 check reports as
// lost-after-second-restart/Engine.Open/file=.wal/cut=T/...:
//
//	Engine.Open opens the WAL (WAL.Open: the last segment is opened and its write offset set to the file's
//	current end, tsdb/engine/tsm1/wal.go:304-321) BEFORE reloadCache → CacheLoader.Load truncates a torn tail
//	of that same segment (engine.go:817-830, cache.go:748-757). Every entry acknowledged afterwards is written
//	at the old end, i.e. behind a hole of zero bytes, and the next restart discards it as corruption.
//
// Run: cd /verif/h && GOFLAGS=-mod=mod GOPROXY=off PKG_CONFIG_PATH=/verif/stubs/libflux VERIF_C02_REPRO=1 go test -vet=off -count=1 -v ./c02/repro
package repro

import (
	"context"
	"os"
	"path/filepath"
	"testing"
	"time"

	"github.com/influxdata/influxdb/v2/models"
	"github.com/influxdata/influxdb/v2/tsdb"
	"github.com/influxdata/influxdb/v2/tsdb/engine/tsm1"
	_ "github.com/influxdata/influxdb/v2/tsdb/index/tsi1"
)

type idSets []*tsdb.SeriesIDSet

func (a idSets) ForEach(f func(ids *tsdb.SeriesIDSet)) error {
	for _, v := range a {
		f(v)
	}
	return nil
}

func open(t *testing.T, root string, sf *tsdb.SeriesFile, idx tsdb.Index, ids *tsdb.SeriesIDSet) *tsm1.Engine {
	opt := tsdb.NewEngineOptions()
	opt.SeriesIDSets = idSets{ids}
	e := tsm1.NewEngine(1, idx, filepath.Join(root, "data"), filepath.Join(root, "wal"), sf, opt).(*tsm1.Engine)
	e.SetEnabled(false)
	if err := e.Open(context.Background()); err != nil {
		t.Fatal(err)
	}
	return e
}

func write(t *testing.T, e *tsm1.Engine, ts int64, v float64) {
	p, err := models.NewPoint("cpu", models.NewTags(map[string]string{"host": "A"}), models.Fields{"v": v}, time.Unix(0, ts))
	if err != nil {
		t.Fatal(err)
	}
	if err := e.WritePoints(context.Background(), []models.Point{p}); err != nil {
		t.Fatalf("write: %v", err)
	}
}

func cached(e *tsm1.Engine) int { return e.Cache.Values([]byte("cpu,host=A#!~#v")).Len() }

func TestAcknowledgedWriteAfterTornWALTailIsLostAtNextRestart(t *testing.T) {
	if os.Getenv("VERIF_C02_REPRO") == "" {
		t.Skip("demonstration of a defect of the unchanged tree (fails by design): set VERIF_C02_REPRO=1 to run")
	}
	root := t.TempDir()
	sf := tsdb.NewSeriesFile(filepath.Join(root, "_series"))
	if err := sf.Open(); err != nil {
		t.Fatal(err)
	}
	defer sf.Close()
	ids := tsdb.NewSeriesIDSet()
	idx := tsdb.MustOpenIndex(1, "db0", filepath.Join(root, "index"), ids, sf, tsdb.NewEngineOptions())
	defer idx.Close()

	// 1. one acknowledged write, then the process dies in the middle of the next WAL append: only the first
	//    3 bytes of the next entry's 5-byte header reach the segment.
	e := open(t, root, sf, idx, ids)
	write(t, e, 1, 1)
	e.Close(false)
	seg := filepath.Join(root, "wal", "_00001.wal")
	f, err := os.OpenFile(seg, os.O_WRONLY|os.O_APPEND, 0)
	if err != nil {
		t.Fatal(err)
	}
	f.Write([]byte{0x01, 0x00, 0x00})
	f.Close()
	st0, _ := os.Stat(seg)

	// 2. restart: the torn tail is discarded (fine), the earlier entry survives (fine).
	e = open(t, root, sf, idx, ids)
	if n := cached(e); n != 1 {
		t.Fatalf("after the first restart: %d points, want 1", n)
	}
	st1, _ := os.Stat(seg)
	t.Logf("segment size with torn tail %d, after recovery truncated it %d", st0.Size(), st1.Size())

	// 3. a new write is acknowledged ...
	write(t, e, 2, 2)
	if n := cached(e); n != 2 {
		t.Fatalf("live engine: %d points, want 2", n)
	}
	st2, _ := os.Stat(seg)
	b, _ := os.ReadFile(seg)
	t.Logf("segment size after the acknowledged write %d; bytes at the truncation point: % x (a hole where the torn tail was)", st2.Size(), b[st1.Size():st1.Size()+8])
	e.Close(false) // even a clean close does not help

	// 4. ... and is gone after the next restart.
	e = open(t, root, sf, idx, ids)
	defer e.Close(false)
	if n := cached(e); n != 2 {
		t.Fatalf("DEFECT REPRODUCED: after the second restart the engine has %d points, want 2: the write acknowledged after the torn-tail recovery is lost", n)
	}
}
