// C25: only active tasks are scheduled.
//
// Explicit-state breadth-first search to closure over the joint state (task table, scheduler
// content). Every transition is executed by the REAL middleware.CoordinatingTaskService +
// coordinator.Coordinator (+ backend.NotifyCoordinatorOfExisting for the "restart" op): the
// successor of a state is obtained by replaying the state's shortest op history on a fresh
// instance and applying one more op. The underlying task store (a map; the kv one needs the
// Flux parser) and the recording scheduler are in-harness doubles of the two interfaces the
// code under test talks to.
package c25

import (
	"context"
	"encoding/json"
	"errors"
	"fmt"
	"sort"
	"strings"
	"testing"
	"time"

	"github.com/influxdata/influxdb/v2/kit/platform"
	"github.com/influxdata/influxdb/v2/task/backend"
	"github.com/influxdata/influxdb/v2/task/backend/coordinator"
	"github.com/influxdata/influxdb/v2/task/backend/middleware"
	"github.com/influxdata/influxdb/v2/task/backend/scheduler"
	"github.com/influxdata/influxdb/v2/task/options"
	"github.com/influxdata/influxdb/v2/task/taskmodel"
	"go.uber.org/zap"
	"verif/h/vlib"
)

// ---------------------------------------------------------------------------------------
// schedules: spec -> what a task carries, and the reference fingerprint (first two firing
// offsets in seconds after probe instant T0 = 2020-01-01T00:00:30Z), derived from the
// meaning of the schedule text, not from the repo: "@every d" fires d after the previous
// firing; "*/k * * * *" fires on minute boundaries that are multiples of k.
// ---------------------------------------------------------------------------------------

type schedSpec struct {
	Every, Cron string
	FP          string
}

var specs = map[string]schedSpec{
	"e1m": {Every: "1m", FP: "60,120"},
	"e2m": {Every: "2m", FP: "120,240"},
	"c5":  {Cron: "*/5 * * * *", FP: "270,570"},
	"c3":  {Cron: "*/3 * * * *", FP: "150,330"},
}

var probeT0 = time.Date(2020, 1, 1, 0, 0, 30, 0, time.UTC)

// fingerprint: the first two times at which the scheduler will run the item, in seconds after the probe instant:
// the schedule's firing time plus the item's offset (scheduler.Schedulable.Offset: "a duration that should be added to
// the scheduled time"). With a zero offset this is the fingerprint of the schedule alone.
func fingerprint(s scheduler.Schedule, offset time.Duration) string {
	t1, err := s.Next(probeT0)
	if err != nil {
		return "err"
	}
	t2, err := s.Next(t1)
	if err != nil {
		return "err"
	}
	return fmt.Sprintf("%d,%d", int(t1.Add(offset).Sub(probeT0)/time.Second), int(t2.Add(offset).Sub(probeT0)/time.Second))
}

// offsets of the offset family: "" = the task has no offset option
var offsets = map[string]time.Duration{"": 0, "20s": 20 * time.Second, "40s": 40 * time.Second}

// wantFP is the reference fingerprint of schedule spec + offset: the spec's firing offsets shifted by the task offset.
func wantFP(spec, off string) string {
	var a, b int
	fmt.Sscanf(specs[spec].FP, "%d,%d", &a, &b)
	d := int(offsets[off] / time.Second)
	return fmt.Sprintf("%d,%d", a+d, b+d)
}

func offOfTask(t *taskmodel.Task) string {
	for k, d := range offsets {
		if d == t.Offset {
			return k
		}
	}
	return "?" + t.Offset.String()
}

func specOfTask(t *taskmodel.Task) string {
	for k, s := range specs {
		if s.Every == t.Every && s.Cron == t.Cron {
			return k
		}
	}
	return "?(" + t.Every + "|" + t.Cron + ")"
}

// ---------------------------------------------------------------------------------------
// in-harness TaskService: a map. IDs are derived from the slot named in the script so that
// histories are replayable. Objects handed out are always fresh copies.
// ---------------------------------------------------------------------------------------

type store struct {
	taskmodel.TaskService // unimplemented methods: nil (never called)
	tasks                 map[platform.ID]*taskmodel.Task
	page                  int
}

var createdAt = time.Date(2019, 12, 31, 0, 0, 0, 0, time.UTC)

func mkFlux(slot int, spec, off string) string {
	if off != "" {
		return fmt.Sprintf("slot=%d;sched=%s;offset=%s", slot, spec, off)
	}
	return fmt.Sprintf("slot=%d;sched=%s", slot, spec)
}

func (s *store) CreateTask(ctx context.Context, tc taskmodel.TaskCreate) (*taskmodel.Task, error) {
	var slot int
	var spec, off string
	script := strings.ReplaceAll(tc.Flux, ";", " ")
	if i := strings.Index(script, " offset="); i >= 0 {
		script, off = script[:i], script[i+len(" offset="):]
	}
	if _, err := fmt.Sscanf(script, "slot=%d sched=%s", &slot, &spec); err != nil {
		return nil, fmt.Errorf("store: bad script %q", tc.Flux)
	}
	offDur, ok := offsets[off]
	if !ok {
		return nil, fmt.Errorf("store: bad offset %q", off)
	}
	sp, ok := specs[spec]
	if !ok {
		return nil, fmt.Errorf("store: bad schedule %q", spec)
	}
	id := platform.ID(slot)
	if _, ok := s.tasks[id]; ok {
		return nil, errors.New("store: task exists")
	}
	st := tc.Status
	if st == "" {
		st = string(taskmodel.TaskActive)
	}
	t := &taskmodel.Task{ID: id, OrganizationID: 1, OwnerID: 1, Name: fmt.Sprintf("t%d", slot), Status: st,
		Flux: tc.Flux, Every: sp.Every, Cron: sp.Cron, Offset: offDur, CreatedAt: createdAt, LatestCompleted: createdAt}
	s.tasks[id] = t
	cp := *t
	return &cp, nil
}

func (s *store) FindTaskByID(ctx context.Context, id platform.ID) (*taskmodel.Task, error) {
	t, ok := s.tasks[id]
	if !ok {
		return nil, taskmodel.ErrTaskNotFound
	}
	cp := *t
	return &cp, nil
}

func (s *store) FindTasks(ctx context.Context, f taskmodel.TaskFilter) ([]*taskmodel.Task, int, error) {
	var ids []platform.ID
	for id := range s.tasks {
		if f.After != nil && id <= *f.After {
			continue
		}
		ids = append(ids, id)
	}
	sort.Slice(ids, func(i, j int) bool { return ids[i] < ids[j] })
	lim := s.page
	if f.Limit > 0 && f.Limit < lim {
		lim = f.Limit
	}
	if len(ids) > lim {
		ids = ids[:lim]
	}
	var out []*taskmodel.Task
	for _, id := range ids {
		cp := *s.tasks[id]
		out = append(out, &cp)
	}
	return out, len(out), nil
}

func (s *store) UpdateTask(ctx context.Context, id platform.ID, u taskmodel.TaskUpdate) (*taskmodel.Task, error) {
	t, ok := s.tasks[id]
	if !ok {
		return nil, taskmodel.ErrTaskNotFound
	}
	if u.Status != nil {
		t.Status = *u.Status
	}
	if !u.Options.Every.IsZero() {
		t.Every, t.Cron = u.Options.Every.String(), ""
	}
	if u.Options.Cron != "" {
		t.Every, t.Cron = "", u.Options.Cron
	}
	if u.Options.Offset != nil { // as kv.Service.updateTask: the new offset option replaces the task's offset
		d, err := time.ParseDuration(u.Options.Offset.String())
		if err != nil {
			return nil, err
		}
		t.Offset = d
	}
	if u.LatestCompleted != nil {
		t.LatestCompleted = *u.LatestCompleted
	}
	if u.LatestScheduled != nil {
		t.LatestScheduled = *u.LatestScheduled
	}
	cp := *t
	return &cp, nil
}

func (s *store) DeleteTask(ctx context.Context, id platform.ID) error {
	if _, ok := s.tasks[id]; !ok {
		return taskmodel.ErrTaskNotFound
	}
	delete(s.tasks, id)
	return nil
}

// ---------------------------------------------------------------------------------------
// recording scheduler: the contract of scheduler.Scheduler – Schedule upserts, Release removes.
// Flavour "nil": Release of an unknown id returns nil (TreeScheduler); flavour "notclaimed":
// returns taskmodel.ErrTaskNotClaimed (the contract the coordinator explicitly tolerates).
// ---------------------------------------------------------------------------------------

type recorder struct {
	flavour string
	items   map[scheduler.ID]string // id -> fingerprint of the schedule (incl. offset) it will run on
	calls   int
}

func (r *recorder) Schedule(t scheduler.Schedulable) error {
	r.calls++
	r.items[t.ID()] = fingerprint(t.Schedule(), t.Offset())
	return nil
}

func (r *recorder) Release(id scheduler.ID) error {
	r.calls++
	if _, ok := r.items[id]; !ok {
		if r.flavour == "notclaimed" {
			return taskmodel.ErrTaskNotClaimed
		}
		return nil
	}
	delete(r.items, id)
	return nil
}

// ---------------------------------------------------------------------------------------
// ops, world, reference model
// ---------------------------------------------------------------------------------------

type Op struct {
	// create | status | sched | both | delete | restart; offset family: offset (offset only) | offsched (offset +
	// schedule) | offstatus (offset + status), and create with Off
	K      string `json:"op"`
	Slot   int    `json:"slot,omitempty"`
	Status string `json:"status,omitempty"` // "", active, inactive ("" only for create = default)
	Sched  string `json:"sched,omitempty"`
	Off    string `json:"offset,omitempty"` // "", 20s, 40s ("" only for create = no offset option)
	Page   int    `json:"page,omitempty"`   // restart: page size of the store's FindTasks
}

func (o Op) String() string {
	switch o.K {
	case "create":
		st := o.Status
		if st == "" {
			st = "default"
		}
		if o.Off != "" {
			return fmt.Sprintf("create(t%d,%s,%s,offset=%s)", o.Slot, st, o.Sched, o.Off)
		}
		return fmt.Sprintf("create(t%d,%s,%s)", o.Slot, st, o.Sched)
	case "status":
		return fmt.Sprintf("update(t%d,status=%s)", o.Slot, o.Status)
	case "sched":
		return fmt.Sprintf("update(t%d,sched=%s)", o.Slot, o.Sched)
	case "both":
		return fmt.Sprintf("update(t%d,status=%s,sched=%s)", o.Slot, o.Status, o.Sched)
	case "offset":
		return fmt.Sprintf("update(t%d,offset=%s)", o.Slot, o.Off)
	case "offsched":
		return fmt.Sprintf("update(t%d,offset=%s,sched=%s)", o.Slot, o.Off, o.Sched)
	case "offstatus":
		return fmt.Sprintf("update(t%d,offset=%s,status=%s)", o.Slot, o.Off, o.Status)
	case "delete":
		return fmt.Sprintf("delete(t%d)", o.Slot)
	}
	return fmt.Sprintf("restart(page=%d)", o.Page)
}

type world struct {
	st  *store
	rec *recorder
	co  *coordinator.Coordinator
	svc *middleware.CoordinatingTaskService
}

func (w *world) boot(flavour string) {
	w.rec = &recorder{flavour: flavour, items: map[scheduler.ID]string{}}
	w.co = coordinator.NewCoordinator(zap.NewNop(), w.rec, nil)
	w.svc = middleware.New(w.st, w.co)
}

func newWorld(flavour string) *world {
	w := &world{st: &store{tasks: map[platform.ID]*taskmodel.Task{}, page: 100}}
	w.boot(flavour)
	return w
}

func updOf(o Op) taskmodel.TaskUpdate {
	var u taskmodel.TaskUpdate
	if o.K == "status" || o.K == "both" || o.K == "offstatus" {
		s := o.Status
		u.Status = &s
	}
	if o.K == "offset" || o.K == "offsched" || o.K == "offstatus" {
		u.Options.Offset = options.MustParseDuration(o.Off)
	}
	if o.K == "sched" || o.K == "both" || o.K == "offsched" {
		sp := specs[o.Sched]
		if sp.Every != "" {
			u.Options.Every = *options.MustParseDuration(sp.Every)
		} else {
			u.Options.Cron = sp.Cron
		}
	}
	return u
}

// apply executes one op through the real code; returns "ok" or "err".
func (w *world) apply(o Op) string {
	ctx := context.Background()
	var err error
	switch o.K {
	case "create":
		_, err = w.svc.CreateTask(ctx, taskmodel.TaskCreate{Flux: mkFlux(o.Slot, o.Sched, o.Off), Status: o.Status, OrganizationID: 1, OwnerID: 1})
	case "status", "sched", "both", "offset", "offsched", "offstatus":
		_, err = w.svc.UpdateTask(ctx, platform.ID(o.Slot), updOf(o))
	case "delete":
		err = w.svc.DeleteTask(ctx, platform.ID(o.Slot))
	case "restart":
		// process restart: the scheduler and coordinator are new (empty), the store persists,
		// and the server re-announces existing tasks.
		w.boot(w.rec.flavour)
		w.st.page = o.Page
		err = backend.NotifyCoordinatorOfExisting(ctx, zap.NewNop(), w.st, w.co)
		w.st.page = 100
	}
	if err != nil {
		return "err"
	}
	return "ok"
}

// mtask / model: the reference, written from the statement.
type mtask struct{ Status, Sched, Off string }

func (t mtask) String() string {
	if t.Off == "" {
		return "{" + t.Status + " " + t.Sched + "}"
	}
	return "{" + t.Status + " " + t.Sched + " offset=" + t.Off + "}"
}

type model map[int]mtask

func (m model) clone() model {
	n := model{}
	for k, v := range m {
		n[k] = v
	}
	return n
}

// step returns whether the op is applicable (addresses an existing task / creates a new one).
func (m model) step(o Op) bool {
	t, ex := m[o.Slot]
	switch o.K {
	case "create":
		if ex {
			return false
		}
		st := o.Status
		if st == "" {
			st = "active"
		}
		m[o.Slot] = mtask{st, o.Sched, o.Off}
	case "status":
		if !ex {
			return false
		}
		m[o.Slot] = mtask{o.Status, t.Sched, t.Off}
	case "sched":
		if !ex {
			return false
		}
		m[o.Slot] = mtask{t.Status, o.Sched, t.Off}
	case "both":
		if !ex {
			return false
		}
		m[o.Slot] = mtask{o.Status, o.Sched, t.Off}
	case "offset":
		if !ex {
			return false
		}
		m[o.Slot] = mtask{t.Status, t.Sched, o.Off}
	case "offsched":
		if !ex {
			return false
		}
		m[o.Slot] = mtask{t.Status, o.Sched, o.Off}
	case "offstatus":
		if !ex {
			return false
		}
		m[o.Slot] = mtask{o.Status, t.Sched, o.Off}
	case "delete":
		if !ex {
			return false
		}
		delete(m, o.Slot)
	case "restart":
	}
	return true
}

// wanted: the set the scheduler must hold per the statement: existing ∧ active -> latest schedule.
func (m model) wanted() map[int]string {
	out := map[int]string{}
	for s, t := range m {
		if t.Status == "active" {
			out[s] = wantFP(t.Sched, t.Off)
		}
	}
	return out
}

// observation of the real world
type obs struct {
	Table map[int]mtask
	Sched map[int]string
}

func (w *world) observe() obs {
	o := obs{Table: map[int]mtask{}, Sched: map[int]string{}}
	for id, t := range w.st.tasks {
		o.Table[int(id)] = mtask{t.Status, specOfTask(t), offOfTask(t)}
	}
	for id, fp := range w.rec.items {
		o.Sched[int(id)] = fp
	}
	return o
}

func (o obs) key(flavour string) string {
	var b strings.Builder
	b.WriteString(flavour + "|")
	var ks []int
	for k := range o.Table {
		ks = append(ks, k)
	}
	sort.Ints(ks)
	for _, k := range ks {
		if off := o.Table[k].Off; off != "" {
			fmt.Fprintf(&b, "t%d=%s/%s+%s;", k, o.Table[k].Status, o.Table[k].Sched, off)
			continue
		}
		fmt.Fprintf(&b, "t%d=%s/%s;", k, o.Table[k].Status, o.Table[k].Sched)
	}
	b.WriteString("|")
	ks = ks[:0]
	for k := range o.Sched {
		ks = append(ks, k)
	}
	sort.Ints(ks)
	for _, k := range ks {
		fmt.Fprintf(&b, "s%d=%s;", k, o.Sched[k])
	}
	return b.String()
}

// discrepancies between the observed world and the statement, as "kind@slot" (sorted).
func discrepancies(m model, o obs) []string {
	var d []string
	want := m.wanted()
	slots := map[int]bool{}
	for s := range want {
		slots[s] = true
	}
	for s := range o.Sched {
		slots[s] = true
	}
	for s := range slots {
		w, wok := want[s]
		g, gok := o.Sched[s]
		switch {
		case wok && !gok:
			d = append(d, fmt.Sprintf("active-not-scheduled@%d", s))
		case !wok && gok:
			if _, ex := m[s]; ex {
				d = append(d, fmt.Sprintf("scheduled-but-inactive@%d", s))
			} else {
				d = append(d, fmt.Sprintf("scheduled-but-not-existing@%d", s))
			}
		case wok && gok && w != g:
			d = append(d, fmt.Sprintf("stale-schedule@%d", s))
		}
	}
	// the coordinating service is a decorator: the task table must follow the operations
	tdiff := len(m) != len(o.Table)
	for s, t := range m {
		if o.Table[s] != t {
			tdiff = true
		}
	}
	if tdiff {
		d = append(d, "task-table-diverges@0")
	}
	sort.Strings(d)
	return d
}

func newOnes(before, after []string) []string {
	set := map[string]bool{}
	for _, b := range before {
		set[b] = true
	}
	var out []string
	for _, a := range after {
		if !set[a] {
			out = append(out, a)
		}
	}
	return out
}

type Case struct {
	Flavour string `json:"scheduler_release_unknown"`
	History []Op   `json:"history"` // the last op is the one judged
}

type verdict struct {
	pre, post   obs
	preD, postD []string
	newD        []string
	res         string
	applicable  bool
	mPre        model
	calls       int
}

// runCase replays the whole history on a fresh real instance and judges the last op.
func runCase(cs Case) verdict {
	w := newWorld(cs.Flavour)
	m := model{}
	n := len(cs.History)
	for _, o := range cs.History[:n-1] {
		w.apply(o)
		m.step(o)
	}
	var v verdict
	v.pre = w.observe()
	v.preD = discrepancies(m, v.pre)
	v.mPre = m.clone()
	last := cs.History[n-1]
	c0 := w.rec.calls
	v.res = w.apply(last)
	if last.K == "restart" {
		c0 = 0
	}
	v.calls = w.rec.calls - c0
	v.applicable = m.step(last)
	v.post = w.observe()
	v.postD = discrepancies(m, v.post)
	v.newD = newOnes(v.preD, v.postD)
	return v
}

func sigOf(d string, last Op, mPre model) string {
	kind, slotS, _ := strings.Cut(d, "@")
	var slot int
	fmt.Sscanf(slotS, "%d", &slot)
	target := "other-task"
	if slot == last.Slot || last.K == "restart" || slot == 0 {
		target = "op-target"
	}
	feat := ""
	switch last.K {
	case "create":
		st := last.Status
		if st == "" {
			st = "default"
		}
		feat = "status=" + st
		if last.Off != "" {
			feat += ",with-offset"
		}
		if _, ex := mPre[last.Slot]; ex {
			feat += ",already-exists"
		}
	case "status", "both", "sched":
		from := "absent"
		if t, ex := mPre[last.Slot]; ex {
			from = t.Status
		}
		to := last.Status
		if last.K == "sched" {
			to = from
		}
		feat = "status:" + from + "->" + to
		if last.K != "status" {
			if t, ex := mPre[last.Slot]; ex && t.Sched != last.Sched {
				feat += ",schedule-changed"
			}
		}
	case "offset", "offsched", "offstatus":
		from, to := "absent", "absent"
		t, ex := mPre[last.Slot]
		if ex {
			from, to = t.Status, t.Status
			if last.K == "offstatus" {
				to = last.Status
			}
		}
		feat = "status:" + from + "->" + to
		if ex && last.K == "offsched" && t.Sched != last.Sched {
			feat += ",schedule-changed"
		}
		if ex && t.Off != last.Off {
			feat += ",offset-changed"
		}
	case "delete":
		if _, ex := mPre[last.Slot]; !ex {
			feat = "absent"
		} else {
			feat = "existing"
		}
	case "restart":
		feat = fmt.Sprintf("page=%d", last.Page)
	}
	return vlib.JoinSig(kind, "after="+last.K, feat, target)
}

func histString(h []Op) string {
	var p []string
	for _, o := range h {
		p = append(p, o.String())
	}
	return strings.Join(p, " ; ")
}

// opsFor: the op alphabet. offs == nil: the base family (no offsets anywhere). Otherwise the offset family: create
// additionally with offset offs[0], and the three offset updates with every offset of offs.
func opsFor(slots int, scheds, createStatuses, offs []string) []Op {
	var ops []Op
	for s := 1; s <= slots; s++ {
		for _, st := range createStatuses {
			for _, sc := range scheds {
				ops = append(ops, Op{K: "create", Slot: s, Status: st, Sched: sc})
				if len(offs) > 0 {
					ops = append(ops, Op{K: "create", Slot: s, Status: st, Sched: sc, Off: offs[0]})
				}
			}
		}
		for _, off := range offs {
			ops = append(ops, Op{K: "offset", Slot: s, Off: off})
			for _, sc := range scheds {
				ops = append(ops, Op{K: "offsched", Slot: s, Off: off, Sched: sc})
			}
			for _, st := range []string{"active", "inactive"} {
				ops = append(ops, Op{K: "offstatus", Slot: s, Off: off, Status: st})
			}
		}
		for _, st := range []string{"active", "inactive"} {
			ops = append(ops, Op{K: "status", Slot: s, Status: st})
		}
		for _, sc := range scheds {
			ops = append(ops, Op{K: "sched", Slot: s, Sched: sc})
		}
		for _, st := range []string{"active", "inactive"} {
			for _, sc := range scheds {
				ops = append(ops, Op{K: "both", Slot: s, Status: st, Sched: sc})
			}
		}
		ops = append(ops, Op{K: "delete", Slot: s})
	}
	ops = append(ops, Op{K: "restart", Page: 1}, Op{K: "restart", Page: 100})
	return ops
}

// bfs: fam is "" for the base family and "offsets" for the offset family (only used in notes; the state key of a state
// without offsets is the same in both).
func bfs(c *vlib.Ctx, fam, flavour string, ops []Op) {
	type node struct {
		hist []Op
	}
	w0 := newWorld(flavour)
	k0 := w0.observe().key(flavour)
	seen := map[string]bool{k0: true}
	c.State(k0)
	c.Trace(1)
	frontier := []node{{}}
	depth := 0
	for len(frontier) > 0 {
		var next []node
		for _, nd := range frontier {
			if c.Expired() {
				c.Cap(fmt.Sprintf("budget hit in family %q flavour %s at BFS depth %d; all shallower levels (and every earlier search) complete", fam, flavour, depth))
				return
			}
			for _, o := range ops {
				h := append(append([]Op{}, nd.hist...), o)
				cs := Case{Flavour: flavour, History: h}
				v := runCase(cs)
				c.Eval(1)
				c.Trace(1)
				c.Transition(1)
				if v.applicable {
					c.NontrivialN(1)
				}
				cons := "consistent"
				if len(v.postD) > 0 {
					cons = "discrepant"
				}
				app := "applicable"
				if !v.applicable {
					app = "rejected-by-model"
				}
				c.Outcome(fmt.Sprintf("%s:%s:%s:%s:sched-calls=%d", o.K, app, v.res, cons, min(v.calls, 3)))
				for _, d := range v.newD {
					c.Violation(sigOf(d, o, v.mPre),
						fmt.Sprintf("[release-unknown=%s] after history {%s}: %s — task table %v, scheduler holds %v, statement requires %v",
							flavour, histString(h), d, v.post.Table, v.post.Sched, func() map[int]string {
								m := v.mPre.clone()
								m.step(o)
								return m.wanted()
							}()), cs)
				}
				k := v.post.key(flavour)
				if !seen[k] {
					seen[k] = true
					c.State(k)
					next = append(next, node{hist: h})
					if c.WantSample() && len(h) >= 3 {
						c.Sample(map[string]any{"history": histString(h), "state": k, "discrepancies": v.postD})
					}
				}
			}
		}
		frontier = next
		depth++
	}
	if fam != "" {
		fam += "_"
	}
	c.Extra("bfs_depth_"+fam+flavour, int64(depth))
}

func TestCheck(t *testing.T) {
	vlib.Main(t, &vlib.Check{
		ID: "C25", Level: "model_checking", Workers: 1,
		Rule: "BFS to closure over canonical states (task table: slot→status/schedule; scheduler content: slot→schedule fingerprint = first two firing offsets after a probe instant), " +
			"one search per recording-scheduler flavour (Release of unknown id returns nil | ErrTaskNotClaimed). Ops per slot: create(status∈{default,active,inactive}[thorough]/{active,inactive}[quick] × schedule), " +
			"update status∈{active,inactive}, update schedule, update both, delete; plus restart (fresh scheduler+coordinator, NotifyCoordinatorOfExisting with store page size 1 | 100). " +
			"quick: 2 slots × schedules {every 1m, every 2m}; thorough: 3 slots × {every 1m, every 2m, cron */5, cron */3}. Every transition = replay of the state's shortest history on a fresh real " +
			"CoordinatingTaskService+Coordinator plus one op; after each the scheduler content must equal {existing active task → its latest schedule} and the task table must equal the model's. " +
			"Offset family (a second pair of searches, same slots; schedules quick {every 1m, every 2m}, thorough {every 1m, every 2m, cron */5}): the task offset ∈ {none, 20s, 40s} is part of the task table and of the scheduler fingerprint (time of the first two runs = schedule firing time + Schedulable.Offset()); additional ops per slot: create with offset 20s (every status × schedule), update offset only ∈ {20s,40s}, update offset + schedule, update offset + status; the statement's 'latest schedule' includes the latest offset. " +
			"non-trivial = transitions whose op is applicable in the model (distinct by construction: states are deduplicated); a violation is reported on the transition that introduces a discrepancy",
		Assumptions: []string{
			"the in-harness map TaskService and recording Scheduler honour the interface contracts (IDs derived from the script; fresh copies returned; Schedule upserts, Release removes)",
			"timestamps (LatestCompleted/LatestScheduled set from the wall clock at restart) do not influence which tasks are scheduled nor their cron schedule and are left out of the state key",
			"schedule identity is observed through Schedule().Next at a probe instant; the cron library is trusted",
			"the offset is part of a task's schedule: the scheduler runs an item at Schedule().Next(...) + Offset() (scheduler.Schedulable), so an active task whose offset was updated must be (re)scheduled with the new offset; the in-harness store applies TaskUpdate.Options.Offset as kv.Service.updateTask does",
		},
		QuickBudgetS: 40, ThoroughBudgetS: 600,
		Run: func(c *vlib.Ctx) {
			slots, scheds, cst := 2, []string{"e1m", "e2m"}, []string{"active", "inactive"}
			if c.Thorough() {
				slots, scheds, cst = 3, []string{"e1m", "e2m", "c5", "c3"}, []string{"", "active", "inactive"}
			}
			ops := opsFor(slots, scheds, cst, nil)
			c.Extra("ops_per_state", int64(len(ops)))
			for _, fl := range []string{"nil", "notclaimed"} {
				bfs(c, "", fl, ops)
			}
			// offset family: the same search with task offsets in the state and in the op alphabet
			oscheds := scheds
			if c.Thorough() {
				oscheds = []string{"e1m", "e2m", "c5"}
			}
			oops := opsFor(slots, oscheds, cst, []string{"20s", "40s"})
			c.Extra("ops_per_state_offsets", int64(len(oops)))
			for _, fl := range []string{"nil", "notclaimed"} {
				bfs(c, "offsets", fl, oops)
			}
		},
		Replay: func(c *vlib.Ctx, raw json.RawMessage) (bool, string) {
			var cs Case
			if err := json.Unmarshal(raw, &cs); err != nil || len(cs.History) == 0 {
				return false, fmt.Sprint("bad case: ", err)
			}
			v := runCase(cs)
			return len(v.newD) > 0, fmt.Sprintf("history {%s} release-unknown=%s: last op returned %s; task table %v; scheduler holds %v; discrepancies before last op %v, after %v",
				histString(cs.History), cs.Flavour, v.res, v.post.Table, v.post.Sched, v.preD, v.postD)
		},
	})
}
