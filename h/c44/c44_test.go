// C44: only current credentials authenticate.
//
// Three enumerations on the real code, each judged by a reference model transcribed from the statement:
//
//	pw    bounded password histories (SetPassword / CompareAndSetPassword) on the real tenant user service over an
//	      inmem KV, ComparePassword probed for every password of the alphabet after the history
//	hash  every (stored hash of p, candidate q) pair for every supported stored-hash format, through the real
//	      AuthorizationHasher (hash + decode + match) and through a real authorization store lookup
//	http  explicit-state search over token / user / session / clock / restart histories (model-driven BFS to closure
//	      plus all histories up to a depth), every transition re-executed from scratch on a real
//	      AuthenticationHandler + authorization service + session service (fake time, testing/synctest), followed by
//	      a request with every header / cookie form of the family
//	cpw   bounded SetPassword / CompareAndSetPassword / ComparePassword histories through the real v1
//	      CachingPasswordsService wrapped around the real tenant password service (cache hits and misses)
//	csched every schedule with a bounded number of preemptions (vsched engine; shim.json models the cache's RWMutex) of
//	      one password change racing with 1..2 ComparePassword calls on the real CachingPasswordsService around a fast
//	      inner password model whose calls are hook points; judged after every thread has finished
package c44

import (
	"context"
	"crypto/hmac"
	"crypto/sha256"
	"crypto/sha512"
	"encoding/base64"
	"encoding/json"
	"errors"
	"fmt"
	"net/http"
	"net/http/httptest"
	"os"
	"sort"
	"strings"
	"testing"
	"testing/synctest"
	"time"

	influxdb "github.com/influxdata/influxdb/v2"
	"github.com/influxdata/influxdb/v2/authorization"
	icontext "github.com/influxdata/influxdb/v2/context"
	ihttp "github.com/influxdata/influxdb/v2/http"
	"github.com/influxdata/influxdb/v2/inmem"
	"github.com/influxdata/influxdb/v2/kit/platform"
	kithttp "github.com/influxdata/influxdb/v2/kit/transport/http"
	"github.com/influxdata/influxdb/v2/kv/migration/all"
	algo "github.com/influxdata/influxdb/v2/pkg/crypt/algorithm/influxdb2"
	"github.com/influxdata/influxdb/v2/pkg/verifrt/vrt"
	"github.com/influxdata/influxdb/v2/session"
	"github.com/influxdata/influxdb/v2/tenant"
	authv1 "github.com/influxdata/influxdb/v2/v1/authorization"
	"go.uber.org/zap"
	"verif/h/vlib"
)

// ---------------------------------------------------------------------------------------------------------
// shared plumbing

type incGen struct{ n uint64 }

func (g *incGen) ID() platform.ID { g.n++; return platform.ID(g.n) }

type keyGen struct{ n int }

func (g *keyGen) Token() (string, error) {
	g.n++
	return fmt.Sprintf("sesskey%d-Hq3_vN8rLw5pYc2d", g.n), nil
}

type vio struct{ Sig, Msg string }

type runResult struct {
	vios     []vio
	outcomes []string
	state    string // canonical model state at the end
	nontriv  bool
	requests int64
	codes    map[int]int64
	err      error // harness-level problem (fixture could not be built)
}

func (r *runResult) v(sig, f string, a ...any) {
	r.vios = append(r.vios, vio{sig, fmt.Sprintf(f, a...)})
}

// Case is the replayable form of every case of this check.
type Case struct {
	Part string `json:"part"`          // pw | hash | http
	Sig  string `json:"sig,omitempty"` // replay files: the violation class this case was recorded for
	// pw
	Users int      `json:"users,omitempty"`
	Ops   []string `json:"ops,omitempty"`
	Probe []string `json:"probe,omitempty"`
	// hash
	Hash *HashCase `json:"hash,omitempty"`
	// http
	Fam *Family `json:"family,omitempty"`
	// csched
	Sched   *SchedCase `json:"sched,omitempty"`
	Choices []int      `json:"choices,omitempty"`
	Trace   []string   `json:"trace,omitempty"`
}

func newTenant() (*inmem.KVStore, *tenant.Service, error) {
	ctx := context.Background()
	kvs := inmem.NewKVStore()
	if err := all.Up(ctx, zap.NewNop(), kvs); err != nil {
		return nil, nil, fmt.Errorf("migrations: %w", err)
	}
	st := tenant.NewStore(kvs)
	st.IDGen = &incGen{n: 0x1000}
	st.OrgIDGen = &incGen{n: 0x2000}
	st.BucketIDGen = &incGen{n: 0x3000}
	return kvs, tenant.NewService(st), nil
}

// ---------------------------------------------------------------------------------------------------------
// part pw: password histories

var long72 = strings.Repeat("0123456789abcdef", 4) + "01234567"

// password alphabet: label -> value
var pwVal = map[string]string{
	"A":  "Pa55word-Alpha",                   // valid
	"B":  "Pa55word-Bravo",                   // valid, same length, differs late
	"Ap": "Pa55word-Alph",                    // valid, proper prefix of A
	"L":  long72,                             // valid, exactly the maximum length (72)
	"X":  long72 + "x",                       // too long; its first 72 bytes are L
	"E":  "",                                 // empty
	"S":  "short77",                          // too short
	"N":  "Pa55word-Alpha\x00Pa55word-Alpha", // A, a NUL byte, A again
	"Lb": long72[:71] + "Z",                  // 72 bytes, differs from L in the last byte only
	"Ax": "Pa55word-Alpha" + "\x00",          // A plus a trailing NUL
	"W":  "Pa55word-Whisky",                  // valid, never set (parts cpw / csched)
}

func pwRel(q string, cur *string, others []string) string {
	if cur == nil {
		return "no-password-set"
	}
	c := *cur
	switch {
	case q == c:
		return "current"
	case len(q) > 72 && len(c) == 72 && q[:72] == c:
		return "current+suffix-beyond-72-bytes"
	case strings.HasPrefix(q, c+"\x00"):
		return "current+NUL+more"
	case strings.HasPrefix(c, q):
		return "proper-prefix-of-current"
	case strings.HasPrefix(q, c):
		return "current+suffix"
	}
	for _, o := range others {
		if q == o {
			return "earlier-or-other-users-password"
		}
	}
	return "unrelated"
}

type pwWorld struct {
	svc   *tenant.Service
	users []platform.ID
}

func newPwWorld(n int) (*pwWorld, error) {
	_, svc, err := newTenant()
	if err != nil {
		return nil, err
	}
	w := &pwWorld{svc: svc}
	for i := 0; i < n; i++ {
		u := &influxdb.User{Name: fmt.Sprintf("user%d", i), Status: influxdb.Active}
		if err := svc.CreateUser(context.Background(), u); err != nil {
			return nil, err
		}
		w.users = append(w.users, u.ID)
	}
	return w, nil
}

// runPw executes a history "set:u:P" / "cas:u:OLD:NEW" and then probes ComparePassword(u, q) for every user and
// every q of probe. Reference: cur[u] = the password of the last accepted set / compare-and-set.
func runPw(users int, ops, probe []string) (res runResult) {
	ctx := context.Background()
	w, err := newPwWorld(users)
	if err != nil {
		res.err = err
		return
	}
	cur := make([]*string, users)
	var everSet []string
	for step, op := range ops {
		f := strings.Split(op, ":")
		var u int
		fmt.Sscanf(f[1], "%d", &u)
		switch f[0] {
		case "set":
			p := pwVal[f[2]]
			err := w.svc.SetPassword(ctx, w.users[u], p)
			if err == nil {
				cur[u] = &p
				everSet = append(everSet, p)
				res.outcomes = append(res.outcomes, "pw:set/accepted")
			} else {
				res.outcomes = append(res.outcomes, "pw:set/rejected/len-in-8..72="+fmt.Sprint(len(p) >= 8 && len(p) <= 72))
			}
		case "cas":
			old, nw := pwVal[f[2]], pwVal[f[3]]
			want := cur[u] != nil && old == *cur[u]
			err := w.svc.CompareAndSetPassword(ctx, w.users[u], old, nw)
			if err == nil {
				if !want {
					var others []string
					others = append(others, everSet...)
					res.v(vlib.JoinSig("pw", "CompareAndSetPassword", "accepted-noncurrent-old", "old="+pwRel(old, cur[u], others)),
						"step %d %s: CompareAndSetPassword accepted old password %q although the current password of user %d is %s",
						step, op, old, u, showp(cur[u]))
				}
				cur[u] = &nw
				everSet = append(everSet, nw)
				res.outcomes = append(res.outcomes, "pw:cas/accepted/old-is-current="+fmt.Sprint(want))
			} else {
				res.outcomes = append(res.outcomes, "pw:cas/rejected/old-is-current="+fmt.Sprint(want))
			}
		}
	}
	for u := 0; u < users; u++ {
		for _, ql := range probe {
			q := pwVal[ql]
			got := w.svc.ComparePassword(ctx, w.users[u], q) == nil
			want := cur[u] != nil && q == *cur[u]
			rel := pwRel(q, cur[u], everSet)
			res.outcomes = append(res.outcomes, fmt.Sprintf("pw:compare/%v/%s", got, rel))
			if got && !want {
				res.v(vlib.JoinSig("pw", "ComparePassword", "accepts-noncurrent", "q="+rel),
					"after %v: ComparePassword(user %d, %q) succeeded although the current password is %s", ops, u, q, showp(cur[u]))
			}
			if !got && want {
				res.v(vlib.JoinSig("pw", "ComparePassword", "rejects-current", fmt.Sprintf("len-in-8..72=%v", len(q) >= 8 && len(q) <= 72)),
					"after %v: ComparePassword(user %d, %q) failed although it is the password most recently set", ops, u, q)
			}
		}
	}
	var st []string
	for u := range cur {
		st = append(st, showp(cur[u]))
		res.nontriv = res.nontriv || cur[u] != nil
	}
	res.state = "pw|" + strings.Join(st, "|")
	return
}

func showp(p *string) string {
	if p == nil {
		return "(none)"
	}
	for l, v := range pwVal {
		if v == *p {
			return "<" + l + ">"
		}
	}
	return fmt.Sprintf("%q", *p)
}

func pwOps(users int, sets, casOld, casNew []string) []string {
	var out []string
	for u := 0; u < users; u++ {
		for _, p := range sets {
			out = append(out, fmt.Sprintf("set:%d:%s", u, p))
		}
	}
	for u := 0; u < users; u++ {
		for _, o := range casOld {
			for _, n := range casNew {
				out = append(out, fmt.Sprintf("cas:%d:%s:%s", u, o, n))
			}
		}
	}
	return out
}

// histories enumerates all sequences over ops of length 1..depth, shortest first.
func histories(ops []string, depth int, visit func([]string) bool) {
	for d := 1; d <= depth; d++ {
		idx := make([]int, d)
		for {
			h := make([]string, d)
			for i, x := range idx {
				h[i] = ops[x]
			}
			if !visit(h) {
				return
			}
			i := d - 1
			for i >= 0 {
				idx[i]++
				if idx[i] < len(ops) {
					break
				}
				idx[i] = 0
				i--
			}
			if i < 0 {
				break
			}
		}
	}
}

// ---------------------------------------------------------------------------------------------------------
// part cpw: sequential histories over the real v1 CachingPasswordsService wrapped around the real tenant
// password service (bcrypt). History ops "set:P", "cas:OLD:NEW", "cmp:Q" all go through the caching service;
// the password A is set beforehand directly on the inner service (cache empty). Reference: cur = the password
// of the last accepted set / compare-and-set; every ComparePassword of the history and of the final probe
// round (every non-current password first, the current one last) must succeed iff q == cur.

func runCpw(ops, probe []string) (res runResult) {
	ctx := context.Background()
	w, err := newPwWorld(1)
	if err != nil {
		res.err = err
		return
	}
	uid := w.users[0]
	start := pwVal["A"]
	if err := w.svc.SetPassword(ctx, uid, start); err != nil {
		res.err = fmt.Errorf("initial SetPassword: %w", err)
		return
	}
	svc := authv1.NewCachingPasswordsService(w.svc)
	cur := start
	everSet := []string{start}
	verified := map[string]bool{} // passwords an earlier ComparePassword of this history accepted (candidates for a stale cache entry)
	cached := "(none)"            // what a correct cache may hold: the password of the last accepted compare since the last change
	compare := func(when, ql string) {
		q := pwVal[ql]
		got := svc.ComparePassword(ctx, uid, q) == nil
		want := q == cur
		rel := "current"
		if !want {
			rel = "never-set"
			for _, o := range everSet {
				if o == q {
					rel = "replaced-password"
				}
			}
		}
		hit := "miss"
		if cached == q {
			hit = "hit"
		}
		res.outcomes = append(res.outcomes, fmt.Sprintf("cpw:compare/%v/%s/model-cache=%s", got, rel, hit))
		if got && !want {
			res.v(vlib.JoinSig("cpw", "CachingPasswordsService.ComparePassword", "accepts-noncurrent", "q="+rel, fmt.Sprintf("q-accepted-by-an-earlier-compare=%v", verified[q])),
				"%s of %v: ComparePassword(%s) through the caching service succeeded although the current password is %s", when, ops, showp(&q), showp(&cur))
		}
		if !got && want {
			res.v(vlib.JoinSig("cpw", "CachingPasswordsService.ComparePassword", "rejects-current", "model-cache="+hit),
				"%s of %v: ComparePassword(%s) through the caching service failed although it is the password most recently set", when, ops, showp(&q))
		}
		if got {
			verified[q] = true
			if want {
				cached = q
			}
		}
	}
	for step, op := range ops {
		f := strings.Split(op, ":")
		when := fmt.Sprintf("step %d (%s)", step, op)
		switch f[0] {
		case "set":
			p := pwVal[f[1]]
			if err := svc.SetPassword(ctx, uid, p); err == nil {
				cur, cached = p, "(none)"
				everSet = append(everSet, p)
				res.outcomes = append(res.outcomes, "cpw:set/accepted")
			} else {
				res.outcomes = append(res.outcomes, "cpw:set/rejected")
			}
		case "cas":
			old, nw := pwVal[f[1]], pwVal[f[2]]
			want := old == cur
			err := svc.CompareAndSetPassword(ctx, uid, old, nw)
			res.outcomes = append(res.outcomes, fmt.Sprintf("cpw:cas/accepted=%v/old-is-current=%v", err == nil, want))
			if err == nil {
				if !want {
					res.v(vlib.JoinSig("cpw", "CachingPasswordsService.CompareAndSetPassword", "accepted-noncurrent-old"),
						"%s of %v: CompareAndSetPassword accepted old password %s although the current password is %s", when, ops, showp(&old), showp(&cur))
				}
				cur, cached = nw, "(none)"
				everSet = append(everSet, nw)
			}
		case "cmp":
			compare(when, f[1])
		}
	}
	// final probes: every non-current password first (a stale cache entry would answer), the current one last
	for _, ql := range probe {
		if pwVal[ql] != cur {
			compare("final probe after the history", ql)
		}
	}
	for _, ql := range probe {
		if pwVal[ql] == cur {
			compare("final probe after the history", ql)
		}
	}
	res.nontriv = true
	res.state = "cpw|" + showp(&cur) + "|model-cache=" + cached
	if cached != "(none)" {
		res.state = "cpw|" + showp(&cur) + "|model-cache=" + showp(&cached)
	}
	return
}

// ---------------------------------------------------------------------------------------------------------
// part csched: schedule exploration (vsched) of the real CachingPasswordsService (its RWMutex is modelled: every
// Lock/RLock is a scheduling point) around a fast deterministic inner PasswordsService whose calls are bracketed
// by hook points, so that the window in which a password change is in flight is a scheduling point as well.

// SchedCase: one password change racing with 1..3 ComparePassword calls, one thread each.
type SchedCase struct {
	Change string   `json:"change"` // set | cas | cas-wrong-old  (old password O → new password N)
	Cmps   []string `json:"cmps"`   // per comparer thread: "old" | "new"
	Warm   bool     `json:"warm"`   // the cache holds the old password when the threads start
	Bound  int      `json:"bound"`  // preemption bound
}

func (sc SchedCase) String() string {
	return fmt.Sprintf("change=%s cmps=%v warm-cache=%v", sc.Change, sc.Cmps, sc.Warm)
}

var errIncorrect = errors.New("incorrect password")

// fastPw is the reference inner service: the stored password per id, nothing else.
type fastPw struct{ pw map[platform.ID]string }

func (f *fastPw) SetPassword(_ context.Context, id platform.ID, p string) error {
	f.pw[id] = p
	return nil
}
func (f *fastPw) ComparePassword(_ context.Context, id platform.ID, p string) error {
	if cur, ok := f.pw[id]; !ok || cur != p {
		return errIncorrect
	}
	return nil
}
func (f *fastPw) CompareAndSetPassword(ctx context.Context, id platform.ID, old, nw string) error {
	if err := f.ComparePassword(ctx, id, old); err != nil {
		return err
	}
	f.pw[id] = nw
	return nil
}

type thrKey struct{}

type schedObs struct {
	clk int
	ev  []string
}

func (o *schedObs) tick(ctx context.Context, what string) int {
	o.clk++
	who, _ := ctx.Value(thrKey{}).(string)
	o.ev = append(o.ev, fmt.Sprintf("%d %s: %s", o.clk, who, what))
	return o.clk
}

// hookedInner delegates to the model with a hook point before and after every effect (compare-and-set is a compare
// followed by a store, as in tenant.UserSvc.CompareAndSetPassword).
type hookedInner struct {
	m *fastPw
	o *schedObs
}

func errs(err error) string {
	if err == nil {
		return "ok"
	}
	return "error"
}

func okS(ok bool) string {
	if ok {
		return "ok"
	}
	return "error"
}

func (h *hookedInner) SetPassword(ctx context.Context, id platform.ID, p string) error {
	vrt.Hook("inner.SetPassword:enter")
	err := h.m.SetPassword(ctx, id, p)
	h.o.tick(ctx, "inner stores the new password")
	vrt.Hook("inner.SetPassword:exit")
	return err
}

func (h *hookedInner) ComparePassword(ctx context.Context, id platform.ID, p string) error {
	vrt.Hook("inner.ComparePassword:enter")
	err := h.m.ComparePassword(ctx, id, p)
	h.o.tick(ctx, "inner compares → "+errs(err))
	vrt.Hook("inner.ComparePassword:exit")
	return err
}

func (h *hookedInner) CompareAndSetPassword(ctx context.Context, id platform.ID, old, nw string) error {
	vrt.Hook("inner.CompareAndSetPassword:enter")
	err := h.m.ComparePassword(ctx, id, old)
	h.o.tick(ctx, "inner compares the old password → "+errs(err))
	if err == nil {
		vrt.Hook("inner.CompareAndSetPassword:compared")
		err = h.m.SetPassword(ctx, id, nw)
		h.o.tick(ctx, "inner stores the new password")
	}
	vrt.Hook("inner.CompareAndSetPassword:exit")
	return err
}

const schedUID = platform.ID(7)

func schedHarness(sc SchedCase) *vrt.Harness {
	return &vrt.Harness{Name: sc.String(), Body: func(x *vrt.Exec) {
		oldP, newP, wrongP := pwVal["A"], pwVal["B"], pwVal["W"]
		o := &schedObs{}
		model := &fastPw{pw: map[platform.ID]string{schedUID: oldP}}
		svc := authv1.NewCachingPasswordsService(&hookedInner{m: model, o: o})
		if sc.Warm {
			if err := svc.ComparePassword(context.Background(), schedUID, oldP); err != nil {
				x.Fail("csched/harness", "warm-up compare failed")
				return
			}
			o.ev, o.clk = nil, 0
		}
		type call struct {
			pw       string
			inv, ret int
			ok       bool
		}
		var chg call
		cmps := make([]call, len(sc.Cmps))
		x.Go("change:"+sc.Change, func() {
			ctx := context.WithValue(context.Background(), thrKey{}, "change")
			var err error
			switch sc.Change {
			case "set":
				chg.inv = o.tick(ctx, "SetPassword(new) called")
				err = svc.SetPassword(ctx, schedUID, newP)
			case "cas":
				chg.inv = o.tick(ctx, "CompareAndSetPassword(old,new) called")
				err = svc.CompareAndSetPassword(ctx, schedUID, oldP, newP)
			default:
				chg.inv = o.tick(ctx, "CompareAndSetPassword(wrong,new) called")
				err = svc.CompareAndSetPassword(ctx, schedUID, wrongP, newP)
			}
			chg.ok = err == nil
			chg.ret = o.tick(ctx, "change returned "+errs(err))
		})
		for i, which := range sc.Cmps {
			name := fmt.Sprintf("cmp%d", i)
			cmps[i].pw = which
			x.Go(name+":"+which, func() {
				ctx := context.WithValue(context.Background(), thrKey{}, name)
				p := oldP
				if which == "new" {
					p = newP
				}
				cmps[i].inv = o.tick(ctx, "ComparePassword("+which+") called")
				err := svc.ComparePassword(ctx, schedUID, p)
				cmps[i].ok = err == nil
				cmps[i].ret = o.tick(ctx, "ComparePassword("+which+") returned "+errs(err))
			})
		}
		x.S.MaxSteps = 2000
		x.Run()
		x.S.Drain()
		if x.S.Deadlock || x.S.StepCap {
			x.Fail(vlib.JoinSig("csched", "deadlock-or-livelock"), fmt.Sprintf("%s: deadlock=%v blocked=%v step-cap=%v", sc, x.S.Deadlock, x.S.Blocked, x.S.StepCap))
			return
		}
		// the change has been acknowledged and every thread has finished: judge against the inner store
		cur := model.pw[schedUID]
		curL, repl, replL := "new", oldP, "old"
		if cur == oldP {
			curL, repl, replL = "old", newP, "new"
		}
		overlap := false
		var thr []string
		acceptedRepl, inFlight := 0, 0
		for _, cm := range cmps {
			overlap = overlap || (cm.inv < chg.ret && cm.ret > chg.inv)
			thr = append(thr, cm.pw+"="+okS(cm.ok))
			if cm.ok && cm.pw == replL {
				acceptedRepl++
				if cm.ret > chg.ret {
					inFlight++
				}
			}
		}
		sort.Strings(thr)
		ctx := context.WithValue(context.Background(), thrKey{}, "after")
		p1 := svc.ComparePassword(ctx, schedUID, repl) == nil
		p2 := svc.ComparePassword(ctx, schedUID, cur) == nil
		p3 := svc.ComparePassword(ctx, schedUID, repl) == nil
		hist := strings.Join(o.ev, "; ")
		feature := "no-concurrent-compare-accepted-it"
		switch {
		case inFlight > 0:
			feature = "an-accepting-compare-returned-after-the-acknowledgement"
		case acceptedRepl > 0:
			feature = "every-accepting-compare-returned-before-the-acknowledgement"
		}
		if p1 {
			x.Fail(vlib.JoinSig("csched", "CachingPasswordsService.ComparePassword", "accepts-noncurrent-after-change-acknowledged", feature),
				fmt.Sprintf("%s: after every thread finished the stored password is the %s one, but ComparePassword(%s password) through the caching service succeeds. events: %s", sc, curL, replL, hist))
		}
		if !p2 {
			x.Fail(vlib.JoinSig("csched", "CachingPasswordsService.ComparePassword", "rejects-current-after-change-acknowledged"),
				fmt.Sprintf("%s: after every thread finished the stored password is the %s one, but ComparePassword of it fails. events: %s", sc, curL, hist))
		}
		if p3 && !p1 {
			x.Fail(vlib.JoinSig("csched", "CachingPasswordsService.ComparePassword", "accepts-noncurrent-after-current-verified"),
				fmt.Sprintf("%s: ComparePassword(%s password) succeeds after the current password was verified. events: %s", sc, replL, hist))
		}
		nt := ""
		if overlap {
			nt = "overlap "
		}
		x.Outcome = fmt.Sprintf("%schange=%s→%s during:[%s] after: current-accepted=%v replaced-accepted=%v", nt, sc.Change, okS(chg.ok), strings.Join(thr, ","), p2, p1 || p3)
	}}
}

func schedCases(thorough bool) []SchedCase {
	var out []SchedCase
	cmpSets := [][]string{{"old"}, {"new"}, {"old", "old"}, {"old", "new"}, {"new", "new"}}
	bound := 2
	if thorough {
		bound = 3
		cmpSets = append(cmpSets, []string{"old", "old", "new"}, []string{"old", "new", "new"})
	}
	for _, cs := range cmpSets {
		for _, ch := range []string{"set", "cas", "cas-wrong-old"} {
			for _, warm := range []bool{false, true} {
				out = append(out, SchedCase{Change: ch, Cmps: cs, Warm: warm, Bound: bound})
			}
		}
	}
	return out
}

// runSched explores one scenario; returns false when the budget expired.
func runSched(c *vlib.Ctx, sc SchedCase) bool {
	h := schedHarness(sc)
	st := vrt.Explore(c.T, h, sc.Bound, 0, 1, c.Expired, func(r *vrt.Result) {
		c.Eval(1)
		if r.Diverged != "" {
			c.HarnessError(sc.String() + ": " + r.Diverged)
			return
		}
		if strings.HasPrefix(r.Outcome, "overlap ") {
			c.NontrivialN(1)
		}
		for _, f := range r.Failures {
			if f.Sig == "csched/harness" {
				c.HarnessError(sc.String() + ": " + f.Msg)
				continue
			}
			cs := Case{Part: "csched", Sig: f.Sig, Sched: &sc, Choices: r.Choices}
			for _, s := range r.Steps {
				cs.Trace = append(cs.Trace, fmt.Sprintf("T%d %s", s.Thread, s.Label))
			}
			c.Violation(f.Sig, f.Msg, cs)
		}
		if len(r.Failures) > 0 {
			c.Outcome("csched:violation")
			return
		}
		c.Outcome("csched:" + strings.TrimPrefix(r.Outcome, "overlap "))
		if c.WantSample() && r.Preempts == sc.Bound {
			c.Sample(map[string]any{"scenario": sc.String(), "schedule": r.Choices, "preemptions": r.Preempts, "outcome": r.Outcome})
		}
	})
	c.StateN(st.Nodes)
	c.Transition(st.Transitions)
	c.Trace(st.Executions)
	return st.Complete
}

// ---------------------------------------------------------------------------------------------------------
// part hash: stored-hash formats

type HashCase struct {
	Via      string `json:"via"`      // hasher | store
	Variant  string `json:"variant"`  // variant used to produce the stored hash
	Decoders string `json:"decoders"` // all | own | other  (hasher) ; stored mode for store
	P        string `json:"p"`
	Q        string `json:"q"`
}

var hashWords = []string{
	"tok-Zq8x_Tt4mB7uW2aK9", "tok-Zq8x_Tt4mB7uW2aK8", "tok-Zq8x_Tt4mB7uW2aK", "tok-Zq8x_Tt4mB7uW2aK9 ", "TOK-ZQ8X_TT4MB7UW2AK9",
	"a", "b", "", "\x00", "a\x00", strings.Repeat("k", 200), strings.Repeat("k", 201),
	"$influxdb2-sha256$kMrC1MoFhWvvKSgyqpMaLuo2O3LINv4_XByCSkfV9K0=",
}

func variantOf(name string) algo.Variant { return algo.NewVariant(name) }

func refPHC(variant, p string) string {
	switch variant {
	case algo.VariantIdentifierSHA256:
		h := sha256.Sum256([]byte(p))
		return "$" + variant + "$" + base64.URLEncoding.EncodeToString(h[:])
	default:
		h := sha512.Sum512([]byte(p))
		return "$" + variant + "$" + base64.URLEncoding.EncodeToString(h[:])
	}
}

func otherVariant(v string) string {
	if v == algo.VariantIdentifierSHA256 {
		return algo.VariantIdentifierSHA512
	}
	return algo.VariantIdentifierSHA256
}

func runHash(hc HashCase) (res runResult) {
	res.nontriv = true
	want := hc.P == hc.Q
	switch hc.Via {
	case "hasher":
		var dec []algo.Variant
		switch hc.Decoders {
		case "all":
			dec = algo.AllVariants
		case "own":
			dec = []algo.Variant{variantOf(hc.Variant)}
		case "other":
			dec = []algo.Variant{variantOf(otherVariant(hc.Variant))}
			want = false // only judged in one direction below: the statement is silent about unsupported formats
		}
		hh, err := authorization.NewAuthorizationHasher(authorization.WithHasherVariant(variantOf(hc.Variant)), authorization.WithDecoderVariants([]algo.Variant{variantOf(hc.Variant)}))
		if err != nil {
			res.err = err
			return
		}
		stored, err := hh.Hash(hc.P)
		if err != nil {
			res.outcomes = append(res.outcomes, "hash:hasher/hash-error")
			return
		}
		vh, err := authorization.NewAuthorizationHasher(authorization.WithHasherVariant(dec[0]), authorization.WithDecoderVariants(dec))
		if err != nil {
			res.err = err
			return
		}
		got, merr := vh.Match(stored, hc.Q)
		got = got && merr == nil
		res.outcomes = append(res.outcomes, fmt.Sprintf("hash:hasher/decoders=%s/q=%s/match=%v", hc.Decoders, hashRel(hc.P, hc.Q), got))
		res.state = "hash|" + hc.Variant + "|" + hc.Decoders
		if hc.Decoders == "other" && hc.P == hc.Q {
			return // a decoder that does not support the stored format: either answer is accepted for the own password
		}
		if got != want {
			res.v(vlib.JoinSig("hash", "AuthorizationHasher.Match", dirOf(got), hc.Variant, decTag(hc.Decoders), "q="+hashRel(hc.P, hc.Q)),
				"stored hash %q of %q (variant %s), decoders=%s: Match(%q) = %v (err %v), statement says %v", stored, hc.P, hc.Variant, hc.Decoders, hc.Q, got, merr, want)
		}
		// the hand-built stored form of the same format must behave identically
		got2, merr2 := vh.Match(refPHC(hc.Variant, hc.P), hc.Q)
		got2 = got2 && merr2 == nil
		if got2 != want {
			res.v(vlib.JoinSig("hash", "AuthorizationHasher.Match(reference-encoded)", dirOf(got2), hc.Variant, decTag(hc.Decoders), "q="+hashRel(hc.P, hc.Q)),
				"stored hash %q of %q: Match(%q) = %v (err %v), statement says %v", refPHC(hc.Variant, hc.P), hc.P, hc.Q, got2, merr2, want)
		}
	case "store":
		// a token P stored by a real authorization store in mode Variant (raw | sha256 | sha512), looked up with Q
		// by a store (re)opened in mode Decoders (raw | sha256 | sha512)
		if hc.P == "" {
			return // an empty token means "generate one"
		}
		w, err := newHTTPWorld(&Family{Users: 1, Toks: 1, Modes: []string{hc.Variant, hc.Decoders}})
		if err != nil {
			res.err = err
			return
		}
		ctx := context.Background()
		a := &influxdb.Authorization{Token: hc.P, OrgID: w.orgID, UserID: w.users[0], Status: influxdb.Active}
		if err := w.auth.cur.CreateAuthorization(ctx, a); err != nil {
			res.outcomes = append(res.outcomes, "hash:store/create-error")
			return
		}
		if hc.Decoders != hc.Variant {
			if err := w.openAuth(hc.Decoders); err != nil {
				res.err = err
				return
			}
		}
		f, err := w.auth.cur.FindAuthorizationByToken(ctx, hc.Q)
		got := err == nil && f != nil
		res.outcomes = append(res.outcomes, fmt.Sprintf("hash:store/reopened-in-other-mode=%v/q-is-p=%v/found=%v", hc.Variant != hc.Decoders, hc.P == hc.Q, got))
		res.state = "hash|store|" + hc.Variant + "|" + hc.Decoders
		if got != want {
			res.v(vlib.JoinSig("hash", "FindAuthorizationByToken", dirOf(got), fmt.Sprintf("reopened-in-other-mode=%v", hc.Variant != hc.Decoders), "q="+hashRel(hc.P, hc.Q)),
				"token %q stored in mode %s, store reopened in mode %s: FindAuthorizationByToken(%q) found=%v (err %v), statement says %v", hc.P, hc.Variant, hc.Decoders, hc.Q, got, err, want)
		}
		if got && f.ID != a.ID {
			res.v(vlib.JoinSig("hash", "FindAuthorizationByToken", "wrong-authorization"), "lookup of %q returned authorization %v, created %v", hc.Q, f.ID, a.ID)
		}
	}
	return
}

func decTag(d string) string {
	if d == "other" {
		return "decoder-of-other-variant-only"
	}
	return "format-supported"
}

func dirOf(got bool) string {
	if got {
		return "verifies-foreign-password"
	}
	return "rejects-own-password"
}

func hashRel(p, q string) string {
	switch {
	case p == q:
		return "same"
	case strings.HasPrefix(p, q), strings.HasPrefix(q, p):
		return "prefix-or-extension"
	case strings.EqualFold(p, q):
		return "case-variant"
	}
	return "unrelated"
}

// ---------------------------------------------------------------------------------------------------------
// part http: tokens, users, sessions, clock, restarts; requests through the real AuthenticationHandler

const (
	sessLenMin = 10 // session length used by the fixture (minutes)
	renewMin   = 5  // influxdb.RenewSessionTime (asserted at start)
)

// Family fixes an op alphabet.
type Family struct {
	Name          string   `json:"name"`
	Users         int      `json:"users"`
	Toks          int      `json:"toks"`
	Sess          int      `json:"sess"`
	Advs          []int    `json:"advs"`  // clock steps in minutes
	Modes         []string `json:"modes"` // token storage modes raw|sha256|sha512; first = initial; >1 → restart ops
	RenewDisabled bool     `json:"renew_disabled"`
	Ops           []string `json:"ops,omitempty"` // history (replay / execution)
}

type tokM struct {
	St    int // 0 never, 1 active, 2 inactive, 3 deleted
	Form  string
	Fuzzy bool
}
type sessM struct {
	St         int // 0 none, 1 created, 2 gone (signed out or certainly expired)
	RMin, RMax int // minutes until expiry: without / with every possible renewal
	Fuzzy      bool
}
type model struct {
	Mode string
	Tok  []tokM
	Usr  []bool
	UFz  []bool
	Sess []sessM
}

func newModel(f *Family) *model {
	m := &model{Mode: f.Modes[0], Tok: make([]tokM, f.Toks), Usr: make([]bool, f.Users), UFz: make([]bool, f.Users), Sess: make([]sessM, f.Sess)}
	for i := range m.Usr {
		m.Usr[i] = true
	}
	return m
}

func (m *model) clone() *model {
	n := *m
	n.Tok = append([]tokM(nil), m.Tok...)
	n.Usr = append([]bool(nil), m.Usr...)
	n.UFz = append([]bool(nil), m.UFz...)
	n.Sess = append([]sessM(nil), m.Sess...)
	return &n
}

func (m *model) canon() {
	for i := range m.Sess {
		s := &m.Sess[i]
		if s.St == 1 && s.RMax < 0 {
			s.St = 2
		}
		if s.St != 1 {
			s.RMin, s.RMax = 0, 0
		} else if s.RMin < -1 {
			s.RMin = -1
		}
	}
	for i := range m.Tok {
		if m.Tok[i].St == 0 || m.Tok[i].St == 3 {
			m.Tok[i].Form = ""
		}
	}
}

func (m *model) key() string { m.canon(); return fmt.Sprintf("%+v", *m) }

func slotOf(op string) (string, int) {
	i := strings.IndexAny(op, "0123456789")
	if i < 0 {
		return op, 0
	}
	var n int
	fmt.Sscanf(op[i:], "%d", &n)
	return op[:i], n
}

// enabled lists the ops offered in a model state (simplest first).
func (m *model) enabled(f *Family) []string {
	var out []string
	for i, t := range m.Tok {
		if t.St == 0 || t.St == 3 {
			out = append(out, fmt.Sprintf("mkTok%d", i))
		}
		if t.St != 0 {
			out = append(out, fmt.Sprintf("deact%d", i), fmt.Sprintf("act%d", i), fmt.Sprintf("del%d", i))
		}
	}
	for u := range m.Usr {
		out = append(out, fmt.Sprintf("uOff%d", u), fmt.Sprintf("uOn%d", u))
	}
	for i, s := range m.Sess {
		if s.St == 0 {
			out = append(out, fmt.Sprintf("mkSess%d", i))
		} else {
			out = append(out, fmt.Sprintf("req%d", i), fmt.Sprintf("out%d", i))
		}
	}
	anySess := false
	for _, s := range m.Sess {
		anySess = anySess || s.St == 1
	}
	if anySess {
		for _, d := range f.Advs {
			out = append(out, fmt.Sprintf("adv%d", d))
		}
	}
	for _, md := range f.Modes {
		if md != m.Mode {
			out = append(out, "mode-"+md)
		}
	}
	return out
}

// apply advances the model by op; ok is the real call's success (model-only search passes true).
func (m *model) apply(f *Family, op string, ok bool) {
	if strings.HasPrefix(op, "mode-") {
		m.Mode = op[5:]
		if m.Mode != "raw" {
			for i := range m.Tok {
				if m.Tok[i].Form == "raw" {
					m.Tok[i].Form = m.Mode
				}
			}
		}
		m.canon()
		return
	}
	name, i := slotOf(op)
	switch name {
	case "mkTok":
		if ok {
			m.Tok[i] = tokM{St: 1, Form: m.Mode}
		} else {
			m.Tok[i].Fuzzy = true
		}
	case "deact", "act", "del":
		t := &m.Tok[i]
		if t.St == 3 || t.St == 0 {
			break // nothing to change; must stay absent
		}
		if !ok {
			t.Fuzzy = true
			break
		}
		switch name {
		case "deact":
			t.St = 2
		case "act":
			t.St = 1
		case "del":
			t.St = 3
		}
		if name != "del" && m.Mode != "raw" && t.Form == "raw" {
			t.Form = m.Mode
		}
	case "uOff", "uOn":
		if ok {
			m.Usr[i] = name == "uOn"
		} else {
			m.UFz[i] = true
		}
	case "mkSess":
		if ok {
			m.Sess[i] = sessM{St: 1, RMin: sessLenMin, RMax: sessLenMin}
		} else {
			m.Sess[i].Fuzzy = true
		}
	case "out":
		s := &m.Sess[i]
		if s.St == 1 {
			if ok {
				s.St = 2
			} else if s.RMin > 0 {
				s.Fuzzy = true
			}
		}
	case "req":
		s := &m.Sess[i]
		if s.St == 1 && s.RMax >= 0 && !f.RenewDisabled && s.RMax < renewMin {
			s.RMax = renewMin
		}
	case "adv":
		for k := range m.Sess {
			if m.Sess[k].St == 1 {
				m.Sess[k].RMin -= i
				m.Sess[k].RMax -= i
			}
		}
	}
	m.canon()
}

type authProxy struct{ cur influxdb.AuthorizationService }

func (p *authProxy) FindAuthorizationByID(ctx context.Context, id platform.ID) (*influxdb.Authorization, error) {
	return p.cur.FindAuthorizationByID(ctx, id)
}
func (p *authProxy) FindAuthorizationByToken(ctx context.Context, t string) (*influxdb.Authorization, error) {
	return p.cur.FindAuthorizationByToken(ctx, t)
}
func (p *authProxy) FindAuthorizations(ctx context.Context, f influxdb.AuthorizationFilter, opt ...influxdb.FindOptions) ([]*influxdb.Authorization, int, error) {
	return p.cur.FindAuthorizations(ctx, f, opt...)
}
func (p *authProxy) CreateAuthorization(ctx context.Context, a *influxdb.Authorization) error {
	return p.cur.CreateAuthorization(ctx, a)
}
func (p *authProxy) UpdateAuthorization(ctx context.Context, id platform.ID, upd *influxdb.AuthorizationUpdate) (*influxdb.Authorization, error) {
	return p.cur.UpdateAuthorization(ctx, id, upd)
}
func (p *authProxy) DeleteAuthorization(ctx context.Context, id platform.ID) error {
	return p.cur.DeleteAuthorization(ctx, id)
}

type httpWorld struct {
	f       *Family
	kvs     *inmem.KVStore
	ten     *tenant.Service
	orgID   platform.ID
	users   []platform.ID
	auth    *authProxy
	authIDs *incGen
	sess    *session.Service
	h       *ihttp.AuthenticationHandler
	tokID   []platform.ID
	sessKey []string
	fatal   error
}

func tokStr(i int) string { return fmt.Sprintf("tok%d-Zq8x_Tt4mB7uW2aK9", i) }

func (w *httpWorld) openAuth(mode string) error {
	opts := []authorization.StoreOption{authorization.WithLogger(zap.NewNop())}
	switch mode {
	case "raw", "sha256":
	case "sha512":
		opts = append(opts, authorization.WithAuthorizationHashVariantName(algo.VariantIdentifierSHA512))
	default:
		return fmt.Errorf("unknown mode %q", mode)
	}
	st, err := authorization.NewStore(context.Background(), w.kvs, mode != "raw", opts...)
	if err != nil {
		return err
	}
	st.IDGen = w.authIDs
	w.auth.cur = authorization.NewService(st, w.ten)
	return nil
}

func newHTTPWorld(f *Family) (*httpWorld, error) {
	ctx := context.Background()
	kvs, ten, err := newTenant()
	if err != nil {
		return nil, err
	}
	w := &httpWorld{f: f, kvs: kvs, ten: ten, auth: &authProxy{}, authIDs: &incGen{n: 0x5000}, tokID: make([]platform.ID, f.Toks), sessKey: make([]string, f.Sess)}
	o := &influxdb.Organization{Name: "org"}
	if err := ten.CreateOrganization(ctx, o); err != nil {
		return nil, err
	}
	w.orgID = o.ID
	for i := 0; i < f.Users; i++ {
		u := &influxdb.User{Name: fmt.Sprintf("user%d", i), Status: influxdb.Active}
		if err := ten.CreateUser(ctx, u); err != nil {
			return nil, err
		}
		w.users = append(w.users, u.ID)
	}
	if err := w.openAuth(f.Modes[0]); err != nil {
		return nil, err
	}
	w.sess = session.NewService(session.NewStorage(inmem.NewSessionStore()), ten.UserService, ten.UserResourceMappingService, w.auth,
		session.WithSessionLength(sessLenMin*time.Minute), session.WithIDGenerator(&incGen{n: 0x7000}), session.WithTokenGenerator(&keyGen{}))
	h := ihttp.NewAuthenticationHandler(zap.NewNop(), kithttp.NewErrorHandler(zap.NewNop()))
	h.AuthorizationService = w.auth
	h.SessionService = w.sess
	h.UserService = ten.UserService
	h.SessionRenewDisabled = f.RenewDisabled
	// the protected resource: what every real downstream handler does first — obtain the permission set of the
	// authorizer the middleware put on the context (auth.go PermissionSet / session.go PermissionSet)
	h.Handler = http.HandlerFunc(func(rw http.ResponseWriter, r *http.Request) {
		a, err := icontext.GetAuthorizer(r.Context())
		if err != nil {
			rw.Header().Set("X-Inner", "no-authorizer")
			rw.WriteHeader(http.StatusUnauthorized)
			return
		}
		if _, err := a.PermissionSet(); err != nil {
			rw.Header().Set("X-Inner", "permission-set-refused")
			rw.WriteHeader(http.StatusUnauthorized)
			return
		}
		rw.Header().Set("X-Kind", a.Kind())
		rw.Header().Set("X-User", a.GetUserID().String())
		rw.WriteHeader(http.StatusNoContent)
	})
	w.h = h
	return w, nil
}

// exec performs one op on the real services.
func (w *httpWorld) exec(op string) (ok bool) {
	ctx := context.Background()
	if strings.HasPrefix(op, "mode-") {
		if err := w.openAuth(op[5:]); err != nil {
			w.fatal = fmt.Errorf("restart of the authorization store in %s failed: %w", op, err)
		}
		return true
	}
	name, i := slotOf(op)
	switch name {
	case "mkTok":
		a := &influxdb.Authorization{Token: tokStr(i), OrgID: w.orgID, UserID: w.users[i%len(w.users)], Status: influxdb.Active, Description: "slot"}
		if err := w.auth.CreateAuthorization(ctx, a); err != nil {
			return false
		}
		w.tokID[i] = a.ID
		return true
	case "deact":
		_, err := w.auth.UpdateAuthorization(ctx, w.tokID[i], &influxdb.AuthorizationUpdate{Status: influxdb.Inactive.Ptr()})
		return err == nil
	case "act":
		_, err := w.auth.UpdateAuthorization(ctx, w.tokID[i], &influxdb.AuthorizationUpdate{Status: influxdb.Active.Ptr()})
		return err == nil
	case "del":
		return w.auth.DeleteAuthorization(ctx, w.tokID[i]) == nil
	case "uOff":
		_, err := w.ten.UpdateUser(ctx, w.users[i], influxdb.UserUpdate{Status: influxdb.Inactive.Ptr()})
		return err == nil
	case "uOn":
		_, err := w.ten.UpdateUser(ctx, w.users[i], influxdb.UserUpdate{Status: influxdb.Active.Ptr()})
		return err == nil
	case "mkSess":
		s, err := w.sess.CreateSession(ctx, fmt.Sprintf("user%d", i%len(w.users)))
		if err != nil {
			return false
		}
		w.sessKey[i] = s.Key
		return true
	case "out":
		return w.sess.ExpireSession(ctx, w.sessKey[i]) == nil
	case "adv":
		time.Sleep(time.Duration(i) * time.Minute)
		synctest.Wait()
		return true
	}
	panic("unknown op " + op)
}

// probe is one request form.
type probe struct {
	Label   string
	Auth    *string // Authorization header (nil = absent)
	Cookie  *string // raw Cookie header (nil = absent)
	TokSlot int     // token slot whose exact token string is presented (-1: none)
	TokWS   bool    // presented with surrounding white space only (either answer accepted, never demanded)
	Canon   bool    // canonical form: acceptance is demanded when the credential is valid
	SesSlot int     // session slot whose exact key is presented as the session cookie (-1: none)
}

func sp(s string) *string { return &s }

func b64(b []byte) string { return base64.RawURLEncoding.EncodeToString(b) }

func fakeJWT(alg, uid string) string {
	hdr := b64([]byte(`{"alg":"` + alg + `","typ":"JWT"}`))
	pl := b64([]byte(`{"kid":"k1","uid":"` + uid + `","permissions":[{"action":"read","resource":{"type":"buckets"}}]}`))
	if alg == "none" {
		return hdr + "." + pl + "."
	}
	mac := hmac.New(sha256.New, []byte("secret"))
	mac.Write([]byte(hdr + "." + pl))
	return hdr + "." + pl + "." + b64(mac.Sum(nil))
}

const cookieName = "influxdb-oss-session"

func (w *httpWorld) probes() []probe {
	var ps []probe
	add := func(p probe) { ps = append(ps, p) }
	none := func(label string, auth *string) { add(probe{Label: label, Auth: auth, TokSlot: -1, SesSlot: -1}) }
	none("no-credentials", nil)
	none("auth=Token<empty>", sp("Token "))
	none("auth=Bearer<empty>", sp("Bearer "))
	none("auth=Token+unknown", sp("Token nosuchtoken-Zq8x_Tt4mB7uW2aK9"))
	none("auth=Bearer+jwt-hs256-unknown-key", sp("Bearer "+fakeJWT("HS256", w.users[0].String())))
	none("auth=Bearer+jwt-alg-none", sp("Bearer "+fakeJWT("none", w.users[0].String())))
	for i := 0; i < w.f.Toks; i++ {
		t := tokStr(i)
		for _, sc := range []string{"Token ", "Bearer ", "token ", "TOKEN ", "bearer ", "Basic ", "", "Token", "Token: "} {
			canon := sc == "Token " || sc == "Bearer "
			add(probe{Label: "auth=" + strings.ReplaceAll(sc, " ", "_") + "+exact", Auth: sp(sc + t), TokSlot: i, TokWS: sc == "Token: ", Canon: canon, SesSlot: -1})
		}
		for _, sc := range []string{"Token ", "Bearer "} {
			l := "auth=" + strings.TrimSpace(sc) + "_+"
			none(l+"truncated", sp(sc+t[:len(t)-1]))
			none(l+"extended", sp(sc+t+"x"))
			none(l+"uppercased", sp(sc+strings.ToUpper(t)))
			none(l+"phc-sha256-of-token", sp(sc+refPHC(algo.VariantIdentifierSHA256, t)))
			none(l+"phc-sha512-of-token", sp(sc+refPHC(algo.VariantIdentifierSHA512, t)))
			add(probe{Label: l + "ws-lead", Auth: sp(sc + " " + t), TokSlot: i, TokWS: true, SesSlot: -1})
			add(probe{Label: l + "ws-trail", Auth: sp(sc + t + " "), TokSlot: i, TokWS: true, SesSlot: -1})
		}
		add(probe{Label: "auth=Token_+exact&cookie=garbage", Auth: sp("Token " + t), Cookie: sp(cookieName + "=garbage"), TokSlot: i, SesSlot: -1})
	}
	for j := 0; j < w.f.Sess; j++ {
		k := w.sessKey[j]
		if k == "" {
			continue
		}
		none("auth=Token_+session-key", sp("Token "+k))
	}
	nc := func(label, cookie string) { add(probe{Label: label, Cookie: sp(cookie), TokSlot: -1, SesSlot: -1}) }
	nc("cookie=garbage", cookieName+"=garbage")
	nc("cookie=<empty>", cookieName+"=")
	if w.f.Toks > 0 {
		nc("cookie=token-string", cookieName+"="+tokStr(0))
	}
	for j := 0; j < w.f.Sess; j++ {
		k := w.sessKey[j]
		if k == "" {
			continue
		}
		nc("cookie=truncated", cookieName+"="+k[:len(k)-1])
		nc("cookie=extended", cookieName+"="+k+"x")
		nc("cookie=uppercased", cookieName+"="+strings.ToUpper(k))
		nc("cookie=other-name", "session="+k)
		add(probe{Label: "auth=Token+unknown&cookie=exact", Auth: sp("Token nosuchtoken"), Cookie: sp(cookieName + "=" + k), TokSlot: -1, SesSlot: j})
		add(probe{Label: "auth=Basic&cookie=exact", Auth: sp("Basic dXNlcjpwYXNz"), Cookie: sp(cookieName + "=" + k), TokSlot: -1, SesSlot: j})
		if w.f.Toks > 0 {
			add(probe{Label: "auth=Token_+exact&cookie=exact", Auth: sp("Token " + tokStr(0)), Cookie: sp(cookieName + "=" + k), TokSlot: 0, SesSlot: j})
		}
		add(probe{Label: "cookie=exact", Cookie: sp(cookieName + "=" + k), TokSlot: -1, Canon: true, SesSlot: j})
	}
	return ps
}

type response struct {
	code  int
	inner string
	kind  string
	user  string
}

func (w *httpWorld) do(p probe) response {
	r := httptest.NewRequest("GET", "/api/v2/protected", nil)
	if p.Auth != nil {
		r.Header.Set("Authorization", *p.Auth)
	}
	if p.Cookie != nil {
		r.Header.Set("Cookie", *p.Cookie)
	}
	rec := httptest.NewRecorder()
	w.h.ServeHTTP(rec, r)
	return response{rec.Code, rec.Header().Get("X-Inner"), rec.Header().Get("X-Kind"), rec.Header().Get("X-User")}
}

// judge compares one response with the statement: a 2xx needs a presented credential that is current; a
// canonical presentation of a current credential must get a 2xx.
func (w *httpWorld) judge(m *model, p probe, rsp response, res *runResult, when string) {
	res.requests++
	ok2xx := rsp.code >= 200 && rsp.code < 300
	type cred struct {
		valid, possible bool
		why             string
		user            int
		kind            string
	}
	var creds []cred
	if p.TokSlot >= 0 {
		t := m.Tok[p.TokSlot]
		u := p.TokSlot % len(m.Usr)
		c := cred{user: u, kind: influxdb.AuthorizationKind}
		fz := t.Fuzzy || m.UFz[u]
		switch {
		case t.St == 0:
			c.why = "token=never-created"
		case t.St == 3:
			c.why = "token=deleted"
		case t.St == 2:
			c.why = "token=inactive"
		case !m.Usr[u]:
			c.why = "user=inactive"
		default:
			c.valid = true
		}
		c.possible = c.valid || fz
		c.valid = c.valid && !fz
		creds = append(creds, c)
	}
	if p.SesSlot >= 0 {
		s := m.Sess[p.SesSlot]
		u := p.SesSlot % len(m.Usr)
		c := cred{user: u, kind: influxdb.SessionAuthorizationKind}
		fz := s.Fuzzy || m.UFz[u]
		switch {
		case s.St == 0:
			c.why = "session=never-created"
		case s.St == 2:
			c.why = "session=expired-or-signed-out"
		case !m.Usr[u]:
			c.why = "user=inactive"
		default:
			c.possible = s.RMax >= 0
			c.valid = s.RMin > 0
			if !c.possible {
				c.why = "session=expired"
			}
		}
		c.possible = c.possible || fz
		c.valid = c.valid && !fz
		creds = append(creds, c)
	}
	if len(creds) == 0 {
		creds = append(creds, cred{why: "cred=none-or-near-miss", kind: "-"})
	}
	{
		var rs []string
		for _, c := range creds {
			switch {
			case c.valid:
				rs = append(rs, "current")
			case c.possible:
				rs = append(rs, "maybe-current")
			default:
				rs = append(rs, c.why)
			}
		}
		inner := ""
		if rsp.inner != "" {
			inner = "/" + rsp.inner
		}
		res.outcomes = append(res.outcomes, fmt.Sprintf("http:%s/%s→%d%s", p.cat(), strings.Join(rs, "+"), rsp.code, inner))
		res.codes[rsp.code]++
	}
	if ok2xx {
		justified := false
		var whys []string
		for _, c := range creds {
			same := rsp.kind == c.kind && rsp.user == w.users[c.user].String()
			switch {
			case c.possible && same:
				justified = true
			case c.possible:
				whys = append(whys, "authenticated-as-different-identity")
			default:
				whys = append(whys, c.why)
			}
		}
		if !justified {
			sort.Strings(whys)
			res.v(vlib.JoinSig("http", "AuthenticationHandler.ServeHTTP", "authenticated-without-current-credential", p.cat(), strings.Join(whys, "+")),
				"%s: request %s answered %d (authorizer kind=%s user=%s) but %s; model=%s", when, p.describe(), rsp.code, rsp.kind, rsp.user, strings.Join(whys, " and "), m.key())
		}
		return
	}
	if p.Canon && creds[0].valid {
		res.v(vlib.JoinSig("http", "AuthenticationHandler.ServeHTTP", "current-credential-rejected", p.cat(), fmt.Sprintf("status=%d%s", rsp.code, rsp.inner)),
			"%s: request %s answered %d %s although the credential is current (model=%s)", when, p.describe(), rsp.code, rsp.inner, m.key())
	}
}

// cat is the coarse class of a request form (for the outcome histogram).
func (p probe) cat() string {
	switch {
	case p.TokSlot >= 0 && p.SesSlot >= 0, p.Auth != nil && p.Cookie != nil:
		return "header+cookie"
	case p.SesSlot >= 0:
		return "session-cookie"
	case p.TokSlot >= 0 && p.Canon:
		return "token-canonical"
	case p.TokSlot >= 0 && p.TokWS:
		return "token-padded"
	case p.TokSlot >= 0:
		return "token-other-scheme"
	case p.Cookie != nil:
		return "cookie-near-miss"
	case p.Auth != nil:
		return "header-near-miss"
	}
	return "no-credentials"
}

func (p probe) describe() string {
	var s []string
	if p.Auth != nil {
		s = append(s, fmt.Sprintf("Authorization: %q", *p.Auth))
	}
	if p.Cookie != nil {
		s = append(s, fmt.Sprintf("Cookie: %q", *p.Cookie))
	}
	if len(s) == 0 {
		return "(no credentials)"
	}
	return strings.Join(s, ", ")
}

// runHTTP executes a history from scratch (inside a synctest bubble) and then the request suite.
func runHTTP(t *testing.T, f *Family) (res runResult) {
	synctest.Test(t, func(t *testing.T) {
		if p, d := vlib.Guard(func() { runHTTPInBubble(f, &res) }); p {
			res.v(vlib.JoinSig("http", "panic", d), "history %v: %s", f.Ops, d)
		}
	})
	return
}

func runHTTPInBubble(f *Family, res *runResult) {
	res.codes = map[int]int64{}
	w, err := newHTTPWorld(f)
	if err != nil {
		res.err = err
		return
	}
	m := newModel(f)
	for step, op := range f.Ops {
		name, i := slotOf(op)
		if name == "req" {
			p := probe{Label: "cookie=exact", Cookie: sp(cookieName + "=" + w.sessKey[i]), TokSlot: -1, Canon: true, SesSlot: i}
			rsp := w.do(p)
			w.judge(m, p, rsp, res, fmt.Sprintf("step %d (%s) of %v", step, op, f.Ops))
			m.apply(f, op, true)
			continue
		}
		ok := w.exec(op)
		if w.fatal != nil {
			res.err = w.fatal
			return
		}
		if !ok {
			res.outcomes = append(res.outcomes, "http:op-returned-error/"+name+"/"+m.opContext(op))
		}
		m.apply(f, op, ok)
	}
	res.state = f.Name + "|" + m.key()
	for _, p := range w.probes() {
		rsp := w.do(p)
		w.judge(m, p, rsp, res, fmt.Sprintf("after %v", f.Ops))
		if p.SesSlot >= 0 {
			m.apply(f, fmt.Sprintf("req%d", p.SesSlot), true)
		}
	}
	for _, tk := range m.Tok {
		res.nontriv = res.nontriv || tk.St != 0
	}
	for _, s := range m.Sess {
		res.nontriv = res.nontriv || s.St != 0
	}
}

func (m *model) opContext(op string) string {
	name, i := slotOf(op)
	switch name {
	case "mkTok", "deact", "act", "del":
		return fmt.Sprintf("tokenstate=%d", m.Tok[i].St)
	case "out", "mkSess":
		return fmt.Sprintf("sessionstate=%d", m.Sess[i].St)
	}
	return "-"
}

// transitions runs the model-only BFS to closure and calls visit for every (state, op) edge with the shortest
// history reaching the state plus the op.
func transitions(f *Family, visit func(hist []string) bool) (states int) {
	type node struct {
		m    *model
		hist []string
	}
	start := newModel(f)
	seen := map[string]bool{start.key(): true}
	q := []node{{start, nil}}
	for len(q) > 0 {
		n := q[0]
		q = q[1:]
		for _, op := range n.m.enabled(f) {
			h := append(append([]string(nil), n.hist...), op)
			if !visit(h) {
				return len(seen)
			}
			nm := n.m.clone()
			nm.apply(f, op, true)
			if k := nm.key(); !seen[k] {
				seen[k] = true
				q = append(q, node{nm, h})
			}
		}
	}
	return len(seen)
}

// allHistories enumerates every op sequence of length ≤ depth in which each op is enabled in the model state
// it is applied to.
func allHistories(f *Family, depth int, visit func(hist []string) bool) {
	var rec func(m *model, hist []string) bool
	rec = func(m *model, hist []string) bool {
		if len(hist) > 0 {
			if !visit(hist) {
				return false
			}
		}
		if len(hist) == depth {
			return true
		}
		for _, op := range m.enabled(f) {
			nm := m.clone()
			nm.apply(f, op, true)
			if !rec(nm, append(append([]string(nil), hist...), op)) {
				return false
			}
		}
		return true
	}
	rec(newModel(f), nil)
}

// ---------------------------------------------------------------------------------------------------------

func report(c *vlib.Ctx, cs Case, res runResult) {
	c.Eval(1)
	if res.err != nil {
		c.HarnessError(fmt.Sprintf("case %+v: %v", cs, res.err))
		return
	}
	c.Trace(1)
	c.Transition(int64(len(cs.Ops)))
	if cs.Fam != nil {
		c.Transition(int64(len(cs.Fam.Ops)))
	}
	if res.state != "" {
		c.State(res.state)
	}
	if res.nontriv {
		b, _ := json.Marshal(cs)
		c.Nontrivial(string(b))
	}
	for _, o := range res.outcomes {
		c.Outcome(o)
	}
	c.Extra("http_requests_judged", res.requests)
	for code, n := range res.codes {
		c.Extra(fmt.Sprintf("http_responses_%d", code), n)
	}
	for _, o := range res.outcomes {
		if strings.HasPrefix(o, "http:op-returned-error") {
			c.Extra("http_ops_returning_error", 1)
		}
	}
	for _, v := range res.vios {
		rc := cs
		rc.Sig = v.Sig
		c.Violation(v.Sig, v.Msg, rc)
	}
	if c.WantSample() && res.nontriv {
		c.Sample(map[string]any{"case": cs, "final_model_state": res.state, "violations": len(res.vios)})
	}
}

func runCase(t *testing.T, cs Case) runResult {
	switch cs.Part {
	case "pw":
		return runPw(cs.Users, cs.Ops, cs.Probe)
	case "cpw":
		return runCpw(cs.Ops, cs.Probe)
	case "hash":
		return runHash(*cs.Hash)
	case "http":
		return runHTTP(t, cs.Fam)
	}
	return runResult{err: fmt.Errorf("unknown part %q", cs.Part)}
}

func families(thorough bool) (bfs []Family, deep []struct {
	F     Family
	Depth int
}) {
	tokQ := Family{Name: "tok-modes", Users: 1, Toks: 1, Modes: []string{"raw", "sha256", "sha512"}}
	sessQ := Family{Name: "sess", Users: 1, Toks: 1, Sess: 1, Advs: []int{3}, Modes: []string{"sha256"}}
	sessQn := sessQ
	sessQn.Name, sessQn.RenewDisabled = "sess-norenew", true
	if !thorough {
		bfs = []Family{tokQ, sessQ, sessQn}
		deep = append(deep, struct {
			F     Family
			Depth int
		}{sessQ, 4}, struct {
			F     Family
			Depth int
		}{tokQ, 4})
		return
	}
	tokT := Family{Name: "tok2-modes", Users: 1, Toks: 2, Modes: []string{"raw", "sha256", "sha512"}}
	tokH := Family{Name: "tok-modes-from-sha512", Users: 1, Toks: 1, Modes: []string{"sha512", "raw", "sha256"}}
	sessT := Family{Name: "sess-fine", Users: 1, Toks: 1, Sess: 1, Advs: []int{1, 3, 6}, Modes: []string{"raw"}}
	sessTn := sessT
	sessTn.Name, sessTn.RenewDisabled = "sess-fine-norenew", true
	multi := Family{Name: "multi", Users: 2, Toks: 2, Sess: 1, Advs: []int{3}, Modes: []string{"sha256"}}
	sess2 := Family{Name: "sess2", Users: 2, Sess: 2, Advs: []int{3}, Modes: []string{"sha256"}}
	sess2n := sess2
	sess2n.Name, sess2n.RenewDisabled = "sess2-norenew", true
	bfs = []Family{tokQ, sessQ, sessQn, tokT, tokH, sessT, sessTn, multi, sess2, sess2n}
	type d = struct {
		F     Family
		Depth int
	}
	deep = append(deep, d{sessQ, 5}, d{sessQn, 5}, d{tokQ, 5}, d{multi, 4}, d{sess2, 4})
	return
}

func TestCheck(t *testing.T) {
	vlib.Main(t, &vlib.Check{
		ID: "C44", Level: "model_checking",
		Rule: "pw: every history of SetPassword(p)/CompareAndSetPassword(old,new) on the real tenant user service (inmem KV, bcrypt at its fixed cost) followed by ComparePassword(user, q) for every user and probe password q — quick: length ≤2 over 12 ops (set p∈{A,B,72-byte L,73-byte L+x}; cas old∈{A,B,L,L+x} new∈{A,B}), probes {A,B,L,L+x,prefix-of-A,A+NUL+A}; thorough: length ≤2 over 24 ops (adds empty, 7-byte, prefix-of-A, new=L) with 9 probes, length ≤2 over 2 users × 12 ops, length 3 over 10 ops. " +
			"hash: every (p,q) of 13 words × {sha256,sha512} × decoder set {all, own variant only, other variant only} through AuthorizationHasher.Hash/Match (repo-encoded and hand-encoded stored form), and every (p,q) of 7 (quick) / 13 (thorough) words × stored mode × lookup mode ∈ {raw,sha256,sha512} through a real authorization store (create, reopen, FindAuthorizationByToken). " +
			"http: model-driven BFS to closure over (token never/active/inactive/deleted × stored form, user active/inactive, session none/minutes remaining [without,with renewal]/gone, store mode) with ops {create/deactivate/activate/delete token, (de)activate user, create session, sign out, cookie request, advance the fake clock, restart the authorization store in mode raw/sha256/sha512} — quick families: 1 token × 3 modes; 1 token + 1 session, clock step 3 min, renewal on / off; thorough adds 2 tokens × 3 modes, initial mode sha512, clock steps {1,3,6} min renewal on/off, 2 users + 2 tokens + 1 session, 2 users + 2 sessions renewal on/off; plus every enabled history of length ≤4 (quick) / ≤5 or ≤4 (thorough). Every edge re-executes its history from scratch on real services (tenant, authorization store+service, session service on the inmem session store, http.AuthenticationHandler; fake time) and then sends every request form of the family (≈30 per token, ≈8 per session: schemes Token/Bearer/case variants/Basic/none/malformed, truncated/extended/upper-cased/padded token, PHC hash of the token, forged JWTs, session key as token, cookie near-misses, header+cookie mixes), judging status and authenticated identity. " +
			"cpw: every history of length ≤3 (thorough ≤4) over {SetPassword A|B, CompareAndSetPassword A→B|B→A, ComparePassword A|B|W(never set)} through the real v1 CachingPasswordsService (v1/authorization/caching_password_service.go) wrapped around the real tenant password service whose password was set to A beforehand (cache empty); every ComparePassword of the history and of a final probe round (every non-current password of {A,B,W} first, the current one last) must succeed iff its password is the one most recently set (covers cache miss, cache hit with the right / a wrong password, invalidation by an accepted change, no change on a rejected compare-and-set). " +
			"csched (vsched engine, the cache's RWMutex operations of the real CachingPasswordsService are modelled scheduling points; inner service = a deterministic in-memory password model wrapped by a harness type that puts a hook point before and after every inner effect, compare-and-set = compare, hook point, store): threads {one password change old→new ∈ {SetPassword, CompareAndSetPassword(old,new), CompareAndSetPassword(wrong,new) (rejected)}} ∪ {1..2 (thorough 1..3) threads each calling ComparePassword(old|new) once}, cache initially empty / holding the old password: 30 scenarios (thorough 42), every schedule with ≤2 (thorough ≤3) preemptions; oracle: the answers of the overlapping compares are unconstrained, but after every thread has finished (the change is acknowledged) ComparePassword(non-current) must fail, ComparePassword(current = what the inner store holds) must succeed and ComparePassword(non-current) must fail again; violation classes distinguish whether a concurrent compare that accepted the replaced password returned before or after the change was acknowledged. " +
			"non-trivial = a history after which at least one credential (password, token or session) exists or existed; states = distinct model states reached by a validated history; transitions = ops executed on the real services; traces = histories validated",
		Assumptions: []string{
			"'authenticated' = the request reaches the handler behind AuthenticationHandler AND that handler obtains a permission set from the authorizer on the context (Authorization.PermissionSet / Session.PermissionSet), which is where the repo rejects inactive tokens (property mechanism auth.go:107); the middleware alone lets an inactive token through",
			"the oracle also demands that a canonical presentation (Token/Bearer scheme, or the session cookie alone) of a current credential is accepted and that the current password verifies; this is what makes the run non-vacuous",
			"session expiry: demanded-valid while strictly inside creation+length, allowed-valid up to the latest expiry any renewal could have produced; the exact expiry instant and white-space padded tokens are unconstrained; time resolution 1 minute",
			"an op that returns an error where the statement is silent makes the affected credential unconstrained from then on (reported as outcome http:op-returned-error)",
			"bcrypt cost is fixed in the repo (DefaultCost), so password histories are bounded to depth 3",
			"csched explores the caching service around a fast password model, not around bcrypt/KV (the in-flight window of the real inner service is represented by the hook points before/after each inner effect); the real tenant service is used under the cache in the sequential part cpw; non-trivial csched execution = at least one compare overlaps the change",
		},
		QuickBudgetS: 55, ThoroughBudgetS: 780, WorkerEnv: []string{"GOMAXPROCS=1"},
		Run: func(c *vlib.Ctx) {
			if influxdb.RenewSessionTime != renewMin*time.Minute {
				c.HarnessError("RenewSessionTime changed; the model constant renewMin must follow")
				return
			}
			var idx int64
			capped := false
			countOnly := os.Getenv("C44_COUNT") != ""
			counts := map[string]int{}
			defer func() {
				if countOnly && c.Shard == 0 {
					b, _ := json.Marshal(counts)
					fmt.Fprintln(os.Stderr, "C44_COUNT", string(b))
				}
			}()
			do := func(cs Case) bool {
				idx++
				if countOnly {
					k := cs.Part
					if cs.Fam != nil {
						k += ":" + cs.Fam.Name
					}
					counts[k]++
					return true
				}
				if !c.Mine(idx) {
					return true
				}
				if c.Expired() {
					if !capped {
						c.Cap("time budget reached in part " + cs.Part)
						capped = true
					}
					return false
				}
				var res runResult
				if p, d := vlib.Guard(func() { res = runCase(c.T, cs) }); p {
					res.v(vlib.JoinSig(cs.Part, "panic", d), "panic: %s", d)
				}
				report(c, cs, res)
				return true
			}
			// ---- hash (cheap, first)
			for _, variant := range []string{algo.VariantIdentifierSHA256, algo.VariantIdentifierSHA512} {
				for _, dec := range []string{"all", "own", "other"} {
					for _, p := range hashWords {
						for _, q := range hashWords {
							do(Case{Part: "hash", Hash: &HashCase{Via: "hasher", Variant: variant, Decoders: dec, P: p, Q: q}})
						}
					}
				}
			}
			modes := []string{"raw", "sha256", "sha512"}
			words := hashWords
			if c.Quick() {
				words = hashWords[:7]
			}
			for _, sm := range modes {
				for _, lm := range modes {
					for _, p := range words {
						for _, q := range words {
							do(Case{Part: "hash", Hash: &HashCase{Via: "store", Variant: sm, Decoders: lm, P: p, Q: q}})
						}
					}
				}
			}
			// ---- pw (bcrypt-bound)
			probeQ := []string{"A", "B", "L", "X", "Ap", "N"}
			ops12 := pwOps(1, []string{"A", "B", "L", "X"}, []string{"A", "B", "L", "X"}, []string{"A", "B"})
			if c.Quick() {
				histories(ops12, 2, func(h []string) bool { return do(Case{Part: "pw", Users: 1, Ops: h, Probe: probeQ}) })
			} else {
				probeT := []string{"A", "B", "L", "X", "Ap", "N", "E", "Lb", "Ax"}
				ops24 := pwOps(1, []string{"A", "B", "L", "X", "E", "S"}, []string{"A", "B", "L", "X", "E", "Ap"}, []string{"A", "B", "L"})
				histories(ops24, 2, func(h []string) bool { return do(Case{Part: "pw", Users: 1, Ops: h, Probe: probeT}) })
				ops2u := pwOps(2, []string{"A", "B", "L", "X"}, []string{"A", "B", "L", "X"}, []string{"A", "B"})
				histories(ops2u, 2, func(h []string) bool {
					return do(Case{Part: "pw", Users: 2, Ops: h, Probe: []string{"A", "B", "L", "N"}})
				})
				ops10 := pwOps(1, []string{"A", "B", "L", "X"}, []string{"A", "B", "X"}, []string{"A", "B"})
				histories(ops10, 3, func(h []string) bool {
					if len(h) < 3 {
						return true // covered above with the larger alphabet
					}
					return do(Case{Part: "pw", Users: 1, Ops: h, Probe: probeQ})
				})
			}
			// ---- cpw (bcrypt-bound): the caching service around the real tenant password service
			cpwOps := []string{"set:A", "set:B", "cas:A:B", "cas:B:A", "cmp:A", "cmp:B", "cmp:W"}
			cpwDepth := 3
			if c.Thorough() {
				cpwDepth = 4
			}
			histories(cpwOps, cpwDepth, func(h []string) bool {
				return do(Case{Part: "cpw", Ops: h, Probe: []string{"A", "B", "W"}})
			})
			// ---- csched: schedules of the caching service
			for _, sc := range schedCases(c.Thorough()) {
				idx++
				if countOnly {
					counts["csched"]++
					continue
				}
				if !c.Mine(idx) {
					continue
				}
				if c.Expired() || !runSched(c, sc) {
					if !capped {
						c.Cap("time budget reached in part csched")
						capped = true
					}
					break
				}
			}
			if c.Shard == 0 {
				c.Extra("csched_scenarios", int64(len(schedCases(c.Thorough()))))
			}
			// ---- http
			bfs, deep := families(c.Thorough())
			for i := range bfs {
				f := bfs[i]
				n := transitions(&f, func(h []string) bool {
					ff := f
					ff.Ops = h
					return do(Case{Part: "http", Fam: &ff})
				})
				if c.Shard == 0 {
					c.Extra("model_states_"+f.Name, int64(n))
				}
			}
			for i := range deep {
				f := deep[i].F
				allHistories(&f, deep[i].Depth, func(h []string) bool {
					ff := f
					ff.Name = f.Name + "-deep"
					ff.Ops = h
					return do(Case{Part: "http", Fam: &ff})
				})
			}
		},
		Replay: func(c *vlib.Ctx, raw json.RawMessage) (bool, string) {
			var cs Case
			if err := json.Unmarshal(raw, &cs); err != nil {
				return false, err.Error()
			}
			if cs.Part == "csched" {
				if cs.Sched == nil {
					return false, "csched case without scenario"
				}
				r := vrt.RunOnce(c.T, schedHarness(*cs.Sched), cs.Choices)
				if r.Diverged != "" {
					return false, "diverged: " + r.Diverged
				}
				var lines []string
				for _, f := range r.Failures {
					if cs.Sig == "" || f.Sig == cs.Sig {
						lines = append(lines, f.Sig+": "+f.Msg)
					}
				}
				return len(lines) > 0, fmt.Sprintf("outcome %s; %d violation(s) of the recorded class\n%s", r.Outcome, len(lines), strings.Join(lines, "\n"))
			}
			var res runResult
			if p, d := vlib.Guard(func() { res = runCase(c.T, cs) }); p {
				return true, "panic: " + d
			}
			if res.err != nil {
				return false, "harness: " + res.err.Error()
			}
			var lines []string
			hit := false
			for _, v := range res.vios {
				if cs.Sig == "" || v.Sig == cs.Sig {
					hit = true
					lines = append(lines, v.Sig+": "+v.Msg)
				}
			}
			return hit, fmt.Sprintf("final model state %s; %d violation(s) of the recorded class (%d in total for this case)\n%s", res.state, len(lines), len(res.vios), strings.Join(lines, "\n"))
		},
	})
}
