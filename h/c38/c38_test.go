// C38: shard backup and restore preserve data.
//
// Bounded-exhaustive history enumeration (opseq) on the `mini` fixture: every sequence of <= D operations over
// {write low half, write high half, overwrite series A, range delete, delete series B, snapshot cache -> TSM,
// full compaction} is applied to a fresh bucket through the real write / delete / snapshot / compaction paths, then
// the three clauses of the statement are checked on the resulting shard through the tsdb.Store entry points
// (BackupShard / RestoreShard / ExportShard / ImportShard -> tsdb.Shard -> tsm1.Engine.Backup / Restore / Export / Import):
//
//	restore      BackupShard(since = 0) -> RestoreShard into an EMPTY shard of another bucket: the restored shard must
//	             read (ReadFilter over all time) exactly the series-with-points and points the source shard reads.
//	incremental  every file of the shard directory (*.tsm, *.tombstone) is given an explicit mtime T(k) = 2001-01-01 + k h
//	             where k is the history step in which its content last changed (os.Chtimes; content hashes decide
//	             "changed"), then BackupShard(since) for since = T(j) and T(j)+30min, j = 0..n: the archive must
//	             contain, byte-identical, every file whose content changed in a step > j.
//	subsecond    (same clause, sub-second placements) every tracked file F in turn gets the change time
//	             T = T(step of F) + d, d in {0, 1ns, 500ms, 999999999ns} (os.Chtimes, nanosecond precision, read back
//	             with os.Stat), and BackupShard(since) runs for since in {T-1s, T-1ms, T-1ns, T, T+1ns, T+1s}: the
//	             archive must contain a tracked file, byte-identically, iff its change time is after since.
//	export       ExportShard(start, end) for every range between slot boundaries -> ImportShard into an EMPTY shard:
//	             the imported shard must read exactly the source points with start <= t <= end (range bounds lie
//	             between the time slots, so inclusive/exclusive ends do not matter).
//
// The oracle for restore/export is the source shard's own read before the backup (the statement is relative to the
// "readable points"); a model of the history is kept only as a diagnostic cross-check of that read.
package c38

import (
	"archive/tar"
	"bytes"
	"context"
	"crypto/sha1"
	"encoding/json"
	"fmt"
	"io"
	"math"
	"os"
	"path/filepath"
	"sort"
	"strings"
	"testing"
	"time"

	"github.com/influxdata/influxdb/v2/tsdb/engine/tsm1"
	"github.com/influxdata/influxdb/v2/tsdb/index/tsi1"
	"github.com/influxdata/influxdb/v2/v1/services/meta"
	"verif/h/mini"
	"verif/h/vlib"
)

// ---------------------------------------------------------------------------------------------------------
// domain

const nSlots = 4

func slotT(k int) int64 { return mini.Base + int64(k+1)*1000 }

// cut(a) for a = 0..nSlots lies between the slots: cut(a) = slotT(a) - 500.
func cut(a int) int64 { return slotT(a) - 500 }

var ops = []string{"wL", "wH", "wA", "dM", "dB", "s", "c"}

// value written in step `step` for series ser (0 = A, 1 = B) at slot k.
func value(step, ser, k int) float64 { return float64(step*100 + k*10 + ser) }

type wr struct{ ser, slot int }

// writesOf lists the points an op writes.
func writesOf(op string) []wr {
	switch op {
	case "wL":
		return []wr{{0, 0}, {0, 1}, {1, 0}}
	case "wH":
		return []wr{{0, 2}, {0, 3}, {1, 3}}
	case "wA":
		return []wr{{0, 0}, {0, 1}, {0, 2}, {0, 3}}
	}
	return nil
}

var serTag = []string{"a", "b"}

// model: value per (series, slot); NaN = absent.
type model [2][nSlots]float64

func newModel() model {
	var m model
	for s := range m {
		for k := range m[s] {
			m[s][k] = math.NaN()
		}
	}
	return m
}

func (m *model) apply(step int, op string) {
	for _, w := range writesOf(op) {
		m[w.ser][w.slot] = value(step, w.ser, w.slot)
	}
	switch op {
	case "dM":
		for s := range m {
			m[s][1], m[s][2] = math.NaN(), math.NaN()
		}
	case "dB":
		for k := range m[1] {
			m[1][k] = math.NaN()
		}
	}
}

type Case struct {
	Ops []string `json:"ops"`
	Sig string   `json:"sig,omitempty"` // replay: report the problems of this class
}

// ---------------------------------------------------------------------------------------------------------
// execution

type fileInfo struct {
	hash string
	size int64
	step int
}

type run struct {
	f      *mini.Fixture
	src    mini.Bucket
	srcID  uint64
	dir    string
	nbkt   int
	files  map[string]*fileInfo // base name -> state (only *.tsm, *.tombstone)
	mdl    model
	nsteps int
}

func stepTime(k int) time.Time {
	return time.Date(2001, 1, 1, 0, 0, 0, 0, time.UTC).Add(time.Duration(k) * time.Hour)
}

func tracked(name string) bool {
	return strings.HasSuffix(name, ".tsm") || strings.HasSuffix(name, ".tombstone")
}

// scanDir hashes the tracked files of the shard directory.
func scanDir(dir string) (map[string]*fileInfo, error) {
	ents, err := os.ReadDir(dir)
	if err != nil {
		return nil, err
	}
	out := map[string]*fileInfo{}
	for _, e := range ents {
		if e.IsDir() || !tracked(e.Name()) {
			continue
		}
		b, err := os.ReadFile(filepath.Join(dir, e.Name()))
		if err != nil {
			return nil, err
		}
		out[e.Name()] = &fileInfo{hash: fmt.Sprintf("%x", sha1.Sum(b)), size: int64(len(b))}
	}
	return out, nil
}

// retime rescans the shard directory after step k, stamps new/changed files with step k and sets the mtime of every
// tracked file to the time of the step in which its content last changed.
func (r *run) retime(k int) error {
	if r.dir == "" {
		return nil
	}
	cur, err := scanDir(r.dir)
	if err != nil {
		return err
	}
	for name, fi := range cur {
		if old, ok := r.files[name]; ok && old.hash == fi.hash {
			fi.step = old.step
		} else {
			fi.step = k
		}
		t := stepTime(fi.step)
		if err := os.Chtimes(filepath.Join(r.dir, name), t, t); err != nil {
			return err
		}
	}
	r.files = cur
	return nil
}

// idlePlanner wraps the engine's compaction planner and never plans anything. tsm1.Engine.DeleteSeriesRange ends with
// enableLevelCompactions, which starts the shard's background compaction goroutine even though the fixture opened the
// store with compactions disabled; one second later it would compact files that have tombstones, at a wall-clock
// dependent point of the checks. Compactions of a history are the explicit "c" operations (mini.FullCompactShard
// calls the Compactor directly and does not consult the planner).
type idlePlanner struct{ tsm1.CompactionPlanner }

func (idlePlanner) Plan(tsm1.TsmGenerations, time.Time) ([]tsm1.CompactionGroup, int64) { return nil, 0 }
func (idlePlanner) PlanLevel(tsm1.TsmGenerations, int) ([]tsm1.CompactionGroup, int64)   { return nil, 0 }
func (idlePlanner) PlanOptimize(tsm1.TsmGenerations, time.Time) ([]tsm1.CompactionGroup, int64, int64) {
	return nil, 0, 0
}

func (r *run) ensureShard() bool {
	if r.srcID != 0 {
		return true
	}
	ids := r.f.ShardIDs(r.src)
	if len(ids) == 0 {
		return false
	}
	r.srcID = ids[0]
	sh := r.f.TSDB.Shard(r.srcID)
	r.dir = sh.Path()
	// installed right after the write that created the shard: no compaction goroutine exists yet
	if e, err := sh.Engine(); err == nil {
		if te, ok := e.(*tsm1.Engine); ok {
			te.CompactionPlan = idlePlanner{te.CompactionPlan}
		}
	}
	return true
}

func (r *run) applyOp(step int, op string) error {
	switch op {
	case "wL", "wH", "wA":
		var pts []mini.Point
		for _, w := range writesOf(op) {
			pts = append(pts, mini.Point{M: "m", Tags: mini.T("t", serTag[w.ser]), Fields: map[string]any{"v": value(step, w.ser, w.slot)}, T: slotT(w.slot)})
		}
		if err := r.f.Write(r.src, pts); err != nil {
			return err
		}
		r.ensureShard()
	case "dM":
		if err := r.f.Delete(r.src, slotT(1), slotT(2), ""); err != nil {
			return err
		}
	case "dB":
		if err := r.f.Delete(r.src, math.MinInt64, math.MaxInt64, `t="b"`); err != nil {
			return err
		}
	case "s":
		if r.ensureShard() {
			if err := r.f.SnapshotShard(r.srcID); err != nil {
				return err
			}
		}
	case "c":
		if r.ensureShard() {
			if err := r.f.FullCompactShard(r.srcID); err != nil {
				return err
			}
		}
	default:
		return fmt.Errorf("unknown op %q", op)
	}
	r.mdl.apply(step, op)
	return nil
}

// emptyShard creates a new bucket with one EMPTY shard covering the slots and returns the bucket and the shard id.
func (r *run) emptyShard() (mini.Bucket, uint64, error) {
	r.nbkt++
	b, err := r.f.CreateBucket(fmt.Sprintf("dst%d", r.nbkt), 0)
	if err != nil {
		return b, 0, err
	}
	sg, err := r.f.Meta.CreateShardGroup(b.DBName(), meta.DefaultRetentionPolicyName, time.Unix(0, slotT(0)))
	if err != nil {
		return b, 0, err
	}
	if len(sg.Shards) != 1 {
		return b, 0, fmt.Errorf("shard group with %d shards", len(sg.Shards))
	}
	id := sg.Shards[0].ID
	if err := r.f.TSDB.CreateShard(context.Background(), b.DBName(), meta.DefaultRetentionPolicyName, id, true); err != nil {
		return b, 0, err
	}
	return b, id, nil
}

// points reads a bucket over all time and returns the series that have points: "m,t=a#v" -> points.
func (r *run) points(b mini.Bucket) (map[string][]mini.Pt, error) {
	ss, err := r.f.ReadFilter(b, math.MinInt64, math.MaxInt64, nil)
	if err != nil {
		return nil, err
	}
	out := map[string][]mini.Pt{}
	for _, s := range ss {
		if len(s.Points) == 0 {
			continue
		}
		var tags []string
		for _, t := range s.Tags {
			if t.K != "_measurement" && t.K != "_field" {
				tags = append(tags, t.K+"="+t.V)
			}
		}
		sort.Strings(tags)
		key := s.Tag("_measurement") + "," + strings.Join(tags, ",") + "#" + s.Tag("_field")
		out[key] = append(out[key], s.Points...)
	}
	return out, nil
}

func fmtPoints(m map[string][]mini.Pt) string {
	var keys []string
	for k := range m {
		keys = append(keys, k)
	}
	sort.Strings(keys)
	var sb strings.Builder
	sb.WriteByte('{')
	for i, k := range keys {
		if i > 0 {
			sb.WriteString("; ")
		}
		sb.WriteString(k + ":")
		for _, p := range m[k] {
			fmt.Fprintf(&sb, " s%d=%v", slotOf(p.T), p.V)
		}
	}
	sb.WriteByte('}')
	return sb.String()
}

func slotOf(t int64) int {
	d := t - mini.Base
	if d%1000 == 0 && d >= 1000 && d <= nSlots*1000 {
		return int(d/1000) - 1
	}
	return -1
}

func restrict(m map[string][]mini.Pt, start, end int64) map[string][]mini.Pt {
	out := map[string][]mini.Pt{}
	for k, ps := range m {
		for _, p := range ps {
			if p.T >= start && p.T <= end {
				out[k] = append(out[k], p)
			}
		}
	}
	return out
}

// diff classifies the difference between what a copy reads and what it should read.
func diff(got, want map[string][]mini.Pt) (clause string, same bool) {
	if fmtPoints(got) == fmtPoints(want) {
		return "", true
	}
	extra, missing, wrong := false, false, false
	for k, ps := range got {
		w := map[int64]any{}
		for _, p := range want[k] {
			w[p.T] = p.V
		}
		seen := map[int64]bool{}
		for _, p := range ps {
			if v, ok := w[p.T]; !ok {
				extra = true
			} else if v != p.V {
				wrong = true
			}
			if seen[p.T] {
				wrong = true
			}
			seen[p.T] = true
		}
	}
	for k, ps := range want {
		g := map[int64]bool{}
		for _, p := range got[k] {
			g[p.T] = true
		}
		for _, p := range ps {
			if !g[p.T] {
				missing = true
			}
		}
	}
	switch {
	case extra && missing:
		return "extra-and-missing-points", false
	case extra:
		return "extra-points", false
	case missing:
		return "missing-points", false
	case wrong:
		return "wrong-values", false
	}
	return "different-order", false
}

type tarEntry struct {
	name string // base name
	full string
	hash string
	size int64
	dir  bool
}

func readTar(b []byte) ([]tarEntry, error) {
	tr := tar.NewReader(bytes.NewReader(b))
	var out []tarEntry
	for {
		h, err := tr.Next()
		if err == io.EOF {
			return out, nil
		}
		if err != nil {
			return out, err
		}
		body, err := io.ReadAll(tr)
		if err != nil {
			return out, err
		}
		out = append(out, tarEntry{name: filepath.Base(filepath.FromSlash(h.Name)), full: h.Name, hash: fmt.Sprintf("%x", sha1.Sum(body)), size: int64(len(body)), dir: h.Typeflag == tar.TypeDir})
	}
}

type problem struct {
	sig    string
	detail string
}

// features of the shard at backup time that discriminate the classes.
type feat struct {
	tombstones bool
	nTSM       int
}

func (r *run) features() feat {
	var ft feat
	for name := range r.files {
		if strings.HasSuffix(name, ".tombstone") {
			ft.tombstones = true
		} else {
			ft.nTSM++
		}
	}
	return ft
}

// String is the part of a class signature; Long also names the number of TSM files (outcome classes only).
func (ft feat) String() string { return fmt.Sprintf("tombstones=%v", ft.tombstones) }

func (ft feat) Long() string {
	n := fmt.Sprint(ft.nTSM)
	if ft.nTSM > 2 {
		n = "3+"
	}
	return fmt.Sprintf("tombstones=%v,tsm-files=%s", ft.tombstones, n)
}

type verdict struct {
	probs    []problem
	outcomes []string
	skipped  string // history without a shard
	srcRead  string
}

func fileList(m map[string]*fileInfo) string {
	var names []string
	for n, fi := range m {
		names = append(names, fmt.Sprintf("%s(step %d,%dB)", n, fi.step, fi.size))
	}
	sort.Strings(names)
	return "[" + strings.Join(names, " ") + "]"
}

// execute runs one history and all checks. exports: which (a,b) ranges to export+import.
func execute(c *vlib.Ctx, opsList []string, exports [][2]int) (v verdict, err error) {
	f, err := mini.Open(mini.Options{})
	if err != nil {
		return v, err
	}
	defer f.Close()
	src, err := f.CreateBucket("src", 0)
	if err != nil {
		return v, err
	}
	r := &run{f: f, src: src, files: map[string]*fileInfo{}, mdl: newModel(), nsteps: len(opsList)}
	for i, op := range opsList {
		step := i + 1
		if err := r.applyOp(step, op); err != nil {
			return v, fmt.Errorf("step %d (%s): %w", step, op, err)
		}
		if err := r.retime(step); err != nil {
			return v, err
		}
	}
	if !r.ensureShard() {
		v.skipped = "no-shard"
		return v, nil
	}
	add := func(sig, format string, a ...any) {
		// error texts of the repo may contain the (random) fixture directory: never let it into an observation
		v.probs = append(v.probs, problem{sig, strings.ReplaceAll(fmt.Sprintf(format, a...), f.Dir, "<fixture-dir>")})
	}
	ctx := context.Background()

	srcPts, err := r.points(src)
	if err != nil {
		return v, fmt.Errorf("source read: %w", err)
	}
	v.srcRead = fmtPoints(srcPts)
	// diagnostic cross-check of the source read against the model of the history
	mp := map[string][]mini.Pt{}
	for s := range r.mdl {
		for k, val := range r.mdl[s] {
			if !math.IsNaN(val) {
				key := "m,t=" + serTag[s] + "#v"
				mp[key] = append(mp[key], mini.Pt{T: slotT(k), V: val})
			}
		}
	}
	if fmtPoints(mp) != v.srcRead {
		c.Extra("source_reads_differing_from_history_model", 1)
	}
	ft0 := r.features()
	cacheNote := ""

	// ---- clause 1: full backup -> restore into an empty shard
	var full bytes.Buffer
	if err := f.TSDB.BackupShard(r.srcID, time.Unix(0, 0), &full); err != nil {
		add("restore/backup-error/"+ft0.String(), "BackupShard(since=0) failed: %v", err)
	} else {
		// the backup snapshots the cache first: that is a further change of the directory (step n+1)
		if err := r.retime(r.nsteps + 1); err != nil {
			return v, err
		}
		if r.features().nTSM != ft0.nTSM {
			cacheNote = ",cache-flushed-by-backup"
		}
		ft := r.features()
		ents, terr := readTar(full.Bytes())
		if terr != nil {
			add("restore/archive-unreadable/"+ft.String(), "full backup archive: %v", terr)
		}
		var names []string
		for _, e := range ents {
			names = append(names, e.name)
		}
		after, err := r.points(src)
		if err != nil {
			return v, fmt.Errorf("source read after backup: %w", err)
		}
		if fmtPoints(after) != v.srcRead {
			add("restore/backup-changed-source/"+ft.String(), "source reads %s before and %s after BackupShard", v.srcRead, fmtPoints(after))
		}
		dst, dstID, err := r.emptyShard()
		if err != nil {
			return v, fmt.Errorf("empty shard: %w", err)
		}
		if err := f.TSDB.RestoreShard(ctx, dstID, bytes.NewReader(full.Bytes())); err != nil {
			add("restore/restore-error/"+ft.String(), "RestoreShard failed: %v (archive %v)", err, names)
		} else {
			got, err := r.points(dst)
			if err != nil {
				add("restore/read-error/"+ft.String(), "reading the restored shard failed: %v", err)
			} else if cl, same := diff(got, srcPts); !same {
				add("restore/"+cl+"/"+ft.String(), "source shard reads %s, the shard restored from the full backup reads %s (shard files %s, archive entries %v)", v.srcRead, fmtPoints(got), fileList(r.files), names)
			}
			v.outcomes = append(v.outcomes, fmt.Sprintf("restore/%s%s/series=%d", ft.Long(), cacheNote, len(srcPts)))
		}
	}

	// ---- clause 2: incremental backups
	for j := 0; j <= r.nsteps+1; j++ {
		for _, half := range []bool{false, true} {
			since := stepTime(j)
			if half {
				since = since.Add(30 * time.Minute)
			}
			before, err := scanDir(r.dir)
			if err != nil {
				return v, err
			}
			var buf bytes.Buffer
			berr := f.TSDB.BackupShard(r.srcID, since, &buf)
			after, err := scanDir(r.dir)
			if err != nil {
				return v, err
			}
			if fmt.Sprint(keysOf(before)) != fmt.Sprint(keysOf(after)) || fmt.Sprint(keysOf(before)) != fmt.Sprint(keysOf(r.files)) {
				v.outcomes = append(v.outcomes, "incremental/directory-changed-during-backup(not judged)")
				if err := r.retime(r.nsteps + 1); err != nil {
					return v, err
				}
				continue
			}
			ft := r.features()
			if berr != nil {
				add("incremental/backup-error/"+ft.String(), "BackupShard(since=step %d%s) failed: %v", j, halfS(half), berr)
				continue
			}
			ents, terr := readTar(buf.Bytes())
			if terr != nil {
				add("incremental/archive-unreadable/"+ft.String(), "BackupShard(since=step %d%s): %v", j, halfS(half), terr)
				continue
			}
			in := map[string]tarEntry{}
			var names []string
			for _, e := range ents {
				in[e.name] = e
				names = append(names, e.name)
			}
			nreq := 0
			var fnames []string
			for n := range r.files {
				fnames = append(fnames, n)
			}
			sort.Strings(fnames)
			for _, n := range fnames {
				fi := r.files[n]
				if fi.step <= j {
					continue
				}
				nreq++
				kind := "tsm"
				if strings.HasSuffix(n, ".tombstone") {
					kind = "tombstone"
				}
				if e, ok := in[n]; !ok {
					add("incremental/missing-file/kind="+kind, "BackupShard(since = time of step %d%s): %s changed in step %d (mtime %s) but is not in the archive %v; shard files %s", j, halfS(half), n, fi.step, stepTime(fi.step).Format(time.RFC3339), names, fileList(r.files))
				} else if e.hash != fi.hash {
					add("incremental/file-content-differs/kind="+kind, "BackupShard(since = time of step %d%s): archive entry %s (%d bytes) differs from the file (%d bytes)", j, halfS(half), n, e.size, fi.size)
				}
			}
			v.outcomes = append(v.outcomes, fmt.Sprintf("incremental/required=%d/archived=%d", min(nreq, 4), min(len(ents), 4)))
		}
	}

	// ---- clause 2b: incremental backups with sub-second placements of the change time and of `since`
	if err := r.subsecond(&v, add); err != nil {
		return v, err
	}

	// ---- clause 3: export of a time range -> import into an empty shard
	ft := r.features()
	for _, ab := range exports {
		start, end := cut(ab[0]), cut(ab[1])
		want := restrict(srcPts, start, end)
		rng := fmt.Sprintf("range=[slot %d, slot %d]", ab[0], ab[1]-1)
		part := "partial=false"
		if len(fmtPoints(want)) != len(v.srcRead) {
			part = "partial=true"
		}
		var buf bytes.Buffer
		if err := f.TSDB.ExportShard(r.srcID, time.Unix(0, start), time.Unix(0, end), &buf); err != nil {
			add("export/export-error/"+ft.String(), "ExportShard(%s) failed: %v", rng, err)
			v.outcomes = append(v.outcomes, "export/error")
			continue
		}
		ents, terr := readTar(buf.Bytes())
		var names []string
		for _, e := range ents {
			names = append(names, fmt.Sprintf("%s(%dB)", e.name, e.size))
		}
		if terr != nil {
			add("export/archive-unreadable/"+ft.String(), "ExportShard(%s): %v (entries %v)", rng, terr, names)
			continue
		}
		dst, dstID, err := r.emptyShard()
		if err != nil {
			return v, fmt.Errorf("empty shard: %w", err)
		}
		if err := f.TSDB.ImportShard(dstID, bytes.NewReader(buf.Bytes())); err != nil {
			add("export/import-error/"+ft.String(), "ImportShard of the export of %s failed: %v (archive %v)", rng, err, names)
			continue
		}
		got, err := r.points(dst)
		if err != nil {
			add("export/read-error/"+ft.String(), "reading the imported shard failed: %v", err)
			continue
		}
		if cl, same := diff(got, want); !same {
			add("export/"+cl+"/"+ft.String()+","+part, "export of %s: source reads %s, so the export should hold %s, but the shard imported from it reads %s (shard files %s, archive %v)", rng, v.srcRead, fmtPoints(want), fmtPoints(got), fileList(r.files), names)
		}
		v.outcomes = append(v.outcomes, fmt.Sprintf("export/%s/%s/points=%d", ft.Long(), part, min(npoints(want), 2)))
	}
	return v, nil
}

// ---------------------------------------------------------------------------------------------------------
// sub-second placements (clause 2b)

// subOffsets: the change time of the file under test is T = T(step) + offset.
var subOffsets = []time.Duration{0, time.Nanosecond, 500 * time.Millisecond, 999999999 * time.Nanosecond}

// sinceDeltas: since = T + delta.
var sinceDeltas = []time.Duration{-time.Second, -time.Millisecond, -time.Nanosecond, 0, time.Nanosecond, time.Second}

func deltaS(d time.Duration) string {
	switch {
	case d == 0:
		return "T"
	case d > 0:
		return "T+" + d.String()
	}
	return "T-" + (-d).String()
}

func kindOf(name string) string {
	if strings.HasSuffix(name, ".tombstone") {
		return "tombstone"
	}
	return "tsm"
}

// subsecond gives every tracked file F in turn the change time T = stepTime(step of F) + offset (all other files keep
// the whole-hour time of their step) and takes BackupShard(since) for since = T + delta: the archive must contain a
// tracked file, byte-identically, iff its change time is after since.
func (r *run) subsecond(v *verdict, add func(sig, format string, a ...any)) error {
	var fnames []string
	for n := range r.files {
		fnames = append(fnames, n)
	}
	sort.Strings(fnames)
	mtimes := map[string]time.Time{}
	for _, n := range fnames {
		mtimes[n] = stepTime(r.files[n].step)
	}
	stable := func() (bool, error) {
		cur, err := scanDir(r.dir)
		if err != nil {
			return false, err
		}
		return fmt.Sprint(keysOf(cur)) == fmt.Sprint(keysOf(r.files)), nil
	}
	for _, target := range fnames {
		path := filepath.Join(r.dir, target)
		for _, off := range subOffsets {
			T := stepTime(r.files[target].step).Add(off)
			if err := os.Chtimes(path, T, T); err != nil {
				return err
			}
			st, err := os.Stat(path)
			if err != nil {
				return err
			}
			if !st.ModTime().Equal(T) {
				// a file system that does not keep nanosecond mtimes: the placement cannot be expressed
				v.outcomes = append(v.outcomes, "subsecond/file-system-rounds-mtimes(not judged)")
				continue
			}
			mtimes[target] = T
			for _, dl := range sinceDeltas {
				since := T.Add(dl)
				var buf bytes.Buffer
				berr := r.f.TSDB.BackupShard(r.srcID, since, &buf)
				if ok, err := stable(); err != nil {
					return err
				} else if !ok {
					v.outcomes = append(v.outcomes, "subsecond/directory-changed-during-backup(not judged)")
					if err := r.retime(r.nsteps + 1); err != nil {
						return err
					}
					return nil
				}
				where := fmt.Sprintf("BackupShard(since = %s) with T = mtime of %s = time of step %d + %dns = %s", deltaS(dl), target, r.files[target].step, int64(off), T.Format(time.RFC3339Nano))
				if berr != nil {
					add("subsecond/backup-error/"+r.features().String(), "%s failed: %v", where, berr)
					continue
				}
				ents, terr := readTar(buf.Bytes())
				if terr != nil {
					add("subsecond/archive-unreadable/"+r.features().String(), "%s: %v", where, terr)
					continue
				}
				in := map[string]tarEntry{}
				var names []string
				for _, e := range ents {
					in[e.name] = e
					names = append(names, e.name)
				}
				for _, n := range fnames {
					fi := r.files[n]
					required := mtimes[n].After(since)
					same := "other-file"
					if n == target {
						same = "file-under-test"
					}
					e, ok := in[n]
					switch {
					case required && !ok:
						add("subsecond/missing-file/kind="+kindOf(n)+"/"+same, "%s: %s has mtime %s, which is after since = %s, but is not in the archive %v; shard files %s", where, n, mtimes[n].Format(time.RFC3339Nano), since.Format(time.RFC3339Nano), names, fileList(r.files))
					case required && e.hash != fi.hash:
						add("subsecond/file-content-differs/kind="+kindOf(n)+"/"+same, "%s: archive entry %s (%d bytes) differs from the file (%d bytes)", where, n, e.size, fi.size)
					case !required && ok:
						add("subsecond/unchanged-file-archived/kind="+kindOf(n)+"/"+same, "%s: %s has mtime %s, which is not after since = %s, but it is in the archive %v of the incremental backup; shard files %s", where, n, mtimes[n].Format(time.RFC3339Nano), since.Format(time.RFC3339Nano), names, fileList(r.files))
					}
					if n == target {
						v.outcomes = append(v.outcomes, fmt.Sprintf("subsecond/offset=%s/since=%s/file-archived=%v", off, deltaS(dl), ok))
					}
				}
			}
		}
		back := stepTime(r.files[target].step)
		if err := os.Chtimes(path, back, back); err != nil {
			return err
		}
		mtimes[target] = back
	}
	return nil
}

func npoints(m map[string][]mini.Pt) int {
	n := 0
	for _, p := range m {
		n += len(p)
	}
	return n
}

func halfS(h bool) string {
	if h {
		return " + 30min"
	}
	return ""
}

func keysOf(m map[string]*fileInfo) []string {
	var ks []string
	for k, fi := range m {
		ks = append(ks, k+":"+fi.hash)
	}
	sort.Strings(ks)
	return ks
}

func allRanges() [][2]int {
	var out [][2]int
	for w := nSlots; w >= 1; w-- { // widest first: the full range is the simplest expectation
		for a := 0; a+w <= nSlots; a++ {
			out = append(out, [2]int{a, a + w})
		}
	}
	return out
}

// histories of exactly depth d over the alphabet, in lexicographic order; first restricts the first operation (nil = any).
func histories(d int, alphabet, first []string, visit func([]string) bool) bool {
	cur := make([]string, d)
	var rec func(i int) bool
	rec = func(i int) bool {
		if i == d {
			return visit(append([]string(nil), cur...))
		}
		al := alphabet
		if i == 0 && first != nil {
			al = first
		}
		for _, op := range al {
			cur[i] = op
			if !rec(i + 1) {
				return false
			}
		}
		return true
	}
	return rec(0)
}

func hasWrite(h []string) bool {
	for _, op := range h {
		if len(writesOf(op)) > 0 {
			return true
		}
	}
	return false
}

func TestCheck(t *testing.T) {
	vlib.Main(t, &vlib.Check{
		ID: "C38", Level: "exploration",
		Rule: "every history of length 1..3 (quick: 399 histories) resp. 1..4 plus every history of length 5 over {wL,wH,dM,s,c} that starts with a write (thorough: 2800 + 1250 histories) over the 7 operations {wL: write A@slots0,1 + B@slot0; wH: write A@slots2,3 + B@slot3; wA: (over)write A@slots0-3; dM: delete [slot1,slot2] of all series; dB: delete series B; s: snapshot cache->TSM; c: snapshot + full compaction} " +
			"on a fresh bucket (series m,t=a and m,t=b, float field v, 4 time slots in one shard, value = 100*step+10*slot+series so every write is distinguishable); per history: (1) BackupShard(since=0) -> RestoreShard into an empty shard, reads compared; (2) BackupShard(since) for since = T(j), T(j)+30min, j=0..n+1 with file mtimes set by os.Chtimes to the step of their last content change, archive must contain every later-changed *.tsm/*.tombstone file byte-identically; (2b, sub-second placements) every tracked file F in turn gets the mtime T = T(step of F) + d for d in {0, 1ns, 500ms, 999999999ns} (os.Chtimes with nanosecond precision, read back with os.Stat; the other files keep their whole-hour step time) and BackupShard(since) runs for since in {T-1s, T-1ms, T-1ns, T, T+1ns, T+1s} (24 backups per file): the archive must contain a tracked file, byte-identically, iff its mtime is after since; (3) ExportShard for every one of the 10 ranges between slot boundaries (quick: the 6 ranges all, first half, second half, middle, first slot, last slot) -> ImportShard into an empty shard, reads compared with the source points in the range. " +
			"non-trivial = histories that contain a write (a shard exists); distinct by construction.",
		Assumptions: []string{
			"the oracle of restore/export is the source shard's own ReadFilter before the backup (statement: 'the same readable points and series'); series without points are not compared; a model of the history is only a diagnostic cross-check (evidence counter source_reads_differing_from_history_model)",
			"'file changed after t' is decided by content hashes between history steps; mtimes are set explicitly (2001-01-01 + step hours), so the mtime comparison of the code cannot make the oracle flaky; in family (2) only 'archive is a superset of the required files' is demanded",
				"family (2b) models 'the file changed at T' by setting its mtime to T with nanosecond precision (tmpfs keeps nanosecond mtimes; the value is read back and a placement that the file system rounds is not judged: outcome class file-system-rounds-mtimes). 'changed after since' is mtime > since at full precision, also when both fall into the same wall-clock second. The converse direction (a tracked file with mtime <= since is NOT in the incremental archive) is what makes the backup incremental; it has its own signature subsecond/unchanged-file-archived",
			"export range bounds lie between the time slots, so the statement's silence on inclusive/exclusive range ends does not matter",
			"tsi1.DefaultPartitionN is set to 1 (the INFLUXDB_EXP_TSI_PARTITIONS knob) to make the ~12 shard creations per history affordable",
			"ImportShard schedules a full compaction (background) on the import target; the target is read once right after the import and discarded",
			"the source shard's compaction PLANNER is replaced by one that never plans (Engine.CompactionPlan is an exported injection point): a delete starts the shard's background compaction goroutine although the fixture disabled compactions, and it would compact tombstoned files one wall-clock second later, in the middle of the checks. Compactions are the explicit 'c' operations",
			"if the shard directory nevertheless changes while an incremental backup runs, that backup is not judged (outcome class directory-changed-during-backup)",
		},
		QuickBudgetS: 70, ThoroughBudgetS: 780,
		Run: func(c *vlib.Ctx) {
			defer func(old uint64) { tsi1.DefaultPartitionN = old }(tsi1.DefaultPartitionN)
			tsi1.DefaultPartitionN = 1
			type fam struct {
				name            string
				d               int
				alphabet, first []string
			}
			fams := []fam{{"all histories of length 1", 1, ops, nil}, {"all histories of length 2", 2, ops, nil}, {"all histories of length 3", 3, ops, nil}}
			if c.Thorough() {
				fams = append(fams, fam{"all histories of length 4", 4, ops, nil},
					fam{"histories of length 5 over {wL,wH,dM,s,c} that start with a write", 5, []string{"wL", "wH", "dM", "s", "c"}, []string{"wL", "wH"}})
			}
			exports := allRanges()
			if c.Quick() {
				exports = [][2]int{{0, 4}, {0, 2}, {2, 4}, {1, 3}, {0, 1}, {3, 4}}
			}
			var idx int64
			for _, fm := range fams {
				complete := histories(fm.d, fm.alphabet, fm.first, func(h []string) bool {
					idx++
					if !c.Mine(idx) {
						return true
					}
					if c.Expired() {
						return false
					}
					runOne(c, h, exports)
					return true
				})
				if !complete {
					c.Cap(fmt.Sprintf("wall budget: a shard stopped inside the family %q (visited in lexicographic order; its share of the earlier families is complete)", fm.name))
					return
				}
			}
		},
		Replay: func(c *vlib.Ctx, raw json.RawMessage) (bool, string) {
			var cs Case
			if err := json.Unmarshal(raw, &cs); err != nil {
				return false, err.Error()
			}
			defer func(old uint64) { tsi1.DefaultPartitionN = old }(tsi1.DefaultPartitionN)
			tsi1.DefaultPartitionN = 1
			var v verdict
			var err error
			p, d := vlib.Guard(func() { v, err = execute(c, cs.Ops, allRanges()) })
			var sb strings.Builder
			fmt.Fprintf(&sb, "history: %v\n", cs.Ops)
			if p {
				fmt.Fprintf(&sb, "PANIC: %s\n", d)
				return true, sb.String()
			}
			if err != nil {
				fmt.Fprintf(&sb, "fixture error: %v\n", err)
				return false, sb.String()
			}
			fmt.Fprintf(&sb, "source shard reads: %s\n", v.srcRead)
			n := 0
			for _, pr := range v.probs {
				if cs.Sig == "" || pr.sig == cs.Sig {
					fmt.Fprintf(&sb, "VIOLATED %s: %s\n", pr.sig, pr.detail)
					n++
				}
			}
			return n > 0, sb.String()
		},
	})
}

func runOne(c *vlib.Ctx, h []string, exports [][2]int) {
	var v verdict
	var err error
	p, d := vlib.Guard(func() { v, err = execute(c, h, exports) })
	c.Eval(1)
	switch {
	case p:
		fr := d[strings.LastIndex(d, "@ ")+2:]
		c.Violation("panic/"+fr, fmt.Sprintf("history %v: %s", h, d), Case{Ops: h})
		c.Outcome("panic")
		return
	case err != nil:
		c.HarnessError(fmt.Sprintf("history %v: %v", h, err))
		return
	case v.skipped != "":
		c.Outcome(v.skipped)
		return
	}
	if hasWrite(h) {
		c.NontrivialN(1)
	}
	seen := map[string]bool{}
	for _, pr := range v.probs {
		if seen[pr.sig] {
			continue
		}
		seen[pr.sig] = true
		c.Violation(pr.sig, fmt.Sprintf("history %v: %s", h, pr.detail), Case{Ops: h, Sig: pr.sig})
	}
	for _, o := range v.outcomes {
		c.Outcome(o)
	}
	if len(h) >= 3 && c.WantSample() {
		c.Sample(map[string]any{"history": h, "source_reads": v.srcRead, "problems": len(v.probs)})
	}
}
