// C38: shard backup and restore preserve data.
//
// Bounded-exhaustive history enumeration (opseq) on the `mini` fixture: every sequence of <= D operations over
// {write low half, write high half, overwrite series A, range delete, delete series B, snapshot cache -> TSM,
// full compaction} is applied to a fresh bucket through the real write / delete / snapshot / compaction paths, then
// the three clauses of the statement are checked on the resulting shard through the tsdb.Store entry points
// (BackupShard / RestoreShard / ExportShard / ImportShard -> tsdb.Shard -> tsm1.Engine.Backup / Restore / Export / Import):
//
//	restore      BackupShard(since = 0) -> RestoreShard into an EMPTY shard of another bucket: the restored shard must
//	             read (ReadFilter over all time) exactly the series-with-points and points the source shard reads.
//	incremental  every file of the shard directory (*.tsm, *.tombstone) is given an explicit mtime T(k) = 2001-01-01 + k h
//	             where k is the history step in which its content last changed (os.Chtimes; content hashes decide
//	             "changed"), then BackupShard(since) for since = T(j) and T(j)+30min, j = 0..n: the archive must
//	             contain, byte-identical, every file whose content changed in a step > j.
//	subsecond    (same clause, sub-second placements) every tracked file F in turn gets the change time
//	             T = T(step of F) + d, d in {0, 1ns, 500ms, 999999999ns} (os.Chtimes, nanosecond precision, read back
//	             with os.Stat), and BackupShard(since) runs for since in {T-1s, T-1ms, T-1ns, T, T+1ns, T+1s}: the
//	             archive must contain a tracked file, byte-identically, iff its change time is after since.
//	export       ExportShard(start, end) for every range between slot boundaries -> ImportShard into an EMPTY shard:
//	             the imported shard must read exactly the source points with start <= t <= end (range bounds lie
//	             between the time slots, so inclusive/exclusive ends do not matter).
//
// The oracle for restore/export is the source shard's own read before the backup (the statement is relative to the
// "readable points"); a model of the history is kept only as a diagnostic cross-check of that read.
//
// The whole check is built with tsdb.DefaultMaxPointsPerBlock = 2 (shim.json, constant replacement in the build
// overlay): in the history family a series with 3 or 4 points in one TSM file has two blocks, so block-level and
// file-level filtering of an export differ there too.
//
//	layouts      (clause 3 at block level, "layout family" below) every assignment of a (slot subset, split into
//	             consecutive blocks) to each of 2 or 3 series, written block by block into ONE TSM file of a fresh
//	             tsm1.Engine, and Engine.Export of every range between slot boundaries (incl. the empty ranges between
//	             two neighbouring slots); the *.tsm entries of the archive are read with the real TSMReader and
//	             compared, point by point, with the layout.
package c38

import (
	"archive/tar"
	"bytes"
	"context"
	"crypto/sha1"
	"encoding/json"
	"fmt"
	"io"
	"math"
	"os"
	"path/filepath"
	"sort"
	"strings"
	"testing"
	"time"

	"github.com/influxdata/influxdb/v2/pkg/limiter"
	"github.com/influxdata/influxdb/v2/tsdb"
	"github.com/influxdata/influxdb/v2/tsdb/engine/tsm1"
	"github.com/influxdata/influxdb/v2/tsdb/index/tsi1"
	"github.com/influxdata/influxdb/v2/v1/services/meta"
	"verif/h/mini"
	"verif/h/vlib"
)

// ---------------------------------------------------------------------------------------------------------
// domain

const nSlots = 4

// maxSlots bounds the slots of the layout family (display only).
const maxSlots = 8

func slotT(k int) int64 { return mini.Base + int64(k+1)*1000 }

// cut(a) for a = 0..nSlots lies between the slots: cut(a) = slotT(a) - 500.
func cut(a int) int64 { return slotT(a) - 500 }

var ops = []string{"wL", "wH", "wA", "dM", "dB", "s", "c"}

// value written in step `step` for series ser (0 = A, 1 = B) at slot k.
func value(step, ser, k int) float64 { return float64(step*100 + k*10 + ser) }

type wr struct{ ser, slot int }

// writesOf lists the points an op writes.
func writesOf(op string) []wr {
	switch op {
	case "wL":
		return []wr{{0, 0}, {0, 1}, {1, 0}}
	case "wH":
		return []wr{{0, 2}, {0, 3}, {1, 3}}
	case "wA":
		return []wr{{0, 0}, {0, 1}, {0, 2}, {0, 3}}
	}
	return nil
}

var serTag = []string{"a", "b"}

// model: value per (series, slot); NaN = absent.
type model [2][nSlots]float64

func newModel() model {
	var m model
	for s := range m {
		for k := range m[s] {
			m[s][k] = math.NaN()
		}
	}
	return m
}

func (m *model) apply(step int, op string) {
	for _, w := range writesOf(op) {
		m[w.ser][w.slot] = value(step, w.ser, w.slot)
	}
	switch op {
	case "dM":
		for s := range m {
			m[s][1], m[s][2] = math.NaN(), math.NaN()
		}
	case "dB":
		for k := range m[1] {
			m[1][k] = math.NaN()
		}
	}
}

type Case struct {
	Ops    []string    `json:"ops,omitempty"`
	Layout *LayoutCase `json:"layout,omitempty"` // layout family: one TSM file, exports of every range
	Sig    string      `json:"sig,omitempty"`    // replay: report the problems of this class
}

// ---------------------------------------------------------------------------------------------------------
// execution

type fileInfo struct {
	hash string
	size int64
	step int
}

type run struct {
	f      *mini.Fixture
	src    mini.Bucket
	srcID  uint64
	dir    string
	nbkt   int
	files  map[string]*fileInfo // base name -> state (only *.tsm, *.tombstone)
	mdl    model
	nsteps int
}

func stepTime(k int) time.Time {
	return time.Date(2001, 1, 1, 0, 0, 0, 0, time.UTC).Add(time.Duration(k) * time.Hour)
}

func tracked(name string) bool {
	return strings.HasSuffix(name, ".tsm") || strings.HasSuffix(name, ".tombstone")
}

// scanDir hashes the tracked files of the shard directory.
func scanDir(dir string) (map[string]*fileInfo, error) {
	ents, err := os.ReadDir(dir)
	if err != nil {
		return nil, err
	}
	out := map[string]*fileInfo{}
	for _, e := range ents {
		if e.IsDir() || !tracked(e.Name()) {
			continue
		}
		b, err := os.ReadFile(filepath.Join(dir, e.Name()))
		if err != nil {
			return nil, err
		}
		out[e.Name()] = &fileInfo{hash: fmt.Sprintf("%x", sha1.Sum(b)), size: int64(len(b))}
	}
	return out, nil
}

// retime rescans the shard directory after step k, stamps new/changed files with step k and sets the mtime of every
// tracked file to the time of the step in which its content last changed.
func (r *run) retime(k int) error {
	if r.dir == "" {
		return nil
	}
	cur, err := scanDir(r.dir)
	if err != nil {
		return err
	}
	for name, fi := range cur {
		if old, ok := r.files[name]; ok && old.hash == fi.hash {
			fi.step = old.step
		} else {
			fi.step = k
		}
		t := stepTime(fi.step)
		if err := os.Chtimes(filepath.Join(r.dir, name), t, t); err != nil {
			return err
		}
	}
	r.files = cur
	return nil
}

// idlePlanner wraps the engine's compaction planner and never plans anything. tsm1.Engine.DeleteSeriesRange ends with
// enableLevelCompactions, which starts the shard's background compaction goroutine even though the fixture opened the
// store with compactions disabled; one second later it would compact files that have tombstones, at a wall-clock
// dependent point of the checks. Compactions of a history are the explicit "c" operations (mini.FullCompactShard
// calls the Compactor directly and does not consult the planner).
type idlePlanner struct{ tsm1.CompactionPlanner }

func (idlePlanner) Plan(tsm1.TsmGenerations, time.Time) ([]tsm1.CompactionGroup, int64) {
	return nil, 0
}
func (idlePlanner) PlanLevel(tsm1.TsmGenerations, int) ([]tsm1.CompactionGroup, int64) { return nil, 0 }
func (idlePlanner) PlanOptimize(tsm1.TsmGenerations, time.Time) ([]tsm1.CompactionGroup, int64, int64) {
	return nil, 0, 0
}

func (r *run) ensureShard() bool {
	if r.srcID != 0 {
		return true
	}
	ids := r.f.ShardIDs(r.src)
	if len(ids) == 0 {
		return false
	}
	r.srcID = ids[0]
	sh := r.f.TSDB.Shard(r.srcID)
	r.dir = sh.Path()
	// installed right after the write that created the shard: no compaction goroutine exists yet
	if e, err := sh.Engine(); err == nil {
		if te, ok := e.(*tsm1.Engine); ok {
			te.CompactionPlan = idlePlanner{te.CompactionPlan}
		}
	}
	return true
}

func (r *run) applyOp(step int, op string) error {
	switch op {
	case "wL", "wH", "wA":
		var pts []mini.Point
		for _, w := range writesOf(op) {
			pts = append(pts, mini.Point{M: "m", Tags: mini.T("t", serTag[w.ser]), Fields: map[string]any{"v": value(step, w.ser, w.slot)}, T: slotT(w.slot)})
		}
		if err := r.f.Write(r.src, pts); err != nil {
			return err
		}
		r.ensureShard()
	case "dM":
		if err := r.f.Delete(r.src, slotT(1), slotT(2), ""); err != nil {
			return err
		}
	case "dB":
		if err := r.f.Delete(r.src, math.MinInt64, math.MaxInt64, `t="b"`); err != nil {
			return err
		}
	case "s":
		if r.ensureShard() {
			if err := r.f.SnapshotShard(r.srcID); err != nil {
				return err
			}
		}
	case "c":
		if r.ensureShard() {
			if err := r.f.FullCompactShard(r.srcID); err != nil {
				return err
			}
		}
	default:
		return fmt.Errorf("unknown op %q", op)
	}
	r.mdl.apply(step, op)
	return nil
}

// emptyShard creates a new bucket with one EMPTY shard covering the slots and returns the bucket and the shard id.
func (r *run) emptyShard() (mini.Bucket, uint64, error) {
	r.nbkt++
	b, err := r.f.CreateBucket(fmt.Sprintf("dst%d", r.nbkt), 0)
	if err != nil {
		return b, 0, err
	}
	sg, err := r.f.Meta.CreateShardGroup(b.DBName(), meta.DefaultRetentionPolicyName, time.Unix(0, slotT(0)))
	if err != nil {
		return b, 0, err
	}
	if len(sg.Shards) != 1 {
		return b, 0, fmt.Errorf("shard group with %d shards", len(sg.Shards))
	}
	id := sg.Shards[0].ID
	if err := r.f.TSDB.CreateShard(context.Background(), b.DBName(), meta.DefaultRetentionPolicyName, id, true); err != nil {
		return b, 0, err
	}
	return b, id, nil
}

// points reads a bucket over all time and returns the series that have points: "m,t=a#v" -> points.
func (r *run) points(b mini.Bucket) (map[string][]mini.Pt, error) {
	ss, err := r.f.ReadFilter(b, math.MinInt64, math.MaxInt64, nil)
	if err != nil {
		return nil, err
	}
	out := map[string][]mini.Pt{}
	for _, s := range ss {
		if len(s.Points) == 0 {
			continue
		}
		var tags []string
		for _, t := range s.Tags {
			if t.K != "_measurement" && t.K != "_field" {
				tags = append(tags, t.K+"="+t.V)
			}
		}
		sort.Strings(tags)
		key := s.Tag("_measurement") + "," + strings.Join(tags, ",") + "#" + s.Tag("_field")
		out[key] = append(out[key], s.Points...)
	}
	return out, nil
}

func fmtPoints(m map[string][]mini.Pt) string {
	var keys []string
	for k := range m {
		keys = append(keys, k)
	}
	sort.Strings(keys)
	var sb strings.Builder
	sb.WriteByte('{')
	for i, k := range keys {
		if i > 0 {
			sb.WriteString("; ")
		}
		sb.WriteString(k + ":")
		for _, p := range m[k] {
			fmt.Fprintf(&sb, " s%d=%v", slotOf(p.T), p.V)
		}
	}
	sb.WriteByte('}')
	return sb.String()
}

func slotOf(t int64) int {
	d := t - mini.Base
	if d%1000 == 0 && d >= 1000 && d <= maxSlots*1000 {
		return int(d/1000) - 1
	}
	return -1
}

func restrict(m map[string][]mini.Pt, start, end int64) map[string][]mini.Pt {
	out := map[string][]mini.Pt{}
	for k, ps := range m {
		for _, p := range ps {
			if p.T >= start && p.T <= end {
				out[k] = append(out[k], p)
			}
		}
	}
	return out
}

// diff classifies the difference between what a copy reads and what it should read.
func diff(got, want map[string][]mini.Pt) (clause string, same bool) {
	if fmtPoints(got) == fmtPoints(want) {
		return "", true
	}
	extra, missing, wrong := false, false, false
	for k, ps := range got {
		w := map[int64]any{}
		for _, p := range want[k] {
			w[p.T] = p.V
		}
		seen := map[int64]bool{}
		for _, p := range ps {
			if v, ok := w[p.T]; !ok {
				extra = true
			} else if v != p.V {
				wrong = true
			}
			if seen[p.T] {
				wrong = true
			}
			seen[p.T] = true
		}
	}
	for k, ps := range want {
		g := map[int64]bool{}
		for _, p := range got[k] {
			g[p.T] = true
		}
		for _, p := range ps {
			if !g[p.T] {
				missing = true
			}
		}
	}
	switch {
	case extra && missing:
		return "extra-and-missing-points", false
	case extra:
		return "extra-points", false
	case missing:
		return "missing-points", false
	case wrong:
		return "wrong-values", false
	}
	return "different-order", false
}

type tarEntry struct {
	name string // base name
	full string
	hash string
	size int64
	dir  bool
}

func readTar(b []byte) ([]tarEntry, error) {
	tr := tar.NewReader(bytes.NewReader(b))
	var out []tarEntry
	for {
		h, err := tr.Next()
		if err == io.EOF {
			return out, nil
		}
		if err != nil {
			return out, err
		}
		body, err := io.ReadAll(tr)
		if err != nil {
			return out, err
		}
		out = append(out, tarEntry{name: filepath.Base(filepath.FromSlash(h.Name)), full: h.Name, hash: fmt.Sprintf("%x", sha1.Sum(body)), size: int64(len(body)), dir: h.Typeflag == tar.TypeDir})
	}
}

type problem struct {
	sig    string
	detail string
}

// features of the shard at backup time that discriminate the classes.
type feat struct {
	tombstones bool
	nTSM       int
}

func (r *run) features() feat {
	var ft feat
	for name := range r.files {
		if strings.HasSuffix(name, ".tombstone") {
			ft.tombstones = true
		} else {
			ft.nTSM++
		}
	}
	return ft
}

// String is the part of a class signature; Long also names the number of TSM files (outcome classes only).
func (ft feat) String() string { return fmt.Sprintf("tombstones=%v", ft.tombstones) }

func (ft feat) Long() string {
	n := fmt.Sprint(ft.nTSM)
	if ft.nTSM > 2 {
		n = "3+"
	}
	return fmt.Sprintf("tombstones=%v,tsm-files=%s", ft.tombstones, n)
}

type verdict struct {
	probs    []problem
	outcomes []string
	skipped  string // history without a shard
	srcRead  string
}

func fileList(m map[string]*fileInfo) string {
	var names []string
	for n, fi := range m {
		names = append(names, fmt.Sprintf("%s(step %d,%dB)", n, fi.step, fi.size))
	}
	sort.Strings(names)
	return "[" + strings.Join(names, " ") + "]"
}

// execute runs one history and all checks. exports: which (a,b) ranges to export+import.
func execute(c *vlib.Ctx, opsList []string, exports [][2]int) (v verdict, err error) {
	f, err := mini.Open(mini.Options{})
	if err != nil {
		return v, err
	}
	defer f.Close()
	src, err := f.CreateBucket("src", 0)
	if err != nil {
		return v, err
	}
	r := &run{f: f, src: src, files: map[string]*fileInfo{}, mdl: newModel(), nsteps: len(opsList)}
	for i, op := range opsList {
		step := i + 1
		if err := r.applyOp(step, op); err != nil {
			return v, fmt.Errorf("step %d (%s): %w", step, op, err)
		}
		if err := r.retime(step); err != nil {
			return v, err
		}
	}
	if !r.ensureShard() {
		v.skipped = "no-shard"
		return v, nil
	}
	add := func(sig, format string, a ...any) {
		// error texts of the repo may contain the (random) fixture directory: never let it into an observation
		v.probs = append(v.probs, problem{sig, strings.ReplaceAll(fmt.Sprintf(format, a...), f.Dir, "<fixture-dir>")})
	}
	ctx := context.Background()

	srcPts, err := r.points(src)
	if err != nil {
		return v, fmt.Errorf("source read: %w", err)
	}
	v.srcRead = fmtPoints(srcPts)
	// diagnostic cross-check of the source read against the model of the history
	mp := map[string][]mini.Pt{}
	for s := range r.mdl {
		for k, val := range r.mdl[s] {
			if !math.IsNaN(val) {
				key := "m,t=" + serTag[s] + "#v"
				mp[key] = append(mp[key], mini.Pt{T: slotT(k), V: val})
			}
		}
	}
	if fmtPoints(mp) != v.srcRead {
		c.Extra("source_reads_differing_from_history_model", 1)
	}
	ft0 := r.features()
	cacheNote := ""

	// ---- clause 1: full backup -> restore into an empty shard
	var full bytes.Buffer
	if err := f.TSDB.BackupShard(r.srcID, time.Unix(0, 0), &full); err != nil {
		add("restore/backup-error/"+ft0.String(), "BackupShard(since=0) failed: %v", err)
	} else {
		// the backup snapshots the cache first: that is a further change of the directory (step n+1)
		if err := r.retime(r.nsteps + 1); err != nil {
			return v, err
		}
		if r.features().nTSM != ft0.nTSM {
			cacheNote = ",cache-flushed-by-backup"
		}
		ft := r.features()
		ents, terr := readTar(full.Bytes())
		if terr != nil {
			add("restore/archive-unreadable/"+ft.String(), "full backup archive: %v", terr)
		}
		var names []string
		for _, e := range ents {
			names = append(names, e.name)
		}
		after, err := r.points(src)
		if err != nil {
			return v, fmt.Errorf("source read after backup: %w", err)
		}
		if fmtPoints(after) != v.srcRead {
			add("restore/backup-changed-source/"+ft.String(), "source reads %s before and %s after BackupShard", v.srcRead, fmtPoints(after))
		}
		dst, dstID, err := r.emptyShard()
		if err != nil {
			return v, fmt.Errorf("empty shard: %w", err)
		}
		if err := f.TSDB.RestoreShard(ctx, dstID, bytes.NewReader(full.Bytes())); err != nil {
			add("restore/restore-error/"+ft.String(), "RestoreShard failed: %v (archive %v)", err, names)
		} else {
			got, err := r.points(dst)
			if err != nil {
				add("restore/read-error/"+ft.String(), "reading the restored shard failed: %v", err)
			} else if cl, same := diff(got, srcPts); !same {
				add("restore/"+cl+"/"+ft.String(), "source shard reads %s, the shard restored from the full backup reads %s (shard files %s, archive entries %v)", v.srcRead, fmtPoints(got), fileList(r.files), names)
			}
			v.outcomes = append(v.outcomes, fmt.Sprintf("restore/%s%s/series=%d", ft.Long(), cacheNote, len(srcPts)))
		}
	}

	// ---- clause 2: incremental backups
	for j := 0; j <= r.nsteps+1; j++ {
		for _, half := range []bool{false, true} {
			since := stepTime(j)
			if half {
				since = since.Add(30 * time.Minute)
			}
			before, err := scanDir(r.dir)
			if err != nil {
				return v, err
			}
			var buf bytes.Buffer
			berr := f.TSDB.BackupShard(r.srcID, since, &buf)
			after, err := scanDir(r.dir)
			if err != nil {
				return v, err
			}
			if fmt.Sprint(keysOf(before)) != fmt.Sprint(keysOf(after)) || fmt.Sprint(keysOf(before)) != fmt.Sprint(keysOf(r.files)) {
				v.outcomes = append(v.outcomes, "incremental/directory-changed-during-backup(not judged)")
				if err := r.retime(r.nsteps + 1); err != nil {
					return v, err
				}
				continue
			}
			ft := r.features()
			if berr != nil {
				add("incremental/backup-error/"+ft.String(), "BackupShard(since=step %d%s) failed: %v", j, halfS(half), berr)
				continue
			}
			ents, terr := readTar(buf.Bytes())
			if terr != nil {
				add("incremental/archive-unreadable/"+ft.String(), "BackupShard(since=step %d%s): %v", j, halfS(half), terr)
				continue
			}
			in := map[string]tarEntry{}
			var names []string
			for _, e := range ents {
				in[e.name] = e
				names = append(names, e.name)
			}
			nreq := 0
			var fnames []string
			for n := range r.files {
				fnames = append(fnames, n)
			}
			sort.Strings(fnames)
			for _, n := range fnames {
				fi := r.files[n]
				if fi.step <= j {
					continue
				}
				nreq++
				kind := "tsm"
				if strings.HasSuffix(n, ".tombstone") {
					kind = "tombstone"
				}
				if e, ok := in[n]; !ok {
					add("incremental/missing-file/kind="+kind, "BackupShard(since = time of step %d%s): %s changed in step %d (mtime %s) but is not in the archive %v; shard files %s", j, halfS(half), n, fi.step, stepTime(fi.step).Format(time.RFC3339), names, fileList(r.files))
				} else if e.hash != fi.hash {
					add("incremental/file-content-differs/kind="+kind, "BackupShard(since = time of step %d%s): archive entry %s (%d bytes) differs from the file (%d bytes)", j, halfS(half), n, e.size, fi.size)
				}
			}
			v.outcomes = append(v.outcomes, fmt.Sprintf("incremental/required=%d/archived=%d", min(nreq, 4), min(len(ents), 4)))
		}
	}

	// ---- clause 2b: incremental backups with sub-second placements of the change time and of `since`
	if err := r.subsecond(&v, add); err != nil {
		return v, err
	}

	// ---- clause 3: export of a time range -> import into an empty shard
	ft := r.features()
	for _, ab := range exports {
		start, end := cut(ab[0]), cut(ab[1])
		want := restrict(srcPts, start, end)
		rng := fmt.Sprintf("range=[slot %d, slot %d]", ab[0], ab[1]-1)
		part := "partial=false"
		if len(fmtPoints(want)) != len(v.srcRead) {
			part = "partial=true"
		}
		var buf bytes.Buffer
		if err := f.TSDB.ExportShard(r.srcID, time.Unix(0, start), time.Unix(0, end), &buf); err != nil {
			add("export/export-error/"+ft.String(), "ExportShard(%s) failed: %v", rng, err)
			v.outcomes = append(v.outcomes, "export/error")
			continue
		}
		ents, terr := readTar(buf.Bytes())
		var names []string
		for _, e := range ents {
			names = append(names, fmt.Sprintf("%s(%dB)", e.name, e.size))
		}
		if terr != nil {
			add("export/archive-unreadable/"+ft.String(), "ExportShard(%s): %v (entries %v)", rng, terr, names)
			continue
		}
		dst, dstID, err := r.emptyShard()
		if err != nil {
			return v, fmt.Errorf("empty shard: %w", err)
		}
		if err := f.TSDB.ImportShard(dstID, bytes.NewReader(buf.Bytes())); err != nil {
			add("export/import-error/"+ft.String(), "ImportShard of the export of %s failed: %v (archive %v)", rng, err, names)
			continue
		}
		got, err := r.points(dst)
		if err != nil {
			add("export/read-error/"+ft.String(), "reading the imported shard failed: %v", err)
			continue
		}
		if cl, same := diff(got, want); !same {
			add("export/"+cl+"/"+ft.String()+","+part, "export of %s: source reads %s, so the export should hold %s, but the shard imported from it reads %s (shard files %s, archive %v)", rng, v.srcRead, fmtPoints(want), fmtPoints(got), fileList(r.files), names)
		}
		v.outcomes = append(v.outcomes, fmt.Sprintf("export/%s/%s/points=%d", ft.Long(), part, min(npoints(want), 2)))
	}
	return v, nil
}

// ---------------------------------------------------------------------------------------------------------
// sub-second placements (clause 2b)

// subOffsets: the change time of the file under test is T = T(step) + offset.
var subOffsets = []time.Duration{0, time.Nanosecond, 500 * time.Millisecond, 999999999 * time.Nanosecond}

// sinceDeltas: since = T + delta.
var sinceDeltas = []time.Duration{-time.Second, -time.Millisecond, -time.Nanosecond, 0, time.Nanosecond, time.Second}

func deltaS(d time.Duration) string {
	switch {
	case d == 0:
		return "T"
	case d > 0:
		return "T+" + d.String()
	}
	return "T-" + (-d).String()
}

func kindOf(name string) string {
	if strings.HasSuffix(name, ".tombstone") {
		return "tombstone"
	}
	return "tsm"
}

// subsecond gives every tracked file F in turn the change time T = stepTime(step of F) + offset (all other files keep
// the whole-hour time of their step) and takes BackupShard(since) for since = T + delta: the archive must contain a
// tracked file, byte-identically, iff its change time is after since.
func (r *run) subsecond(v *verdict, add func(sig, format string, a ...any)) error {
	var fnames []string
	for n := range r.files {
		fnames = append(fnames, n)
	}
	sort.Strings(fnames)
	mtimes := map[string]time.Time{}
	for _, n := range fnames {
		mtimes[n] = stepTime(r.files[n].step)
	}
	stable := func() (bool, error) {
		cur, err := scanDir(r.dir)
		if err != nil {
			return false, err
		}
		return fmt.Sprint(keysOf(cur)) == fmt.Sprint(keysOf(r.files)), nil
	}
	for _, target := range fnames {
		path := filepath.Join(r.dir, target)
		for _, off := range subOffsets {
			T := stepTime(r.files[target].step).Add(off)
			if err := os.Chtimes(path, T, T); err != nil {
				return err
			}
			st, err := os.Stat(path)
			if err != nil {
				return err
			}
			if !st.ModTime().Equal(T) {
				// a file system that does not keep nanosecond mtimes: the placement cannot be expressed
				v.outcomes = append(v.outcomes, "subsecond/file-system-rounds-mtimes(not judged)")
				continue
			}
			mtimes[target] = T
			for _, dl := range sinceDeltas {
				since := T.Add(dl)
				var buf bytes.Buffer
				berr := r.f.TSDB.BackupShard(r.srcID, since, &buf)
				if ok, err := stable(); err != nil {
					return err
				} else if !ok {
					v.outcomes = append(v.outcomes, "subsecond/directory-changed-during-backup(not judged)")
					if err := r.retime(r.nsteps + 1); err != nil {
						return err
					}
					return nil
				}
				where := fmt.Sprintf("BackupShard(since = %s) with T = mtime of %s = time of step %d + %dns = %s", deltaS(dl), target, r.files[target].step, int64(off), T.Format(time.RFC3339Nano))
				if berr != nil {
					add("subsecond/backup-error/"+r.features().String(), "%s failed: %v", where, berr)
					continue
				}
				ents, terr := readTar(buf.Bytes())
				if terr != nil {
					add("subsecond/archive-unreadable/"+r.features().String(), "%s: %v", where, terr)
					continue
				}
				in := map[string]tarEntry{}
				var names []string
				for _, e := range ents {
					in[e.name] = e
					names = append(names, e.name)
				}
				for _, n := range fnames {
					fi := r.files[n]
					required := mtimes[n].After(since)
					same := "other-file"
					if n == target {
						same = "file-under-test"
					}
					e, ok := in[n]
					switch {
					case required && !ok:
						add("subsecond/missing-file/kind="+kindOf(n)+"/"+same, "%s: %s has mtime %s, which is after since = %s, but is not in the archive %v; shard files %s", where, n, mtimes[n].Format(time.RFC3339Nano), since.Format(time.RFC3339Nano), names, fileList(r.files))
					case required && e.hash != fi.hash:
						add("subsecond/file-content-differs/kind="+kindOf(n)+"/"+same, "%s: archive entry %s (%d bytes) differs from the file (%d bytes)", where, n, e.size, fi.size)
					case !required && ok:
						add("subsecond/unchanged-file-archived/kind="+kindOf(n)+"/"+same, "%s: %s has mtime %s, which is not after since = %s, but it is in the archive %v of the incremental backup; shard files %s", where, n, mtimes[n].Format(time.RFC3339Nano), since.Format(time.RFC3339Nano), names, fileList(r.files))
					}
					if n == target {
						v.outcomes = append(v.outcomes, fmt.Sprintf("subsecond/offset=%s/since=%s/file-archived=%v", off, deltaS(dl), ok))
					}
				}
			}
		}
		back := stepTime(r.files[target].step)
		if err := os.Chtimes(path, back, back); err != nil {
			return err
		}
		mtimes[target] = back
	}
	return nil
}

// ---------------------------------------------------------------------------------------------------------
// layout family (clause 3 at block level): exports that cut through ONE TSM file holding several series with
// different time extents and several blocks per series.
//
// A layout gives, for each series i (tag t = layTag[i]; the TSM keys sort in index order), a slot subset AND a split
// of that subset into consecutive blocks: every (subset, split) pair is enumerated, (3^N+1)/2 per series for N slots,
// so a series has 1..N blocks of 1..N points, its blocks may span slots in which it has no point, and the extents of
// the series of one file differ in every way (late-only series before early-only series in key order and vice
// versa). The file is written block by block with the real TSMWriter (one Write call = one block, which is also how
// compactions produce blocks of uneven sizes) as the only TSM file of a fresh tsm1.Engine. For every range
// [cut(a), cut(b)], a <= b (a == b: the empty range between two slots), Engine.Export is called and every *.tsm entry
// of the archive is read with the real TSMReader. Reference model = the layout itself.
//
// Inclusion rule demanded (from the statement: "an export of a time range contains exactly the points in that range"):
// point granularity. must-include: every written point with start <= t <= end, once, with its value. must-exclude:
// every other point. The unchanged code filters at BLOCK granularity (a block is kept whole iff [min,max] of the
// block intersects the range): an out-of-range point that shares a block with the range is the registered finding
// export/extra-points/tombstones=false,partial=true and is reported under exactly that signature; an out-of-range
// point of a block that does not intersect the range, a missing in-range point, a wrong value, or a point that was
// never written each have their own signature.

var layTag = []string{"a", "b", "c"}

func layValue(ser, k int) float64 { return float64(1000 + 10*k + ser) }

func layKey(ser int) string { return "m,t=" + layTag[ser] + "#!~#v" }

type LayoutCase struct {
	Slots int `json:"slots"`
	// Series[i] = the blocks of series i in file order; a block is an ascending list of slots; blocks of a series
	// are ascending and disjoint. An empty list = the series is not in the file.
	Series [][][]int `json:"series"`
}

func (l LayoutCase) String() string {
	var sb strings.Builder
	for i, blocks := range l.Series {
		if i > 0 {
			sb.WriteString(" ")
		}
		sb.WriteString(layTag[i] + "@{")
		for _, blk := range blocks {
			sb.WriteString("[")
			for j, k := range blk {
				if j > 0 {
					sb.WriteString(",")
				}
				fmt.Fprintf(&sb, "%d", k)
			}
			sb.WriteString("]")
		}
		sb.WriteString("}")
	}
	return sb.String()
}

// valid: 1..3 series, slots ascending over the blocks of a series and inside [0, Slots).
func (l LayoutCase) valid() bool {
	if l.Slots < 1 || l.Slots > maxSlots || len(l.Series) < 1 || len(l.Series) > len(layTag) {
		return false
	}
	for _, blocks := range l.Series {
		last := -1
		for _, blk := range blocks {
			if len(blk) == 0 {
				return false
			}
			for _, k := range blk {
				if k <= last || k >= l.Slots {
					return false
				}
				last = k
			}
		}
	}
	return true
}

// layoutRanges: every [cut(a), cut(b)] with 0 <= a <= b <= n, widest first.
func layoutRanges(n int, empty bool) [][2]int {
	var out [][2]int
	lo := 1
	if empty {
		lo = 0
	}
	for w := n; w >= lo; w-- {
		for a := 0; a+w <= n; a++ {
			out = append(out, [2]int{a, a + w})
		}
	}
	return out
}

type tv struct {
	t int64
	v float64
}

// readTSM reads every key of a TSM file with the real reader: key -> points in file order, and key -> block extents.
func readTSM(path string) (keys []string, pts map[string][]tv, blocks map[string][][2]int64, err error) {
	fh, err := os.Open(path)
	if err != nil {
		return nil, nil, nil, err
	}
	r, err := tsm1.NewTSMReader(fh)
	if err != nil {
		fh.Close()
		return nil, nil, nil, err
	}
	defer r.Close()
	pts, blocks = map[string][]tv{}, map[string][][2]int64{}
	for i := 0; i < r.KeyCount(); i++ {
		kb, _ := r.KeyAt(i)
		key := string(kb)
		keys = append(keys, key)
		for _, e := range r.Entries(kb) {
			blocks[key] = append(blocks[key], [2]int64{e.MinTime, e.MaxTime})
		}
		vals, err := r.ReadAll(kb)
		if err != nil {
			return keys, pts, blocks, fmt.Errorf("ReadAll(%s): %w", key, err)
		}
		for _, v := range vals {
			f, ok := v.Value().(float64)
			if !ok {
				f = math.NaN()
			}
			pts[key] = append(pts[key], tv{v.UnixNano(), f})
		}
	}
	return keys, pts, blocks, nil
}

// layBase is what the engines of the layout family share inside one process: a real SeriesFile and tsi1 index (they
// only register the up to three series keys; Export never consults them). Every layout gets a FRESH tsm1.Engine on
// its own data and WAL directories, wired the way tsdb.Shard does it.
type layBase struct {
	root  string
	sfile *tsdb.SeriesFile
	idx   tsdb.Index
	opt   tsdb.EngineOptions
	n     int
}

type layIDSets []*tsdb.SeriesIDSet

func (a layIDSets) ForEach(f func(ids *tsdb.SeriesIDSet)) error {
	for _, v := range a {
		f(v)
	}
	return nil
}

var theLayBase *layBase

func layoutBase() (*layBase, error) {
	if theLayBase != nil {
		return theLayBase, nil
	}
	root := vlib.Scratch("c38-layout-")
	sfile := tsdb.NewSeriesFile(filepath.Join(root, tsdb.SeriesFileDirectory))
	if err := sfile.Open(); err != nil {
		os.RemoveAll(root)
		return nil, err
	}
	opt := tsdb.NewEngineOptions()
	opt.IndexVersion = tsdb.TSI1IndexName
	ids := tsdb.NewSeriesIDSet()
	opt.SeriesIDSets = layIDSets{ids}
	opt.CompactionLimiter = limiter.NewFixed(4)
	idx, err := tsdb.NewIndex(1, "db0", filepath.Join(root, "index"), ids, sfile, opt)
	if err == nil {
		err = idx.Open()
	}
	if err != nil {
		sfile.Close()
		os.RemoveAll(root)
		return nil, err
	}
	theLayBase = &layBase{root: root, sfile: sfile, idx: idx, opt: opt}
	return theLayBase, nil
}

// closeLayoutBase releases the shared part (end of Run / Replay).
func closeLayoutBase() {
	if b := theLayBase; b != nil {
		b.idx.Close()
		b.sfile.Close()
		os.RemoveAll(b.root)
		theLayBase = nil
	}
}

// newEngine creates the directories of a fresh engine, lets prepare put files into the data directory, and opens
// a tsm1.Engine on them, wired the way tsdb.Shard does it.
func (b *layBase) newEngine(prepare func(dataDir string) error) (string, *tsm1.Engine, error) {
	b.n++
	root := filepath.Join(b.root, fmt.Sprintf("e%d", b.n))
	dataDir := filepath.Join(root, "data")
	if err := os.MkdirAll(dataDir, 0o777); err != nil {
		return "", nil, err
	}
	if err := prepare(dataDir); err != nil {
		os.RemoveAll(root)
		return "", nil, err
	}
	e := tsm1.NewEngine(1, b.idx, dataDir, filepath.Join(root, "wal"), b.sfile, b.opt).(*tsm1.Engine)
	// what tsdb.Shard does for a store with EngineOptions.CompactionDisabled: the engine never starts its background
	// snapshot/compaction goroutines
	e.SetEnabled(false)
	if err := e.Open(context.Background()); err != nil {
		os.RemoveAll(root)
		return "", nil, err
	}
	return root, e, nil
}

type lverdict struct {
	probs      []problem
	outcomes   []string
	skipped    string
	nontrivial bool
	filtered   int // exports in which the file partially overlapped the range
	maxBlocks  int // blocks of the series with the most blocks
	fileDesc   string
}

func relS(t int64) string {
	if k := slotOf(t); k >= 0 {
		return fmt.Sprintf("s%d", k)
	}
	return fmt.Sprintf("t%+d", t-mini.Base)
}

func fmtTV(keys []string, m map[string][]tv) string {
	ks := append([]string(nil), keys...)
	sort.Strings(ks)
	var sb strings.Builder
	sb.WriteByte('{')
	n := 0
	for _, k := range ks {
		if len(m[k]) == 0 {
			continue
		}
		if n > 0 {
			sb.WriteString("; ")
		}
		n++
		sb.WriteString(k + ":")
		for _, p := range m[k] {
			fmt.Fprintf(&sb, " %s=%v", relS(p.t), p.v)
		}
	}
	sb.WriteByte('}')
	return sb.String()
}

// executeLayout builds the layout in one TSM file and checks the export of every range.
func executeLayout(lc LayoutCase, ranges [][2]int) (v lverdict, err error) {
	var wantKeys []string
	for s, blocks := range lc.Series {
		if len(blocks) != 0 {
			wantKeys = append(wantKeys, layKey(s))
		}
	}
	if len(wantKeys) == 0 {
		v.skipped = "layout/no-points"
		return v, nil
	}
	base, err := layoutBase()
	if err != nil {
		return v, err
	}
	// the source file is written block by block with the real TSMWriter (one Write call = one block), then a fresh
	// engine is opened on the directory
	root, e, err := base.newEngine(func(dataDir string) error {
		fh, err := os.OpenFile(filepath.Join(dataDir, tsm1.DefaultFormatFileName(1, 1)+"."+tsm1.TSMFileExtension), os.O_CREATE|os.O_RDWR|os.O_EXCL, 0o666)
		if err != nil {
			return err
		}
		w, err := tsm1.NewTSMWriter(fh)
		if err != nil {
			fh.Close()
			return err
		}
		for s, blocks := range lc.Series {
			for _, blk := range blocks {
				var vals []tsm1.Value
				for _, k := range blk {
					vals = append(vals, tsm1.NewValue(slotT(k), layValue(s, k)))
				}
				if err := w.Write([]byte(layKey(s)), vals); err != nil {
					w.Close()
					return err
				}
			}
		}
		if err := w.WriteIndex(); err != nil {
			w.Close()
			return err
		}
		return w.Close()
	})
	if err != nil {
		return v, err
	}
	defer os.RemoveAll(root)
	defer e.Close(false)
	dir := filepath.Join(root, "data")
	add := func(sig, format string, a ...any) {
		v.probs = append(v.probs, problem{sig, strings.ReplaceAll(strings.ReplaceAll(fmt.Sprintf(format, a...), root, "<fixture-dir>"), base.root, "<fixture-base>")})
	}

	// the source file as it is on disk (observation of the layout, not of the code under test)
	files, err := scanDir(dir)
	if err != nil {
		return v, err
	}
	var tsmNames []string
	for n := range files {
		if strings.HasSuffix(n, ".tsm") {
			tsmNames = append(tsmNames, n)
		}
	}
	if len(tsmNames) != 1 || len(files) != 1 {
		return v, fmt.Errorf("layout %v: expected exactly one TSM file, the shard holds %s", lc, fileList(files))
	}
	srcKeys, srcPts, srcBlocks, err := readTSM(filepath.Join(dir, tsmNames[0]))
	if err != nil {
		return v, fmt.Errorf("reading the source TSM file: %w", err)
	}
	if fmt.Sprint(srcKeys) != fmt.Sprint(wantKeys) {
		return v, fmt.Errorf("layout %v: source TSM file holds the keys %v, expected %v", lc, srcKeys, wantKeys)
	}
	written := map[string]map[int64]float64{}
	keyPos := map[string]int{}
	var fmin, fmax int64 = math.MaxInt64, math.MinInt64
	for i, key := range srcKeys {
		keyPos[key] = i
		written[key] = map[int64]float64{}
		for _, p := range srcPts[key] {
			written[key][p.t] = p.v
			fmin, fmax = min(fmin, p.t), max(fmax, p.t)
		}
		v.maxBlocks = max(v.maxBlocks, len(srcBlocks[key]))
	}
	// cross-check of the on-disk source against the layout (harness sanity): same blocks, same points
	for s, blocks := range lc.Series {
		key := layKey(s)
		if len(blocks) != len(srcBlocks[key]) {
			return v, fmt.Errorf("layout %v: source TSM file holds %d blocks of %s, expected %d", lc, len(srcBlocks[key]), key, len(blocks))
		}
		n := 0
		for i, blk := range blocks {
			if b := srcBlocks[key][i]; b[0] != slotT(blk[0]) || b[1] != slotT(blk[len(blk)-1]) {
				return v, fmt.Errorf("layout %v: block %d of %s is [%s,%s] in the source TSM file", lc, i, key, relS(b[0]), relS(b[1]))
			}
			for _, k := range blk {
				n++
				if got, ok := written[key][slotT(k)]; !ok || got != layValue(s, k) {
					return v, fmt.Errorf("layout %v: source TSM file does not hold %s s%d=%v", lc, key, k, layValue(s, k))
				}
			}
		}
		if n != len(written[key]) {
			return v, fmt.Errorf("layout %v: source TSM file holds %d points of %s, expected %d", lc, len(written[key]), key, n)
		}
	}
	{
		var sb strings.Builder
		for i, key := range srcKeys {
			if i > 0 {
				sb.WriteString("; ")
			}
			sb.WriteString(key + " blocks")
			for _, b := range srcBlocks[key] {
				fmt.Fprintf(&sb, " [%s,%s]", relS(b[0]), relS(b[1]))
			}
		}
		v.fileDesc = sb.String()
	}
	blockOf := func(key string, t int64) (b [2]int64, ok bool) {
		for _, b := range srcBlocks[key] {
			if b[0] <= t && t <= b[1] {
				return b, true
			}
		}
		return b, false
	}
	rdir := filepath.Join(root, "exported")
	if err := os.MkdirAll(rdir, 0o777); err != nil {
		return v, err
	}
	nser := len(srcKeys)

	for ri, ab := range ranges {
		start, end := cut(ab[0]), cut(ab[1])
		rng := fmt.Sprintf("range=[slot %d, slot %d]", ab[0], ab[1]-1)
		if ab[0] == ab[1] {
			rng = fmt.Sprintf("range=(empty, between slot %d and slot %d)", ab[0]-1, ab[0])
		}
		overlaps := func(b [2]int64) bool { return b[0] <= end && b[1] >= start }
		rel := "partial"
		switch {
		case fmin >= start && fmax <= end:
			rel = "inside"
		case fmax < start || fmin > end:
			rel = "outside"
		}
		// block structure seen in iteration order (key by key, blocks of a key in time order)
		nb, nov, keptAfterDropped, dropped := 0, 0, false, false
		for _, key := range srcKeys {
			for _, b := range srcBlocks[key] {
				nb++
				if overlaps(b) {
					nov++
					if dropped {
						keptAfterDropped = true
					}
				} else {
					dropped = true
				}
			}
		}
		ov := "some"
		switch nov {
		case 0:
			ov = "none"
		case nb:
			ov = "all"
		}
		if rel == "partial" {
			v.filtered++
			if nser >= 2 {
				v.nontrivial = true
			}
		}
		feat := fmt.Sprintf("file=%s,blocks-overlapping-range=%s", rel, ov)
		class := func(res string) {
			v.outcomes = append(v.outcomes, fmt.Sprintf("layout-export/%s/kept-after-dropped=%v/%s", feat, keptAfterDropped, res))
		}
		want := map[string][]tv{}
		for _, key := range srcKeys {
			for _, p := range srcPts[key] {
				if p.t >= start && p.t <= end {
					want[key] = append(want[key], p)
				}
			}
		}
		where := fmt.Sprintf("layout %v in one TSM file (%s), export of %s", lc, v.fileDesc, rng)

		var buf bytes.Buffer
		if err := e.Export(&buf, "db/rp/1", time.Unix(0, start), time.Unix(0, end)); err != nil {
			add("export-layout/export-error/"+feat, "%s: Engine.Export failed: %v; the export should hold %s", where, err, fmtTV(srcKeys, want))
			class("export-error")
			continue
		}
		ents, terr := readTar(buf.Bytes())
		if terr != nil {
			add("export-layout/archive-unreadable/"+feat, "%s: %v", where, terr)
			class("archive-unreadable")
			continue
		}
		got := map[string][]tv{}
		var gotKeys, names []string
		bad := false
		tr := tar.NewReader(bytes.NewReader(buf.Bytes()))
		ne := 0
		for {
			h, err := tr.Next()
			if err != nil {
				break
			}
			body, _ := io.ReadAll(tr)
			base := filepath.Base(filepath.FromSlash(h.Name))
			if h.Typeflag == tar.TypeDir || !strings.HasSuffix(base, ".tsm") {
				continue
			}
			names = append(names, fmt.Sprintf("%s(%dB)", base, len(body)))
			ne++
			p := filepath.Join(rdir, fmt.Sprintf("r%d-e%d.tsm", ri, ne))
			if err := os.WriteFile(p, body, 0o666); err != nil {
				return v, err
			}
			ks, ps, _, rerr := readTSM(p)
			os.Remove(p)
			if rerr != nil {
				add("export-layout/exported-file-unreadable/"+feat, "%s: archive entry %s cannot be read as a TSM file: %v", where, base, rerr)
				bad = true
				break
			}
			for _, k := range ks {
				if _, ok := got[k]; !ok {
					gotKeys = append(gotKeys, k)
				}
				got[k] = append(got[k], ps[k]...)
			}
		}
		_ = ents
		if bad {
			class("exported-file-unreadable")
			continue
		}
		allKeys := append([]string(nil), srcKeys...)
		for _, k := range gotKeys {
			if _, ok := written[k]; !ok {
				allKeys = append(allKeys, k)
			}
		}
		tail := fmt.Sprintf("the export should hold %s, the TSM files of the archive %v hold %s", fmtTV(allKeys, want), names, fmtTV(allKeys, got))
		sigs := map[string]string{}
		note := func(sig, what string) {
			if _, ok := sigs[sig]; !ok {
				sigs[sig] = what
			}
		}
		// must-include: every in-range point, once, with its value
		for _, key := range srcKeys {
			cnt := map[int64]int{}
			val := map[int64]float64{}
			for _, p := range got[key] {
				cnt[p.t]++
				val[p.t] = p.v
			}
			for _, p := range want[key] {
				pos := "first"
				if keyPos[key] > 0 {
					pos = "later"
				}
				blk := "straddles-range"
				if b, ok := blockOf(key, p.t); ok && b[0] >= start && b[1] <= end {
					blk = "inside-range"
				}
				switch {
				case cnt[p.t] == 0:
					note(fmt.Sprintf("export-layout/missing-points/file=%s,key=%s,block=%s", rel, pos, blk), fmt.Sprintf("%s %s=%v is inside the range but not in the export", key, relS(p.t), p.v))
				case cnt[p.t] > 1:
					note("export-layout/duplicated-points/file="+rel, fmt.Sprintf("%s %s is %d times in the export", key, relS(p.t), cnt[p.t]))
				case val[p.t] != p.v:
					note("export-layout/wrong-values/file="+rel, fmt.Sprintf("%s %s=%v is exported as %v", key, relS(p.t), p.v, val[p.t]))
				}
			}
		}
		// must-exclude: everything else
		granular := false
		for _, key := range gotKeys {
			for _, p := range got[key] {
				wv, ok := written[key][p.t]
				switch {
				case !ok:
					note("export-layout/foreign-points/file="+rel, fmt.Sprintf("%s %s=%v is in the export but was never written", key, relS(p.t), p.v))
				case p.t >= start && p.t <= end:
					// judged above
				case wv != p.v:
					note("export-layout/wrong-values/file="+rel, fmt.Sprintf("%s %s=%v is exported as %v", key, relS(p.t), wv, p.v))
				default:
					if b, ok := blockOf(key, p.t); ok && overlaps(b) {
						// block granularity of the unchanged code: the registered finding of the history family
						granular = true
						note("export/extra-points/tombstones=false,partial=true", fmt.Sprintf("%s %s=%v is outside the range (its block [%s,%s] intersects the range)", key, relS(p.t), p.v, relS(b[0]), relS(b[1])))
					} else {
						note("export-layout/extra-points/block-outside-range,file="+rel, fmt.Sprintf("%s %s=%v is outside the range and so is its whole block", key, relS(p.t), p.v))
					}
				}
			}
		}
		var ss []string
		for s := range sigs {
			ss = append(ss, s)
		}
		sort.Strings(ss)
		for _, s := range ss {
			add(s, "%s: %s; %s", where, sigs[s], tail)
		}
		switch {
		case len(ss) == 0:
			class("exact")
		case len(ss) == 1 && granular:
			class("block-granular-extra-points")
		default:
			class("other-difference")
		}
	}
	return v, nil
}

// seriesLayouts lists every (slot subset, split of the subset into consecutive blocks) of one series over n slots:
// (3^n+1)/2 entries, the empty series first, then by increasing first difference (slot absent < slot continues the
// current block < slot starts a new block).
func seriesLayouts(n int) [][][]int {
	var out [][][]int
	var rec func(k int, cur [][]int)
	rec = func(k int, cur [][]int) {
		if k == n {
			cp := make([][]int, len(cur))
			for i, b := range cur {
				cp[i] = append([]int(nil), b...)
			}
			out = append(out, cp)
			return
		}
		rec(k+1, cur) // absent
		if len(cur) > 0 {
			last := cur[len(cur)-1]
			cur[len(cur)-1] = append(last, k) // continues the current block
			rec(k+1, cur)
			cur[len(cur)-1] = last
		}
		rec(k+1, append(cur, []int{k})) // starts a new block
	}
	rec(0, nil)
	return out
}

// layouts visits every assignment of a series layout to each of nSer series (lexicographic in seriesLayouts order).
func layouts(nSer, nSlots int, visit func(LayoutCase) bool) bool {
	per := seriesLayouts(nSlots)
	cur := make([][][]int, nSer)
	var rec func(i int) bool
	rec = func(i int) bool {
		if i == nSer {
			return visit(LayoutCase{Slots: nSlots, Series: append([][][]int(nil), cur...)})
		}
		for _, sl := range per {
			cur[i] = sl
			if !rec(i + 1) {
				return false
			}
		}
		return true
	}
	return rec(0)
}

// layoutFamily: every layout of nSer series x nSlots slots; empty: also the empty ranges between neighbouring slots;
// late: visited after the history family (the big thorough family, so that a wall-budget cap hits it first).
type layoutFamily struct {
	nSer, nSlots int
	empty, late  bool
}

func layoutFamilies(thorough bool) []layoutFamily {
	if thorough {
		return []layoutFamily{{3, 2, true, false}, {2, 3, true, false}, {2, 4, true, false}, {3, 3, true, false}, {2, 5, true, true}}
	}
	return []layoutFamily{{3, 2, true, false}, {2, 3, true, false}}
}

func replayLayout(cs Case) (bool, string) {
	lc := *cs.Layout
	var sb strings.Builder
	fmt.Fprintf(&sb, "layout (one TSM file, blocks in brackets): %v\n", lc)
	if !lc.valid() {
		fmt.Fprintf(&sb, "malformed layout case\n")
		return false, sb.String()
	}
	var v lverdict
	var err error
	defer closeLayoutBase()
	p, d := vlib.Guard(func() { v, err = executeLayout(lc, layoutRanges(lc.Slots, true)) })
	if p {
		fmt.Fprintf(&sb, "PANIC: %s\n", d)
		return true, sb.String()
	}
	if err != nil {
		fmt.Fprintf(&sb, "fixture error: %v\n", err)
		return false, sb.String()
	}
	fmt.Fprintf(&sb, "source file: %s\n", v.fileDesc)
	n := 0
	for _, pr := range v.probs {
		if cs.Sig == "" || pr.sig == cs.Sig {
			fmt.Fprintf(&sb, "VIOLATED %s: %s\n", pr.sig, pr.detail)
			n++
		}
	}
	return n > 0, sb.String()
}

var layoutSamples int

func runLayout(c *vlib.Ctx, lc LayoutCase, ranges [][2]int) {
	var v lverdict
	var err error
	p, d := vlib.Guard(func() { v, err = executeLayout(lc, ranges) })
	c.Eval(1)
	switch {
	case p:
		fr := d[strings.LastIndex(d, "@ ")+2:]
		c.Violation("panic/"+fr, fmt.Sprintf("layout %v: %s", lc, d), Case{Layout: &lc})
		c.Outcome("panic")
		return
	case err != nil:
		c.HarnessError(fmt.Sprintf("layout %v: %v", lc, err))
		return
	case v.skipped != "":
		c.Outcome(v.skipped)
		return
	}
	if v.nontrivial {
		c.NontrivialN(1)
	}
	c.Extra("layout_exports", int64(len(ranges)))
	c.Extra("layout_exports_that_filter_a_partially_overlapping_file", int64(v.filtered))
	c.Outcome(fmt.Sprintf("layout/max-blocks-per-series=%d", v.maxBlocks))
	seen := map[string]bool{}
	for _, pr := range v.probs {
		if seen[pr.sig] {
			continue
		}
		seen[pr.sig] = true
		c.Violation(pr.sig, pr.detail, Case{Layout: &lc, Sig: pr.sig})
	}
	for _, o := range v.outcomes {
		c.Outcome(o)
	}
	if v.nontrivial && v.maxBlocks >= 2 && len(lc.Series) >= 2 && len(lc.Series[0]) != len(lc.Series[1]) && layoutSamples < 2 && c.WantSample() {
		layoutSamples++ // leave room for samples of the history family
		c.Sample(map[string]any{"layout": lc.String(), "source_file": v.fileDesc, "exports": len(ranges), "exports_filtering_a_partially_overlapping_file": v.filtered, "problems": len(v.probs)})
	}
}

func npoints(m map[string][]mini.Pt) int {
	n := 0
	for _, p := range m {
		n += len(p)
	}
	return n
}

func halfS(h bool) string {
	if h {
		return " + 30min"
	}
	return ""
}

func keysOf(m map[string]*fileInfo) []string {
	var ks []string
	for k, fi := range m {
		ks = append(ks, k+":"+fi.hash)
	}
	sort.Strings(ks)
	return ks
}

func allRanges() [][2]int {
	var out [][2]int
	for w := nSlots; w >= 1; w-- { // widest first: the full range is the simplest expectation
		for a := 0; a+w <= nSlots; a++ {
			out = append(out, [2]int{a, a + w})
		}
	}
	return out
}

// histories of exactly depth d over the alphabet, in lexicographic order; first restricts the first operation (nil = any).
func histories(d int, alphabet, first []string, visit func([]string) bool) bool {
	cur := make([]string, d)
	var rec func(i int) bool
	rec = func(i int) bool {
		if i == d {
			return visit(append([]string(nil), cur...))
		}
		al := alphabet
		if i == 0 && first != nil {
			al = first
		}
		for _, op := range al {
			cur[i] = op
			if !rec(i + 1) {
				return false
			}
		}
		return true
	}
	return rec(0)
}

func hasWrite(h []string) bool {
	for _, op := range h {
		if len(writesOf(op)) > 0 {
			return true
		}
	}
	return false
}

func TestCheck(t *testing.T) {
	vlib.Main(t, &vlib.Check{
		ID: "C38", Level: "exploration",
		Rule: "(A, layout family, visited first) a layout gives each of S series a slot subset of N slots AND a split of that subset into consecutive blocks; EVERY (subset, split) pair is enumerated, (3^N+1)/2 per series (quick: 3 series x 2 slots = 5^3 = 125 layouts and 2 series x 3 slots = 14^2 = 196 layouts; thorough: also 2 series x 4 slots = 41^2 = 1681 layouts, 3 series x 3 slots = 14^3 = 2744 layouts and, visited after the history family, 2 series x 5 slots = 122^2 = 14884 layouts; series m,t=a < m,t=b < m,t=c in TSM key order, float field v, value = 1000+10*slot+series). So a series has 1..N blocks of 1..N points, blocks may span slots without a point, and the series of one file have different extents in every key order (late-only series before early-only series and vice versa). The layout is written block by block with the real TSMWriter as the ONLY TSM file of a fresh tsm1.Engine; per layout Engine.Export(start,end) runs for EVERY pair of slot boundaries start <= end (N=2: 3 non-empty ranges + 3 empty ranges between neighbouring slots; N=3: 6+4; N=4: 10+5; N=5: 15+6), i.e. ranges covering the file, cutting through it on the left/right/both sides, lying strictly inside one block, lying in a gap of the file and lying outside it; every *.tsm entry of the tar archive is read with the real TSMReader and compared with the layout at POINT granularity: every written point with start <= t <= end must be present once with its value (missing-points / duplicated-points / wrong-values), every other point must be absent (extra point whose block intersects the range = the registered block-granularity finding export/extra-points/tombstones=false,partial=true; extra point of a block outside the range, or a point never written, have their own signatures), Export must not fail. non-trivial layouts = at least 2 series with points and at least one range that only partially overlaps the file (the file is rewritten block by block). " +
			"(B, history family) every history of length 1..3 (quick: 399 histories) resp. 1..4 plus every history of length 5 over {wL,wH,dM,s,c} that starts with a write (thorough: 2800 + 1250 histories) over the 7 operations {wL: write A@slots0,1 + B@slot0; wH: write A@slots2,3 + B@slot3; wA: (over)write A@slots0-3; dM: delete [slot1,slot2] of all series; dB: delete series B; s: snapshot cache->TSM; c: snapshot + full compaction} " +
			"on a fresh bucket (series m,t=a and m,t=b, float field v, 4 time slots in one shard, value = 100*step+10*slot+series so every write is distinguishable; blocks of at most 2 points, so wA gives series A two blocks per file); per history: (1) BackupShard(since=0) -> RestoreShard into an empty shard, reads compared; (2) BackupShard(since) for since = T(j), T(j)+30min, j=0..n+1 with file mtimes set by os.Chtimes to the step of their last content change, archive must contain every later-changed *.tsm/*.tombstone file byte-identically; (2b, sub-second placements) every tracked file F in turn gets the mtime T = T(step of F) + d for d in {0, 1ns, 500ms, 999999999ns} (os.Chtimes with nanosecond precision, read back with os.Stat; the other files keep their whole-hour step time) and BackupShard(since) runs for since in {T-1s, T-1ms, T-1ns, T, T+1ns, T+1s} (24 backups per file): the archive must contain a tracked file, byte-identically, iff its mtime is after since; (3) ExportShard for every one of the 10 ranges between slot boundaries (quick: the 6 ranges all, first half, second half, middle, first slot, last slot) -> ImportShard into an empty shard, reads compared with the source points in the range. " +
			"non-trivial = histories that contain a write (a shard exists); distinct by construction.",
		Assumptions: []string{
			"the oracle of restore/export is the source shard's own ReadFilter before the backup (statement: 'the same readable points and series'); series without points are not compared; a model of the history is only a diagnostic cross-check (evidence counter source_reads_differing_from_history_model)",
			"'file changed after t' is decided by content hashes between history steps; mtimes are set explicitly (2001-01-01 + step hours), so the mtime comparison of the code cannot make the oracle flaky; in family (2) only 'archive is a superset of the required files' is demanded",
			"family (2b) models 'the file changed at T' by setting its mtime to T with nanosecond precision (tmpfs keeps nanosecond mtimes; the value is read back and a placement that the file system rounds is not judged: outcome class file-system-rounds-mtimes). 'changed after since' is mtime > since at full precision, also when both fall into the same wall-clock second. The converse direction (a tracked file with mtime <= since is NOT in the incremental archive) is what makes the backup incremental; it has its own signature subsecond/unchanged-file-archived",
			"export range bounds lie between the time slots, so the statement's silence on inclusive/exclusive range ends does not matter",
			"inclusion rule of an export, taken from the statement ('contains exactly the points in that range'): POINT granularity - a point is required iff start <= t <= end and forbidden otherwise; nothing is demanded about blocks. The unchanged code keeps every block whose [min,max] intersects the range whole; the out-of-range points this drags in are reported under the signature of the already registered finding (export/extra-points/tombstones=false,partial=true) in both families, every other difference has its own signature. An Export call that returns an error for a range is a violation (export-error), as in the history family",
			"the build replaces the constant tsdb.DefaultMaxPointsPerBlock (1000) by 2 (shim.json 'consts', the same device as C03) so that the history family reaches several blocks per series and file with 4 points; the check refuses to run (harness error) if the constant is not 2. The layout family does not depend on it: its blocks are written explicitly (TSMWriter.Write = one block)",
			"layout family: the source file is built with the repo's TSMWriter, not through the write path (the subject is Export); it is read back with the real TSMReader before the exports and must hold exactly the keys, blocks and points of the layout (else harness error). Block extents used to CLASSIFY extra points come from the layout; the expected content comes from the layout alone",
			"the layout family calls tsm1.Engine.Export directly (tsdb.Store.ExportShard -> Shard.Export is a pass-through that the history family covers) on a fresh engine per layout; the engines of one process share one real (empty) SeriesFile + tsi1 index, which Export never consults, and are opened with SetEnabled(false) as tsdb.Shard does for a store with compactions disabled, so the file set is exactly the one file the harness wrote",
			"layout family: one TSM file per layout, no tombstones, empty cache and WAL, float values only; multi-file shards, tombstones, cache contents and engine-compacted files are the history family's part (2 series)",
			"tsi1.DefaultPartitionN is set to 1 (the INFLUXDB_EXP_TSI_PARTITIONS knob) to make the ~12 shard creations per history affordable",
			"ImportShard schedules a full compaction (background) on the import target; the target is read once right after the import and discarded",
			"the source shard's compaction PLANNER is replaced by one that never plans (Engine.CompactionPlan is an exported injection point): a delete starts the shard's background compaction goroutine although the fixture disabled compactions, and it would compact tombstoned files one wall-clock second later, in the middle of the checks. Compactions are the explicit 'c' operations",
			"if the shard directory nevertheless changes while an incremental backup runs, that backup is not judged (outcome class directory-changed-during-backup)",
		},
		QuickBudgetS: 80, ThoroughBudgetS: 800,
		Run: func(c *vlib.Ctx) {
			defer func(old uint64) { tsi1.DefaultPartitionN = old }(tsi1.DefaultPartitionN)
			tsi1.DefaultPartitionN = 1
			type fam struct {
				name            string
				d               int
				alphabet, first []string
			}
			fams := []fam{{"all histories of length 1", 1, ops, nil}, {"all histories of length 2", 2, ops, nil}, {"all histories of length 3", 3, ops, nil}}
			if c.Thorough() {
				fams = append(fams, fam{"all histories of length 4", 4, ops, nil},
					fam{"histories of length 5 over {wL,wH,dM,s,c} that start with a write", 5, []string{"wL", "wH", "dM", "s", "c"}, []string{"wL", "wH"}})
			}
			exports := allRanges()
			if c.Quick() {
				exports = [][2]int{{0, 4}, {0, 2}, {2, 4}, {1, 3}, {0, 1}, {3, 4}}
			}
			if tsdb.DefaultMaxPointsPerBlock != 2 {
				c.HarnessError(fmt.Sprintf("the small-block build constant is not in effect (tsdb.DefaultMaxPointsPerBlock = %d, want 2: shim.json)", tsdb.DefaultMaxPointsPerBlock))
				return
			}
			c.Note("tsdb.DefaultMaxPointsPerBlock", fmt.Sprint(tsdb.DefaultMaxPointsPerBlock))
			var idx int64
			defer closeLayoutBase()
			runLayouts := func(late bool) bool {
				for _, lf := range layoutFamilies(c.Thorough()) {
					if lf.late != late {
						continue
					}
					rs := layoutRanges(lf.nSlots, lf.empty)
					complete := layouts(lf.nSer, lf.nSlots, func(lc LayoutCase) bool {
						idx++
						if !c.Mine(idx) {
							return true
						}
						if c.Expired() {
							return false
						}
						runLayout(c, lc, rs)
						return true
					})
					if !complete {
						c.Cap(fmt.Sprintf("wall budget: a shard stopped inside the layout family %d series x %d slots (visited in enumeration order; the families before it, incl. the history family for a late one, are complete in that shard)", lf.nSer, lf.nSlots))
						return false
					}
				}
				return true
			}
			// small layout families first (simplest: one file, no history), the big thorough one after the histories
			if !runLayouts(false) {
				return
			}
			for _, fm := range fams {
				complete := histories(fm.d, fm.alphabet, fm.first, func(h []string) bool {
					idx++
					if !c.Mine(idx) {
						return true
					}
					if c.Expired() {
						return false
					}
					runOne(c, h, exports)
					return true
				})
				if !complete {
					c.Cap(fmt.Sprintf("wall budget: a shard stopped inside the family %q (visited in lexicographic order; its share of the earlier families is complete)", fm.name))
					return
				}
			}
			runLayouts(true)
		},
		Replay: func(c *vlib.Ctx, raw json.RawMessage) (bool, string) {
			var cs Case
			if err := json.Unmarshal(raw, &cs); err != nil {
				return false, err.Error()
			}
			defer func(old uint64) { tsi1.DefaultPartitionN = old }(tsi1.DefaultPartitionN)
			tsi1.DefaultPartitionN = 1
			if cs.Layout != nil {
				return replayLayout(cs)
			}
			var v verdict
			var err error
			p, d := vlib.Guard(func() { v, err = execute(c, cs.Ops, allRanges()) })
			var sb strings.Builder
			fmt.Fprintf(&sb, "history: %v\n", cs.Ops)
			if p {
				fmt.Fprintf(&sb, "PANIC: %s\n", d)
				return true, sb.String()
			}
			if err != nil {
				fmt.Fprintf(&sb, "fixture error: %v\n", err)
				return false, sb.String()
			}
			fmt.Fprintf(&sb, "source shard reads: %s\n", v.srcRead)
			n := 0
			for _, pr := range v.probs {
				if cs.Sig == "" || pr.sig == cs.Sig {
					fmt.Fprintf(&sb, "VIOLATED %s: %s\n", pr.sig, pr.detail)
					n++
				}
			}
			return n > 0, sb.String()
		},
	})
}

func runOne(c *vlib.Ctx, h []string, exports [][2]int) {
	var v verdict
	var err error
	p, d := vlib.Guard(func() { v, err = execute(c, h, exports) })
	c.Eval(1)
	switch {
	case p:
		fr := d[strings.LastIndex(d, "@ ")+2:]
		c.Violation("panic/"+fr, fmt.Sprintf("history %v: %s", h, d), Case{Ops: h})
		c.Outcome("panic")
		return
	case err != nil:
		c.HarnessError(fmt.Sprintf("history %v: %v", h, err))
		return
	case v.skipped != "":
		c.Outcome(v.skipped)
		return
	}
	if hasWrite(h) {
		c.NontrivialN(1)
	}
	seen := map[string]bool{}
	for _, pr := range v.probs {
		if seen[pr.sig] {
			continue
		}
		seen[pr.sig] = true
		c.Violation(pr.sig, fmt.Sprintf("history %v: %s", h, pr.detail), Case{Ops: h, Sig: pr.sig})
	}
	for _, o := range v.outcomes {
		c.Outcome(o)
	}
	if len(h) >= 3 && c.WantSample() {
		c.Sample(map[string]any{"history": h, "source_reads": v.srcRead, "problems": len(v.probs)})
	}
}
