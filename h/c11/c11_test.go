// C11: line protocol and series keys round-trip. Bounded-exhaustive over a declared string/value family, plus every
// tag order of 2- and 3-tag points over an alphabet around '=' (family perm).
package c11

import (
	"bytes"
	"encoding/json"
	"fmt"
	"math"
	"regexp"
	"runtime/debug"
	"sort"
	"strconv"
	"strings"
	"testing"
	"time"

	"github.com/influxdata/influxdb/v2/models"
	"verif/h/vlib"
)

// ---------------------------------------------------------------------------------------------
// case representation (JSON-serialisable, sufficient for replay)

// F is one typed field. T: f(loat, V = hex of Float64bits) i(nt64) u(int64) s(tring) b(ool).
type F struct {
	K string `json:"k"`
	T string `json:"t"`
	V string `json:"v"`
}

type Case struct {
	Fam    string      `json:"family"`
	M      string      `json:"measurement"`
	Tags   [][2]string `json:"tags"` // unsorted input, unique keys
	Fields []F         `json:"fields"`
	Units  int64       `json:"time_units"` // timestamp in units of Prec
	Prec   string      `json:"precision"`
	Varied []string    `json:"varied,omitempty"` // names of the components that range in this family
}

func (f F) value() interface{} {
	switch f.T {
	case "f":
		u, _ := strconv.ParseUint(f.V, 16, 64)
		return math.Float64frombits(u)
	case "i":
		v, _ := strconv.ParseInt(f.V, 10, 64)
		return v
	case "u":
		v, _ := strconv.ParseUint(f.V, 10, 64)
		return v
	case "b":
		return f.V == "true"
	}
	return f.V
}

func mult(prec string) int64 {
	switch prec {
	case "us":
		return 1e3
	case "ms":
		return 1e6
	case "s":
		return 1e9
	}
	return 1
}

// canonical, comparable rendering of a typed value (bit-exact for floats)
func canon(v interface{}) string {
	switch x := v.(type) {
	case float64:
		return fmt.Sprintf("float:%016x", math.Float64bits(x))
	case int64:
		return fmt.Sprintf("int:%d", x)
	case uint64:
		return fmt.Sprintf("uint:%d", x)
	case bool:
		return fmt.Sprintf("bool:%v", x)
	case string:
		return fmt.Sprintf("string:%q", x)
	}
	return fmt.Sprintf("other(%T):%v", v, v)
}

// want is the reference view of the point, written from the statement: the measurement, the tag set sorted by
// key, the field names with types and values, the timestamp.
type view struct {
	name   string
	tags   [][2]string
	fields []string // sorted "key\x00canon"
	ns     int64
}

func wantOf(cs Case) view {
	w := view{name: cs.M, ns: cs.Units * mult(cs.Prec)}
	w.tags = append(w.tags, cs.Tags...)
	sort.Slice(w.tags, func(i, j int) bool { return w.tags[i][0] < w.tags[j][0] }) // byte-wise, like bytes.Compare
	for _, f := range cs.Fields {
		w.fields = append(w.fields, f.K+"\x00"+canon(f.value()))
	}
	sort.Strings(w.fields)
	return w
}

func viewOfPoint(p models.Point) (view, error) {
	g := view{name: string(p.Name()), ns: p.UnixNano()}
	for _, t := range p.Tags() {
		g.tags = append(g.tags, [2]string{string(t.Key), string(t.Value)})
	}
	fs, err := p.Fields()
	if err != nil {
		return g, err
	}
	for k, v := range fs {
		g.fields = append(g.fields, k+"\x00"+canon(v))
	}
	sort.Strings(g.fields)
	return g, nil
}

func tagSetEqual(a, b [][2]string) bool {
	if len(a) != len(b) {
		return false
	}
	x := append([][2]string(nil), a...)
	y := append([][2]string(nil), b...)
	less := func(s [][2]string) func(i, j int) bool {
		return func(i, j int) bool { return s[i][0]+"\x00"+s[i][1] < s[j][0]+"\x00"+s[j][1] }
	}
	sort.Slice(x, less(x))
	sort.Slice(y, less(y))
	for i := range x {
		if x[i] != y[i] {
			return false
		}
	}
	return true
}

// diff returns the violated clauses (stable order) comparing got with want; withFields/withTime select the clauses.
func diff(w, g view, withFields, withTime bool) []string {
	var out []string
	if w.name != g.name {
		out = append(out, "name")
	}
	same := len(w.tags) == len(g.tags)
	if same {
		for i := range w.tags {
			same = same && w.tags[i] == g.tags[i]
		}
	}
	if !same {
		if tagSetEqual(w.tags, g.tags) {
			out = append(out, "tag-order")
		} else {
			out = append(out, "tags")
		}
	}
	if withFields && strings.Join(w.fields, "\x01") != strings.Join(g.fields, "\x01") {
		out = append(out, "fields")
	}
	if withTime && w.ns != g.ns {
		out = append(out, "time")
	}
	return out
}

// finding: one violated clause on one path
type finding struct {
	Path   string // String/ns, PrecisionString/<p>, AppendString, MarshalBinary, MakeKey/ParseKey, ...
	Clause string // name | tags | tag-order | fields | time | parse-error | point-count | panic | render-mismatch
	Detail string
}

var defaultTime = time.Unix(0, 1234567890123456789).UTC()

// build returns the point (or the NewPoint error).
func build(cs Case) (models.Point, models.Tags, error) {
	m := map[string]string{}
	for _, t := range cs.Tags {
		m[t[0]] = t[1]
	}
	tags := models.NewTags(m)
	fields := models.Fields{}
	for _, f := range cs.Fields {
		fields[f.K] = f.value()
	}
	// units→time without int64-nanosecond overflow (out-of-range candidates must reach NewPoint as such)
	per := int64(1e9) / mult(cs.Prec) // units per second
	sec, rem := cs.Units/per, cs.Units%per
	if rem < 0 {
		sec, rem = sec-1, rem+per
	}
	p, err := models.NewPoint(cs.M, tags, fields, time.Unix(sec, rem*mult(cs.Prec)).UTC())
	return p, tags, err
}

func parseOne(path string, line []byte, prec string, w view, out *[]finding) {
	pts, err := models.ParsePointsWithPrecision(append([]byte(nil), line...), defaultTime, prec)
	if err != nil {
		*out = append(*out, finding{path, "parse-error", fmt.Sprintf("line %q: %v", line, err)})
		return
	}
	if len(pts) != 1 {
		*out = append(*out, finding{path, "point-count", fmt.Sprintf("line %q parsed into %d points", line, len(pts))})
		return
	}
	g, ferr := viewOfPoint(pts[0])
	if ferr != nil {
		*out = append(*out, finding{path, "fields", fmt.Sprintf("line %q: Fields(): %v", line, ferr)})
		return
	}
	for _, cl := range diff(w, g, true, true) {
		*out = append(*out, finding{path, cl, fmt.Sprintf("line %q: want %s got %s", line, w.show(), g.show())})
	}
}

func (v view) show() string {
	return fmt.Sprintf("{name=%q tags=%q fields=%q ns=%d}", v.name, v.tags, v.fields, v.ns)
}

// group maps a path to the round trip of the statement it belongs to.
func group(path string) string {
	switch {
	case strings.HasPrefix(path, "MakeKey"):
		return "key"
	case strings.HasPrefix(path, "MarshalBinary"):
		return "binary"
	}
	return "line"
}

var frameRe = regexp.MustCompile(`(?m)^github\.com/influxdata/influxdb/v2/(models\.[^\n]*?)\(`)

// guarded runs f; a panic of repo code becomes a finding of the given group with the top repo frame.
func guarded(path string, fs *[]finding, f func()) {
	defer func() {
		if r := recover(); r != nil {
			frame := "?"
			if m := frameRe.FindStringSubmatch(string(debug.Stack())); m != nil {
				frame = m[1]
			}
			*fs = append(*fs, finding{path, "panic", fmt.Sprintf("panic: %v @ %s", r, frame)})
		}
	}()
	f()
}

// run executes every round trip of the statement for one case.
// accepted=false means NewPoint rejected the point (then nothing is round-tripped).
func run(cs Case) (accepted bool, rejectMsg string, fs []finding) {
	var p models.Point
	var tags models.Tags
	guarded("NewPoint", &fs, func() {
		var err error
		p, tags, err = build(cs)
		if err != nil {
			rejectMsg = err.Error()
			p = nil
		}
	})
	// reference validity (statement + NewPoint's documented rules): at least one field, non-empty field keys, finite
	// floats, time within [MinNanoTime, MaxNanoTime]
	valid := len(cs.Fields) > 0
	for _, f := range cs.Fields {
		if v, ok := f.value().(float64); ok && (math.IsNaN(v) || math.IsInf(v, 0)) {
			valid = false
		}
		valid = valid && f.K != ""
	}
	m := mult(cs.Prec)
	if cs.Units > models.MaxNanoTime/m || cs.Units < models.MinNanoTime/m {
		valid = false
	}
	if len(fs) == 0 && valid != (p != nil) {
		fs = append(fs, finding{"NewPoint", "accept-mismatch", fmt.Sprintf("reference validity=%v but NewPoint accepted=%v (%s)", valid, p != nil, rejectMsg)})
	}
	if p == nil {
		return false, rejectMsg, fs
	}
	accepted = true
	w := wantOf(cs)

	// 1. String() -> parse at ns ; AppendString must be the same rendering
	guarded("String/ns", &fs, func() {
		s := p.String()
		parseOne("String/ns", []byte(s), "ns", w, &fs)
		if a := p.AppendString(nil); string(a) != s {
			fs = append(fs, finding{"AppendString", "render-mismatch", fmt.Sprintf("String()=%q AppendString=%q", s, a)})
			parseOne("AppendString/ns", a, "ns", w, &fs)
		}
	})
	// 2. every supported precision in which the timestamp is representable
	for _, prec := range []string{"us", "ms", "s"} {
		if w.ns%mult(prec) != 0 {
			continue
		}
		guarded("PrecisionString/"+prec, &fs, func() {
			ps := p.PrecisionString(prec)
			parseOne("PrecisionString/"+prec, []byte(ps), prec, w, &fs)
			// the rendering and the parser must each agree with the reference unit conversion (a symmetric
			// multiplier error would survive the pure round trip)
			units := " " + strconv.FormatInt(w.ns/mult(prec), 10)
			if !strings.HasSuffix(ps, units) {
				fs = append(fs, finding{"PrecisionString/" + prec, "time-render", fmt.Sprintf("PrecisionString(%s)=%q does not end in %q", prec, ps, units)})
			}
			if s := p.String(); strings.HasSuffix(s, " "+strconv.FormatInt(w.ns, 10)) {
				ref := strings.TrimSuffix(s, " "+strconv.FormatInt(w.ns, 10)) + units
				parseOne("ReferenceLine/"+prec, []byte(ref), prec, w, &fs)
			}
		})
	}
	// 3. binary
	guarded("MarshalBinary", &fs, func() {
		b, err := p.MarshalBinary()
		if err != nil {
			fs = append(fs, finding{"MarshalBinary", "parse-error", "MarshalBinary: " + err.Error()})
		} else if q, err := models.NewPointFromBytes(b); err != nil {
			fs = append(fs, finding{"MarshalBinary", "parse-error", "NewPointFromBytes: " + err.Error()})
		} else if g, ferr := viewOfPoint(q); ferr != nil {
			fs = append(fs, finding{"MarshalBinary", "fields", "Fields(): " + ferr.Error()})
		} else {
			for _, cl := range diff(w, g, true, true) {
				fs = append(fs, finding{"MarshalBinary", cl, fmt.Sprintf("want %s got %s", w.show(), g.show())})
			}
		}
	})
	// 4. series key
	guarded("MakeKey/ParseKey", &fs, func() {
		key := models.MakeKey([]byte(cs.M), tags)
		if !bytes.Equal(key, p.Key()) {
			fs = append(fs, finding{"MakeKey", "render-mismatch", fmt.Sprintf("MakeKey=%q point.Key()=%q", key, p.Key())})
		}
		name, ptags := models.ParseKey(append([]byte(nil), key...))
		g := view{name: name}
		for _, t := range ptags {
			g.tags = append(g.tags, [2]string{string(t.Key), string(t.Value)})
		}
		for _, cl := range diff(w, g, false, false) {
			fs = append(fs, finding{"MakeKey/ParseKey", cl, fmt.Sprintf("key %q: want name=%q tags=%q got name=%q tags=%q", key, w.name, w.tags, g.name, g.tags)})
		}
		nb, btags := models.ParseKeyBytes(append([]byte(nil), key...))
		g2 := view{name: string(nb)}
		for _, t := range btags {
			g2.tags = append(g2.tags, [2]string{string(t.Key), string(t.Value)})
		}
		if g2.name != g.name || fmt.Sprint(g2.tags) != fmt.Sprint(g.tags) {
			for _, cl := range diff(w, g2, false, false) {
				fs = append(fs, finding{"MakeKey/ParseKeyBytes", cl, fmt.Sprintf("key %q: got name=%q tags=%q", key, g2.name, g2.tags)})
			}
		}
	})
	return
}

// ---------------------------------------------------------------------------------------------
// enumeration family

// Sigma is the component alphabet of the brief: a, space, comma, '=', '"', '\', é (2 bytes), control 0x01.
var Sigma = []string{"a", " ", ",", "=", "\"", "\\", "é", "\x01"}

func words(maxLen int) []string {
	var out []string
	cur := []string{""}
	for l := 1; l <= maxLen; l++ {
		var next []string
		for _, p := range cur {
			for _, s := range Sigma {
				next = append(next, p+s)
			}
		}
		out = append(out, next...)
		cur = next
	}
	return out
}

// components that range; "tk2" is the key of a second tag (exercises the sorted-tag clause).
var comps = []string{"m", "tk", "tv", "fk", "sv", "tk2"}

// base point: fixed names outside Sigma* so they never collide with a varied component.
func baseCase() map[string]string {
	return map[string]string{"m": "m0", "tk": "t1", "tv": "v1", "fk": "f1", "sv": "s1", "tk2": "t2"}
}

func mkCase(fam string, c map[string]string, varied []string) (Case, bool) {
	if c["tk"] == c["tk2"] {
		return Case{}, false // unique tag keys
	}
	return Case{Fam: fam, M: c["m"],
		Tags:   [][2]string{{c["tk"], c["tv"]}, {c["tk2"], "v2"}},
		Fields: []F{{c["fk"], "s", c["sv"]}, {"f0", "i", "7"}},
		Units:  1, Prec: "ns", Varied: varied}, true
}

var floatBits = []uint64{
	0, 1 << 63, // +0, -0
	math.Float64bits(1), math.Float64bits(-1), math.Float64bits(0.1), math.Float64bits(1.0 / 3),
	1, 1<<63 | 1, // smallest subnormals
	math.Float64bits(math.MaxFloat64), math.Float64bits(-math.MaxFloat64),
	0x0010000000000000,                                                                 // smallest normal
	math.Float64bits(1e21), math.Float64bits(1e-7), math.Float64bits(9007199254740993), // 2^53+1 (rounds)
	math.Float64bits(123456789.125),
	math.Float64bits(math.Inf(1)), math.Float64bits(math.Inf(-1)), 0x7ff8000000000001, 0xfff0000000000001, // rejected
}
var intVals = []int64{0, 1, -1, 1<<60 - 1, 1 << 60, math.MinInt64, math.MaxInt64, math.MinInt64 + 1, 999999999999999999, 1000000000000000000, -999999999999999999}
var uintVals = []uint64{0, 1, 1<<60 - 1, 1 << 63, math.MaxUint64, 9999999999999999999, 10000000000000000000}

func valueAlphabet() []F {
	var out []F
	for _, b := range floatBits {
		out = append(out, F{"v", "f", strconv.FormatUint(b, 16)})
	}
	for _, v := range intVals {
		out = append(out, F{"v", "i", strconv.FormatInt(v, 10)})
	}
	for _, v := range uintVals {
		out = append(out, F{"v", "u", strconv.FormatUint(v, 10)})
	}
	out = append(out, F{"v", "b", "true"}, F{"v", "b", "false"})
	for _, s := range []string{"", "a", "\"", "\\", "\\\"", "a b,c=d", "é\x01", "t", "1i", "\n"} {
		out = append(out, F{"v", "s", s})
	}
	return out
}

func timeUnits(prec string) []int64 {
	m := mult(prec)
	return []int64{models.MinNanoTime / m, -1, 0, 1, models.MaxNanoTime / m, models.MinNanoTime/m - 1, models.MaxNanoTime/m + 1}
}

// featureOf classifies a component string by what the escaping rules discriminate on.
func featureOf(s string) string {
	switch i := strings.IndexByte(s, '\\'); {
	case strings.HasSuffix(s, "\\"):
		return "backslash-last"
	case i >= 0:
		return "backslash-inner"
	case strings.ContainsAny(s, ", =\""):
		return "special"
	}
	return "plain"
}

func compValue(cs Case, name string) string {
	switch name {
	case "m":
		return cs.M
	case "tk":
		return cs.Tags[0][0]
	case "tv":
		return cs.Tags[0][1]
	case "tk2":
		return cs.Tags[1][0]
	case "fk":
		return cs.Fields[0].K
	case "sv":
		return cs.Fields[0].V
	}
	return ""
}

func withComp(cs Case, name, v string) Case {
	n := cs
	n.Tags = append([][2]string(nil), cs.Tags...)
	n.Fields = append([]F(nil), cs.Fields...)
	switch name {
	case "m":
		n.M = v
	case "tk":
		n.Tags[0][0] = v
	case "tv":
		n.Tags[0][1] = v
	case "tk2":
		n.Tags[1][0] = v
	case "fk":
		n.Fields[0].K = v
	case "sv":
		n.Fields[0].V = v
	}
	return n
}

func groupFails(fs []finding, g string) bool {
	for _, x := range fs {
		if group(x.Path) == g {
			return true
		}
	}
	return false
}

// report records ONE violation per (case, round-trip group): the first finding of the group. Signature classes:
//
//	<group>/tag-order                                  parsed tags are the right set in the wrong order
//	<group>/backslash/<component>[backslash-last|-inner]  the failure disappears when that component (which contains
//	                                                   a literal backslash) is reset to its base value
//	<path>/<clause>/<components>[plain|special]        anything else (no backslash involved)
//
// Culprits are found by re-running the case with each varied component reset to its base value (deterministic).
func report(c *vlib.Ctx, cs Case, fs []finding) {
	seen := map[string]bool{}
	for _, f := range fs {
		g := group(f.Path)
		if seen[g] {
			continue
		}
		seen[g] = true
		c.Violation(sigOf(cs, f), fmt.Sprintf("%s: %s — %s", f.Path, f.Clause, f.Detail), cs)
	}
}

func compKind(name string) string {
	if name == "tk2" {
		return "tk"
	}
	return name
}

func sigOf(cs Case, f finding) string {
	g := group(f.Path)
	if f.Clause == "tag-order" {
		return vlib.JoinSig(g, "tag-order")
	}
	if len(cs.Varied) == 0 {
		return vlib.JoinSig(cs.Fam, f.Path, f.Clause)
	}
	base := baseCase()
	var culprits []string
	for _, name := range cs.Varied {
		alt := withComp(cs, name, base[name])
		if alt.Tags[0][0] == alt.Tags[1][0] {
			continue
		}
		if _, _, afs := run(alt); !groupFails(afs, g) {
			culprits = append(culprits, name)
		}
	}
	if len(culprits) == 0 { // each varied component alone suffices
		culprits = cs.Varied
	}
	for _, name := range culprits {
		if ft := featureOf(compValue(cs, name)); strings.HasPrefix(ft, "backslash") {
			return vlib.JoinSig(g, "backslash", compKind(name)+"["+ft+"]")
		}
	}
	var parts []string
	for _, name := range culprits {
		parts = append(parts, compKind(name)+"["+featureOf(compValue(cs, name))+"]")
	}
	return vlib.JoinSig(f.Path, f.Clause, strings.Join(parts, "&"))
}

// ---------------------------------------------------------------------------------------------
// family "perm": the same point rendered with its tags in EVERY order.
//
// Line protocol does not prescribe a tag order, so every permutation of the escaped "key=value" components is a
// rendering of the same point; the statement demands that parsing it back yields "the same tag set in sorted order"
// and that the series key is the one built "from a name and tags". The line is assembled here from the escaped
// components (reference escaping: backslash before ',', '=', ' ' in tag keys/values, before ',' and ' ' in the
// measurement) — not by calling the code under test.

// permSigma*: bytes below '=' (0x3d) — space, ',', '-', '.', '0', ':', '<' — '=' itself, and bytes above it. ' ', ','
// and '=' need escaping. No backslash (see the known findings on literal backslashes).
var permSigmaQuick = []string{" ", "-", "0", ":", "=", ">", "a"}
var permSigmaThorough = []string{" ", ",", "-", ".", "0", ":", "<", "=", ">", "a", "z"}

// permValues[i] is the value of the tag with the i-th smallest key: deliberately not monotone in the key order.
var permValues = []string{"v2", "v1", "v3"}

func wordsOver(sigma []string, maxLen int) []string {
	var out []string
	cur := []string{""}
	for l := 1; l <= maxLen; l++ {
		var next []string
		for _, p := range cur {
			for _, s := range sigma {
				next = append(next, p+s)
			}
		}
		out = append(out, next...)
		cur = next
	}
	return out
}

func escapeRef(s, set string) string {
	if !strings.ContainsAny(s, set) {
		return s
	}
	var sb strings.Builder
	for i := 0; i < len(s); i++ {
		if strings.IndexByte(set, s[i]) >= 0 {
			sb.WriteByte('\\')
		}
		sb.WriteByte(s[i])
	}
	return sb.String()
}

func escTagRef(s string) string { return escapeRef(s, ",= ") }

// permLine renders the case with the tags in the order of cs.Tags; fields must be of type i (int64).
func permLine(cs Case) []byte {
	var sb strings.Builder
	sb.WriteString(escapeRef(cs.M, ", "))
	for _, t := range cs.Tags {
		sb.WriteString("," + escTagRef(t[0]) + "=" + escTagRef(t[1]))
	}
	for i, f := range cs.Fields {
		sep := ","
		if i == 0 {
			sep = " "
		}
		sb.WriteString(sep + escTagRef(f.K) + "=" + f.V + "i")
	}
	sb.WriteString(" " + strconv.FormatInt(cs.Units, 10))
	return []byte(sb.String())
}

// permRefKey is the series key of the statement: escaped name, then the escaped tags sorted bytewise by key.
func permRefKey(w view) string {
	var sb strings.Builder
	sb.WriteString(escapeRef(w.name, ", "))
	for _, t := range w.tags {
		sb.WriteString("," + escTagRef(t[0]) + "=" + escTagRef(t[1]))
	}
	return sb.String()
}

// sortedByEscapedText: got is exactly want re-ordered by the ESCAPED key text (the known defect line/tag-order).
func sortedByEscapedText(w, g view) bool {
	x := append([][2]string(nil), w.tags...)
	sort.SliceStable(x, func(i, j int) bool { return escTagRef(x[i][0]) < escTagRef(x[j][0]) })
	if len(x) != len(g.tags) {
		return false
	}
	for i := range x {
		if x[i] != g.tags[i] {
			return false
		}
	}
	return true
}

func permFeature(cs Case) string {
	esc, prefix, sorted := "plain-keys", "no-prefix-keys", "sorted-input"
	for i, t := range cs.Tags {
		if strings.ContainsAny(t[0], ",= ") {
			esc = "escaped-keys"
		}
		if i > 0 && cs.Tags[i-1][0] > t[0] {
			sorted = "unsorted-input"
		}
		for j, u := range cs.Tags {
			if i != j && len(t[0]) < len(u[0]) && strings.HasPrefix(u[0], t[0]) {
				prefix = "prefix-keys"
			}
		}
	}
	return esc + "/" + prefix + "/" + sorted
}

// runPerm parses the permuted rendering and checks every clause; findings in order of importance.
func runPerm(cs Case) (fs []finding) {
	w := wantOf(cs)
	line := permLine(cs)
	guarded("PermLine", &fs, func() {
		pts, err := models.ParsePointsWithPrecision(append([]byte(nil), line...), defaultTime, cs.Prec)
		if err != nil {
			fs = append(fs, finding{"PermLine", "parse-error", fmt.Sprintf("line %q: %v", line, err)})
			return
		}
		if len(pts) != 1 {
			fs = append(fs, finding{"PermLine", "point-count", fmt.Sprintf("line %q parsed into %d points", line, len(pts))})
			return
		}
		p := pts[0]
		g, ferr := viewOfPoint(p)
		if ferr != nil {
			fs = append(fs, finding{"PermLine", "fields", fmt.Sprintf("line %q: Fields(): %v", line, ferr)})
			return
		}
		for _, cl := range diff(w, g, true, true) {
			if cl == "tag-order" && sortedByEscapedText(w, g) {
				cl = "tag-order-by-escaped-text"
			}
			fs = append(fs, finding{"PermLine", cl, fmt.Sprintf("line %q: want %s got %s", line, w.show(), g.show())})
		}
		ref := permRefKey(w)
		if k := string(p.Key()); k != ref {
			fs = append(fs, finding{"PermLine/Key", "key-mismatch", fmt.Sprintf("line %q: Key()=%q, the key of the name and sorted tag set is %q", line, k, ref)})
		}
		var st models.Tags
		for _, t := range w.tags {
			st = append(st, models.NewTag([]byte(t[0]), []byte(t[1])))
		}
		if mk := string(models.MakeKey([]byte(cs.M), st)); mk != string(p.Key()) || mk != ref {
			fs = append(fs, finding{"PermLine/MakeKey", "key-mismatch", fmt.Sprintf("line %q: MakeKey(name, sorted tags)=%q Key()=%q reference %q", line, mk, p.Key(), ref)})
		}
		name, ptags := models.ParseKey(append([]byte(nil), p.Key()...))
		g2 := view{name: name}
		for _, t := range ptags {
			g2.tags = append(g2.tags, [2]string{string(t.Key), string(t.Value)})
		}
		for _, cl := range diff(w, g2, false, false) {
			fs = append(fs, finding{"PermLine/ParseKey", cl, fmt.Sprintf("line %q: ParseKey(Key()=%q) = name %q tags %q, want name %q tags %q", line, p.Key(), g2.name, g2.tags, w.name, w.tags)})
		}
	})
	return
}

// permSig: the known defect (tags ordered by escaped text) keeps its existing class line/tag-order; every other
// failure of the family is classed by path, clause and the discriminating features of the tag keys / input order.
func permSig(cs Case, f finding) string {
	if f.Clause == "tag-order-by-escaped-text" {
		return vlib.JoinSig("line", "tag-order")
	}
	return vlib.JoinSig("perm", f.Path, f.Clause, permFeature(cs))
}

func permute(n int, f func(p []int)) {
	p := make([]int, n)
	used := make([]bool, n)
	var rec func(d int)
	rec = func(d int) {
		if d == n {
			f(p)
			return
		}
		for i := 0; i < n; i++ {
			if !used[i] {
				used[i], p[d] = true, i
				rec(d + 1)
				used[i] = false
			}
		}
	}
	rec(0)
}

// explorePerm: every set of nTags distinct keys from `keys` (values by rank, see permValues) × every line order.
func explorePerm(c *vlib.Ctx, idx *int64, keys []string, nTags int) bool {
	sel := make([]int, nTags)
	var rec func(d, from int) bool
	rec = func(d, from int) bool {
		if d < nTags {
			for i := from; i < len(keys); i++ {
				sel[d] = i
				if !rec(d+1, i+1) {
					return false
				}
			}
			return true
		}
		if c.Expired() {
			c.Cap(fmt.Sprintf("perm family: budget expired inside the %d-tag sets", nTags))
			return false
		}
		ks := make([]string, nTags)
		for i, s := range sel {
			ks[i] = keys[s]
		}
		sort.Strings(ks) // rank order (bytewise)
		permute(nTags, func(p []int) {
			*idx++
			if !c.Mine(*idx) {
				return
			}
			cs := Case{Fam: "perm", M: "m0", Fields: []F{{"f0", "i", "7"}}, Units: 1, Prec: "ns"}
			for _, r := range p {
				cs.Tags = append(cs.Tags, [2]string{ks[r], permValues[r]})
			}
			c.Eval(1)
			c.NontrivialN(1)
			fs := runPerm(cs)
			ft := permFeature(cs)
			switch {
			case len(fs) == 0:
				c.Outcome(fmt.Sprintf("perm:%d-tags:parses-back-sorted/%s", nTags, ft))
			case fs[0].Clause == "tag-order-by-escaped-text":
				c.Outcome(fmt.Sprintf("perm:%d-tags:ordered-by-escaped-text(known)/%s", nTags, ft))
				c.Violation(permSig(cs, fs[0]), fmt.Sprintf("%s: %s — %s", fs[0].Path, fs[0].Clause, fs[0].Detail), cs)
			default:
				c.Outcome(fmt.Sprintf("perm:%d-tags:differs/%s/%s", nTags, fs[0].Clause, ft))
				c.Violation(permSig(cs, fs[0]), fmt.Sprintf("%s: %s — %s", fs[0].Path, fs[0].Clause, fs[0].Detail), cs)
			}
			if c.WantSample() && *idx%9973 == 0 {
				c.Sample(cs)
			}
		})
		return true
	}
	return rec(0, 0)
}

// ---------------------------------------------------------------------------------------------

func explore(c *vlib.Ctx) {
	var idx int64
	visit := func(cs Case, nontrivial bool) {
		idx++
		if !c.Mine(idx) {
			return
		}
		c.Eval(1)
		acc, rej, fs := run(cs)
		if nontrivial {
			c.NontrivialN(1)
		}
		switch {
		case len(fs) > 0:
			c.Outcome(cs.Fam + ":differs/" + group(fs[0].Path) + "/" + fs[0].Clause)
			report(c, cs, fs)
		case !acc:
			c.Outcome(cs.Fam + ":rejected-by-NewPoint")
			_ = rej
		default:
			c.Outcome(cs.Fam + ":round-trips")
		}
		if c.WantSample() && nontrivial && idx%977 == 0 {
			c.Sample(cs)
		}
	}

	short := words(2)
	long := short
	if c.Thorough() {
		long = words(3)
	}
	// family "strings": every unordered pair of components; A ranges over `long`, B over `short`, and (thorough)
	// also A over short / B over long, all other components fixed.
	for i := 0; i < len(comps); i++ {
		for j := i + 1; j < len(comps); j++ {
			a, b := comps[i], comps[j]
			for pass := 0; pass < 2; pass++ {
				wa, wb := long, short
				if pass == 1 {
					if !c.Thorough() {
						break
					}
					wa, wb = short, long
				}
				for _, sa := range wa {
					if c.Expired() {
						c.Cap("strings family: budget expired inside pair " + a + "," + b)
						return
					}
					for _, sb := range wb {
						if pass == 1 && len([]rune(sb)) <= 2 {
							continue // already visited in pass 0
						}
						cm := baseCase()
						cm[a], cm[b] = sa, sb
						cs, ok := mkCase("strings", cm, []string{a, b})
						if !ok {
							continue
						}
						visit(cs, sa != "a" || sb != "a")
					}
				}
			}
		}
	}
	// family "values": every value of the typed alphabet × every timestamp × every precision, with a second field
	for _, prec := range []string{"ns", "us", "ms", "s"} {
		for _, u := range timeUnits(prec) {
			for _, fv := range valueAlphabet() {
				for _, second := range []F{{"w", "i", "-1"}, {"a", "s", "x,y"}} {
					cs := Case{Fam: "values", M: "m0", Tags: [][2]string{{"t1", "v1"}}, Fields: []F{fv, second}, Units: u, Prec: prec}
					visit(cs, true)
				}
			}
		}
	}
	// family "shape": 0..3 tags in every insertion order is irrelevant (NewTags sorts); no tags / no time-zero
	for _, nt := range []int{0, 1, 3} {
		cs := Case{Fam: "shape", M: "m0", Fields: []F{{"f", "f", strconv.FormatUint(math.Float64bits(2.5), 16)}}, Units: 5, Prec: "s"}
		for k := 0; k < nt; k++ {
			cs.Tags = append(cs.Tags, [2]string{fmt.Sprintf("k%d", nt-k), fmt.Sprintf("v%d", k)})
		}
		visit(cs, true)
	}
	// family "perm": every set of 2 tags with keys of length 1–3 and every set of 3 tags with keys of length 1–2 over
	// permSigma, rendered in every tag order (2! / 3! lines per set)
	sigma := permSigmaQuick
	if c.Thorough() {
		sigma = permSigmaThorough
	}
	if !explorePerm(c, &idx, wordsOver(sigma, 3), 2) {
		return
	}
	explorePerm(c, &idx, wordsOver(sigma, 2), 3)
}

func TestCheck(t *testing.T) {
	vlib.Main(t, &vlib.Check{
		ID: "C11", Level: "exploration",
		Rule: "family strings: for every unordered pair of the components {measurement, tag key, tag value, field key, string field value, second tag key} both components range over all strings over Σ={a,space,comma,=,\",\\,é,0x01} of length 1–2 (thorough: one of the two up to length 3), the other components fixed (point has 2 tags, 2 fields); family values: 19 float bit patterns (4 rejected: ±Inf/NaN) + 11 int64 + 7 uint64 + 2 bool + 10 strings × 7 timestamps {Min,−1,0,1,Max,Min−1,Max+1 in units of the precision} × precisions {ns,us,ms,s} × 2 companion fields; NewPoint must accept exactly the reference-valid points (≥1 field, non-empty field keys, finite floats, time in [MinNanoTime,MaxNanoTime]); accepted points are round-tripped through String/AppendString→ParsePointsWithPrecision(ns), PrecisionString(p)→ParsePointsWithPrecision(p) for every p∈{us,ms,s} dividing the timestamp (plus: rendered timestamp = ns/unit, and a reference-rendered line at precision p parses to the same ns), MarshalBinary→NewPointFromBytes, MakeKey→ParseKey/ParseKeyBytes; oracle = equality of name, tags sorted bytewise by key, field name/type/value (Float64bits-exact), UnixNano; family perm: every set of 2 tags with distinct keys ranging over all strings of length 1–3, and every set of 3 tags with keys of length 1–2, over Σp={space,-,0,:,=,>,a} (thorough: Σp={space,comma,-,.,0,:,<,=,>,a,z}) i.e. bytes below, equal to and above '=' including every proper-prefix key pair; tag values v2,v1,v3 by key rank (not monotone in the key); the line is assembled by the harness from the reference-escaped components with the tags in EVERY order (2!/3! lines per set) and parsed with ParsePointsWithPrecision(ns): Tags() must be the tag set sorted bytewise by key, name/fields/time equal, Key() = escaped name + escaped tags sorted by key = MakeKey(name, sorted tags), and ParseKey(Key()) must return the name and tag set (a mis-order that is exactly the order of the ESCAPED key texts is the known class line/tag-order); non-trivial = every case except the all-'a' string pair (cases distinct by construction)",
		Assumptions: []string{
			"a 'valid point' is one models.NewPoint accepts with non-empty measurement, tag keys, tag values and field keys",
			"strings longer than 3 symbols and bytes outside Σ (e.g. newline, '#', tab, NUL, invalid UTF-8) are not covered",
			"line protocol does not prescribe a tag order: a line with the escaped tags of a point in any order is a rendering of that point (family perm); more than 3 tags per line are not permuted",
		},
		QuickBudgetS: 40, ThoroughBudgetS: 800,
		Run: explore,
		Replay: func(c *vlib.Ctx, raw json.RawMessage) (bool, string) {
			var cs Case
			if err := json.Unmarshal(raw, &cs); err != nil {
				return false, err.Error()
			}
			if cs.Fam == "perm" {
				fs := runPerm(cs)
				var sb strings.Builder
				fmt.Fprintf(&sb, "case=%s line=%q\n", raw, permLine(cs))
				for _, f := range fs {
					fmt.Fprintf(&sb, "  %s: %s — %s\n", f.Path, f.Clause, f.Detail)
				}
				return len(fs) > 0, sb.String()
			}
			acc, rej, fs := run(cs)
			var sb strings.Builder
			fmt.Fprintf(&sb, "case=%s accepted=%v %s\n", raw, acc, rej)
			for _, f := range fs {
				fmt.Fprintf(&sb, "  %s: %s — %s\n", f.Path, f.Clause, f.Detail)
			}
			return len(fs) > 0, sb.String()
		},
	})
}
