// C32: the write API stores all of a batch or reports why not.
//
// Two bounded-exhaustive families on the real code:
//
//	http: every request of a finite family through the real http.WriteHandler (router, decodeWriteRequest,
//	      points.BatchReadCloser, kit/io.LimitedReadCloser, points.Parser, error handler) with a recording points
//	      writer and in-memory org/bucket lookup;
//	lrc:  kit/io.LimitedReadCloser alone for every (body length, limit, read-chunk size, EOF style).
//
// The oracle is the property statement transcribed (see expectHTTP / runLRC); it never calls the code under test.
package c32

import (
	"bytes"
	"compress/gzip"
	"context"
	"encoding/json"
	"errors"
	"fmt"
	"io"
	"net/http"
	"net/http/httptest"
	"regexp"
	"sort"
	"strconv"
	"strings"
	"testing"

	influxdb "github.com/influxdata/influxdb/v2"
	pcontext "github.com/influxdata/influxdb/v2/context"
	ihttp "github.com/influxdata/influxdb/v2/http"
	"github.com/influxdata/influxdb/v2/http/metric"
	kitio "github.com/influxdata/influxdb/v2/kit/io"
	"github.com/influxdata/influxdb/v2/kit/platform"
	kithttp "github.com/influxdata/influxdb/v2/kit/transport/http"
	"github.com/influxdata/influxdb/v2/models"
	"github.com/influxdata/influxdb/v2/tsdb"
	"go.uber.org/zap"
	"verif/h/vlib"
)

// ---------------------------------------------------------------- line alphabet

type lineKind struct {
	Name string
	Text string
	// for valid lines: the point the statement expects to be stored
	Valid  bool
	Bad    bool // malformed
	Key    string
	Fields string
	TS     int64 // in request precision units
}

var longVal = strings.Repeat("x", 600) // crosses io.ReadAll's first 512-byte buffer

var kinds = []lineKind{
	{Name: "v1", Text: "m v=1 1", Valid: true, Key: "m", Fields: "v=1", TS: 1},
	{Name: "v2", Text: "cpu,t=a f=2i 2", Valid: true, Key: "cpu,t=a", Fields: "f=2", TS: 2},
	{Name: "badA", Text: "alpha", Bad: true},     // no fields
	{Name: "badB", Text: "beta w= 3", Bad: true}, // missing field value
	{Name: "empty", Text: ""},
	{Name: "comment", Text: "#c"},
	{Name: "long", Text: `big s="` + longVal + `" 4`, Valid: true, Key: "big", Fields: "s=" + longVal, TS: 4},
}

var precMult = map[string]int64{"ns": 1, "us": 1e3, "ms": 1e6, "s": 1e9}
var precisions = []string{"ns", "us", "ms", "s"}

// writer answers
const (
	wOK       = "ok"
	wPartial3 = "partial3"
	wPartial7 = "partial7"
	wHard     = "hard"
)

var writerAnswers = []string{wOK, wPartial3, wPartial7, wHard}

// limit placement relative to the decoded body size
var limitModes = []string{"none", "size-1", "size", "size+1"}

// ---------------------------------------------------------------- case

type Case struct {
	Family string `json:"family"` // "http" | "lrc"
	// http
	Lines     []int  `json:"lines,omitempty"` // indices into kinds
	TrailNL   bool   `json:"trailing_newline,omitempty"`
	Enc       string `json:"encoding,omitempty"`  // identity | gzip
	EOF       string `json:"eof_style,omitempty"` // "with-data": last Read returns (n, io.EOF) like a net/http Content-Length body; "separate": (n,nil) then (0,io.EOF) like a chunked body whose terminating chunk arrives later / bytes.Reader
	Limit     string `json:"limit,omitempty"`     // none | size-1 | size | size+1 (relative to decoded body size)
	Precision string `json:"precision,omitempty"`
	Writer    string `json:"writer,omitempty"`
	// lrc
	BodyLen int `json:"body_len,omitempty"`
	LimitN  int `json:"limit_n,omitempty"`
	Chunk   int `json:"chunk,omitempty"`
}

func (cs Case) body() []byte {
	var parts []string
	for _, k := range cs.Lines {
		parts = append(parts, kinds[k].Text)
	}
	s := strings.Join(parts, "\n")
	if cs.TrailNL {
		s += "\n"
	}
	return []byte(s)
}

// ---------------------------------------------------------------- fixtures

// styledReader delivers data in one of the two EOF styles allowed by io.Reader.
type styledReader struct {
	data     []byte
	withData bool
	closed   int
	polls    int
}

func (r *styledReader) Read(p []byte) (int, error) {
	if len(p) == 0 {
		// a wrapper that polls with an empty buffer forever would hang the check: turn the livelock into a panic
		// (deterministic: counts calls, not time)
		if r.polls++; r.polls > 100000 {
			panic("request body polled 100000 times with an empty buffer (livelock)")
		}
	}
	if len(r.data) == 0 {
		return 0, io.EOF
	}
	n := copy(p, r.data)
	r.data = r.data[n:]
	if r.withData && len(r.data) == 0 {
		return n, io.EOF
	}
	return n, nil
}
func (r *styledReader) Close() error { r.closed++; return nil }

type recPoint struct {
	Key    string
	Fields string
	TS     int64
}

type recWriter struct {
	answer string
	calls  int
	points []recPoint
}

func renderFields(p models.Point) string {
	f, err := p.Fields()
	if err != nil {
		return "fields-error:" + err.Error()
	}
	var ks []string
	for k := range f {
		ks = append(ks, k)
	}
	sort.Strings(ks)
	var out []string
	for _, k := range ks {
		out = append(out, fmt.Sprintf("%s=%v", k, f[k]))
	}
	return strings.Join(out, ",")
}

func (w *recWriter) WritePoints(ctx context.Context, orgID, bucketID platform.ID, pts []models.Point) error {
	w.calls++
	for _, p := range pts {
		w.points = append(w.points, recPoint{Key: string(p.Key()), Fields: renderFields(p), TS: p.UnixNano()})
	}
	switch w.answer {
	case wPartial3:
		return tsdb.PartialWriteError{Reason: "field type conflict", Dropped: 3}
	case wPartial7:
		return tsdb.PartialWriteError{Reason: "points beyond retention policy", Dropped: 7}
	case wHard:
		return errors.New("engine closed")
	}
	return nil
}

const (
	orgID    = platform.ID(0x0a)
	bucketID = platform.ID(0x0b)
)

type orgSvc struct{ influxdb.OrganizationService }

func (orgSvc) FindOrganization(ctx context.Context, f influxdb.OrganizationFilter) (*influxdb.Organization, error) {
	return &influxdb.Organization{ID: orgID, Name: "o"}, nil
}

type bucketSvc struct{ influxdb.BucketService }

func (bucketSvc) FindBucket(ctx context.Context, f influxdb.BucketFilter) (*influxdb.Bucket, error) {
	return &influxdb.Bucket{ID: bucketID, OrgID: orgID, Name: "b"}, nil
}

func gz(b []byte) []byte {
	var buf bytes.Buffer
	zw := gzip.NewWriter(&buf)
	zw.Write(b)
	zw.Close()
	return buf.Bytes()
}

// ---------------------------------------------------------------- http family

type httpObs struct {
	Status  int
	Code    string
	Message string
	Calls   int
	Points  []recPoint
	Panic   string
}

func runHTTP(cs Case, gzCache map[string][]byte) httpObs {
	body := cs.body()
	wire := body
	if cs.Enc == "gzip" {
		if gzCache != nil {
			if z, ok := gzCache[string(body)]; ok {
				wire = z
			} else {
				wire = gz(body)
				gzCache[string(body)] = wire
			}
		} else {
			wire = gz(body)
		}
	}
	var opts []ihttp.WriteHandlerOption
	switch cs.Limit {
	case "size-1":
		opts = append(opts, ihttp.WithMaxBatchSizeBytes(int64(len(body))-1))
	case "size":
		opts = append(opts, ihttp.WithMaxBatchSizeBytes(int64(len(body))))
	case "size+1":
		opts = append(opts, ihttp.WithMaxBatchSizeBytes(int64(len(body))+1))
	}
	w := &recWriter{answer: cs.Writer}
	h := ihttp.NewWriteHandler(zap.NewNop(), &ihttp.WriteBackend{
		HTTPErrorHandler:    kithttp.NewErrorHandler(zap.NewNop()),
		WriteEventRecorder:  &metric.NopEventRecorder{},
		PointsWriter:        w,
		BucketService:       bucketSvc{},
		OrganizationService: orgSvc{},
	}, opts...)

	req := httptest.NewRequest(http.MethodPost, "/api/v2/write?org=o&bucket=b&precision="+cs.Precision, nil)
	req.Body = &styledReader{data: append([]byte(nil), wire...), withData: cs.EOF == "with-data"}
	if cs.Enc == "gzip" {
		req.Header.Set("Content-Encoding", "gzip")
	}
	perm, _ := influxdb.NewPermissionAtID(bucketID, influxdb.WriteAction, influxdb.BucketsResourceType, orgID)
	auth := &influxdb.Authorization{Status: influxdb.Active, OrgID: orgID, Permissions: []influxdb.Permission{*perm}}
	req = req.WithContext(pcontext.SetAuthorizer(req.Context(), auth))
	rec := httptest.NewRecorder()
	var o httpObs
	if p, d := vlib.Guard(func() { h.ServeHTTP(rec, req) }); p {
		o.Panic = d
		return o
	}
	o.Status = rec.Code
	var e struct {
		Code    string `json:"code"`
		Message string `json:"message"`
	}
	if rec.Body.Len() > 0 {
		if json.Unmarshal(rec.Body.Bytes(), &e) == nil {
			o.Code, o.Message = e.Code, e.Message
		} else {
			o.Message = rec.Body.String()
		}
	}
	o.Calls, o.Points = w.calls, w.points
	return o
}

func containsNumber(msg string, n int) bool {
	re := regexp.MustCompile(`(^|[^0-9])` + strconv.Itoa(n) + `([^0-9]|$)`)
	return re.MatchString(msg)
}

// judgeHTTP transcribes the statement. It returns "" if the observation is allowed, else (clause, features).
func judgeHTTP(cs Case, o httpObs) (clause, feat, why string) {
	body := cs.body()
	size := len(body)
	limited, limit := false, 0
	switch cs.Limit {
	case "size-1":
		limit = size - 1
	case "size":
		limit = size
	case "size+1":
		limit = size + 1
	}
	limited = limit > 0 // a limit of 0 or less means "no limit configured"
	var bad []string
	var want []recPoint
	for _, k := range cs.Lines {
		lk := kinds[k]
		if lk.Bad {
			bad = append(bad, lk.Text)
		}
		if lk.Valid {
			want = append(want, recPoint{Key: lk.Key, Fields: lk.Fields, TS: lk.TS * precMult[cs.Precision]})
		}
	}
	base := fmt.Sprintf("enc=%s,eof=%s", cs.Enc, cs.EOF)
	if o.Panic != "" {
		return "panic", o.Panic, o.Panic
	}
	tooLarge := limited && size > limit
	malformed := len(bad) > 0

	if tooLarge {
		// "A body larger than the configured limit, measured after gzip decoding, is answered with 413 and stores nothing"
		// (if a line is also malformed the 400 clause applies as well: accept either status, still nothing stored)
		if len(o.Points) != 0 {
			return "over-limit-stored-points", base, fmt.Sprintf("decoded size %d > limit %d but %d points reached the writer", size, limit, len(o.Points))
		}
		if o.Status != 413 && !(malformed && o.Status == 400) {
			return "over-limit-not-413", base + fmt.Sprintf(",status=%d", o.Status), fmt.Sprintf("decoded size %d > limit %d answered %d", size, limit, o.Status)
		}
		return
	}
	// "while a body at or under the limit is accepted"
	if o.Status == 413 {
		d := "no-limit"
		if limited {
			d = fmt.Sprintf("size-limit=%d", size-limit)
		}
		return "at-or-under-limit-413", base + "," + d, fmt.Sprintf("decoded size %d, limit %s (%d): answered 413 %q", size, cs.Limit, limit, o.Message)
	}
	if malformed {
		// "stores nothing and is answered with 400 naming the bad lines"
		if len(o.Points) != 0 {
			return "malformed-stored-points", base, fmt.Sprintf("%d points reached the writer although lines %q are malformed", len(o.Points), bad)
		}
		if o.Status != 400 {
			return "malformed-not-400", base + fmt.Sprintf(",status=%d", o.Status), fmt.Sprintf("malformed lines %q answered %d", bad, o.Status)
		}
		for _, b := range bad {
			if !strings.Contains(o.Message, b) {
				return "malformed-line-not-named", base, fmt.Sprintf("400 message %q does not name bad line %q", o.Message, b)
			}
		}
		return
	}
	// well-formed, within the limit
	sortPts := func(p []recPoint) []recPoint {
		q := append([]recPoint(nil), p...)
		sort.Slice(q, func(i, j int) bool {
			if q[i].Key != q[j].Key {
				return q[i].Key < q[j].Key
			}
			return q[i].TS < q[j].TS
		})
		return q
	}
	if o.Status == 204 {
		// "answered with 204 only after every point was stored"
		if cs.Writer != wOK && o.Calls > 0 {
			return "204-although-writer-failed", base + ",writer=" + cs.Writer, "204 although the points writer returned an error"
		}
		if cs.Writer != wOK && len(want) > 0 {
			return "204-without-store", base + ",writer=" + cs.Writer, "204 although the writer was never asked"
		}
		got, exp := sortPts(o.Points), sortPts(want)
		if fmt.Sprint(got) != fmt.Sprint(exp) {
			return "204-points-differ", base + ",prec=" + cs.Precision, fmt.Sprintf("204 but writer received %v, body holds %v", trimPts(got), trimPts(exp))
		}
		return
	}
	// not 204: must be an error
	if o.Status >= 200 && o.Status < 300 {
		return "wellformed-odd-2xx", base + fmt.Sprintf(",status=%d", o.Status), fmt.Sprintf("status %d", o.Status)
	}
	if cs.Writer == wOK {
		// the writer stored everything and said so, and nothing is wrong with the request
		return "wellformed-stored-but-error", base + fmt.Sprintf(",status=%d", o.Status), fmt.Sprintf("writer ok, request valid, yet status %d %q", o.Status, o.Message)
	}
	switch cs.Writer {
	case wPartial3, wPartial7:
		n := 3
		if cs.Writer == wPartial7 {
			n = 7
		}
		// "or with an error that states how many points were dropped"
		if !containsNumber(o.Message, n) {
			return "partial-write-count-missing", base, fmt.Sprintf("writer dropped %d points; error message %q does not state it", n, o.Message)
		}
	case wHard:
		// A hard writer error carries no dropped count; the statement is read as silent about it beyond "not 204".
	}
	return
}

// trimPts renders points for messages: long field values are shortened, and a timestamp that can only be the
// server's wall clock (a line that lost its timestamp) is shown as "wallclock" so that observations stay deterministic.
func trimPts(p []recPoint) []string {
	q := make([]string, len(p))
	for i, x := range p {
		if len(x.Fields) > 20 {
			x.Fields = x.Fields[:20] + fmt.Sprintf("…(%d)", len(x.Fields))
		}
		ts := strconv.FormatInt(x.TS, 10)
		if x.TS > 1e15 || x.TS < 0 {
			ts = "wallclock"
		}
		q[i] = fmt.Sprintf("{%s %s %s}", x.Key, x.Fields, ts)
	}
	return q
}

func obsString(o httpObs) string {
	return fmt.Sprintf("status=%d code=%q message=%q writer_calls=%d points=%v panic=%q", o.Status, o.Code, trunc(o.Message, 200), o.Calls, trimPts(o.Points), o.Panic)
}

func trunc(s string, n int) string {
	if len(s) > n {
		return s[:n] + "…"
	}
	return s
}

// ---------------------------------------------------------------- LimitedReadCloser family

type lrcObs struct {
	Read     int
	Data     string
	CloseErr string
	Close2   string
	Closed   int
	ReadErr  string
}

func runLRC(cs Case) lrcObs {
	data := []byte("abcdefghijklmnop")[:cs.BodyLen]
	src := &styledReader{data: append([]byte(nil), data...), withData: cs.EOF == "with-data"}
	l := kitio.NewLimitedReadCloser(src, int64(cs.LimitN))
	var got []byte
	var o lrcObs
	buf := make([]byte, cs.Chunk)
	for i := 0; i < 64; i++ { // full read: until EOF (bounded so a broken reader cannot hang the check)
		n, err := l.Read(buf)
		got = append(got, buf[:n]...)
		if err == io.EOF {
			break
		}
		if err != nil {
			o.ReadErr = err.Error()
			break
		}
		if i == 63 {
			o.ReadErr = "no EOF after 64 reads"
		}
	}
	o.Read, o.Data = len(got), string(got)
	if err := l.Close(); err != nil {
		o.CloseErr = err.Error()
	}
	if err := l.Close(); err != nil {
		o.Close2 = err.Error()
	}
	o.Closed = src.closed
	return o
}

func judgeLRC(cs Case, o lrcObs) (clause, feat, why string) {
	base := "eof=" + cs.EOF
	data := "abcdefghijklmnop"[:cs.BodyLen]
	if o.ReadErr != "" {
		return "lrc-read-error", base, o.ReadErr
	}
	if cs.BodyLen > cs.LimitN {
		// larger than the limit: Close must report it (that is what becomes the 413), and never more than limit bytes are handed out
		if o.CloseErr != kitio.ErrReadLimitExceeded.Error() {
			return "lrc-over-limit-not-reported", base, fmt.Sprintf("body %d > limit %d: Close()=%q", cs.BodyLen, cs.LimitN, o.CloseErr)
		}
		if o.Read > cs.LimitN || !strings.HasPrefix(data, o.Data) {
			return "lrc-over-limit-data", base, fmt.Sprintf("body %d > limit %d: read %q", cs.BodyLen, cs.LimitN, o.Data)
		}
		return
	}
	// at or under the limit: accepted, i.e. all data and a clean Close
	if o.CloseErr != "" {
		return "lrc-at-or-under-limit-rejected", base + fmt.Sprintf(",len-limit=%d", cs.BodyLen-cs.LimitN), fmt.Sprintf("body %d <= limit %d (chunk %d): Close()=%q", cs.BodyLen, cs.LimitN, cs.Chunk, o.CloseErr)
	}
	if o.Data != data {
		return "lrc-data-differs", base, fmt.Sprintf("body %q read back as %q", data, o.Data)
	}
	if o.Close2 != "" {
		return "lrc-second-close-differs", base, fmt.Sprintf("second Close()=%q after clean first", o.Close2)
	}
	return
}

// ---------------------------------------------------------------- enumeration

func seqs(maxLen, alphabet int) [][]int {
	out := [][]int{{}}
	prev := [][]int{{}}
	for l := 1; l <= maxLen; l++ {
		var cur [][]int
		for _, p := range prev {
			for k := 0; k < alphabet; k++ {
				s := append(append([]int(nil), p...), k)
				cur = append(cur, s)
			}
		}
		out = append(out, cur...)
		prev = cur
	}
	return out
}

func evalCase(c *vlib.Ctx, cs Case, gzCache map[string][]byte) {
	c.Eval(1)
	if cs.Family == "lrc" {
		o := runLRC(cs)
		clause, feat, why := judgeLRC(cs, o)
		rel := "under"
		if cs.BodyLen == cs.LimitN {
			rel = "at"
		} else if cs.BodyLen > cs.LimitN {
			rel = "over"
		}
		c.NontrivialN(1)
		c.Outcome(fmt.Sprintf("lrc:%s:close=%q", rel, o.CloseErr))
		if clause != "" {
			c.Violation(vlib.JoinSig("LimitedReadCloser.Close", clause, feat), "kit/io.LimitedReadCloser: "+why, cs)
		}
		if c.WantSample() && rel == "at" {
			c.Sample(map[string]any{"case": cs, "observed": o})
		}
		return
	}
	o := runHTTP(cs, gzCache)
	clause, feat, why := judgeHTTP(cs, o)
	nt := cs.Limit != "none" || cs.Writer != wOK
	for _, k := range cs.Lines {
		nt = nt || kinds[k].Bad
	}
	if nt {
		c.NontrivialN(1)
	}
	cls := fmt.Sprintf("http:%d:limit=%s:writer_called=%v", o.Status, cs.Limit, o.Calls > 0)
	if cs.Writer == wHard && o.Status >= 300 && o.Status != 400 && o.Status != 413 {
		cls += ":hard-error-without-dropped-count"
	}
	c.Outcome(cls)
	if clause != "" {
		c.Violation(vlib.JoinSig("WriteHandler", clause, feat), "POST /api/v2/write: "+why, cs)
	}
	if c.WantSample() && nt && len(cs.Lines) > 1 && !contains(cs.Lines, 6) {
		c.Sample(map[string]any{"case": cs, "body": string(cs.body()), "observed": obsString(o)})
	}
}

func contains(a []int, x int) bool {
	for _, v := range a {
		if v == x {
			return true
		}
	}
	return false
}

func TestCheck(t *testing.T) {
	vlib.Main(t, &vlib.Check{
		ID: "C32", Level: "exploration",
		Rule: "http family: every request with body = every sequence of <=3 lines (thorough: <=4) over 7 line kinds {valid, valid+tag+int, malformed(no fields), malformed(no value), empty, comment, valid 600-byte} x trailing newline {no,yes} x encoding {identity,gzip} x body-reader EOF style {with-data (net/http Content-Length body), separate (chunked body with late terminating chunk)} x limit {none, decoded size-1, size, size+1} x precision {ns,us,ms,s} x points-writer answer {ok, partial write dropped=3, dropped=7, hard error}, served by the real http.WriteHandler; lrc family: kit/io.LimitedReadCloser for every body length 0..7 x limit 1..6 x read chunk 1..6 x EOF style, full read then Close twice. Oracle = statement transcribed. Non-trivial = request with a configured limit, a malformed line or a failing writer / every lrc case; all cases are distinct by construction.",
		Assumptions: []string{
			"a limit <= 0 means no limit is configured (points.BatchReadCloser does not wrap then); such cases are judged as unlimited",
			"both io.Reader EOF styles are legal request bodies: net/http returns (n, io.EOF) together for Content-Length bodies and (0, io.EOF) separately for chunked bodies whose terminating chunk is not yet buffered (confirmed on a real httptest.Server)",
			"a request that is both over the limit and malformed may be answered 413 or 400 (both clauses apply), but must store nothing",
			"for a non-partial (hard) points-writer error the statement is read as requiring only a non-2xx answer; such answers are counted in outcome classes *:hard-error-without-dropped-count",
			"'naming the bad lines' = the error message contains the text of every malformed line",
			"org/bucket lookup and authorization always succeed (in-memory stubs)",
		},
		Run: func(c *vlib.Ctx) {
			var idx int64
			// lrc family, simplest first
			for bl := 0; bl <= 7; bl++ {
				for lim := 1; lim <= 6; lim++ {
					for ch := 1; ch <= 6; ch++ {
						for _, eof := range []string{"separate", "with-data"} {
							idx++
							if !c.Mine(idx) {
								continue
							}
							evalCase(c, Case{Family: "lrc", BodyLen: bl, LimitN: lim, Chunk: ch, EOF: eof}, nil)
						}
					}
				}
			}
			// Livelock probe (not counted): if LimitedReadCloser never reports EOF for an over-limit body, io.ReadAll
			// inside the handler would spin forever; the lrc family above reports that defect, the http family is
			// skipped so that the check terminates.
			for _, eof := range []string{"separate", "with-data"} {
				if o := runLRC(Case{Family: "lrc", BodyLen: 2, LimitN: 1, Chunk: 1, EOF: eof}); o.ReadErr != "" {
					c.Cap("LimitedReadCloser does not terminate an over-limit read (" + o.ReadErr + "): http family skipped")
					return
				}
			}
			maxLen := 3
			if c.Thorough() {
				maxLen = 4
			}
			gzCache := map[string][]byte{}
			for _, ls := range seqs(maxLen, len(kinds)) {
				for _, nl := range []bool{false, true} {
					idx++
					if !c.Mine(idx) {
						continue
					}
					if c.Expired() {
						c.Cap("budget expired inside the http family")
						return
					}
					for _, enc := range []string{"identity", "gzip"} {
						for _, eof := range []string{"separate", "with-data"} {
							for _, lim := range limitModes {
								for _, prec := range precisions {
									for _, wa := range writerAnswers {
										evalCase(c, Case{Family: "http", Lines: ls, TrailNL: nl, Enc: enc, EOF: eof, Limit: lim, Precision: prec, Writer: wa}, gzCache)
									}
								}
							}
						}
					}
				}
			}
		},
		Replay: func(c *vlib.Ctx, raw json.RawMessage) (bool, string) {
			var cs Case
			if err := json.Unmarshal(raw, &cs); err != nil {
				return false, err.Error()
			}
			if cs.Family == "lrc" {
				o := runLRC(cs)
				clause, _, why := judgeLRC(cs, o)
				return clause != "", fmt.Sprintf("LimitedReadCloser body_len=%d limit=%d chunk=%d eof=%s -> read=%q Close()=%q second Close()=%q underlying closed %dx | %s %s",
					cs.BodyLen, cs.LimitN, cs.Chunk, cs.EOF, o.Data, o.CloseErr, o.Close2, o.Closed, clause, why)
			}
			o := runHTTP(cs, nil)
			clause, _, why := judgeHTTP(cs, o)
			return clause != "", fmt.Sprintf("body=%q (%d bytes decoded) enc=%s eof=%s limit=%s precision=%s writer=%s -> %s | %s %s",
				trunc(string(cs.body()), 120), len(cs.body()), cs.Enc, cs.EOF, cs.Limit, cs.Precision, cs.Writer, obsString(o), clause, why)
		},
	})
}
