// C24: the task scheduler dispatches each due run once, in order, never concurrently with itself,
// stops on Release, reports the earliest pending due time, and does not spin while nothing is due.
// Engine: vsched — the real TreeScheduler (treescheduler.go compiled against the modelled sync shim,
// real clock = fake time of the synctest bubble) driven by every bounded Schedule/Release/Advance
// history; for each history every interleaving (≤ B preemptions) of the history thread, the
// scheduler's loop goroutine and its worker goroutines.
package c24

import (
	"context"
	"encoding/json"
	"fmt"
	"sort"
	"strings"
	"sync"
	"sync/atomic"
	"testing"
	"time"

	"github.com/influxdata/influxdb/v2/pkg/verifhook"
	"github.com/influxdata/influxdb/v2/pkg/verifrt/vrt"
	"github.com/influxdata/influxdb/v2/task/backend/scheduler"
	"verif/h/vlib"
)

type Op struct {
	Kind    string `json:"kind"` // sched release adv obs
	ID      int    `json:"id,omitempty"`
	Every   int    `json:"every_min,omitempty"`
	Cron    bool   `json:"cron,omitempty"`
	Offset  int    `json:"offset_s,omitempty"`
	LastAgo int    `json:"last_ago_min,omitempty"`
	D       int    `json:"d_s,omitempty"`
}

func (o Op) String() string {
	switch o.Kind {
	case "sched":
		k := "every"
		if o.Cron {
			k = "cron"
		}
		return fmt.Sprintf("Schedule(%d,%s %dm,off %ds,last -%dm)", o.ID, k, o.Every, o.Offset, o.LastAgo)
	case "release":
		return fmt.Sprintf("Release(%d)", o.ID)
	case "adv":
		return fmt.Sprintf("Advance(%ds)", o.D)
	}
	return "Observe"
}

type Case struct {
	Ops     []Op     `json:"history"`
	Choices []int    `json:"schedule"`
	Workers int      `json:"workers"`
	Trace   []string `json:"trace,omitempty"`
}

type schedulable struct {
	id     scheduler.ID
	sch    scheduler.Schedule
	offset time.Duration
	last   time.Time
}

func (s schedulable) ID() scheduler.ID             { return s.id }
func (s schedulable) Schedule() scheduler.Schedule { return s.sch }
func (s schedulable) Offset() time.Duration        { return s.offset }
func (s schedulable) LastScheduled() time.Time     { return s.last }

type nopCheckpointer struct{}

func (nopCheckpointer) UpdateLastScheduled(context.Context, scheduler.ID, time.Time) error {
	return nil
}

// ---- reference model: "every N minutes" fires on every whole multiple of N minutes ----

type mtask struct {
	every  time.Duration
	offset time.Duration
	next   time.Time // next scheduled time not yet expected
	since  time.Time // instant of the Schedule call
}

type exp struct {
	at           time.Time
	pendingSince time.Time
	optional     bool
}

func nextAfter(from time.Time, every time.Duration) time.Time {
	return from.Truncate(every).Add(every)
}

type run struct {
	ID    int
	For   time.Time
	Recv  int // event number at which the worker received the item
	Start int
	End   int
}

type execRec struct {
	mu       sync.Mutex
	ev       int
	runs     []run
	recvAt   map[int64]int // goroutine id -> event number of its last work-channel receive
	relRet   map[int][]int // id -> event numbers at which Release(id) returned
	schedAt  map[int][]int // id -> event numbers at which Schedule(id) was called
	loopIter int
	lastProg time.Time
	maxSpin  int
	spinDue  bool
}

func (r *execRec) tick() int { r.ev++; return r.ev }

// the ids are chosen at init so that 1 and 2 hash to different workers when there are 2 workers
var base = time.Date(2000, 1, 1, 0, 0, 0, 0, time.UTC)

type verdict struct {
	sig, msg string
}

// runHistory executes one history under the scheduler with the given choice prefix.
func runHistory(t *testing.T, ops []Op, workers int, prefix []int) (*vrt.Result, []verdict) {
	var verdicts []verdict
	fail := func(sig, msg string) { verdicts = append(verdicts, verdict{sig, msg}) }
	h := &vrt.Harness{Name: "c24", Body: func(x *vrt.Exec) {
		rec := &execRec{recvAt: map[int64]int{}, relRet: map[int][]int{}, schedAt: map[int][]int{}, lastProg: time.Now()}
		model := map[int]*mtask{}
		expected := map[int][]exp{} // runs that must (or, if optional, may) have happened, per id, in order
		// advance the model to `now`: every scheduled time whose due time (time+offset) has come.
		// pendingSince = the instant from which the scheduler could have dispatched the run.
		catchUp := func(now time.Time) {
			for id, m := range model {
				for !m.next.Add(m.offset).After(now) {
					ps := m.next.Add(m.offset)
					if ps.Before(m.since) {
						ps = m.since
					}
					expected[id] = append(expected[id], exp{at: m.next, pendingSince: ps})
					m.next = nextAfter(m.next, m.every)
				}
			}
		}
		// a Release / re-Schedule of id at instant `now` races with runs that became pending at this very
		// instant: those may or may not have been dispatched.
		raceWith := func(id int, now time.Time) {
			for i := range expected[id] {
				if expected[id][i].pendingSince.Equal(now) {
					expected[id][i].optional = true
				}
			}
		}
		somethingDue := func() bool {
			now := time.Now()
			rec.mu.Lock()
			defer rec.mu.Unlock()
			for id, m := range model {
				n := 0
				for _, r := range rec.runs {
					if r.ID == id {
						n++
					}
				}
				_ = n
				if !m.next.Add(m.offset).After(now) {
					return true
				}
			}
			return false
		}
		_ = somethingDue
		exec := execFunc(func(ctx context.Context, id scheduler.ID, scheduledFor, runAt time.Time) error {
			rec.mu.Lock()
			i := len(rec.runs)
			rec.runs = append(rec.runs, run{ID: int(id), For: scheduledFor, Recv: rec.recvAt[vrt.GoID()], Start: rec.tick()})
			rec.loopIter = 0
			rec.mu.Unlock()
			vrt.Hook(fmt.Sprintf("exec(%d):running", id))
			rec.mu.Lock()
			rec.runs[i].End = rec.tick()
			rec.loopIter = 0
			rec.mu.Unlock()
			return nil
		})
		verifhook.SetHandlers(func(label string) {
			if label == "treescheduler.work.recv" {
				rec.mu.Lock()
				rec.recvAt[vrt.GoID()] = rec.tick()
				rec.mu.Unlock()
			}
			vrt.Hook(label)
		}, func(label string) {
			rec.mu.Lock()
			if now := time.Now(); !now.Equal(rec.lastProg) {
				rec.lastProg = now
				rec.loopIter = 0
			}
			rec.loopIter++
			if rec.loopIter > rec.maxSpin {
				rec.maxSpin = rec.loopIter
			}
			rec.mu.Unlock()
			vrt.Yield(label)
		})
		defer verifhook.SetHandlers(nil, nil)
		ts, _, err := scheduler.NewScheduler(exec, nopCheckpointer{}, scheduler.WithMaxConcurrentWorkers(workers))
		if err != nil {
			fail("harness", err.Error())
			return
		}
		type whenObs struct {
			at        time.Time
			got, want time.Time
			after     string
		}
		var whens []whenObs
		var settled time.Time
		_ = settled
		histDone := make(chan struct{})
		var stopHistory atomic.Bool
		x.Go("history", func() {
			defer close(histDone)
			for _, op := range ops {
				if stopHistory.Load() {
					return
				}
				rec.mu.Lock()
				rec.loopIter = 0
				rec.mu.Unlock()
				switch op.Kind {
				case "sched":
					every := time.Duration(op.Every) * time.Minute
					spec := fmt.Sprintf("@every %dm", op.Every)
					if op.Cron {
						spec = fmt.Sprintf("*/%d * * * *", op.Every)
					}
					last := time.Now().Add(-time.Duration(op.LastAgo) * time.Minute)
					sch, aligned, err := scheduler.NewSchedule(spec, last)
					if err != nil {
						fail("harness", err.Error())
						return
					}
					if op.Cron {
						aligned = last
					}
					catchUp(time.Now())
					raceWith(op.ID, time.Now())
					rec.mu.Lock()
					rec.schedAt[op.ID] = append(rec.schedAt[op.ID], rec.tick())
					rec.mu.Unlock()
					model[op.ID] = &mtask{every: every, offset: time.Duration(op.Offset) * time.Second, next: nextAfter(aligned, every), since: time.Now()}
					ts.Schedule(schedulable{scheduler.ID(op.ID), sch, time.Duration(op.Offset) * time.Second, aligned})
				case "release":
					catchUp(time.Now())
					raceWith(op.ID, time.Now())
					ts.Release(scheduler.ID(op.ID))
					delete(model, op.ID)
					rec.mu.Lock()
					rec.relRet[op.ID] = append(rec.relRet[op.ID], rec.tick())
					rec.mu.Unlock()
				case "adv":
					time.Sleep(time.Duration(op.D) * time.Second)
				case "obs":
					time.Sleep(time.Second)
					catchUp(time.Now())
					var want time.Time
					for _, m := range model {
						if d := m.next.Add(m.offset); want.IsZero() || d.Before(want) {
							want = d
						}
					}
					whens = append(whens, whenObs{time.Now(), ts.When(), want, ""})
					time.Sleep(29 * time.Second)
				}
			}
			// settle: let everything that is due run (the settle instant is never a due instant)
			time.Sleep(time.Second)
			catchUp(time.Now())
			settled = time.Now()
		})
		x.S.MaxSteps = 4000
		x.S.UnlockPoints = true // a thread can be preempted right after it released the scheduler mutex (before timer resets etc.)
		x.Run()
		stepCap := x.S.StepCap
		stopHistory.Store(true)
		x.S.Drain()
		ts.Stop()
		<-histDone // durably blocked: fake time runs on until the history thread's pending sleep ends

		// ---- oracle ----
		if x.S.Deadlock {
			fail("deadlock", strings.Join(x.S.Blocked, "; "))
		}
		if stepCap {
			// the execution never became quiescent: somebody spins at one fake instant
			fail("spin/never-quiescent", fmt.Sprintf("no quiescence after %d scheduling steps: the main loop keeps iterating at one fake-time instant while nothing is due", x.S.MaxSteps))
			return
		}
		if rec.maxSpin > 8 {
			fail("spin/loop-iterations-without-progress", "more than 8 consecutive main-loop iterations at one instant without any dispatch")
		}
		// per id: executed scheduled-times
		byID := map[int][]run{}
		for _, r := range rec.runs {
			byID[r.ID] = append(byID[r.ID], r)
		}
		ids := map[int]bool{}
		for id := range byID {
			ids[id] = true
		}
		for id := range expected {
			ids[id] = true
		}
		for id := range ids {
			rs := byID[id]
			// never concurrently with itself, increasing order
			for i := 1; i < len(rs); i++ {
				if rs[i].Start < rs[i-1].End {
					fail("overlap", fmt.Sprintf("task %d: run for %s started before run for %s finished", id, rs[i].For.Format("15:04:05"), rs[i-1].For.Format("15:04:05")))
				}
			}
			// no run STARTS after a Release returned (unless scheduled again later)
			for _, r := range rs {
				for _, rr := range rec.relRet[id] {
					if r.Start > rr {
						resched := false
						for _, sa := range rec.schedAt[id] {
							if sa > rr && sa < r.Start {
								resched = true
							}
						}
						if !resched {
							cls := "dispatched-after-release-returned"
							if r.Recv != 0 && r.Recv < rr {
								cls = "item-already-received-by-worker-when-release-returned"
							}
							fail("run-after-release/"+cls, fmt.Sprintf("task %d: run for %s started after Release(%d) had returned (%s)", id, r.For.Format("15:04:05"), id, cls))
						}
					}
				}
			}
			// exactly the expected scheduled times, in order; optional ones (racing with a Release /
			// re-Schedule at the same instant) may be absent.
			var got, want []string
			for _, r := range rs {
				got = append(got, r.For.Format("15:04:05"))
			}
			for _, e := range expected[id] {
				o := ""
				if e.optional {
					o = "?"
				}
				want = append(want, e.at.Format("15:04:05")+o)
			}
			kind := classifyRuns(rs, expected[id])
			if kind != "" {
				fail("runs/"+kind, fmt.Sprintf("task %d: executed for %v, expected %v (? = optional: races with a Release/Schedule at the same instant)", id, got, want))
			}
		}
		for _, w := range whens {
			if !w.got.Equal(w.want) {
				k := "wrong"
				if w.want.IsZero() {
					k = "nonzero-when-nothing-scheduled"
				} else if w.got.IsZero() {
					k = "zero-when-something-pending"
				} else if w.got.Before(w.want) {
					k = "earlier-than-earliest-pending"
				} else {
					k = "later-than-earliest-pending"
				}
				fail("when/"+k, fmt.Sprintf("at %s When()=%s, earliest pending due=%s", w.at.Format("15:04:05"), w.got.Format("15:04:05"), w.want.Format("15:04:05")))
			}
		}
		x.Outcome = fmt.Sprintf("runs=%d", len(rec.runs))
	}}
	r := vrt.RunOnce(t, h, prefix)
	return r, verdicts
}

// classifyRuns decides whether the executed runs equal the expected list with some optional entries
// removed (exact backtracking match); otherwise names the discrepancy.
func classifyRuns(rs []run, ex []exp) string {
	var match func(i, j int) bool
	match = func(i, j int) bool {
		if i == len(ex) {
			return j == len(rs)
		}
		if j < len(rs) && rs[j].For.Equal(ex[i].at) && match(i+1, j+1) {
			return true
		}
		return ex[i].optional && match(i+1, j)
	}
	if match(0, 0) {
		return ""
	}
	for k := 1; k < len(rs); k++ {
		if rs[k].For.Before(rs[k-1].For) {
			// a decreasing pair is only an ordering problem if both belong to the same schedule epoch;
			// a re-Schedule with an older lastScheduled legitimately restarts earlier
			return "out-of-order-or-mismatch"
		}
	}
	cnt := map[int64]int{}
	for _, r := range rs {
		cnt[r.For.Unix()]++
	}
	need := map[int64]int{}
	all := map[int64]int{}
	for _, e := range ex {
		all[e.at.Unix()]++
		if !e.optional {
			need[e.at.Unix()]++
		}
	}
	for t, n := range cnt {
		if n > all[t] {
			if all[t] > 0 {
				return "duplicate-run"
			}
			return "unexpected-run"
		}
	}
	for t, n := range need {
		if cnt[t] < n {
			return "missed-run"
		}
	}
	return "mismatch"
}

type execFunc func(ctx context.Context, id scheduler.ID, scheduledFor, runAt time.Time) error

func (f execFunc) Execute(ctx context.Context, id scheduler.ID, scheduledFor, runAt time.Time) error {
	return f(ctx, id, scheduledFor, runAt)
}

// histories: all sequences over the alphabet up to the depth bound, pruned of no-ops
func histories(depth int, thorough bool) [][]Op {
	alpha := []Op{
		{Kind: "sched", ID: 1, Every: 1},
		{Kind: "sched", ID: 2, Every: 2, Offset: 30},
		{Kind: "sched", ID: 1, Every: 1, LastAgo: 3},
		{Kind: "release", ID: 1},
		{Kind: "adv", D: 60},
		{Kind: "adv", D: 30},
		{Kind: "obs"},
	}
	if thorough {
		alpha = append(alpha, Op{Kind: "sched", ID: 2, Every: 2, Cron: true}, Op{Kind: "release", ID: 2}, Op{Kind: "sched", ID: 1, Every: 2, Offset: 30})
	}
	var out [][]Op
	var rec func(cur []Op, scheduled map[int]bool)
	rec = func(cur []Op, scheduled map[int]bool) {
		if len(cur) > 0 {
			out = append(out, append([]Op{}, cur...))
		}
		if len(cur) == depth {
			return
		}
		for _, op := range alpha {
			if op.Kind == "release" && !scheduled[op.ID] && len(cur) > 0 && cur[len(cur)-1].Kind == "release" {
				continue
			}
			if len(cur) == 0 && op.Kind != "sched" {
				continue // nothing interesting before the first Schedule
			}
			ns := map[int]bool{}
			for k, v := range scheduled {
				ns[k] = v
			}
			if op.Kind == "sched" {
				ns[op.ID] = true
			}
			if op.Kind == "release" {
				ns[op.ID] = false
			}
			rec(append(cur, op), ns)
		}
	}
	rec(nil, map[int]bool{})
	return out
}

func histString(ops []Op) string {
	var s []string
	for _, o := range ops {
		s = append(s, o.String())
	}
	return strings.Join(s, "; ")
}

func TestCheck(t *testing.T) {
	vlib.Main(t, &vlib.Check{
		ID: "C24", Level: "model_checking",
		Rule: "histories = every sequence of ≤ D ops (D=4 quick, 5 thorough) over {Schedule(1, every 1m), Schedule(2, every 2m offset 30s), Schedule(1, every 1m, last = now−3m [catch-up]), Release(1), Advance 60s, Advance 30s, Observe(+1s: When() vs model; +29s)} [thorough adds cron */2, Release(2), re-Schedule with another period] starting with a Schedule, on the real TreeScheduler with 2 workers inside a synctest bubble (real clock package on fake time); for each history every interleaving with ≤ B preemptions (B=2 quick and thorough) of {history thread, scheduler main loop, workers, executor bodies}; oracle = reference list of due times per task (every N min on whole multiples, +offset), exactness/order/non-overlap of Execute calls, no run starting after Release returned, When() = earliest pending due time at quiescent instants, and a loop-iteration counter (hook) for busy waiting. states = decision nodes of the schedule trees, transitions = scheduling steps, traces = executions; non-trivial = executions in which ≥1 run was dispatched",
		Assumptions: []string{
			"scheduling points: before every Lock/atomic operation of treescheduler.go, the two committed hook points, the executor body, AND right after every Unlock (vrt UnlockPoints): a thread can lose the processor between releasing the scheduler mutex and its next timer/channel operation, which is where a lock scope narrowed too far shows (added after seed C24-5)",
			"fast executors only: a run that stays due because its worker is busy makes the loop poll by design; with fake time such polling can never end, so slow executors are outside this check",
			"sequentially consistent interleavings at the granularity of the scheduler's mutex operations and hook points",
		},
		QuickBudgetS: 180, ThoroughBudgetS: 1200, WorkerEnv: []string{"GOMAXPROCS=1"},
		Run: func(c *vlib.Ctx) {
			depth, bound := 4, 2
			if c.Thorough() {
				depth, bound = 5, 2
			}
			hs := histories(depth, c.Thorough())
			if c.Shard == 0 {
				c.Extra("histories", int64(len(hs)))
			}
			for hi, ops := range hs {
				if !c.Mine(int64(hi)) {
					continue
				}
				if c.Expired() {
					c.Cap(fmt.Sprintf("budget expired after %d of %d histories of this shard's share", hi, len(hs)))
					break
				}
				var lastVerdicts []verdict
				h := &vrt.Harness{}
				_ = h
				// explore schedules of this history: Explore needs a Harness; wrap runHistory
				st := exploreHistory(t, ops, 2, bound, c.Expired, func(r *vrt.Result, vs []verdict) {
					c.Eval(1)
					lastVerdicts = vs
					if r.Diverged != "" {
						c.HarnessError(histString(ops) + ": " + r.Diverged)
						return
					}
					if r.Outcome != "runs=0" && r.Outcome != "" {
						c.NontrivialN(1)
					}
					c.Outcome(r.Outcome)
					for _, v := range vs {
						if v.sig == "harness" {
							c.HarnessError(v.msg)
							continue
						}
						cs := Case{Ops: ops, Choices: r.Choices, Workers: 2}
						for _, s := range r.Steps {
							cs.Trace = append(cs.Trace, fmt.Sprintf("T%d %s", s.Thread, s.Label))
						}
						c.Outcome("violation:" + v.sig)
						c.Violation(v.sig, fmt.Sprintf("history [%s]: %s", histString(ops), v.msg), cs)
					}
					if c.WantSample() && len(r.Steps) > 6 {
						c.Sample(map[string]any{"history": histString(ops), "schedule": r.Choices, "outcome": r.Outcome})
					}
				})
				_ = lastVerdicts
				c.StateN(st.Nodes)
				c.Transition(st.Transitions)
				c.Trace(st.Executions)
			}
		},
		Replay: func(c *vlib.Ctx, raw json.RawMessage) (bool, string) {
			var cs Case
			if err := json.Unmarshal(raw, &cs); err != nil {
				return false, err.Error()
			}
			r, vs := runHistory(t, cs.Ops, cs.Workers, cs.Choices)
			if r.Diverged != "" {
				return false, "diverged: " + r.Diverged
			}
			var msgs []string
			for _, v := range vs {
				msgs = append(msgs, v.sig+": "+v.msg)
			}
			sort.Strings(msgs)
			return len(vs) > 0, strings.Join(msgs, " | ")
		},
	})
}

// exploreHistory is vrt.Explore specialised to carry the verdicts of each execution.
func exploreHistory(t *testing.T, ops []Op, workers, bound int, stop func() bool, visit func(*vrt.Result, []verdict)) vrt.Stats {
	st := vrt.Stats{Bound: bound, Complete: true}
	var rec func(prefix []int)
	rec = func(prefix []int) {
		if stop() {
			st.Complete = false
			return
		}
		x, vs := runHistory(t, ops, workers, prefix)
		st.Executions++
		st.Transitions += int64(len(x.Steps))
		visit(x, vs)
		if x.Diverged != "" {
			return
		}
		pre := 0
		for i := 0; i < len(x.Steps); i++ {
			sp := x.Steps[i]
			if i >= len(prefix) {
				if len(sp.Enabled) > 1 {
					st.Nodes++
				}
				for alt := 1; alt < len(sp.Enabled); alt++ {
					if pre+sp.Costs[alt] > bound {
						continue
					}
					rec(append(append([]int{}, x.Choices[:i]...), alt))
				}
			}
			if sp.Preempt {
				pre++
			}
		}
	}
	rec(nil)
	return st
}
