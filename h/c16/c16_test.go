// C16: delete predicates match exactly the series they describe.
//
// Bounded-exhaustive: every predicate of the declared families (strings of the delete-predicate grammar pushed
// through the real predicate.Parse → ToDataType → tsm1.NewProtobufPredicate, and protobuf trees built directly)
// × every series over the declared escape-heavy name/key/value alphabets, keys produced by the real
// models.MakeKey exactly as tsdb.PredicateSeriesIDIterator does. The oracle evaluates the harness' own
// predicate tree on the (measurement, tags) the series was built from and returns the SET of allowed answers.
package c16

import (
	"encoding/json"
	"fmt"
	"os"
	"path/filepath"
	"regexp"
	"runtime"
	"sort"
	"strings"
	"testing"

	"github.com/influxdata/influxdb/v2/models"
	"github.com/influxdata/influxdb/v2/predicate"
	"github.com/influxdata/influxdb/v2/storage/reads/datatypes"
	"github.com/influxdata/influxdb/v2/tsdb"
	"github.com/influxdata/influxdb/v2/tsdb/engine/tsm1"
	"verif/h/vlib"
)

// ---------------------------------------------------------------------------------------------------------
// predicate family (harness-owned tree)

// PLeaf is `key op value`. Key "_measurement" (parser path) or "\x00" (protobuf path) denotes the measurement.
type PLeaf struct {
	Key  string `json:"key"`
	Op   string `json:"op"` // = != =~ !~
	Val  string `json:"val"`
	Swap bool   `json:"swap,omitempty"` // protobuf path: literal is the left child, tag ref the right child
	Bare bool   `json:"bare,omitempty"` // parser path: key and value written without double quotes
}

type PNode struct {
	Leaf  *PLeaf `json:"leaf,omitempty"`
	Op    string `json:"bop,omitempty"` // AND | OR
	L     *PNode `json:"l,omitempty"`
	R     *PNode `json:"r,omitempty"`
	Paren bool   `json:"paren,omitempty"` // parser path: written inside parentheses
}

// answer sets
const (
	aF  = 1
	aT  = 2
	aTF = 3
)

var reCache = map[string]*regexp.Regexp{}

func re(s string) *regexp.Regexp {
	if r, ok := reCache[s]; ok {
		return r
	}
	r := regexp.MustCompile(s)
	reCache[s] = r
	return r
}

// Series is a series as the statement sees it: a measurement and a tag map.
type Series struct {
	Name   string      `json:"measurement"`
	Tags   [][2]string `json:"tags"`   // sorted by key
	Suffix bool        `json:"suffix"` // key carries a "#!~#v" field suffix (TSM composite key)
}

func (s *Series) tag(k string) (string, bool) {
	if k == "_measurement" || k == "\x00" {
		return s.Name, true
	}
	for _, t := range s.Tags {
		if t[0] == k {
			return t[1], true
		}
	}
	return "", false
}

// allowed is the oracle. `=`/`=~` on an absent tag is false; `!=`/`!~` on an absent tag is don't-care (the
// statement does not say whether an inequality about a missing tag is "true of the series"); AND/OR propagate sets.
func (n *PNode) allowed(s *Series) int {
	if n.Leaf != nil {
		v, ok := s.tag(n.Leaf.Key)
		var b bool
		switch n.Leaf.Op {
		case "=":
			if !ok {
				return aF
			}
			b = v == n.Leaf.Val
		case "!=":
			if !ok {
				return aTF
			}
			b = v != n.Leaf.Val
		case "=~":
			if !ok {
				return aF
			}
			b = re(n.Leaf.Val).MatchString(v)
		case "!~":
			if !ok {
				return aTF
			}
			b = !re(n.Leaf.Val).MatchString(v)
		default:
			panic("bad op")
		}
		if b {
			return aT
		}
		return aF
	}
	l, r := n.L.allowed(s), n.R.allowed(s)
	out := 0
	for _, a := range []int{aF, aT} {
		if l&a == 0 {
			continue
		}
		for _, b := range []int{aF, aT} {
			if r&b == 0 {
				continue
			}
			var v bool
			if n.Op == "AND" {
				v = a == aT && b == aT
			} else {
				v = a == aT || b == aT
			}
			if v {
				out |= aT
			} else {
				out |= aF
			}
		}
	}
	return out
}

func ansName(a int) string {
	switch a {
	case aF:
		return "must-not-match"
	case aT:
		return "must-match"
	}
	return "either"
}

// --- rendering for the parser path (influxql scanner: double-quoted identifiers, escapes \" \\ \n)

func quote(s string) string {
	s = strings.ReplaceAll(s, `\`, `\\`)
	s = strings.ReplaceAll(s, `"`, `\"`)
	return `"` + s + `"`
}

func (l *PLeaf) text() string {
	if l.Bare {
		return l.Key + " " + l.Op + " " + l.Val
	}
	return quote(l.Key) + " " + l.Op + " " + quote(l.Val)
}

func (n *PNode) text() string {
	var s string
	if n.Leaf != nil {
		s = n.Leaf.text()
	} else {
		s = n.L.text() + " " + n.Op + " " + n.R.text()
	}
	if n.Paren {
		s = "(" + s + ")"
	}
	return s
}

func (n *PNode) shape() string {
	var s string
	if n.Leaf != nil {
		s = "leaf"
	} else {
		s = n.L.shape() + " " + n.Op + " " + n.R.shape()
	}
	if n.Paren {
		s = "(" + s + ")"
	}
	return s
}

// --- protobuf construction (direct path)

func (l *PLeaf) proto() *datatypes.Node {
	key := l.Key
	ref := &datatypes.Node{NodeType: datatypes.Node_TypeTagRef, Value: &datatypes.Node_TagRefValue{TagRefValue: key}}
	var lit *datatypes.Node
	var cmp datatypes.Node_Comparison
	switch l.Op {
	case "=":
		cmp = datatypes.Node_ComparisonEqual
	case "!=":
		cmp = datatypes.Node_ComparisonNotEqual
	case "=~":
		cmp = datatypes.Node_ComparisonRegex
	case "!~":
		cmp = datatypes.Node_ComparisonNotRegex
	}
	if l.Op == "=~" || l.Op == "!~" {
		lit = &datatypes.Node{NodeType: datatypes.Node_TypeLiteral, Value: &datatypes.Node_RegexValue{RegexValue: l.Val}}
	} else {
		lit = &datatypes.Node{NodeType: datatypes.Node_TypeLiteral, Value: &datatypes.Node_StringValue{StringValue: l.Val}}
	}
	ch := []*datatypes.Node{ref, lit}
	if l.Swap {
		ch = []*datatypes.Node{lit, ref}
	}
	return &datatypes.Node{NodeType: datatypes.Node_TypeComparisonExpression, Value: &datatypes.Node_Comparison_{Comparison: cmp}, Children: ch}
}

func (n *PNode) proto() *datatypes.Node {
	if n.Leaf != nil {
		return n.Leaf.proto()
	}
	lg := datatypes.Node_LogicalAnd
	if n.Op == "OR" {
		lg = datatypes.Node_LogicalOr
	}
	return &datatypes.Node{NodeType: datatypes.Node_TypeLogicalExpression, Value: &datatypes.Node_Logical_{Logical: lg},
		Children: []*datatypes.Node{n.L.proto(), n.R.proto()}}
}

// Pred is one member of the family.
type Pred struct {
	Via  string `json:"via"` // "parse" (text through predicate.Parse) | "proto" (protobuf tree built directly)
	Tree *PNode `json:"tree"`
}

func (p *Pred) String() string {
	if p.Via == "parse" {
		return "parse(" + p.Tree.text() + ")"
	}
	return "proto(" + strings.ReplaceAll(p.Tree.text(), "\x00", `\x00`) + ")"
}

// compile builds the storage engine's compiled predicate through the real pipeline. rejected != "" means a
// layer refused the predicate (not a matching answer: outside the property).
func (p *Pred) compile() (pred tsm1.Predicate, rejected string) {
	var root *datatypes.Node
	if p.Via == "parse" {
		n, err := predicate.Parse(p.Tree.text())
		if err != nil {
			return nil, "Parse: " + err.Error()
		}
		if n == nil {
			return nil, "Parse: nil node"
		}
		root, err = n.ToDataType()
		if err != nil {
			return nil, "ToDataType: " + err.Error()
		}
	} else {
		root = p.Tree.proto()
	}
	pr, err := tsm1.NewProtobufPredicate(&datatypes.Predicate{Root: root})
	if err != nil {
		return nil, "NewProtobufPredicate: " + err.Error()
	}
	return pr, ""
}

// ---------------------------------------------------------------------------------------------------------
// domains

var measurements = []string{"m", "m 1", "m,1", "m=1"}
var tagKeys = []string{"t", "t 1", "a=b", "m"}
var values = []string{"x", "x y", "a,b", "a=b", `x\`, `x\y`, "1"}
var regexVals = []string{"^x", "[ ,=]"}

// predKeys: what a predicate may refer to.
func predKeys(via string) []string {
	if via == "parse" {
		return append([]string{"_measurement"}, tagKeys...)
	}
	return append([]string{"\x00"}, tagKeys...)
}

// predVals: literals of predicates: all tag values and all measurement names.
func predVals(key string) []string {
	if key == "_measurement" || key == "\x00" {
		return measurements
	}
	return values
}

func eqLeaves(via string) []*PLeaf {
	var out []*PLeaf
	for _, k := range predKeys(via) {
		for _, op := range []string{"=", "!="} {
			for _, v := range predVals(k) {
				out = append(out, &PLeaf{Key: k, Op: op, Val: v})
			}
		}
	}
	return out
}

func regexLeaves() []*PLeaf {
	var out []*PLeaf
	for _, k := range predKeys("proto") {
		for _, op := range []string{"=~", "!~"} {
			for _, v := range regexVals {
				out = append(out, &PLeaf{Key: k, Op: op, Val: v})
			}
		}
	}
	return out
}

// coreLeaves: reduced operand set for the deeper levels: one leaf per key with an escape-heavy or colliding
// literal, both operators, plus the measurement with an '=' and with a space.
func coreLeaves(via string) []*PLeaf {
	mk := predKeys(via)[0]
	out := []*PLeaf{
		{Key: mk, Op: "=", Val: "m=1"}, {Key: mk, Op: "!=", Val: "m 1"},
		{Key: "t", Op: "=", Val: "x"}, {Key: "t", Op: "!=", Val: "a,b"},
		{Key: "t 1", Op: "=", Val: "x y"}, {Key: "t 1", Op: "!=", Val: "x"},
		{Key: "a=b", Op: "=", Val: "a=b"}, {Key: "a=b", Op: "!=", Val: `x\y`},
		{Key: "m", Op: "=", Val: "1"}, {Key: "m", Op: "!=", Val: "1"},
	}
	if via == "proto" {
		out = append(out, &PLeaf{Key: "t", Op: "=~", Val: "[ ,=]"}, &PLeaf{Key: "a=b", Op: "!~", Val: "^x"})
	}
	return out
}

func lf(l *PLeaf) *PNode { return &PNode{Leaf: l} }

func bareOK(s string) bool {
	if s == "" {
		return false
	}
	for _, r := range s {
		if !(r >= 'a' && r <= 'z') {
			return false
		}
	}
	return true
}

// forEachPred enumerates the family, simplest first.
func forEachPred(thorough bool, fn func(p *Pred)) {
	// ---- depth 0
	for _, l := range eqLeaves("parse") {
		fn(&Pred{"parse", lf(l)})
		fn(&Pred{"parse", &PNode{Leaf: l, Paren: true}})
		if (bareOK(l.Key) || l.Key == "_measurement") && (bareOK(l.Val) || l.Val == "1") {
			b := *l
			b.Bare = true
			fn(&Pred{"parse", lf(&b)})
		}
	}
	for _, l := range eqLeaves("proto") {
		fn(&Pred{"proto", lf(l)})
		s := *l
		s.Swap = true
		fn(&Pred{"proto", lf(&s)})
	}
	for _, l := range regexLeaves() {
		fn(&Pred{"proto", lf(l)})
	}
	// ---- depth 1
	// quick: core × core; thorough: all × all
	for _, via := range []string{"parse", "proto"} {
		ls := coreLeaves(via)
		if thorough {
			ls = eqLeaves(via)
			if via == "proto" {
				ls = append(ls, regexLeaves()...)
			}
		}
		ops := []string{"AND"}
		if via == "proto" {
			ops = []string{"AND", "OR"}
		}
		for _, op := range ops {
			for _, a := range ls {
				for _, b := range ls {
					fn(&Pred{via, &PNode{Op: op, L: lf(a), R: lf(b)}})
				}
			}
		}
	}
	// parser-only syntactic variants at depth 1 over the core leaves: (A AND B), (A) AND (B), and the refused OR
	pc := coreLeaves("parse")
	for _, a := range pc {
		for _, b := range pc {
			fn(&Pred{"parse", &PNode{Op: "AND", L: lf(a), R: lf(b), Paren: true}})
			fn(&Pred{"parse", &PNode{Op: "AND", L: &PNode{Leaf: a, Paren: true}, R: &PNode{Leaf: b, Paren: true}}})
		}
	}
	for _, a := range pc[:4] {
		for _, b := range pc[:4] {
			fn(&Pred{"parse", &PNode{Op: "OR", L: lf(a), R: lf(b)}})
		}
	}
	// ---- depth 2 over the core leaves (quick: the first 5 (parse) / 4 (proto) core leaves)
	for _, via := range []string{"parse", "proto"} {
		ls := coreLeaves(via)
		if !thorough {
			if via == "parse" {
				ls = ls[:5]
			} else {
				ls = ls[:4]
			}
		}
		ops := []string{"AND"}
		if via == "proto" {
			ops = []string{"AND", "OR"}
		}
		for _, op1 := range ops {
			for _, op2 := range ops {
				for _, a := range ls {
					for _, b := range ls {
						for _, c := range ls {
							A, B, C := lf(a), lf(b), lf(c)
							if via == "parse" {
								// A AND B AND C (left assoc), (A AND B) AND C, A AND (B AND C)
								fn(&Pred{via, &PNode{Op: op2, L: &PNode{Op: op1, L: A, R: B}, R: C}})
								fn(&Pred{via, &PNode{Op: op2, L: &PNode{Op: op1, L: A, R: B, Paren: true}, R: C}})
								fn(&Pred{via, &PNode{Op: op1, L: A, R: &PNode{Op: op2, L: B, R: C, Paren: true}}})
							} else {
								fn(&Pred{via, &PNode{Op: op2, L: &PNode{Op: op1, L: A, R: B}, R: C}})
								fn(&Pred{via, &PNode{Op: op1, L: A, R: &PNode{Op: op2, L: B, R: C}}})
							}
						}
					}
				}
			}
		}
	}
}

// allSeries: measurement × {no tag, one tag, two tags with distinct keys} × values × {plain key, key#!~#v}.
func allSeries() []Series {
	var out []Series
	var tagsets [][][2]string
	tagsets = append(tagsets, nil)
	for _, k := range tagKeys {
		for _, v := range values {
			tagsets = append(tagsets, [][2]string{{k, v}})
		}
	}
	for i, k1 := range tagKeys {
		for _, k2 := range tagKeys[i+1:] {
			for _, v1 := range values {
				for _, v2 := range values {
					ts := [][2]string{{k1, v1}, {k2, v2}}
					sort.Slice(ts, func(a, b int) bool { return ts[a][0] < ts[b][0] })
					tagsets = append(tagsets, ts)
				}
			}
		}
	}
	for _, sfx := range []bool{false, true} {
		for _, m := range measurements {
			for _, ts := range tagsets {
				out = append(out, Series{Name: m, Tags: ts, Suffix: sfx})
			}
		}
	}
	return out
}

func (s *Series) mtags() models.Tags {
	var t models.Tags
	for _, kv := range s.Tags {
		t = append(t, models.NewTag([]byte(kv[0]), []byte(kv[1])))
	}
	sort.Sort(t)
	return t
}

// key builds the key exactly as tsdb.PredicateSeriesIDIterator.Next does: measurement tag \x00 prepended, MakeKey.
func (s *Series) key() []byte {
	name := []byte(s.Name)
	tags := append(models.Tags{{Key: models.MeasurementTagKeyBytes, Value: name}}, s.mtags()...)
	k := models.MakeKey(name, tags)
	if s.Suffix {
		k = append(append([]byte{}, k...), "#!~#v"...)
	}
	return k
}

func (s Series) String() string {
	var p []string
	for _, t := range s.Tags {
		p = append(p, fmt.Sprintf("%q=%q", t[0], t[1]))
	}
	sfx := ""
	if s.Suffix {
		sfx = "#!~#v"
	}
	return fmt.Sprintf("%q{%s}%s", s.Name, strings.Join(p, ","), sfx)
}

// refParseKey: line-protocol key grammar written from the documentation: segments separated by unescaped commas,
// first segment is the measurement (escapes \, and "\ "), the others are key=value split at the first unescaped '='
// (escapes \, "\ " \=). A key whose reference parse does not give back the (measurement, tags) it was made from does
// not identify its series (e.g. tag value ending in a backslash followed by another tag): no verdict is made for it.
func refParseKey(key string) (string, [][2]string) {
	splitUnescaped := func(s string, sep byte) []string {
		var out []string
		start := 0
		for i := 0; i < len(s); i++ {
			if s[i] == '\\' && i+1 < len(s) {
				i++
				continue
			}
			if s[i] == sep {
				out = append(out, s[start:i])
				start = i + 1
			}
		}
		return append(out, s[start:])
	}
	unesc := func(s string, set string) string {
		var b strings.Builder
		for i := 0; i < len(s); i++ {
			if s[i] == '\\' && i+1 < len(s) && strings.IndexByte(set, s[i+1]) >= 0 {
				continue
			}
			b.WriteByte(s[i])
		}
		return b.String()
	}
	segs := splitUnescaped(key, ',')
	name := unesc(segs[0], ", ")
	var tags [][2]string
	for _, sg := range segs[1:] {
		kv := splitUnescaped(sg, '=')
		if len(kv) < 2 {
			tags = append(tags, [2]string{unesc(sg, ", ="), "\x01<novalue>"})
			continue
		}
		tags = append(tags, [2]string{unesc(kv[0], ", ="), unesc(strings.Join(kv[1:], "="), ", =")})
	}
	return name, tags
}

func (s *Series) identifiable(key []byte) bool {
	k := string(key)
	if s.Suffix {
		k = strings.TrimSuffix(k, "#!~#v")
	}
	name, tags := refParseKey(k)
	if name != s.Name || len(tags) != len(s.Tags)+1 {
		return false
	}
	if tags[0] != [2]string{"\x00", s.Name} {
		return false
	}
	for i, t := range s.Tags {
		if tags[i+1] != t {
			return false
		}
	}
	return true
}

// ---------------------------------------------------------------------------------------------------------
// world: the key list (and a real series file for the iterator path)

type world struct {
	series []Series
	keys   [][]byte
	ident  []bool
	// series file path
	dir   string
	sfile *tsdb.SeriesFile
	ids   []uint64       // ids of the non-suffix series, ascending
	idIdx map[uint64]int // id -> index into series
}

func newWorld(withFile bool) (*world, error) {
	w := &world{series: allSeries(), idIdx: map[uint64]int{}}
	for i := range w.series {
		k := w.series[i].key()
		w.keys = append(w.keys, k)
		w.ident = append(w.ident, w.series[i].identifiable(k))
	}
	if !withFile {
		return w, nil
	}
	w.dir = vlib.Scratch("c16-")
	w.sfile = tsdb.NewSeriesFile(filepath.Join(w.dir, "_series"))
	if err := w.sfile.Open(); err != nil {
		os.RemoveAll(w.dir)
		return nil, err
	}
	var names [][]byte
	var tags []models.Tags
	var idx []int
	for i := range w.series {
		if w.series[i].Suffix {
			continue
		}
		names = append(names, []byte(w.series[i].Name))
		tags = append(tags, w.series[i].mtags())
		idx = append(idx, i)
	}
	ids, err := w.sfile.CreateSeriesListIfNotExists(names, tags)
	if err != nil {
		w.close()
		return nil, err
	}
	for j, id := range ids {
		w.idIdx[id] = idx[j]
		w.ids = append(w.ids, id)
	}
	sort.Slice(w.ids, func(a, b int) bool { return w.ids[a] < w.ids[b] })
	return w, nil
}

func (w *world) close() {
	if w.sfile != nil {
		w.sfile.Close()
		os.RemoveAll(w.dir)
	}
}

// variants: how the compiled predicate is used
const (
	vMain      = "Matches"            // one compiled predicate fed every key in enumeration order (memoised state carried over)
	vClone     = "Clone.Matches"      // Clone() taken after the original has seen every key; fed the keys in reverse order
	vUnmarshal = "Unmarshal.Matches"  // Marshal → tsm1.UnmarshalPredicate, fed every key in order
	vIter      = "PredicateSeriesIDIterator" // tsdb.NewPredicateSeriesIDIterator over the real series file
)

var variants = []string{vMain, vClone, vUnmarshal, vIter}

// answers returns got[i] for every series index the variant produces an answer for (-1 = no answer).
func (w *world) answers(p *Pred, variant string) (got []int8, rejected string, err string) {
	pr, rej := p.compile()
	if rej != "" {
		return nil, rej, ""
	}
	n := len(w.keys)
	got = make([]int8, n)
	for i := range got {
		got[i] = -1
	}
	b2i := func(b bool) int8 {
		if b {
			return 1
		}
		return 0
	}
	switch variant {
	case vMain:
		for i := 0; i < n; i++ {
			got[i] = b2i(pr.Matches(w.keys[i]))
		}
	case vClone:
		for i := 0; i < n; i++ {
			pr.Matches(w.keys[i])
		}
		cl := pr.Clone()
		for i := n - 1; i >= 0; i-- {
			got[i] = b2i(cl.Matches(w.keys[i]))
		}
	case vUnmarshal:
		buf, e := pr.Marshal()
		if e != nil {
			return nil, "", "Marshal: " + e.Error()
		}
		un, e := tsm1.UnmarshalPredicate(buf)
		if e != nil {
			return nil, "", "UnmarshalPredicate: " + e.Error()
		}
		if un == nil {
			return nil, "", "UnmarshalPredicate returned nil"
		}
		for i := 0; i < n; i++ {
			got[i] = b2i(un.Matches(w.keys[i]))
		}
	case vIter:
		if w.sfile == nil {
			return nil, "", "no series file"
		}
		ids := append([]uint64{}, w.ids...)
		itr := tsdb.NewPredicateSeriesIDIterator(tsdb.NewSeriesIDSliceIterator(ids), w.sfile, pr)
		for _, id := range w.ids {
			got[w.idIdx[id]] = 0
		}
		for {
			e, er := itr.Next()
			if er != nil {
				return nil, "", "iterator: " + er.Error()
			}
			if e.SeriesID == 0 {
				break
			}
			i, ok := w.idIdx[e.SeriesID]
			if !ok {
				return nil, "", fmt.Sprintf("iterator returned unknown id %d", e.SeriesID)
			}
			got[i] = 1
		}
		itr.Close()
	}
	return got, "", ""
}

// fresh: a newly compiled predicate asked about one key only.
func (w *world) fresh(p *Pred, i int) (bool, string) {
	pr, rej := p.compile()
	if rej != "" {
		return false, rej
	}
	return pr.Matches(w.keys[i]), ""
}

// Case is the replayable form.
type Case struct {
	Pred    *Pred  `json:"pred"`
	Variant string `json:"variant"`
	Index   int    `json:"series_index"` // position in the fixed series enumeration
	Series  Series `json:"series"`
}

func measClass(m string) string {
	switch {
	case strings.Contains(m, "="):
		return "equals-sign"
	case strings.Contains(m, ","):
		return "comma"
	case strings.Contains(m, " "):
		return "space"
	}
	return "plain"
}

func (n *PNode) leafKeys(m map[string]bool) {
	if n.Leaf != nil {
		m[n.Leaf.Key] = true
		return
	}
	n.L.leafKeys(m)
	n.R.leafKeys(m)
}

// protoTwin: the same tree built directly as protobuf (parser keys mapped to what ToDataType must produce).
func (n *PNode) protoTwin() *PNode {
	if n.Leaf != nil {
		l := *n.Leaf
		if l.Key == "_measurement" {
			l.Key = "\x00"
		}
		l.Bare = false
		return &PNode{Leaf: &l}
	}
	return &PNode{Op: n.Op, L: n.L.protoTwin(), R: n.R.protoTwin()}
}

func wrong(g bool, al int) bool { return (g && al&aT == 0) || (!g && al&aF == 0) }

// sigOf: clause / call site / discriminating features (never concrete values). The features are found by probing
// neighbouring cases so that one defect gives one class per direction:
//   - call site: a use other than plain Matches is only named when plain Matches answers this pair correctly;
//   - state: does a freshly compiled predicate asked about this key alone give the same wrong answer;
//   - layer: (parser path) is the directly built protobuf twin equally wrong → matcher, else parser/ToDataType;
//   - fieldSuffix: irrelevant when the twin key with/without "#!~#v" is equally wrong;
//   - popPath: which tag-popping routine Matches selects for this key (backslash in key → escape-aware).
func (w *world) sigOf(p *Pred, variant string, i int, g bool, al int) string {
	s := &w.series[i]
	dir := "matches-but-predicate-false"
	if !g {
		dir = "no-match-but-predicate-true"
	}
	state := "stateless"
	if variant != vIter {
		if fg, _ := w.fresh(p, i); fg != g {
			state = "only-with-carried-state"
		}
	}
	layer := "matcher"
	if state != "stateless" {
		layer = "n/a"
	} else if p.Via == "parse" {
		tw := &Pred{"proto", p.Tree.protoTwin()}
		if tg, rej := w.fresh(tw, i); rej != "" || !wrong(tg, al) {
			layer = "parser"
		}
	}
	half := len(w.series) / 2
	j := i + half
	if s.Suffix {
		j = i - half
	}
	sfx := fmt.Sprintf("fieldSuffix=%v", s.Suffix)
	if variant == vIter {
		sfx = "fieldSuffix=n/a"
	} else if tg, _ := w.fresh(p, j); state == "stateless" && w.ident[j] && wrong(tg, al) {
		sfx = "fieldSuffix=irrelevant"
	}
	ks := map[string]bool{}
	p.Tree.leafKeys(ks)
	collide := false
	if k := strings.IndexByte(s.Name, '='); k >= 0 {
		collide = ks[s.Name[:k]]
	}
	pop := "plain"
	if strings.IndexByte(string(w.keys[i]), '\\') >= 0 {
		pop = "escape-aware"
	}
	return vlib.JoinSig(variant, dir, state, "layer="+layer, "measurement="+measClass(s.Name),
		fmt.Sprintf("predKeyEqualsMeasurementPrefixBeforeEquals=%v", collide), "popPath="+pop, sfx)
}

func TestCheck(t *testing.T) {
	vlib.Main(t, &vlib.Check{
		ID: "C16", Level: "exploration",
		Rule: "predicates: leaves `k op v`, k∈{_measurement,t,'t 1','a=b',m}, op∈{=,!=}, v∈{x,'x y','a,b','a=b','x\\','x\\y',1} (for _measurement: m,'m 1','m,1','m=1') = 64 leaves; " +
			"(a) text of the delete grammar through the real predicate.Parse→ToDataType→tsm1.NewProtobufPredicate: depth 0 all leaves (quoted, parenthesised, bare where lexically possible); depth 1 `A AND B` (quick: 10×10 core leaves; thorough: all 64×64) + `(A AND B)`, `(A) AND (B)`, refused `A OR B` over core leaves; depth 2 A AND B AND C, (A AND B) AND C, A AND (B AND C) over core leaves (quick 5, thorough 10); " +
			"(b) protobuf trees built directly: depth 0 all 64 leaves in both child orders + 20 regex leaves (=~,!~ × /^x/,/[ ,=]/); depth 1 AND/OR (quick 12×12 core; thorough all 84×84); depth 2 (A o B) o C, A o (B o C), o∈{AND,OR}, core leaves (quick 4, thorough 12); " +
			"× all 2584 series keys: measurement∈{m,'m 1','m,1','m=1'} × (no tag | 1 tag | 2 tags with distinct keys) over keys {t,'t 1','a=b',m} × the 7 values, key = models.MakeKey(name, [\\x00=name]+tags) as PredicateSeriesIDIterator builds it, with and without the #!~#v field suffix; " +
			"× uses {one matcher fed all keys in order, Clone() after use fed in reverse order, Marshal→UnmarshalPredicate, tsdb.PredicateSeriesIDIterator over a real series file (suffix-less keys)}; " +
			"oracle = set of allowed answers on (measurement,tags): =,=~ on absent tag false, !=,!~ on absent tag don't-care, AND/OR propagate; no verdict for keys that do not identify their series (reference line-protocol parse differs); " +
			"non-trivial = judged (predicate,use,series) triple whose required answer is definite and differs from the required answer of the same predicate for the tagless series m{} (distinct by construction)",
		Assumptions: []string{
			"a predicate refused by Parse/ToDataType/NewProtobufPredicate (OR, malformed) is outside the property (counted as outcome 'rejected')",
			"an inequality (!=, !~) about a tag the series does not have may be answered either way",
			"series whose MakeKey text does not parse back to the same (measurement,tags) under the documented escaping rules (tag value ending in a backslash followed by another tag) are fed to the matcher but not judged",
			"the end-to-end Store.DeleteSeriesWithPredicate path (shards, TSM files) is not executed; its only predicate call site, PredicateSeriesIDIterator, is",
		},
		QuickBudgetS: 40, ThoroughBudgetS: 800,
		Run:    run,
		Replay: replay,
	})
}

func run(c *vlib.Ctx) {
	if c.NShards > 1 {
		runtime.GOMAXPROCS(2)
	}
	w, err := newWorld(true)
	if err != nil {
		c.HarnessError("cannot create series file: " + err.Error())
		return
	}
	defer w.close()
	nIdent := 0
	for _, b := range w.ident {
		if b {
			nIdent++
		}
	}
	if c.Shard == 0 {
		c.Extra("series_total", int64(len(w.series)))
		c.Extra("series_with_identifying_key", int64(nIdent))
	}
	bare := Series{Name: "m"}
	var idx int64
	capped := false
	forEachPred(c.Thorough(), func(p *Pred) {
		idx++
		if capped || !c.Mine(idx) {
			return
		}
		if idx%64 == int64(c.Shard) && c.Expired() {
			c.Cap("wall budget reached: not every predicate was explored; explored predicates are complete over series × uses")
			capped = true
			return
		}
		shape := p.Via + ":" + p.Tree.shape()
		base := p.Tree.allowed(&bare)
		// the oracle's answer sets for this predicate, once
		al := make([]int, len(w.series))
		for i := range w.series {
			if w.ident[i] {
				al[i] = p.Tree.allowed(&w.series[i])
			}
		}
		var mainGot []int8
		for _, variant := range variants {
			var got []int8
			var rej, herr string
			pn, pd := vlib.Guard(func() { got, rej, herr = w.answers(p, variant) })
			if pn {
				c.Eval(1)
				c.Violation(vlib.JoinSig(variant, "panic", pd), "panic with predicate "+p.String()+": "+pd, Case{p, variant, len(w.keys) - 1, w.series[len(w.series)-1]})
				continue
			}
			if rej != "" {
				c.Eval(1)
				r := rej
				if i := strings.IndexAny(r, "0123456789"); i > 0 {
					r = r[:i]
				}
				c.Outcome(shape + ":rejected:" + strings.TrimSpace(r))
				break
			}
			if herr != "" {
				c.Eval(1)
				c.Violation(vlib.JoinSig(variant, "error"), "predicate "+p.String()+": "+herr, Case{p, variant, 0, w.series[0]})
				continue
			}
			if variant == vMain {
				mainGot = got
			}
			var nT, nF, nDC, nAmb, nSame int64
			for i := range w.series {
				if got[i] < 0 {
					continue
				}
				c.Eval(1)
				if !w.ident[i] {
					nAmb++
					continue
				}
				g := got[i] == 1
				switch al[i] {
				case aTF:
					nDC++
				case aT:
					nT++
				case aF:
					nF++
				}
				if al[i] != aTF && al[i] != base {
					c.NontrivialN(1)
				}
				if wrong(g, al[i]) {
					if variant != vMain && mainGot != nil && mainGot[i] == got[i] {
						nSame++ // same wrong answer as plain Matches: that class already carries it
						continue
					}
					s := &w.series[i]
					c.Violation(w.sigOf(p, variant, i, g, al[i]),
						fmt.Sprintf("%s: predicate %s on series %s (key %q): matched=%v, statement: %s", variant, p.String(), s.String(), w.keys[i], g, ansName(al[i])),
						Case{p, variant, i, *s})
				} else if al[i] == aT && c.WantSample() && len(w.series[i].Tags) > 0 && strings.ContainsAny(w.series[i].Name, " ,=") {
					c.Sample(map[string]any{"use": variant, "predicate": p.String(), "series": w.series[i].String(), "key": string(w.keys[i]), "matched": g})
				}
			}
			c.OutcomeN(shape+":must-match", nT)
			c.OutcomeN(shape+":must-not-match", nF)
			c.OutcomeN(shape+":either(absent-tag-inequality)", nDC)
			c.OutcomeN(shape+":unjudged(non-identifying-key)", nAmb)
			c.OutcomeN("use:"+variant, nT+nF+nDC+nAmb)
			if nSame > 0 {
				c.Extra("wrong_answers_of_other_uses_identical_to_plain_Matches", nSame)
			}
		}
	})
}

func replay(c *vlib.Ctx, raw json.RawMessage) (bool, string) {
	var cs Case
	if err := json.Unmarshal(raw, &cs); err != nil || cs.Pred == nil || cs.Pred.Tree == nil {
		return false, "bad case"
	}
	w, err := newWorld(cs.Variant == vIter)
	if err != nil {
		return false, "cannot create series file: " + err.Error()
	}
	defer w.close()
	if cs.Index < 0 || cs.Index >= len(w.series) || w.series[cs.Index].String() != cs.Series.String() {
		return false, "series enumeration changed: index does not denote the recorded series"
	}
	s := &w.series[cs.Index]
	al := cs.Pred.Tree.allowed(s)
	var got []int8
	var rej, herr string
	if p, d := vlib.Guard(func() { got, rej, herr = w.answers(cs.Pred, cs.Variant) }); p {
		return true, "panic: " + d
	}
	if rej != "" {
		return false, "predicate rejected: " + rej
	}
	if herr != "" {
		return true, "error: " + herr
	}
	if got[cs.Index] < 0 {
		return false, "variant gives no answer for this series"
	}
	g := got[cs.Index] == 1
	fg, _ := w.fresh(cs.Pred, cs.Index)
	bad := wrong(g, al)
	return bad && w.ident[cs.Index], fmt.Sprintf("%s: predicate %s; series %s; key %q; matched=%v (freshly compiled predicate on this key alone: %v); statement: %s",
		cs.Variant, cs.Pred.String(), s.String(), w.keys[cs.Index], g, fg, ansName(al))
}
