// C18: each point lands in one shard group that contains it, also after restart.
//
// Bounded-history explicit-state search: every history of <= N operations over a fixed alphabet is
// executed from scratch on the REAL meta.Client (inmem KV) + coordinator.PointsWriter.MapShards and
// compared, after the last operation, with a reference model written from the property statement.
package c18

import (
	"context"
	"encoding/json"
	"fmt"
	"math"
	"math/big"
	"runtime"
	"runtime/debug"
	"sort"
	"strings"
	"testing"
	"time"

	"github.com/influxdata/influxdb/v2/inmem"
	"github.com/influxdata/influxdb/v2/models"
	"github.com/influxdata/influxdb/v2/v1/coordinator"
	"github.com/influxdata/influxdb/v2/v1/services/meta"
	"verif/h/vlib"
)

const (
	dbName = "db"
	rpName = "rp"
	// "now" of the timestamp family: a fixed constant (2026-09-21T..Z), never the wall clock.
	nowNs int64 = 1790000000123456789
)

var durations = []time.Duration{time.Hour, 24 * time.Hour, 168 * time.Hour}

var tNames = []string{"min", "min+d", "-d-1", "-d", "-1", "0", "1", "d-1", "d", "d+1", "now", "max-d", "max-1", "max"}

// tClass is the coarse class of a timestamp used in violation signatures.
var tClass = []string{"min", "pre1970", "pre1970", "pre1970", "pre1970", "epoch", "post1970", "post1970", "post1970", "post1970", "post1970", "post1970", "max", "max"}

func tset(d time.Duration) []int64 {
	D := int64(d)
	return []int64{models.MinNanoTime, models.MinNanoTime + D, -D - 1, -D, -1, 0, 1, D - 1, D, D + 1, nowNs,
		models.MaxNanoTime - D, models.MaxNanoTime - 1, models.MaxNanoTime}
}

// zig-zag order of the terminal batch (so that the writer's shard-group list is built unsorted)
var batchOrder = []int{0, 13, 1, 12, 2, 11, 3, 10, 4, 9, 5, 8, 6, 7}

// Op is one operation of a history.
//
//	W i : write one point at T[i] through PointsWriter.MapShards
//	D 0 : DeleteShardGroup(group the most recent accepted write went to); D 1: live group with the smallest start
//	X i : TruncateShardGroups(at) with at = {0, 1, now}[i]
//	B   : write all 14 timestamps of T as ONE batch (zig-zag order) through MapShards
//	L   : reload = a new meta.Client on the same KV store, Open()
//
// R = a reload happens immediately before the operation.
type Op struct {
	K string `json:"k"`
	I int    `json:"i"`
	R bool   `json:"reload_before,omitempty"`
}

func (o Op) String() string {
	s := ""
	if o.R {
		s = "reload;"
	}
	switch o.K {
	case "W":
		return s + "W(" + tNames[o.I] + ")"
	case "D":
		return s + "D(" + []string{"last", "first"}[o.I] + ")"
	case "X":
		return s + "X(" + []string{"0", "1", "now"}[o.I] + ")"
	}
	return s + o.K
}

// Case is a replayable history. The terminal steps (B, then L) are always appended by run.
type Case struct {
	D   int64 `json:"shard_group_duration_ns"`
	Ops []Op  `json:"ops"`
}

func (c Case) String() string {
	var p []string
	for _, o := range c.Ops {
		p = append(p, o.String())
	}
	return fmt.Sprintf("d=%s: %s; [terminal: batch(all T); reload]", time.Duration(c.D), strings.Join(p, "; "))
}

func alphabet() []Op {
	var a []Op
	for i := range tNames {
		a = append(a, Op{K: "W", I: i})
	}
	a = append(a, Op{K: "D", I: 0}, Op{K: "D", I: 1})
	a = append(a, Op{K: "X", I: 0}, Op{K: "X", I: 1}, Op{K: "X", I: 2})
	return a
}

// G is the property-observable part of a shard group.
type G struct {
	ID     uint64
	S, E   time.Time
	Del    bool
	Tr     bool
	TA     time.Time
	Shards []uint64
}

var bigE9 = big.NewInt(1000000000)

// ns renders a time as exact nanoseconds since the Unix epoch (may lie outside int64).
func ns(t time.Time) string {
	b := new(big.Int).Mul(big.NewInt(t.Unix()), bigE9)
	b.Add(b, big.NewInt(int64(t.Nanosecond())))
	return b.String()
}

func (g G) String() string {
	s := fmt.Sprintf("{id=%d [%s,%s)", g.ID, ns(g.S), ns(g.E))
	if g.Del {
		s += " deleted"
	}
	if g.Tr {
		s += " truncatedAt=" + ns(g.TA)
	}
	return s + "}"
}

// effEnd: a truncated group accepts writes only in [S, TA); the statement is silent about truncation, so the
// non-overlap clause is applied to the effective (writable) ranges, the containment clause to the nominal bounds.
func (g G) effEnd() time.Time {
	if g.Tr && g.TA.Before(g.E) {
		return g.TA
	}
	return g.E
}
func (g G) contains(t time.Time) bool { return !t.Before(g.S) && t.Before(g.E) }

func overlap(a, b G) bool {
	ae, be := a.effEnd(), b.effEnd()
	// empty effective ranges overlap nothing
	if !a.S.Before(ae) || !b.S.Before(be) {
		return false
	}
	return a.S.Before(be) && b.S.Before(ae)
}

var int64Lo = time.Unix(0, math.MinInt64)
var int64Hi = time.Unix(0, math.MaxInt64)

// whyClass classifies a model time value for signatures.
func whyClass(t time.Time) string {
	switch {
	case t.Before(int64Lo):
		return "belowInt64Nanos"
	case t.After(int64Hi):
		return "aboveInt64Nanos"
	case t.Equal(time.Unix(0, 0)):
		return "atEpoch"
	}
	return "ordinary"
}

type vio struct{ sig, msg string }

type world struct {
	d     time.Duration
	T     []int64
	store *inmem.KVStore
	mc    *meta.Client
	pw    *coordinator.PointsWriter

	model     []G                // adopted group list (sorted by id)
	data      map[uint64][]int64 // shard id -> timestamps accepted into it (group still live)
	lastShard uint64
	vios      []vio
	outcomes  []string
}

func newWorld(d time.Duration) (*world, error) {
	w := &world{d: d, T: tset(d), data: map[uint64][]int64{}}
	w.store = inmem.NewKVStore()
	if err := w.store.CreateBucket(context.Background(), meta.BucketName); err != nil {
		return nil, err
	}
	w.mc = meta.NewClient(meta.NewConfig(), w.store)
	if err := w.mc.Open(); err != nil {
		return nil, err
	}
	zero, one := time.Duration(0), 1
	if _, err := w.mc.CreateDatabaseWithRetentionPolicy(dbName, &meta.RetentionPolicySpec{Name: rpName, ReplicaN: &one, Duration: &zero, ShardGroupDuration: d}); err != nil {
		return nil, err
	}
	rpi, err := w.mc.RetentionPolicy(dbName, rpName)
	if err != nil || rpi == nil || rpi.ShardGroupDuration != d || rpi.Duration != 0 {
		return nil, fmt.Errorf("fixture: retention policy not as requested: %+v %v", rpi, err)
	}
	w.pw = coordinator.NewPointsWriter(time.Second, "c18")
	w.pw.MetaClient = w.mc
	return w, nil
}

func (w *world) observe() []G {
	di := w.mc.Database(dbName)
	if di == nil {
		return nil
	}
	rpi := di.RetentionPolicy(rpName)
	if rpi == nil {
		return nil
	}
	out := make([]G, 0, len(rpi.ShardGroups))
	for i := range rpi.ShardGroups {
		sg := &rpi.ShardGroups[i]
		g := G{ID: sg.ID, S: sg.StartTime, E: sg.EndTime, Del: !sg.DeletedAt.IsZero(), Tr: !sg.TruncatedAt.IsZero(), TA: sg.TruncatedAt}
		for _, sh := range sg.Shards {
			g.Shards = append(g.Shards, sh.ID)
		}
		out = append(out, g)
	}
	sort.SliceStable(out, func(i, j int) bool { return out[i].ID < out[j].ID })
	return out
}

func (w *world) add(sig, msg string) { w.vios = append(w.vios, vio{sig, msg}) }

func findByID(l []G, id uint64) *G {
	for i := range l {
		if l[i].ID == id {
			return &l[i]
		}
	}
	return nil
}

func ownerOfShard(l []G, shard uint64) *G {
	for i := range l {
		for _, s := range l[i].Shards {
			if s == shard {
				return &l[i]
			}
		}
	}
	return nil
}

func sameBoundsFlags(a, b G) bool {
	return a.ID == b.ID && a.S.Equal(b.S) && a.E.Equal(b.E) && a.Del == b.Del && a.Tr == b.Tr && (!a.Tr || a.TA.Equal(b.TA))
}

// resync adopts the observed list as the model and forgets data records that the adopted list cannot hold any
// more (their loss has been reported at the step where it happened).
func (w *world) resync(obs []G) {
	w.model = obs
	for sh, ts := range w.data {
		g := ownerOfShard(obs, sh)
		if g == nil || g.Del {
			delete(w.data, sh)
			continue
		}
		keep := ts[:0]
		for _, t := range ts {
			if g.contains(time.Unix(0, t)) {
				keep = append(keep, t)
			}
		}
		if len(keep) == 0 {
			delete(w.data, sh)
		} else {
			w.data[sh] = keep
		}
	}
}

// newOverlaps reports pairs of live groups that overlap in post but did not (same ids) in pre.
func (w *world) checkOverlaps(pre, post []G, after string) {
	was := map[[2]uint64]bool{}
	for i := range pre {
		for j := i + 1; j < len(pre); j++ {
			if !pre[i].Del && !pre[j].Del && overlap(pre[i], pre[j]) {
				was[[2]uint64{pre[i].ID, pre[j].ID}] = true
			}
		}
	}
	for i := range post {
		for j := i + 1; j < len(post); j++ {
			if post[i].Del || post[j].Del || !overlap(post[i], post[j]) || was[[2]uint64{post[i].ID, post[j].ID}] {
				continue
			}
			cause := "new-group"
			for _, g := range []G{post[i], post[j]} {
				if o := findByID(pre, g.ID); o != nil && !sameBoundsFlags(*o, g) {
					cause = "bounds-changed"
					if o.S.Equal(g.S) && o.E.Equal(g.E) && o.Del == g.Del {
						cause = "truncation-mark-changed"
					}
				}
			}
			w.add(vlib.JoinSig("overlap", "after="+after, "cause="+cause), fmt.Sprintf("live shard groups %v and %v overlap after %s", post[i], post[j], after))
		}
	}
}

func idsOf(l []meta.ShardGroupInfo) []uint64 {
	out := make([]uint64, 0, len(l))
	for i := range l {
		out = append(out, l[i].ID)
	}
	sort.Slice(out, func(i, j int) bool { return out[i] < out[j] })
	return out
}

func eqIDs(a, b []uint64) bool {
	if len(a) != len(b) {
		return false
	}
	for i := range a {
		if a[i] != b[i] {
			return false
		}
	}
	return true
}

// checkQueries: (1) every group holding data at t is returned by every range query [min,max] ∋ t (statement);
// (2) for all min<=max in T the query returns exactly the model's live groups with start<=max && end>min (plan).
//
// all=true: every pair min<=max of T (105 queries); all=false: the point queries (t,t), the adjacent pairs
// (T[i],T[i+1]) and the full range (28 queries).
func (w *world) checkQueries(after string, all bool) {
	// model answer from the adopted list
	for a := 0; a < len(w.T); a++ {
		for b := 0; b < len(w.T); b++ {
			if w.T[a] > w.T[b] {
				continue
			}
			if !all && !(b == a || b == a+1 || (a == 0 && b == len(w.T)-1)) {
				continue
			}
			tmin, tmax := time.Unix(0, w.T[a]), time.Unix(0, w.T[b])
			got, err := w.mc.ShardGroupsByTimeRange(dbName, rpName, tmin, tmax)
			if err != nil {
				w.add(vlib.JoinSig("query", "error", "after="+after), fmt.Sprintf("ShardGroupsByTimeRange(%s,%s): %v", tNames[a], tNames[b], err))
				return
			}
			gids := idsOf(got)
			var want []uint64
			for _, g := range w.model {
				if !g.Del && !g.S.After(tmax) && g.E.After(tmin) {
					want = append(want, g.ID)
				}
			}
			sort.Slice(want, func(i, j int) bool { return want[i] < want[j] })
			if !eqIDs(gids, want) {
				w.add(vlib.JoinSig("query", "set-differs-from-model", "after="+after),
					fmt.Sprintf("ShardGroupsByTimeRange(%s,%s) = groups %v, model (live groups with start<=max && end>min) = %v; groups %v", tNames[a], tNames[b], gids, want, w.model))
				return
			}
			// data-holding groups
			for sh, ts := range w.data {
				g := ownerOfShard(w.model, sh)
				for _, t := range ts {
					if t < w.T[a] || t > w.T[b] {
						continue
					}
					found := false
					for _, id := range gids {
						found = found || (g != nil && id == g.ID)
					}
					if !found {
						w.add(vlib.JoinSig("query", "misses-group-holding-data", "after="+after, "ts="+w.tcls(t)),
							fmt.Sprintf("point at %d was accepted into shard %d but ShardGroupsByTimeRange(%s,%s) = groups %v does not return its group", t, sh, tNames[a], tNames[b], gids))
						return
					}
				}
			}
		}
	}
}

// checkData: every accepted point still lives in a live group whose bounds contain it.
func (w *world) checkData(obs []G, after string) {
	shs := make([]uint64, 0, len(w.data))
	for sh := range w.data {
		shs = append(shs, sh)
	}
	sort.Slice(shs, func(i, j int) bool { return shs[i] < shs[j] })
	for _, sh := range shs {
		g := ownerOfShard(obs, sh)
		for _, t := range w.data[sh] {
			if g == nil || g.Del || !g.contains(time.Unix(0, t)) {
				gs := "none"
				if g != nil {
					gs = g.String()
				}
				w.add(vlib.JoinSig("data", "group-no-longer-contains-point", "after="+after, "ts="+w.tcls(t)),
					fmt.Sprintf("point at %d accepted into shard %d: owning group after %s is %s", t, sh, after, gs))
			}
		}
	}
}

func (w *world) tcls(t int64) string {
	for i, x := range w.T {
		if x == t {
			return tClass[i]
		}
	}
	return "?"
}

func mkPoint(t int64) models.Point {
	return models.MustNewPoint("m", models.NewTags(map[string]string{"k": "v"}), models.Fields{"f": 1.0}, time.Unix(0, t))
}

// write executes one MapShards call with the points at T[idx...] and checks the routing clauses.
func (w *world) write(idxs []int, kind string) error {
	pre := w.model
	pts := make([]models.Point, len(idxs))
	for i, ix := range idxs {
		pts[i] = mkPoint(w.T[ix])
	}
	var mapping *coordinator.ShardMapping
	var err error
	if p, desc := vlib.Guard(func() {
		mapping, err = w.pw.MapShards(&coordinator.WritePointsRequest{Database: dbName, RetentionPolicy: rpName, Points: pts})
	}); p {
		w.add(vlib.JoinSig(kind, "panic", desc), "MapShards panicked: "+desc)
		w.resync(w.observe())
		return nil
	}
	post := w.observe()
	if err != nil {
		w.add(vlib.JoinSig(kind, "not-accepted", "error"), fmt.Sprintf("MapShards (infinite retention) returned error: %v", err))
		w.outcomes = append(w.outcomes, kind+":error")
		w.checkExisting(pre, post, kind, len(idxs))
		w.resync(post)
		return nil
	}
	// where did each point go
	for _, ix := range idxs {
		t := w.T[ix]
		var shards []uint64
		for sh, ps := range mapping.Points {
			for _, p := range ps {
				if p.UnixNano() == t {
					shards = append(shards, sh)
				}
			}
		}
		sort.Slice(shards, func(i, j int) bool { return shards[i] < shards[j] })
		switch {
		case len(shards) == 0:
			w.add(vlib.JoinSig(kind, "not-accepted", "dropped", "ts="+tClass[ix]),
				fmt.Sprintf("point at %s=%d not mapped to any shard under infinite retention (dropped=%d)", tNames[ix], t, mapping.Dropped()))
			w.outcomes = append(w.outcomes, kind+":dropped")
			continue
		case len(shards) > 1:
			w.add(vlib.JoinSig(kind, "mapped-to-several-shards", "ts="+tClass[ix]), fmt.Sprintf("point at %s=%d mapped to shards %v", tNames[ix], t, shards))
			continue
		}
		sh := shards[0]
		g := ownerOfShard(post, sh)
		switch {
		case g == nil:
			w.add(vlib.JoinSig(kind, "route", "shard-without-group", "ts="+tClass[ix]), fmt.Sprintf("point at %s=%d mapped to shard %d which belongs to no shard group of the policy", tNames[ix], t, sh))
			continue
		case g.Del:
			w.add(vlib.JoinSig(kind, "route", "deleted-group", "ts="+tClass[ix]), fmt.Sprintf("point at %s=%d mapped to shard %d of deleted group %v", tNames[ix], t, sh, *g))
			continue
		case !g.contains(time.Unix(0, t)):
			w.add(vlib.JoinSig(kind, "route", "group-does-not-contain-point", "ts="+tClass[ix]), fmt.Sprintf("point at %s=%d mapped to shard %d of group %v whose [start,end) does not contain it", tNames[ix], t, sh, *g))
			continue
		}
		// (that no second live group claims the timestamp is the non-overlap clause, see checkOverlaps)
		if findByID(pre, g.ID) == nil {
			w.outcomes = append(w.outcomes, kind+":new-group/"+tClass[ix])
		} else if g.Tr {
			w.outcomes = append(w.outcomes, kind+":existing-truncated-group/"+tClass[ix])
		} else {
			w.outcomes = append(w.outcomes, kind+":existing-group/"+tClass[ix])
		}
		w.data[sh] = append(w.data[sh], t)
		w.lastShard = sh
	}
	w.checkExisting(pre, post, kind, len(idxs))
	w.checkOverlaps(pre, post, kind)
	w.model = post
	return nil
}

// checkExisting: a write may add groups (at most one per point) but must leave existing groups untouched.
func (w *world) checkExisting(pre, post []G, kind string, maxNew int) {
	for _, g := range pre {
		o := findByID(post, g.ID)
		if o == nil {
			w.add(vlib.JoinSig(kind, "existing-group-vanished"), fmt.Sprintf("group %v vanished during %s", g, kind))
		} else if !sameBoundsFlags(g, *o) {
			w.add(vlib.JoinSig(kind, "existing-group-changed"), fmt.Sprintf("group %v became %v during %s", g, *o, kind))
		}
	}
	if len(post)-len(pre) > maxNew {
		w.add(vlib.JoinSig(kind, "too-many-new-groups"), fmt.Sprintf("%d new groups for %d points", len(post)-len(pre), maxNew))
	}
	seen := map[uint64]bool{}
	for _, g := range post {
		if seen[g.ID] {
			w.add(vlib.JoinSig(kind, "duplicate-group-id"), fmt.Sprintf("group id %d appears twice: %v", g.ID, post))
		}
		seen[g.ID] = true
	}
}

func (w *world) reload() error {
	mc := meta.NewClient(meta.NewConfig(), w.store)
	if err := mc.Open(); err != nil {
		return fmt.Errorf("reopen: %w", err)
	}
	w.mc.Close()
	w.mc = mc
	w.pw.MetaClient = mc
	post := w.observe()
	pre := w.model
	same := true
	for _, g := range pre {
		o := findByID(post, g.ID)
		if o == nil {
			same = false
			w.add(vlib.JoinSig("reload", "group-missing"), fmt.Sprintf("group %v is missing after reload", g))
			continue
		}
		if !o.S.Equal(g.S) {
			same = false
			w.add(vlib.JoinSig("reload", "start-changed", "was="+whyClass(g.S)), fmt.Sprintf("group %v reloads as %v (start changed)", g, *o))
		}
		if !o.E.Equal(g.E) {
			same = false
			w.add(vlib.JoinSig("reload", "end-changed", "was="+whyClass(g.E)), fmt.Sprintf("group %v reloads as %v (end changed)", g, *o))
		}
		if o.Del != g.Del {
			same = false
			w.add(vlib.JoinSig("reload", "deleted-flag-changed"), fmt.Sprintf("group %v reloads as %v", g, *o))
		}
		if o.Tr != g.Tr {
			same = false
			w.add(vlib.JoinSig("reload", "truncated-flag-changed", "truncatedAt="+whyClass(g.TA)), fmt.Sprintf("group %v reloads as %v (truncation mark lost/gained)", g, *o))
		} else if g.Tr && !o.TA.Equal(g.TA) {
			same = false
			w.add(vlib.JoinSig("reload", "truncatedAt-changed", "was="+whyClass(g.TA)), fmt.Sprintf("group %v reloads as %v", g, *o))
		}
		if fmt.Sprint(o.Shards) != fmt.Sprint(g.Shards) {
			same = false
			w.add(vlib.JoinSig("reload", "shards-changed"), fmt.Sprintf("group %v shards %v reload as %v", g, g.Shards, o.Shards))
		}
	}
	for _, o := range post {
		if findByID(pre, o.ID) == nil {
			same = false
			w.add(vlib.JoinSig("reload", "extra-group"), fmt.Sprintf("group %v appears after reload", o))
		}
	}
	if same {
		w.outcomes = append(w.outcomes, "L:identical")
	} else {
		w.outcomes = append(w.outcomes, "L:differs")
	}
	w.checkOverlaps(pre, post, "L")
	w.checkData(post, "L")
	w.resync(post)
	return nil
}

var errInapplicable = fmt.Errorf("inapplicable")

func (w *world) del(sel int) error {
	var target *G
	if sel == 0 {
		if w.lastShard == 0 {
			return errInapplicable
		}
		target = ownerOfShard(w.model, w.lastShard)
		if target == nil || target.Del {
			return errInapplicable
		}
	} else {
		for i := range w.model {
			g := &w.model[i]
			if !g.Del && (target == nil || g.S.Before(target.S)) {
				target = g
			}
		}
		if target == nil {
			return errInapplicable
		}
	}
	id := target.ID
	pre := w.model
	if err := w.mc.DeleteShardGroup(dbName, rpName, id); err != nil {
		w.add(vlib.JoinSig("D", "error"), fmt.Sprintf("DeleteShardGroup(%d): %v", id, err))
	}
	post := w.observe()
	for _, g := range pre {
		o := findByID(post, g.ID)
		want := g
		if g.ID == id {
			want.Del = true
		}
		if o == nil || !sameBoundsFlags(want, *o) {
			w.add(vlib.JoinSig("D", "unexpected-group-change"), fmt.Sprintf("after DeleteShardGroup(%d): group %v, expected %v, got %v", id, g, want, o))
		}
	}
	if len(post) != len(pre) {
		w.add(vlib.JoinSig("D", "group-count-changed"), fmt.Sprintf("%d -> %d groups", len(pre), len(post)))
	}
	w.outcomes = append(w.outcomes, "D:deleted")
	w.checkOverlaps(pre, post, "D")
	w.resync(post) // drops the data of the deleted group from the model
	return nil
}

func (w *world) trunc(i int) error {
	at := []int64{0, 1, nowNs}[i]
	pre := w.model
	if err := w.mc.TruncateShardGroups(time.Unix(0, at)); err != nil {
		w.add(vlib.JoinSig("X", "error"), fmt.Sprintf("TruncateShardGroups(%d): %v", at, err))
	}
	post := w.observe()
	n := 0
	for _, g := range pre {
		o := findByID(post, g.ID)
		// the statement is silent about which groups get truncated: only ids, bounds and deletion must be kept
		if o == nil || !o.S.Equal(g.S) || !o.E.Equal(g.E) || o.Del != g.Del {
			w.add(vlib.JoinSig("X", "bounds-or-deletion-changed"), fmt.Sprintf("after TruncateShardGroups(%d): group %v became %v", at, g, o))
		} else if o.Tr != g.Tr || (o.Tr && !o.TA.Equal(g.TA)) {
			n++
		}
	}
	if len(post) != len(pre) {
		w.add(vlib.JoinSig("X", "group-count-changed"), fmt.Sprintf("%d -> %d groups", len(pre), len(post)))
	}
	if n == 0 {
		w.outcomes = append(w.outcomes, "X:no-group-truncated")
	} else {
		w.outcomes = append(w.outcomes, "X:truncated")
	}
	w.checkOverlaps(pre, post, "X")
	w.checkData(post, "X")
	w.resync(post)
	return nil
}

func (w *world) apply(o Op) error {
	if o.R {
		if err := w.reload(); err != nil {
			return err
		}
	}
	switch o.K {
	case "W":
		return w.write([]int{o.I}, "W")
	case "B":
		return w.write(batchOrder, "B")
	case "D":
		return w.del(o.I)
	case "X":
		return w.trunc(o.I)
	case "L":
		return w.reload()
	}
	return fmt.Errorf("unknown op %q", o.K)
}

func canonKey(d time.Duration, l []G) string {
	c := append([]G(nil), l...)
	sort.SliceStable(c, func(i, j int) bool {
		if !c[i].S.Equal(c[j].S) {
			return c[i].S.Before(c[j].S)
		}
		if !c[i].E.Equal(c[j].E) {
			return c[i].E.Before(c[j].E)
		}
		return c[i].ID < c[j].ID
	})
	var sb strings.Builder
	fmt.Fprintf(&sb, "%d", int64(d))
	for _, g := range c {
		fmt.Fprintf(&sb, "|%d.%d,%d.%d,%v,%v", g.S.Unix(), g.S.Nanosecond(), g.E.Unix(), g.E.Nanosecond(), g.Del, g.Tr)
		if g.Tr {
			fmt.Fprintf(&sb, ",%d.%d", g.TA.Unix(), g.TA.Nanosecond())
		}
	}
	return sb.String()
}

type result struct {
	status   string // ok | inapplicable | harness-error
	vios     []vio  // violations found at the last main op, the terminal batch and the terminal reload
	outcomes []string
	states   []string
	steps    int64
	err      error
}

// run executes the history from scratch. Steps before the last main op were checked when the shorter history was
// the case under test: their violations are not reported again (the model is resynchronised and the run goes on).
func run(cs Case) (res result) {
	w, err := newWorld(time.Duration(cs.D))
	if err != nil {
		return result{status: "harness-error", err: err}
	}
	defer w.mc.Close()
	full := append(append([]Op(nil), cs.Ops...), Op{K: "B"}, Op{K: "L"})
	first := len(cs.Ops) - 1 // index of the first reported step
	for i, o := range full {
		if i == first {
			w.vios, w.outcomes = nil, nil
		}
		nv := len(w.vios)
		if err := w.apply(o); err != nil {
			if err == errInapplicable {
				return result{status: "inapplicable"}
			}
			return result{status: "harness-error", err: err}
		}
		if i >= first {
			// the range-query sweep runs after the last main op and after the terminal reload (the state after
			// the terminal batch is swept through the reload that follows it)
			if o.K != "B" {
				w.checkQueries(o.K, i == len(full)-1)
			}
			res.states = append(res.states, canonKey(w.d, w.model))
			res.steps++
			if o.R {
				res.steps++
			}
		}
		if len(w.vios) > nv {
			w.resync(w.observe())
		}
	}
	res.status = "ok"
	res.vios = w.vios
	res.outcomes = w.outcomes
	return res
}

func depthFor(c *vlib.Ctx) int {
	if c.Thorough() {
		return 4
	}
	return 3
}

func TestCheck(t *testing.T) {
	vlib.Main(t, &vlib.Check{
		ID: "C18", Level: "model_checking",
		Rule: "all histories of 1..N operations (N=3 quick, N=4 thorough) over the 19-letter alphabet {W(t): single-point write through PointsWriter.MapShards for t in T (14 timestamps: MinNanoTime, MinNanoTime+d, -d-1, -d, -1, 0, 1, d-1, d, d+1, now(fixed constant), MaxNanoTime-d, MaxNanoTime-1, MaxNanoTime); D(last|first): meta.Client.DeleteShardGroup of the group last written / the earliest live group; X(0|1|now): TruncateShardGroups} with an optional reload (new meta.Client on the same inmem KV, Open) before every operation but the first, for shard group durations d in {1h,24h,168h}, infinite retention; every history is followed by a terminal batch write of all 14 timestamps in one MapShards call and a terminal reload. Each history is executed from scratch on the real code; the clauses are checked after its last operation, after the terminal batch and after the terminal reload (earlier steps are the shorter histories); ShardGroupsByTimeRange is swept over all 105 pairs min<=max of T after the terminal reload and over the 28 point/adjacent/full-range pairs after the last operation. A history is non-trivial if it is applicable (its delete operations have a target); states = canonical shard-group lists (bounds, deleted, truncated) reached at the checked steps.",
		Assumptions: []string{
			"with infinite retention every timestamp in [MinNanoTime,MaxNanoTime] must be accepted by MapShards (title: 'each point lands in one shard group')",
			"non-overlap is judged on effective ranges [start, min(end,truncatedAt)) of live groups; containment on nominal [start,end) (the statement does not mention truncation, so the lenient reading is used for each clause)",
			"which groups TruncateShardGroups marks is not part of the statement: any marking is adopted; only its survival across reload is checked",
			"inmem KV store stands in for bolt: the persisted form is the same protobuf blob written by meta.Client.commit",
		},
		QuickBudgetS: 45, ThoroughBudgetS: 780,
		Run: func(c *vlib.Ctx) {
			// 16 worker processes share the machine: keep each one's GC from fanning out over all cores
			runtime.GOMAXPROCS(2)
			debug.SetGCPercent(800)
			A := alphabet()
			N := depthFor(c)
			var idx int64
			for n := 1; n <= N; n++ {
				total := 1
				for i := 0; i < n; i++ {
					total *= len(A)
				}
				masks := 1 << (n - 1)
				for _, d := range durations {
					for code := 0; code < total; code++ {
						for mask := 0; mask < masks; mask++ {
							idx++
							if !c.Mine(idx) {
								continue
							}
							if c.Expired() {
								c.Cap(fmt.Sprintf("budget expired inside history length %d, d=%s (all shorter lengths and, for this length, all smaller d complete)", n, d))
								return
							}
							ops := make([]Op, n)
							x := code
							for i := n - 1; i >= 0; i-- {
								ops[i] = A[x%len(A)]
								x /= len(A)
							}
							for i := 1; i < n; i++ {
								ops[i].R = mask&(1<<(i-1)) != 0
							}
							cs := Case{D: int64(d), Ops: ops}
							r := run(cs)
							c.Eval(1)
							switch r.status {
							case "harness-error":
								c.HarnessError(fmt.Sprintf("%v: %v", cs, r.err))
								continue
							case "inapplicable":
								c.Outcome("history:inapplicable-delete")
								continue
							}
							c.NontrivialN(1)
							c.Trace(1)
							c.Transition(r.steps)
							for _, s := range r.states {
								c.State(s)
							}
							for _, o := range r.outcomes {
								c.Outcome(o)
							}
							if len(r.vios) == 0 {
								c.Outcome(fmt.Sprintf("history:len=%d/clean", n))
							} else {
								c.Outcome(fmt.Sprintf("history:len=%d/violating", n))
							}
							for _, v := range r.vios {
								c.Violation(v.sig, cs.String()+" => "+v.msg, cs)
							}
							if c.WantSample() && n >= 2 {
								c.Sample(map[string]any{"history": cs.String(), "final_state": r.states[len(r.states)-1], "violations": len(r.vios)})
							}
						}
					}
				}
			}
		},
		Replay: func(c *vlib.Ctx, raw json.RawMessage) (bool, string) {
			var cs Case
			if err := json.Unmarshal(raw, &cs); err != nil {
				return false, err.Error()
			}
			r := run(cs)
			if r.status != "ok" {
				return false, fmt.Sprintf("%s: status=%s err=%v", cs, r.status, r.err)
			}
			var lines []string
			for _, v := range r.vios {
				lines = append(lines, v.sig+": "+v.msg)
			}
			return len(r.vios) > 0, cs.String() + "\n" + strings.Join(lines, "\n")
		},
	})
}
