// C30: tenant metadata stays unique and internally consistent.
//
// Explicit-state BFS over the states of the REAL tenant.Service running on an in-memory kv store with all kv
// migrations applied. A state is the content of the nine kv buckets the tenant store keeps (records, name indexes,
// the urm-by-user index); the canonical key renames ids by the names that own them and keeps their relative order.
// Every transition (one tenant.Service call) is judged against a reference written from the property statement,
// and every reached state is checked against the statement's invariants through the raw kv dump and through the
// lookup API.
package c30

import (
	"context"
	"crypto/sha1"
	"encoding/hex"
	"encoding/json"
	"fmt"
	"runtime"
	"sort"
	"strings"
	"sync"
	"testing"

	influxdb "github.com/influxdata/influxdb/v2"
	icontext "github.com/influxdata/influxdb/v2/context"
	"github.com/influxdata/influxdb/v2/inmem"
	"github.com/influxdata/influxdb/v2/kit/platform"
	"github.com/influxdata/influxdb/v2/kv"
	"github.com/influxdata/influxdb/v2/kv/migration/all"
	"github.com/influxdata/influxdb/v2/task/taskmodel"
	"github.com/influxdata/influxdb/v2/tenant"
	"go.uber.org/zap"
	"verif/h/vlib"
)

// ---------------------------------------------------------------------------------------------------------------
// domain

// alphabet is the set of names one BFS phase draws from. Every phase contains the plain names (which collide
// exactly) and, for ONE kind of entity, every name of the "look-alike" family of the first plain name: names that
// differ from it only by something a store might normalise away - a leading blank, a trailing blank, letter case -
// and, for buckets, a blank-padded system bucket name.
type alphabet struct {
	label             string
	orgs, bkts, users []string
}

var (
	plainOrgs  = []string{"oA", "oB", "oA "} // "oA " collides with "oA" in the (trimmed) organization name index
	plainBkts  = []string{"bA", "bB"}
	plainUsers = []string{"uA", "uB"}

	alphaPlain   = alphabet{"plain", plainOrgs, plainBkts, plainUsers}
	alphaBuckets = alphabet{"bucket-lookalikes", plainOrgs[:2], []string{"bA", "bB", " bA", "bA ", "BA", " " + sysTasks}, plainUsers}
	alphaOrgs    = alphabet{"org-lookalikes", []string{"oA", "oB", "oA ", " oA", "OA"}, plainBkts, plainUsers}
	alphaUsers   = alphabet{"user-lookalikes", plainOrgs[:2], plainBkts, []string{"uA", "uB", " uA", "uA ", "UA"}}

	// every name any phase uses (for the absent-name lookups of the state invariants, which are phase independent)
	allOrgNames     = []string{"oA", "oB", "oA ", " oA", "OA"}
	allBktNames     = []string{"bA", "bB", " bA", "bA ", "BA", sysTasks, sysMon, " " + sysTasks}
	allUserNames    = []string{"uA", "uB", " uA", "uA ", "UA"}
	inPlainAlphabet = map[string]bool{"oA": true, "oB": true, "oA ": true, "bA": true, "bB": true, "uA": true, "uB": true, sysTasks: true, sysMon: true}
	plainNames      = map[string]bool{"oA": true, "oB": true, "bA": true, "bB": true, "uA": true, "uB": true, sysTasks: true, sysMon: true}
)

// look is the look-alike class of a name: what is left after the normalisations a store might apply.
func look(n string) string { return strings.ToLower(strings.TrimSpace(n)) }

const (
	sysTasks = "_tasks"
	sysMon   = "_monitoring"
)

// Op is one tenant.Service call; entities are addressed by their current names (resolved to ids from the raw kv dump).
type Op struct {
	K    string `json:"k"`
	Org  string `json:"org,omitempty"`
	Name string `json:"name,omitempty"`
	To   string `json:"to,omitempty"`
	As   string `json:"as,omitempty"`  // createOrg: acting user (becomes owner)
	Sys  bool   `json:"sys,omitempty"` // createBucket: ask for a system bucket
}

func (o Op) String() string {
	s := o.K + "("
	var p []string
	if o.Org != "" {
		p = append(p, fmt.Sprintf("org=%q", o.Org))
	}
	if o.Name != "" {
		p = append(p, fmt.Sprintf("name=%q", o.Name))
	}
	if o.To != "" {
		p = append(p, fmt.Sprintf("to=%q", o.To))
	}
	if o.As != "" {
		p = append(p, fmt.Sprintf("as=%q", o.As))
	}
	if o.Sys {
		p = append(p, "system")
	}
	return s + strings.Join(p, ",") + ")"
}

// Case is what a violation records: a history from the empty store plus the judged op, or one structured-family case.
type Case struct {
	Path   []Op   `json:"path,omitempty"`
	Op     *Op    `json:"op,omitempty"`
	Family string `json:"family,omitempty"`
	N      int    `json:"n,omitempty"`
}

// ---------------------------------------------------------------------------------------------------------------
// world: the real service on a migrated in-memory kv store, with deterministic id generators

type seqGen struct{ next uint64 }

func (g *seqGen) ID() platform.ID { g.next++; return platform.ID(g.next) }

type noTasks struct{ taskmodel.TaskService }

func (noTasks) FindTasks(context.Context, taskmodel.TaskFilter) ([]*taskmodel.Task, int, error) {
	return nil, 0, nil
}

type world struct {
	st            *inmem.KVStore
	svc           *tenant.Service
	ogen, bgen, u *seqGen
}

func newWorld() *world {
	st := inmem.NewKVStore()
	if err := all.Up(context.Background(), zap.NewNop(), st); err != nil {
		panic(err)
	}
	w := &world{st: st, ogen: &seqGen{next: baseCounters[0]}, bgen: &seqGen{next: baseCounters[1]}, u: &seqGen{next: baseCounters[2]}}
	store := tenant.NewStore(st)
	store.OrgIDGen, store.BucketIDGen, store.IDGen = w.ogen, w.bgen, w.u
	w.svc = tenant.NewService(store)
	w.svc.Apply(tenant.WithTaskService(noTasks{}))
	return w
}

var tenantBuckets = []string{
	"organizationsv1", "organizationindexv1", "bucketsv1", "bucketindexv1", "usersv1", "userindexv1", "userspasswordv1",
	"userresourcemappingsv1", "userresourcemappingsbyuserindexv1",
}

type pair struct{ K, V string }

type orgRec struct{ ID, Name string }
type bktRec struct {
	ID, OrgID, Name string
	Type            int
}
type userRec struct{ ID, Name string }
type urmRec struct{ Key, UserID, ResourceID, ResourceType, UserType string }

// snap is the raw content of the tenant kv buckets plus the decoded records.
type snap struct {
	raw   map[string][]pair
	orgs  []orgRec
	bkts  []bktRec
	users []userRec
	urms  []urmRec
	bad   []string // undecodable records
}

func (w *world) dump() *snap {
	s := &snap{raw: map[string][]pair{}}
	err := w.st.View(context.Background(), func(tx kv.Tx) error {
		for _, bn := range tenantBuckets {
			b, err := tx.Bucket([]byte(bn))
			if err != nil {
				return fmt.Errorf("%s: %w", bn, err)
			}
			cur, err := b.Cursor()
			if err != nil {
				return err
			}
			var ps []pair
			for k, v := cur.First(); k != nil; k, v = cur.Next() {
				ps = append(ps, pair{string(k), string(v)})
			}
			s.raw[bn] = ps
		}
		return nil
	})
	if err != nil {
		panic("dump: " + err.Error())
	}
	type rec struct {
		ID           string `json:"id"`
		OrgID        string `json:"orgID"`
		Name         string `json:"name"`
		Type         int    `json:"type"`
		UserID       string `json:"userID"`
		ResourceID   string `json:"resourceID"`
		ResourceType string `json:"resourceType"`
		UserType     string `json:"userType"`
	}
	for _, p := range s.raw["organizationsv1"] {
		var r rec
		if json.Unmarshal([]byte(p.V), &r) != nil || r.ID != p.K {
			s.bad = append(s.bad, "organizationsv1/"+p.K)
			continue
		}
		s.orgs = append(s.orgs, orgRec{r.ID, r.Name})
	}
	for _, p := range s.raw["bucketsv1"] {
		var r rec
		if json.Unmarshal([]byte(p.V), &r) != nil || r.ID != p.K {
			s.bad = append(s.bad, "bucketsv1/"+p.K)
			continue
		}
		s.bkts = append(s.bkts, bktRec{r.ID, r.OrgID, r.Name, r.Type})
	}
	for _, p := range s.raw["usersv1"] {
		var r rec
		if json.Unmarshal([]byte(p.V), &r) != nil || r.ID != p.K {
			s.bad = append(s.bad, "usersv1/"+p.K)
			continue
		}
		s.users = append(s.users, userRec{r.ID, r.Name})
	}
	for _, p := range s.raw["userresourcemappingsv1"] {
		var r rec
		if json.Unmarshal([]byte(p.V), &r) != nil {
			s.bad = append(s.bad, "userresourcemappingsv1/"+p.K)
			continue
		}
		s.urms = append(s.urms, urmRec{p.K, r.UserID, r.ResourceID, r.ResourceType, r.UserType})
	}
	return s
}

var baseCounters = [3]uint64{0x0a00000000000000, 0x0b00000000000000, 0x0c00000000000000}

// reset makes the tenant buckets of w hold exactly the given dump (nil = empty) and lets the id generators continue
// after the given counters. The tenant service keeps no state outside these kv buckets, so the result is the state
// the dump was taken in.
func (w *world) reset(s *snap, ctr [3]uint64) {
	err := w.st.Update(context.Background(), func(tx kv.Tx) error {
		for _, bn := range tenantBuckets {
			b, err := tx.Bucket([]byte(bn))
			if err != nil {
				return err
			}
			cur, err := b.Cursor()
			if err != nil {
				return err
			}
			var keys [][]byte
			for k, _ := cur.First(); k != nil; k, _ = cur.Next() {
				keys = append(keys, k)
			}
			for _, k := range keys {
				if err := b.Delete(k); err != nil {
					return err
				}
			}
			if s == nil {
				continue
			}
			for _, p := range s.raw[bn] {
				if err := b.Put([]byte(p.K), []byte(p.V)); err != nil {
					return err
				}
			}
		}
		return nil
	})
	if err != nil {
		panic("reset: " + err.Error())
	}
	w.ogen.next, w.bgen.next, w.u.next = ctr[0], ctr[1], ctr[2]
}

func (w *world) counters() [3]uint64 { return [3]uint64{w.ogen.next, w.bgen.next, w.u.next} }

// ---------------------------------------------------------------------------------------------------------------
// canonical key

// stripTimes removes the "createdAt"/"updatedAt" members (wall-clock values) from a stored JSON record.
func stripTimes(v string) string {
	for _, f := range []string{`"createdAt":"`, `"updatedAt":"`} {
		i := strings.Index(v, f)
		if i < 0 {
			continue
		}
		j := strings.IndexByte(v[i+len(f):], '"')
		if j < 0 {
			continue
		}
		end := i + len(f) + j + 1
		if i > 0 && v[i-1] == ',' {
			i--
		} else if end < len(v) && v[end] == ',' {
			end++
		}
		v = v[:i] + v[end:]
	}
	return v
}

// retok replaces every known id (16 hex digits, generated in the 0a../0b../0c.. ranges) by its token.
func retok(t string, tok map[string]string) string {
	var sb strings.Builder
	for i := 0; i < len(t); {
		if t[i] == '0' && i+16 <= len(t) && (t[i+1] == 'a' || t[i+1] == 'b' || t[i+1] == 'c') {
			if r, ok := tok[t[i:i+16]]; ok {
				sb.WriteString(r)
				i += 16
				continue
			}
		}
		sb.WriteByte(t[i])
		i++
	}
	return sb.String()
}

// canon returns the canonical key of a state: the dump with ids renamed by the names that own them plus the relative
// id order of organizations and of users; `bucketOrder` is the relative order of the bucket ids (kept separately: the
// full key includes it, the coarse key does not).
func canon(s *snap) (coarse, bucketOrder string) {
	tok := map[string]string{}
	orgs := append([]orgRec{}, s.orgs...)
	sort.Slice(orgs, func(i, j int) bool {
		if orgs[i].Name != orgs[j].Name {
			return orgs[i].Name < orgs[j].Name
		}
		return orgs[i].ID < orgs[j].ID
	})
	for i, o := range orgs {
		t := "O<" + o.Name + ">"
		if i > 0 && orgs[i-1].Name == o.Name {
			t += fmt.Sprintf("#%d", i)
		}
		tok[o.ID] = t
	}
	users := append([]userRec{}, s.users...)
	sort.Slice(users, func(i, j int) bool {
		if users[i].Name != users[j].Name {
			return users[i].Name < users[j].Name
		}
		return users[i].ID < users[j].ID
	})
	for i, u := range users {
		t := "U<" + u.Name + ">"
		if i > 0 && users[i-1].Name == u.Name {
			t += fmt.Sprintf("#%d", i)
		}
		tok[u.ID] = t
	}
	type bt struct{ id, t string }
	var bts []bt
	for _, b := range s.bkts {
		ot, ok := tok[b.OrgID]
		if !ok {
			ot = "?"
		}
		bts = append(bts, bt{b.ID, "B<" + ot + "/" + b.Name + ">"})
	}
	sort.Slice(bts, func(i, j int) bool {
		if bts[i].t != bts[j].t {
			return bts[i].t < bts[j].t
		}
		return bts[i].id < bts[j].id
	})
	for i, b := range bts {
		t := b.t
		if i > 0 && bts[i-1].t == b.t {
			t += fmt.Sprintf("#%d", i)
		}
		tok[b.id] = t
	}
	var sb strings.Builder
	for _, bn := range tenantBuckets {
		var lines []string
		for _, p := range s.raw[bn] {
			lines = append(lines, retok(p.K, tok)+" = "+retok(stripTimes(p.V), tok))
		}
		sort.Strings(lines)
		sb.WriteString("[" + bn + "]\n")
		for _, l := range lines {
			sb.WriteString(l + "\n")
		}
	}
	// relative order of the ids of each class (ids have a fixed width, so string order is numeric order)
	ord := func(ids []string) string {
		sort.Strings(ids)
		var ts []string
		for _, id := range ids {
			ts = append(ts, tok[id])
		}
		return strings.Join(ts, " ")
	}
	var oi, bi, ui []string
	for _, o := range s.orgs {
		oi = append(oi, o.ID)
	}
	for _, b := range s.bkts {
		bi = append(bi, b.ID)
	}
	for _, u := range s.users {
		ui = append(ui, u.ID)
	}
	sb.WriteString("order orgs: " + ord(oi) + "\norder users: " + ord(ui) + "\n")
	return sb.String(), "order buckets: " + ord(bi) + "\n"
}

// fullOrder selects the full key (with bucket id order) instead of the coarse one.
func stateKey(s *snap, fullOrder bool) string {
	k, bo := canon(s)
	if fullOrder {
		k += bo
	}
	return keyHash(k)
}

func keyHash(k string) string { h := sha1.Sum([]byte(k)); return hex.EncodeToString(h[:12]) }

// ---------------------------------------------------------------------------------------------------------------
// abstraction (only defined for states that satisfy the uniqueness/referential invariants)

type aBkt struct {
	ID   string
	Type int
}
type aOrg struct {
	ID      string
	Bkts    map[string]aBkt   // by name
	Members map[string]string // user name -> user type (memberships of users that exist)
}
type abs struct {
	Orgs  map[string]*aOrg  // by name
	Users map[string]string // name -> id
}

func abstract(s *snap) *abs {
	a := &abs{Orgs: map[string]*aOrg{}, Users: map[string]string{}}
	byID := map[string]*aOrg{}
	for _, o := range s.orgs {
		ao := &aOrg{ID: o.ID, Bkts: map[string]aBkt{}, Members: map[string]string{}}
		a.Orgs[o.Name] = ao
		byID[o.ID] = ao
	}
	uname := map[string]string{}
	for _, u := range s.users {
		a.Users[u.Name] = u.ID
		uname[u.ID] = u.Name
	}
	for _, b := range s.bkts {
		if o := byID[b.OrgID]; o != nil {
			o.Bkts[b.Name] = aBkt{b.ID, b.Type}
		}
	}
	for _, m := range s.urms {
		if o := byID[m.ResourceID]; o != nil && m.ResourceType == "orgs" {
			if n, ok := uname[m.UserID]; ok {
				o.Members[n] = m.UserType
			}
		}
	}
	return a
}

func (a *abs) clone() *abs {
	c := &abs{Orgs: map[string]*aOrg{}, Users: map[string]string{}}
	for n, o := range a.Orgs {
		co := &aOrg{ID: o.ID, Bkts: map[string]aBkt{}, Members: map[string]string{}}
		for k, v := range o.Bkts {
			co.Bkts[k] = v
		}
		for k, v := range o.Members {
			co.Members[k] = v
		}
		c.Orgs[n] = co
	}
	for k, v := range a.Users {
		c.Users[k] = v
	}
	return c
}

func sortedKeys[V any](m map[string]V) []string {
	ks := make([]string, 0, len(m))
	for k := range m {
		ks = append(ks, k)
	}
	sort.Strings(ks)
	return ks
}

// render is a deterministic text form; ids are printed by their low 16 bits (class prefix dropped).
func (a *abs) render() string {
	sh := func(id string) string {
		if len(id) == 16 {
			return id[:2] + ":" + strings.TrimLeft(id[2:], "0")
		}
		return id
	}
	var sb strings.Builder
	for _, n := range sortedKeys(a.Orgs) {
		o := a.Orgs[n]
		fmt.Fprintf(&sb, "org %q[%s]{", n, sh(o.ID))
		for _, bn := range sortedKeys(o.Bkts) {
			b := o.Bkts[bn]
			fmt.Fprintf(&sb, " %q[%s,type=%d]", bn, sh(b.ID), b.Type)
		}
		sb.WriteString(" | members:")
		for _, un := range sortedKeys(o.Members) {
			fmt.Fprintf(&sb, " %q(%s)", un, o.Members[un])
		}
		sb.WriteString(" } ")
	}
	sb.WriteString("users:")
	for _, un := range sortedKeys(a.Users) {
		fmt.Fprintf(&sb, " %q[%s]", un, sh(a.Users[un]))
	}
	return sb.String()
}

// ---------------------------------------------------------------------------------------------------------------
// enabled operations of a state (simplest first)

func enabledOps(a *abs, al alphabet) []Op {
	var ops []Op
	users := sortedKeys(a.Users)
	orgs := sortedKeys(a.Orgs)
	for _, n := range al.users {
		ops = append(ops, Op{K: "createUser", Name: n})
	}
	for _, n := range al.orgs {
		ops = append(ops, Op{K: "createOrg", Org: n})
		for _, u := range users {
			ops = append(ops, Op{K: "createOrg", Org: n, As: u})
		}
	}
	for _, on := range orgs {
		o := a.Orgs[on]
		for _, bn := range al.bkts {
			ops = append(ops, Op{K: "createBucket", Org: on, Name: bn})
		}
		ops = append(ops, Op{K: "createBucket", Org: on, Name: sysTasks, Sys: true})
		for _, u := range users {
			if _, ok := o.Members[u]; ok {
				ops = append(ops, Op{K: "removeMember", Org: on, Name: u})
			}
			ops = append(ops, Op{K: "addMember", Org: on, Name: u}) // also when already a member
		}
		for _, bn := range sortedKeys(o.Bkts) {
			for _, to := range al.bkts {
				ops = append(ops, Op{K: "renameBucket", Org: on, Name: bn, To: to})
			}
			ops = append(ops, Op{K: "renameBucket", Org: on, Name: bn, To: sysTasks})
			ops = append(ops, Op{K: "deleteBucket", Org: on, Name: bn})
		}
		for _, to := range al.orgs {
			ops = append(ops, Op{K: "renameOrg", Org: on, To: to})
		}
		ops = append(ops, Op{K: "deleteOrg", Org: on})
	}
	for _, u := range users {
		for _, to := range al.users {
			ops = append(ops, Op{K: "renameUser", Name: u, To: to})
		}
		ops = append(ops, Op{K: "deleteUser", Name: u})
	}
	return ops
}

func mustID(s string) platform.ID {
	id, err := platform.IDFromString(s)
	if err != nil {
		panic("bad id " + s)
	}
	return *id
}

// apply executes one op through the real service; names are resolved with the abstraction of the pre-state.
func (w *world) apply(o Op, a *abs) (err error) {
	ctx := context.Background()
	org := a.Orgs[o.Org]
	switch o.K {
	case "createOrg":
		if o.As != "" {
			ctx = icontext.SetAuthorizer(ctx, &influxdb.Authorization{UserID: mustID(a.Users[o.As]), Status: influxdb.Active})
		}
		return w.svc.CreateOrganization(ctx, &influxdb.Organization{Name: o.Org})
	case "renameOrg":
		to := o.To
		_, err = w.svc.UpdateOrganization(ctx, mustID(org.ID), influxdb.OrganizationUpdate{Name: &to})
	case "deleteOrg":
		err = w.svc.DeleteOrganization(ctx, mustID(org.ID))
	case "createBucket":
		b := &influxdb.Bucket{OrgID: mustID(org.ID), Name: o.Name}
		if o.Sys {
			b.Type = influxdb.BucketTypeSystem
		}
		err = w.svc.CreateBucket(ctx, b)
	case "renameBucket":
		to := o.To
		_, err = w.svc.UpdateBucket(ctx, mustID(org.Bkts[o.Name].ID), influxdb.BucketUpdate{Name: &to})
	case "deleteBucket":
		err = w.svc.DeleteBucket(ctx, mustID(org.Bkts[o.Name].ID))
	case "createUser":
		err = w.svc.CreateUser(ctx, &influxdb.User{Name: o.Name, Status: influxdb.Active})
	case "renameUser":
		to := o.To
		_, err = w.svc.UpdateUser(ctx, mustID(a.Users[o.Name]), influxdb.UserUpdate{Name: &to})
	case "deleteUser":
		err = w.svc.DeleteUser(ctx, mustID(a.Users[o.Name]))
	case "addMember":
		err = w.svc.CreateUserResourceMapping(ctx, &influxdb.UserResourceMapping{UserID: mustID(a.Users[o.Name]), UserType: influxdb.Member,
			MappingType: influxdb.UserMappingType, ResourceType: influxdb.OrgsResourceType, ResourceID: mustID(org.ID)})
	case "removeMember":
		err = w.svc.DeleteUserResourceMapping(ctx, mustID(org.ID), mustID(a.Users[o.Name]))
	default:
		panic("unknown op " + o.K)
	}
	return err
}

// ---------------------------------------------------------------------------------------------------------------
// findings

type finding struct{ sig, msg string }

func trimEq(a, b string) bool { return strings.TrimSpace(a) == strings.TrimSpace(b) }

func padded(n string) bool { return strings.TrimSpace(n) != n }

// invariants checks one state: the statement's uniqueness, index/record agreement (raw and through the lookup API)
// and referential clauses. `after` names the kind of the op that produced the state (for the class signature).
func invariants(w *world, s *snap, after string) []finding {
	var fs []finding
	add := func(sig, f string, a ...any) { fs = append(fs, finding{sig + "/after=" + after, fmt.Sprintf(f, a...)}) }
	for _, b := range s.bad {
		add("record-undecodable", "record %s cannot be decoded or its id differs from its key", b)
	}
	// --- uniqueness
	orgByName, orgByID := map[string]orgRec{}, map[string]orgRec{}
	anyPadded := false
	for _, o := range s.orgs {
		anyPadded = anyPadded || padded(o.Name)
		if p, ok := orgByName[o.Name]; ok {
			add("org-name-not-unique", "organizations %s and %s are both named %q", p.ID, o.ID, o.Name)
		}
		orgByName[o.Name] = o
		orgByID[o.ID] = o
	}
	userByName, userByID := map[string]userRec{}, map[string]userRec{}
	for _, u := range s.users {
		if p, ok := userByName[u.Name]; ok {
			add("user-name-not-unique", "users %s and %s are both named %q", p.ID, u.ID, u.Name)
		}
		userByName[u.Name] = u
		userByID[u.ID] = u
	}
	bktByKey, bktByID := map[string]bktRec{}, map[string]bktRec{}
	for _, b := range s.bkts {
		k := b.OrgID + "/" + b.Name
		if p, ok := bktByKey[k]; ok {
			add("bucket-name-not-unique-in-org", "buckets %s and %s of organization %s are both named %q", p.ID, b.ID, b.OrgID, b.Name)
		}
		bktByKey[k] = b
		bktByID[b.ID] = b
	}
	// --- referential: no bucket / org membership refers to an organization that does not exist
	for _, b := range s.bkts {
		if _, ok := orgByID[b.OrgID]; !ok {
			add("bucket-of-missing-org", "bucket %s %q belongs to organization %s which does not exist", b.ID, b.Name, b.OrgID)
		}
	}
	for _, m := range s.urms {
		if m.ResourceType == "orgs" {
			if _, ok := orgByID[m.ResourceID]; !ok {
				add("membership-of-missing-org", "membership of user %s refers to organization %s which does not exist", m.UserID, m.ResourceID)
			}
		}
	}
	// --- raw name indexes: every entry resolves to a record with that name, every record has exactly one entry
	padTag := fmt.Sprintf("paddedName=%v", anyPadded)
	seen := map[string]int{}
	for _, p := range s.raw["organizationindexv1"] {
		o, ok := orgByID[p.V]
		switch {
		case !ok:
			add("index-dangling/organizationindexv1", "organization name index entry %q -> %s resolves to no organization record", p.K, p.V)
		case p.K != o.Name && p.K != strings.TrimSpace(o.Name):
			add("index-wrong-name/organizationindexv1", "organization name index entry %q -> %s, but that organization is named %q", p.K, p.V, o.Name)
		default:
			seen[o.ID]++
		}
	}
	for _, o := range s.orgs {
		if seen[o.ID] != 1 {
			add("index-missing/organizationindexv1/"+padTag, "organization %s %q has %d name index entries", o.ID, o.Name, seen[o.ID])
		}
	}
	seen = map[string]int{}
	for _, p := range s.raw["userindexv1"] {
		u, ok := userByID[p.V]
		switch {
		case !ok:
			add("index-dangling/userindexv1", "user name index entry %q -> %s resolves to no user record", p.K, p.V)
		case p.K != u.Name:
			add("index-wrong-name/userindexv1", "user name index entry %q -> %s, but that user is named %q", p.K, p.V, u.Name)
		default:
			seen[u.ID]++
		}
	}
	for _, u := range s.users {
		if seen[u.ID] != 1 {
			add("index-missing/userindexv1", "user %s %q has %d name index entries", u.ID, u.Name, seen[u.ID])
		}
	}
	seen = map[string]int{}
	for _, p := range s.raw["bucketindexv1"] {
		b, ok := bktByID[p.V]
		switch {
		case !ok:
			add("index-dangling/bucketindexv1", "bucket name index entry %q -> %s resolves to no bucket record", p.K, p.V)
		case p.K != b.OrgID+b.Name:
			add("index-wrong-name/bucketindexv1", "bucket name index entry %q -> %s, but that bucket is %q of organization %s", p.K, p.V, b.Name, b.OrgID)
		default:
			seen[b.ID]++
		}
	}
	for _, b := range s.bkts {
		if seen[b.ID] != 1 {
			add("index-missing/bucketindexv1", "bucket %s %q of organization %s has %d name index entries", b.ID, b.Name, b.OrgID, seen[b.ID])
		}
	}
	// --- urm-by-user index agrees with the urm records
	urmByKey := map[string]urmRec{}
	for _, m := range s.urms {
		urmByKey[m.Key] = m
	}
	seen = map[string]int{}
	for _, p := range s.raw["userresourcemappingsbyuserindexv1"] {
		m, ok := urmByKey[p.V]
		switch {
		case !ok:
			add("index-dangling/urm-by-user", "urm-by-user index entry %q -> %q resolves to no mapping record", p.K, p.V)
		case !strings.HasPrefix(p.K, m.UserID):
			add("index-wrong-name/urm-by-user", "urm-by-user index entry %q -> %q, but that mapping belongs to user %s", p.K, p.V, m.UserID)
		default:
			seen[m.Key]++
		}
	}
	for _, m := range s.urms {
		if seen[m.Key] != 1 {
			add("index-missing/urm-by-user", "mapping %q (user %s) has %d urm-by-user index entries", m.Key, m.UserID, seen[m.Key])
		}
	}
	if len(fs) > 0 {
		return fs // the lookups below assume a well-formed record set
	}

	// --- lookups through the API agree with the records
	ctx := context.Background()
	for _, o := range s.orgs {
		name := o.Name
		got, err := w.svc.FindOrganization(ctx, influxdb.OrganizationFilter{Name: &name})
		if err != nil || got == nil || got.ID.String() != o.ID || got.Name != o.Name {
			add("lookup-disagrees/FindOrganization(name)/"+padTag, "FindOrganization(name=%q) = (%s, %v), the record with that name is %s", o.Name, orgStr(got), err, o.ID)
		}
		got, err = w.svc.FindOrganizationByID(ctx, mustID(o.ID))
		if err != nil || got == nil || got.ID.String() != o.ID || got.Name != o.Name {
			add("lookup-disagrees/FindOrganizationByID", "FindOrganizationByID(%s) = (%s, %v), the record is named %q", o.ID, orgStr(got), err, o.Name)
		}
	}
	for _, n := range allOrgNames {
		free := true
		for _, o := range s.orgs {
			free = free && !trimEq(o.Name, n) // names equal up to outer blanks: the statement does not say which one a lookup means
		}
		if !free {
			continue
		}
		name := n
		if got, err := w.svc.FindOrganization(ctx, influxdb.OrganizationFilter{Name: &name}); err == nil {
			add("lookup-disagrees/FindOrganization(absent name)", "FindOrganization(name=%q) = %s although no organization has that name", n, orgStr(got))
		}
	}
	all, _, err := w.svc.FindOrganizations(ctx, influxdb.OrganizationFilter{})
	var gl, wl []string
	for _, o := range all {
		gl = append(gl, o.ID.String()+":"+o.Name)
	}
	for _, o := range s.orgs {
		wl = append(wl, o.ID+":"+o.Name)
	}
	if d := setDiff(gl, wl); err != nil || d != "" {
		add("listing-disagrees/FindOrganizations", "FindOrganizations() err=%v differs from the records: %s", err, d)
	}
	for _, u := range s.users {
		name := u.Name
		got, err := w.svc.FindUser(ctx, influxdb.UserFilter{Name: &name})
		if err != nil || got == nil || got.ID.String() != u.ID || got.Name != u.Name {
			add("lookup-disagrees/FindUser(name)", "FindUser(name=%q) = (%s, %v), the record with that name is %s", u.Name, userStr(got), err, u.ID)
		}
		got, err = w.svc.FindUserByID(ctx, mustID(u.ID))
		if err != nil || got == nil || got.ID.String() != u.ID || got.Name != u.Name {
			add("lookup-disagrees/FindUserByID", "FindUserByID(%s) = (%s, %v), the record is named %q", u.ID, userStr(got), err, u.Name)
		}
		// memberships by user (urm-by-user index path) agree with the mapping records
		ms, _, err := w.svc.FindUserResourceMappings(ctx, influxdb.UserResourceMappingFilter{UserID: mustID(u.ID)})
		gl, wl = nil, nil
		for _, m := range ms {
			gl = append(gl, m.UserID.String()+"@"+m.ResourceID.String())
		}
		for _, m := range s.urms {
			if m.UserID == u.ID {
				wl = append(wl, m.UserID+"@"+m.ResourceID)
			}
		}
		if d := setDiff(gl, wl); err != nil || d != "" {
			add("listing-disagrees/FindUserResourceMappings(user)", "FindUserResourceMappings(user=%s) err=%v differs from the records: %s", u.ID, err, d)
		}
	}
	for _, n := range allUserNames { // exact: a lookup by a name that no record carries finds nothing, look-alikes included
		if _, ok := userByName[n]; ok {
			continue
		}
		name := n
		if got, err := w.svc.FindUser(ctx, influxdb.UserFilter{Name: &name}); err == nil {
			add("lookup-disagrees/FindUser(absent name)", "FindUser(name=%q) = %s although no user has that name", n, userStr(got))
		}
	}
	us, _, err := w.svc.FindUsers(ctx, influxdb.UserFilter{})
	gl, wl = nil, nil
	for _, u := range us {
		gl = append(gl, u.ID.String()+":"+u.Name)
	}
	for _, u := range s.users {
		wl = append(wl, u.ID+":"+u.Name)
	}
	if d := setDiff(gl, wl); err != nil || d != "" {
		add("listing-disagrees/FindUsers", "FindUsers() err=%v differs from the records: %s", err, d)
	}
	for _, o := range s.orgs {
		oid := mustID(o.ID)
		wl = nil
		for _, b := range s.bkts {
			if b.OrgID != o.ID {
				continue
			}
			wl = append(wl, b.ID+":"+b.Name)
			name := b.Name
			got, err := w.svc.FindBucketByName(ctx, oid, name)
			if err != nil || got == nil || got.ID.String() != b.ID || got.Name != b.Name || got.OrgID.String() != b.OrgID {
				add("lookup-disagrees/FindBucketByName", "FindBucketByName(org=%s, %q) = (%s, %v), the record with that name is %s", o.ID, b.Name, bktStr(got), err, b.ID)
			}
			got, err = w.svc.FindBucket(ctx, influxdb.BucketFilter{OrganizationID: &oid, Name: &name})
			if err != nil || got == nil || got.ID.String() != b.ID || got.Name != b.Name {
				add("lookup-disagrees/FindBucket(org,name)", "FindBucket(org=%s, name=%q) = (%s, %v), the record with that name is %s", o.ID, b.Name, bktStr(got), err, b.ID)
			}
			got, err = w.svc.FindBucketByID(ctx, mustID(b.ID))
			if err != nil || got == nil || got.ID.String() != b.ID || got.Name != b.Name {
				add("lookup-disagrees/FindBucketByID", "FindBucketByID(%s) = (%s, %v), the record is named %q", b.ID, bktStr(got), err, b.Name)
			}
		}
		if len(s.bkts) <= 16 { // the domain also probes names that no bucket of the organization has
			for _, n := range allBktNames { // exact: look-alikes of existing names included
				if _, ok := bktByKey[o.ID+"/"+n]; ok {
					continue
				}
				if got, err := w.svc.FindBucketByName(ctx, oid, n); err == nil {
					add("lookup-disagrees/FindBucketByName(absent name)", "FindBucketByName(org=%s, %q) = %s although the organization has no such bucket", o.ID, n, bktStr(got))
				}
			}
		}
		bs, _, err := w.svc.FindBuckets(ctx, influxdb.BucketFilter{OrganizationID: &oid})
		gl = nil
		for _, b := range bs {
			gl = append(gl, b.ID.String()+":"+b.Name)
		}
		// (in the many-bucket family the statement does not promise an unpaged listing: only looked at in the tiny domain)
		if d := setDiff(gl, wl); len(s.bkts) <= 16 && (err != nil || d != "") {
			add("listing-disagrees/FindBuckets(org)", "FindBuckets(org=%s) err=%v differs from the records: %s", o.ID, err, d)
		}
		// memberships by resource (scan path) agree with the mapping records
		ms, _, err := w.svc.FindUserResourceMappings(ctx, influxdb.UserResourceMappingFilter{ResourceID: oid})
		gl, wl = nil, nil
		for _, m := range ms {
			gl = append(gl, m.UserID.String()+"@"+m.ResourceID.String())
		}
		for _, m := range s.urms {
			if m.ResourceID == o.ID {
				wl = append(wl, m.UserID+"@"+m.ResourceID)
			}
		}
		if d := setDiff(gl, wl); err != nil || d != "" {
			add("listing-disagrees/FindUserResourceMappings(resource)", "FindUserResourceMappings(resource=%s) err=%v differs from the records: %s", o.ID, err, d)
		}
	}
	return fs
}

func orgStr(o *influxdb.Organization) string {
	if o == nil {
		return "nil"
	}
	return fmt.Sprintf("org{%s %q}", o.ID, o.Name)
}
func userStr(u *influxdb.User) string {
	if u == nil {
		return "nil"
	}
	return fmt.Sprintf("user{%s %q}", u.ID, u.Name)
}
func bktStr(b *influxdb.Bucket) string {
	if b == nil {
		return "nil"
	}
	return fmt.Sprintf("bucket{%s %q org=%s}", b.ID, b.Name, b.OrgID)
}

func setDiff(got, want []string) string {
	g, w := map[string]int{}, map[string]int{}
	for _, x := range got {
		g[x]++
	}
	for _, x := range want {
		w[x]++
	}
	var d []string
	for _, x := range sortedKeys(w) {
		if g[x] != w[x] {
			d = append(d, fmt.Sprintf("record %s returned %d times", x, g[x]))
		}
	}
	for _, x := range sortedKeys(g) {
		if w[x] == 0 {
			d = append(d, fmt.Sprintf("%s returned but not a record", x))
		}
	}
	return strings.Join(d, "; ")
}

// judge compares one executed transition with the reference written from the statement.
//   - an op that would give two organizations / two users / two buckets of one organization the same name, or that
//     deletes or renames a system bucket, must be rejected and must leave the (abstract) state unchanged;
//   - an op reported as successful must have exactly its effect (and nothing else may change). The statement does
//     not say whether a store may normalise a requested name (strip outer blanks, fold case): a successful create /
//     rename may store the requested name or any look-alike of it (same look()); the state invariants then still
//     demand that the stored names are unique and that every lookup agrees with the stored names;
//   - an op rejected for any other reason is accepted (the statement is silent), the state invariants still apply;
//   - system buckets of organizations that survive the op are untouched whatever the op reports;
//   - a successful organization delete leaves no bucket of it and no membership of it or of its buckets.
func judge(o Op, pre *abs, preS *snap, err error, post *abs, postS *snap) (class string, fs []finding) {
	add := func(sig, f string, a ...any) { fs = append(fs, finding{sig, fmt.Sprintf(f, a...)}) }
	mustFail := ""
	exp := pre.clone() // only looked at when the op is not forbidden and reports success
	org := pre.Orgs[o.Org]
	const notCreated = "<reported success, but there is no new record with the requested name or a look-alike of it>"
	switch o.K {
	case "createOrg":
		if _, ok := pre.Orgs[o.Org]; ok {
			mustFail = "collision"
		} else {
			old := map[string]bool{}
			for _, po := range pre.Orgs {
				old[po.ID] = true
			}
			stored := ""
			for _, n := range sortedKeys(post.Orgs) {
				if !old[post.Orgs[n].ID] && look(n) == look(o.Org) && (stored == "" || n == o.Org) {
					stored = n
				}
			}
			if stored != "" {
				exp.Orgs[stored] = post.Orgs[stored] // contents of the new organization: not constrained by the statement
			} else {
				exp.Orgs[o.Org] = &aOrg{ID: notCreated}
			}
		}
	case "renameOrg":
		if _, ok := pre.Orgs[o.To]; ok && o.To != o.Org {
			mustFail = "collision"
		} else {
			stored := o.To
			for _, n := range sortedKeys(post.Orgs) {
				if post.Orgs[n].ID == org.ID && look(n) == look(o.To) {
					stored = n
				}
			}
			delete(exp.Orgs, o.Org)
			exp.Orgs[stored] = pre.clone().Orgs[o.Org]
		}
	case "deleteOrg":
		delete(exp.Orgs, o.Org)
	case "createBucket":
		if _, ok := org.Bkts[o.Name]; ok {
			mustFail = "collision"
		} else {
			typ := 0
			if o.Sys {
				typ = 1
			}
			old := map[string]bool{}
			for _, po := range pre.Orgs {
				for _, b := range po.Bkts {
					old[b.ID] = true
				}
			}
			stored := ""
			if got, ok := post.Orgs[o.Org]; ok {
				for _, n := range sortedKeys(got.Bkts) {
					if !old[got.Bkts[n].ID] && look(n) == look(o.Name) && (stored == "" || n == o.Name) {
						stored = n
					}
				}
				if stored != "" {
					exp.Orgs[o.Org].Bkts[stored] = aBkt{got.Bkts[stored].ID, typ}
				}
			}
			if stored == "" {
				exp.Orgs[o.Org].Bkts[o.Name] = aBkt{notCreated, typ}
			}
		}
	case "renameBucket":
		b := org.Bkts[o.Name]
		_, taken := org.Bkts[o.To]
		switch {
		case o.To == o.Name: // not a rename
		case b.Type == 1 && look(o.To) == look(o.Name):
			// a look-alike of the system bucket's own name: a store that normalises names sees no rename here. Rejecting
			// and succeeding are both accepted, but nothing may change (exp stays the pre-state, and the system-bucket
			// clause below applies whatever the op reports)
		case b.Type == 1:
			mustFail = "system-bucket"
		case taken:
			mustFail = "collision"
		default:
			stored := o.To
			if got, ok := post.Orgs[o.Org]; ok {
				for _, n := range sortedKeys(got.Bkts) {
					if got.Bkts[n].ID == b.ID && look(n) == look(o.To) {
						stored = n
					}
				}
			}
			delete(exp.Orgs[o.Org].Bkts, o.Name)
			exp.Orgs[o.Org].Bkts[stored] = b
		}
	case "deleteBucket":
		if org.Bkts[o.Name].Type == 1 {
			mustFail = "system-bucket"
		} else {
			delete(exp.Orgs[o.Org].Bkts, o.Name)
		}
	case "createUser":
		if _, ok := pre.Users[o.Name]; ok {
			mustFail = "collision"
		} else {
			old := map[string]bool{}
			for _, id := range pre.Users {
				old[id] = true
			}
			stored := ""
			for _, n := range sortedKeys(post.Users) {
				if !old[post.Users[n]] && look(n) == look(o.Name) && (stored == "" || n == o.Name) {
					stored = n
				}
			}
			if stored != "" {
				exp.Users[stored] = post.Users[stored]
			} else {
				exp.Users[o.Name] = notCreated
			}
		}
	case "renameUser":
		if _, ok := pre.Users[o.To]; ok && o.To != o.Name {
			mustFail = "collision"
		} else {
			stored := o.To
			for _, n := range sortedKeys(post.Users) {
				if post.Users[n] == pre.Users[o.Name] && look(n) == look(o.To) {
					stored = n
				}
			}
			delete(exp.Users, o.Name)
			exp.Users[stored] = pre.Users[o.Name]
			for _, ao := range exp.Orgs {
				if t, ok := ao.Members[o.Name]; ok {
					delete(ao.Members, o.Name)
					ao.Members[stored] = t
				}
			}
		}
	case "deleteUser":
		delete(exp.Users, o.Name)
		for _, ao := range exp.Orgs {
			delete(ao.Members, o.Name) // memberships of a user that no longer exists are outside the abstraction
		}
	case "addMember":
		if t, ok := org.Members[o.Name]; ok {
			exp.Orgs[o.Org].Members[o.Name] = t
		} else {
			exp.Orgs[o.Org].Members[o.Name] = "member"
		}
	case "removeMember":
		delete(exp.Orgs[o.Org].Members, o.Name)
	}
	preR, postR := pre.render(), post.render()
	switch {
	case mustFail != "" && err == nil:
		class = "ACCEPTED-" + mustFail
		add(mustFail+"-accepted/"+o.K, "%s succeeded although the statement forbids it (%s); state before: %s; after: %s", o, mustFail, preR, postR)
	case mustFail != "":
		class = "rejected-" + mustFail
		if preR != postR {
			add("rejected-op-changed-state/"+o.K+"/"+mustFail, "%s was rejected (%v) but the state changed from %s to %s", o, err, preR, postR)
		}
	case err == nil:
		class = "ok"
		if er := exp.render(); er != postR {
			add("effect-mismatch/"+o.K, "%s reported success; expected state %s but found %s (before: %s)", o, er, postR, preR)
		}
	default:
		class = "rejected-other"
		if preR != postR {
			class = "rejected-other-state-changed"
		}
	}
	// system buckets of organizations that exist before and after are untouched (except the organization being deleted)
	postOrgByID := map[string]bool{}
	for _, r := range postS.orgs {
		postOrgByID[r.ID] = true
	}
	postBkt := map[string]bktRec{}
	for _, r := range postS.bkts {
		postBkt[r.ID] = r
	}
	for _, b := range preS.bkts {
		if b.Type != 1 || !postOrgByID[b.OrgID] || (o.K == "deleteOrg" && org != nil && b.OrgID == org.ID) {
			continue
		}
		if nb, ok := postBkt[b.ID]; !ok {
			add("system-bucket-deleted/"+o.K, "system bucket %s %q of surviving organization %s no longer exists after %s (err=%v)", b.ID, b.Name, b.OrgID, o, err)
		} else if nb.Name != b.Name || nb.Type != 1 || nb.OrgID != b.OrgID {
			add("system-bucket-changed/"+o.K, "system bucket %s %q of organization %s became %q type=%d org=%s after %s (err=%v)", b.ID, b.Name, b.OrgID, nb.Name, nb.Type, nb.OrgID, o, err)
		}
	}
	if o.K == "deleteOrg" && err == nil {
		gone := map[string]bool{org.ID: true}
		for _, b := range org.Bkts {
			gone[b.ID] = true
		}
		for _, b := range postS.bkts {
			if b.OrgID == org.ID {
				add("org-delete-leaves-bucket", "after successful %s bucket %s %q of the deleted organization %s still exists", o, b.ID, b.Name, org.ID)
			}
		}
		for _, m := range postS.urms {
			if gone[m.ResourceID] {
				add("org-delete-leaves-membership", "after successful %s the mapping of user %s to %s %s (the deleted organization or one of its buckets) still exists", o, m.UserID, m.ResourceType, m.ResourceID)
			}
		}
		for _, p := range postS.raw["organizationsv1"] {
			if p.K == org.ID {
				add("org-delete-leaves-org", "after successful %s the organization record %s still exists", o, org.ID)
			}
		}
	}
	return class, fs
}

// ---------------------------------------------------------------------------------------------------------------
// one transition

type stepResult struct {
	class    string
	findings []finding
	postKey  string
	post     *snap
	ctr      [3]uint64
	nontriv  bool
}

// invOK memoises "this state satisfies the state invariants" per state key (the verdict is a function of the state).
var invOK sync.Map

// step executes op on w (whose current dump is pre / abstraction a) and judges it.
func step(w *world, pre *snap, a *abs, o Op, fullOrder bool) stepResult {
	var err error
	if p, d := vlib.Guard(func() { err = w.apply(o, a) }); p {
		return stepResult{class: "PANIC", findings: []finding{{"panic/" + o.K + "/" + lastWord(d), fmt.Sprintf("%s panicked: %s", o, d)}}, postKey: "panic"}
	}
	post := w.dump()
	r := stepResult{post: post, ctr: w.counters(), postKey: stateKey(post, fullOrder)}
	after := o.K
	req := requestedName(o)
	switch {
	case strings.HasSuffix(o.K, "Org") && (padded(o.Org) || padded(o.To)):
		after += ",blankPaddedName"
	case req != "" && !plainNames[req]:
		after += ",lookalikeName"
	}
	lookalike := hasLookalike(o, a)
	memoKey := fmt.Sprint(fullOrder) + r.postKey
	if _, ok := invOK.Load(memoKey); !ok {
		r.findings = invariants(w, post, after)
		if len(r.findings) == 0 {
			invOK.Store(memoKey, true)
		}
	}
	if len(r.findings) == 0 {
		pa := abstract(post)
		var fs []finding
		r.class, fs = judge(o, a, pre, err, pa, post)
		r.findings = append(r.findings, fs...)
		if o.K == "deleteOrg" && err == nil {
			r.findings = append(r.findings, deletedOrgProbes(w, a.Orgs[o.Org])...)
		}
		r.nontriv = strings.HasPrefix(r.class, "rejected-collision") || strings.HasPrefix(r.class, "rejected-system") ||
			(o.K == "deleteOrg" && err == nil && (len(a.Orgs[o.Org].Bkts) > 2 || len(a.Orgs[o.Org].Members) > 0)) ||
			(strings.HasPrefix(o.K, "rename") && err == nil && o.To != o.Name && o.To != o.Org) || lookalike
		if lookalike {
			r.class += "+lookalike"
		}
	} else {
		r.class = "INVARIANT-BROKEN"
	}
	if len(r.findings) > 0 && !strings.HasPrefix(r.class, "ACCEPTED") && r.class != "INVARIANT-BROKEN" {
		r.class = "VIOLATION:" + r.class
	}
	return r
}

// plainOnly: every name stored in the state belongs to the plain alphabet (or is a system bucket name).
func plainOnly(a *abs) bool {
	for n, o := range a.Orgs {
		if !inPlainAlphabet[n] {
			return false
		}
		for bn := range o.Bkts {
			if !inPlainAlphabet[bn] {
				return false
			}
		}
	}
	for n := range a.Users {
		if !inPlainAlphabet[n] {
			return false
		}
	}
	return true
}

// requestedName is the name a create / rename asks for ("" for the other ops).
func requestedName(o Op) string {
	switch o.K {
	case "createOrg":
		return o.Org
	case "createBucket", "createUser":
		return o.Name
	case "renameOrg", "renameBucket", "renameUser":
		return o.To
	}
	return ""
}

// hasLookalike: the op asks for a name that differs from the name of ANOTHER live entity in the same scope (all
// organizations, the buckets of the organization, all users) only by outer blanks / letter case - the names that
// collide only if the store normalises one of them.
func hasLookalike(o Op, a *abs) bool {
	req := requestedName(o)
	if req == "" {
		return false
	}
	var scope []string
	self := ""
	switch o.K {
	case "createOrg":
		scope = sortedKeys(a.Orgs)
	case "renameOrg":
		scope, self = sortedKeys(a.Orgs), o.Org
	case "createBucket":
		scope = sortedKeys(a.Orgs[o.Org].Bkts)
	case "renameBucket":
		scope, self = sortedKeys(a.Orgs[o.Org].Bkts), o.Name
	case "createUser":
		scope = sortedKeys(a.Users)
	case "renameUser":
		scope, self = sortedKeys(a.Users), o.Name
	}
	for _, n := range scope {
		if n != req && n != self && look(n) == look(req) {
			return true
		}
	}
	return false
}

// deletedOrgProbes looks, through the API, for what a successfully deleted organization may have left behind: none
// of its buckets may be found by id, by (organization, name) or in the listing of the organization.
func deletedOrgProbes(w *world, org *aOrg) []finding {
	var fs []finding
	add := func(sig, f string, a ...any) { fs = append(fs, finding{sig, fmt.Sprintf(f, a...)}) }
	ctx := context.Background()
	oid := mustID(org.ID)
	for _, n := range sortedKeys(org.Bkts) {
		b := org.Bkts[n]
		if got, err := w.svc.FindBucketByID(ctx, mustID(b.ID)); err == nil {
			add("org-delete-leaves-bucket/FindBucketByID", "after the successful delete of organization %s its bucket %s %q is still found by id: %s", org.ID, b.ID, n, bktStr(got))
		}
		if got, err := w.svc.FindBucketByName(ctx, oid, n); err == nil {
			add("org-delete-leaves-bucket/FindBucketByName", "after the successful delete of organization %s its bucket %q is still found by name: %s", org.ID, n, bktStr(got))
		}
	}
	if bs, _, err := w.svc.FindBuckets(ctx, influxdb.BucketFilter{OrganizationID: &oid}); err == nil && len(bs) > 0 {
		add("org-delete-leaves-bucket/FindBuckets(org)", "after the successful delete of organization %s the listing of its buckets still returns %d buckets, first %s", org.ID, len(bs), bktStr(bs[0]))
	}
	all, _, err := w.svc.FindBuckets(ctx, influxdb.BucketFilter{}, influxdb.FindOptions{Limit: influxdb.MaxPageSize})
	if err == nil {
		for _, b := range all {
			if b.OrgID == oid {
				add("org-delete-leaves-bucket/FindBuckets(all)", "after the successful delete of organization %s the listing of all buckets still returns %s", org.ID, bktStr(b))
				break
			}
		}
	}
	return fs
}

func lastWord(s string) string {
	if i := strings.LastIndex(s, "@ "); i >= 0 {
		return s[i+2:]
	}
	return "?"
}

// replayPath runs a history from the empty store through the real service (no judging) and returns the world.
// With w == nil a fresh migrated store is built, otherwise w is wiped first.
func replayPath(w *world, path []Op) (_ *world, s *snap, a *abs, err error) {
	if w == nil {
		w = newWorld()
	} else {
		w.reset(nil, baseCounters)
	}
	s = w.dump()
	for i, o := range path {
		a = abstract(s)
		if !opEnabled(o, a) {
			return nil, nil, nil, fmt.Errorf("op %d %s is not applicable in state %s", i, o, a.render())
		}
		if p, d := vlib.Guard(func() { _ = w.apply(o, a) }); p {
			return nil, nil, nil, fmt.Errorf("op %d %s panicked: %s", i, o, d)
		}
		s = w.dump()
	}
	return w, s, abstract(s), nil
}

func opEnabled(o Op, a *abs) bool {
	org := a.Orgs[o.Org]
	switch o.K {
	case "createUser":
		return true
	case "createOrg":
		_, ok := a.Users[o.As]
		return o.As == "" || ok
	case "renameOrg", "deleteOrg", "createBucket":
		return org != nil
	case "renameBucket", "deleteBucket":
		if org == nil {
			return false
		}
		_, ok := org.Bkts[o.Name]
		return ok
	case "renameUser", "deleteUser":
		_, ok := a.Users[o.Name]
		return ok
	case "addMember", "removeMember":
		_, ok := a.Users[o.Name]
		return org != nil && ok
	}
	return false
}

// ---------------------------------------------------------------------------------------------------------------
// BFS

type node struct {
	parent *node
	op     Op
	depth  int
	key    string // hash of the canonical key
}

func (n *node) path() []Op {
	var p []Op
	for x := n; x != nil && x.parent != nil; x = x.parent {
		p = append(p, x.op)
	}
	for i, j := 0, len(p)-1; i < j; i, j = i+1, j-1 {
		p[i], p[j] = p[j], p[i]
	}
	return p
}

type succ struct {
	op  Op
	key string
	bad bool
}

// bfs explores from the empty store; fullOrder selects the state key; phase labels the outcome classes / notes.
// countPlain=false: transitions that lie entirely inside the plain alphabet (they are part of every phase and are
// counted by the phase that runs first) are still executed and judged, but not counted again.
func bfs(c *vlib.Ctx, phase string, al alphabet, fullOrder bool, maxDepth int, countPlain bool) {
	par := runtime.GOMAXPROCS(0)
	if par > 16 {
		par = 16
	}
	root := &node{}
	w0 := newWorld()
	s0 := w0.dump()
	if fs := invariants(w0, s0, "init"); len(fs) > 0 {
		c.HarnessError("the empty store breaks the invariants: " + fs[0].msg)
		return
	}
	root.key = stateKey(s0, fullOrder)
	c.State(fmt.Sprint(fullOrder) + root.key)
	seen := map[string]bool{root.key: true}
	frontier := []*node{root}
	closed := false
	depth := 0
	for ; len(frontier) > 0; depth++ {
		if maxDepth > 0 && depth >= maxDepth {
			break
		}
		results := make([][]succ, len(frontier))
		var wg sync.WaitGroup
		next := make(chan int)
		for g := 0; g < par; g++ {
			wg.Add(1)
			go func() {
				defer wg.Done()
				w := newWorld()
				for i := range next {
					results[i] = expand(c, w, frontier[i], al, fullOrder, countPlain)
				}
			}()
		}
		expired := false
		for i := range frontier {
			if c.Expired() {
				expired = true
				break
			}
			next <- i
		}
		close(next)
		wg.Wait()
		if expired {
			c.Cap(fmt.Sprintf("wall budget: %s BFS complete to depth %d (%d states); depth %d partially expanded", phase, depth, len(seen), depth+1))
			return
		}
		var nf []*node
		for i, rs := range results {
			for _, r := range rs {
				if seen[r.key] {
					continue
				}
				seen[r.key] = true
				if !r.bad { // states that break the property are reported, not expanded
					nf = append(nf, &node{parent: frontier[i], op: r.op, depth: depth + 1, key: r.key})
				}
			}
		}
		// trace validation of the boundary: every state that will not be expanded any more (depth bound) is
		// re-reached from the empty store through the real service (expanded states are validated in expand)
		if maxDepth > 0 && depth+1 >= maxDepth {
			var wg2 sync.WaitGroup
			ch := make(chan *node)
			for g := 0; g < par; g++ {
				wg2.Add(1)
				go func() {
					defer wg2.Done()
					w := newWorld()
					for n := range ch {
						_, s, _, err := replayPath(w, n.path())
						if err != nil || stateKey(s, fullOrder) != n.key {
							c.HarnessError(fmt.Sprintf("replaying %v does not reproduce the state it was discovered in (%v)", n.path(), err))
							continue
						}
						c.Trace(1)
					}
				}()
			}
			for _, n := range nf {
				ch <- n
			}
			close(ch)
			wg2.Wait()
		}
		c.Logf("%s depth %d: expanded %d states, %d new, %d total", phase, depth, len(frontier), len(nf), len(seen))
		frontier = nf
		if len(nf) == 0 {
			closed = true
		}
	}
	if closed {
		c.Note("bfs_"+phase, fmt.Sprintf("closure reached: %d states, no new state after depth %d", len(seen), depth))
	} else {
		c.Note("bfs_"+phase, fmt.Sprintf("depth-bounded: every history of <= %d ops explored, %d states (%d states at the boundary were checked but not expanded)", maxDepth, len(seen), len(frontier)))
	}
}

// expand replays the node's shortest history from the empty store on the real service (trace validation: the
// canonical key must be the one under which the state was discovered), then executes every enabled op on a copy.
func expand(c *vlib.Ctx, w *world, n *node, al alphabet, fullOrder, countPlain bool) []succ {
	path := n.path()
	_, s, a, err := replayPath(w, path)
	if err != nil {
		c.HarnessError("replay of a discovered state failed: " + err.Error())
		return nil
	}
	if k := stateKey(s, fullOrder); k != n.key {
		c.HarnessError(fmt.Sprintf("replaying %v does not reproduce the state it was discovered in", path))
		return nil
	}
	plainState := plainOnly(a)
	if countPlain || !plainState {
		c.Trace(1)
	}
	ctr := w.counters()
	var out []succ
	for _, o := range enabledOps(a, al) {
		w.reset(s, ctr)
		r := step(w, s, a, o, fullOrder)
		k := r.postKey
		c.State(fmt.Sprint(fullOrder) + k)
		if req := requestedName(o); countPlain || !plainState || (req != "" && !inPlainAlphabet[req]) {
			c.Eval(1)
			c.Transition(1)
			c.Outcome(o.K + ":" + r.class)
			if r.nontriv {
				c.NontrivialN(1)
			}
		}
		op := o
		for _, f := range r.findings {
			c.Violation(f.sig, f.msg, Case{Path: path, Op: &op})
		}
		if c.WantSample() && r.nontriv && n.depth >= 2 && r.post != nil {
			c.Sample(map[string]any{"history": fmt.Sprint(path), "op": o.String(), "outcome": r.class, "state_after": abstract(r.post).render()})
		}
		out = append(out, succ{op: o, key: k, bad: len(r.findings) > 0})
	}
	return out
}

// ---------------------------------------------------------------------------------------------------------------
// structured family: an organization with N user buckets around the default / maximum page sizes, then delete it

var pageSizes = []int{1, influxdb.DefaultPageSize - 3, influxdb.DefaultPageSize - 2, influxdb.DefaultPageSize - 1, influxdb.DefaultPageSize, influxdb.DefaultPageSize + 1,
	influxdb.MaxPageSize - 3, influxdb.MaxPageSize - 2, influxdb.MaxPageSize - 1, influxdb.MaxPageSize, influxdb.MaxPageSize + 1, 2*influxdb.MaxPageSize + 1}

func runPageCase(n int) (class string, fs []finding) {
	w := newWorld()
	ctx := context.Background()
	must := func(err error) {
		if err != nil {
			panic(fmt.Sprintf("page family setup: %v", err))
		}
	}
	ua, ub := &influxdb.User{Name: "uA", Status: influxdb.Active}, &influxdb.User{Name: "uB", Status: influxdb.Active}
	must(w.svc.CreateUser(ctx, ua))
	must(w.svc.CreateUser(ctx, ub))
	oa, ob := &influxdb.Organization{Name: "oA"}, &influxdb.Organization{Name: "oB"}
	must(w.svc.CreateOrganization(ctx, oa))
	must(w.svc.CreateOrganization(ctx, ob))
	for i := 0; i < n; i++ {
		must(w.svc.CreateBucket(ctx, &influxdb.Bucket{OrgID: oa.ID, Name: fmt.Sprintf("b%03d", i)}))
	}
	must(w.svc.CreateBucket(ctx, &influxdb.Bucket{OrgID: ob.ID, Name: "b000"}))
	for _, o := range []*influxdb.Organization{oa, ob} {
		for _, u := range []*influxdb.User{ua, ub} {
			must(w.svc.CreateUserResourceMapping(ctx, &influxdb.UserResourceMapping{UserID: u.ID, UserType: influxdb.Member, MappingType: influxdb.UserMappingType,
				ResourceType: influxdb.OrgsResourceType, ResourceID: o.ID}))
		}
	}
	pre := w.dump()
	if f := invariants(w, pre, "setup"); len(f) > 0 {
		return "INVARIANT-BROKEN", f
	}
	a := abstract(pre)
	r := step(w, pre, a, Op{K: "deleteOrg", Org: "oA"}, true)
	return r.class, r.findings
}

// ---------------------------------------------------------------------------------------------------------------

func TestCheck(t *testing.T) {
	vlib.Main(t, &vlib.Check{
		ID: "C30", Level: "model_checking", Workers: 1, QuickBudgetS: 80, ThoroughBudgetS: 780,
		Rule: "BFS from the empty store over canonical states of the real tenant.Service on inmem kv (all migrations applied): ops = create/rename/delete organization " +
			"(create optionally as an existing user who becomes owner), create/rename/delete bucket (plus creating/renaming onto/renaming/deleting the system buckets _tasks and _monitoring), " +
			"create/rename/delete user, add/remove organization membership; every op that is applicable to existing entities is tried in every state with every name of the phase's alphabet " +
			"as create name and as rename target, exact collisions and same-name renames included; state = dump of the 9 tenant kv buckets with ids renamed by owner names + relative id order. " +
			"Alphabets: plain = organizations {oA, oB, 'oA '}, buckets {bA, bB}, users {uA, uB}; three look-alike phases add, for ONE entity kind each, every name that differs from a plain name " +
			"only by something a store might normalise away, next to the plain names they would collide with: buckets {bA, bB, ' bA', 'bA ', 'BA', ' _tasks'} (the last one a blank-padded system bucket name), " +
			"organizations {oA, oB, 'oA ', ' oA', 'OA'}, users {uA, uB, ' uA', 'uA ', 'UA'}. quick: plain alphabet all histories of <= 5 ops, each look-alike phase all histories of <= 4 ops; " +
			"thorough: plain alphabet BFS to closure under the coarse key plus all histories of <= 7 ops under the full key, each look-alike phase all histories of <= 6 ops (or to the depth reported in coverage.bfs_* when the budget ends first); " +
			"plus one family outside the tiny domain: organization with N in {1,17..21,97..101,201} user buckets and 2 members next to a second organization, then delete it. " +
			"The oracle reads only stored names: after every op no two live records of a scope carry the same stored name, every name index entry and every by-name lookup (all names of all alphabets are probed in every state, " +
			"absent look-alikes included) resolves to exactly the record whose stored name equals the key or to nothing, every live bucket is in the listing of its organization, and after a successful organization delete " +
			"none of its buckets is found by id, by name or by listing; a successful create/rename may store the requested name or any look-alike of it (trimming / case folding is neither demanded nor forbidden). " +
			"non-trivial = transitions rejected for a name collision / system bucket, successful renames, organization deletes that cascade over user buckets or memberships, and every create/rename whose requested name " +
			"is a look-alike of the stored name of another live entity of the same scope (one per (state, op); transitions that lie inside the plain alphabet are counted once, by the plain phase)",
		Assumptions: []string{
			"the tenant store keeps no state outside the 9 dumped kv buckets, so a state restored by writing a dump into a fresh migrated store equals the state reached by the history (each state's shortest history is additionally replayed from scratch and compared)",
			"behaviour depends on ids only through equality and relative order (sequential id generators are injected)",
			"a TaskService without tasks is attached (DeleteOrganization refuses to finish without one)",
			"ops aimed at entities that do not exist (stale ids) are not enumerated; memberships are only added to organizations that exist",
			"look-alike names (equal up to outer blanks and letter case): the statement does not say whether they collide or whether a store may normalise them, so rejecting, storing verbatim and storing a look-alike are all accepted; " +
				"what is demanded is stated on the stored names only. Look-alikes are explored for one entity kind at a time (union of three phases, not their product), one blank on either side, one case variant",
			"organization lookups by a name that equals an existing organization's name up to outer blanks are not judged (the organization name index is keyed by the trimmed name); bucket and user lookups are judged exactly",
			"renaming a system bucket to a look-alike of its own name (' _tasks') may be rejected or reported as a successful no-op; the bucket must be unchanged either way",
		},
		Run: func(c *vlib.Ctx) {
			for _, n := range pageSizes {
				var class string
				var fs []finding
				if p, d := vlib.Guard(func() { class, fs = runPageCase(n) }); p {
					class, fs = "PANIC", []finding{{"panic/page-family", d}}
				}
				c.Eval(1)
				c.Transition(1)
				c.Trace(1)
				c.NontrivialN(1)
				c.Outcome("page-family deleteOrg:" + class)
				for _, f := range fs {
					c.Violation("page-family/"+f.sig, fmt.Sprintf("N=%d user buckets: %s", n, f.msg), Case{Family: "pagesize", N: n})
				}
			}
			d := 4
			if c.Quick() {
				bfs(c, "full", alphaPlain, true, 5, true)
			} else {
				bfs(c, "coarse", alphaPlain, false, 0, true)
				bfs(c, "full", alphaPlain, true, 7, true)
				d = 6
			}
			for _, al := range []alphabet{alphaBuckets, alphaOrgs, alphaUsers} {
				bfs(c, "full_"+al.label, al, true, d, false)
			}
		},
		Replay: func(c *vlib.Ctx, raw json.RawMessage) (bool, string) {
			var cs Case
			if err := json.Unmarshal(raw, &cs); err != nil {
				return false, err.Error()
			}
			var class string
			var fs []finding
			if cs.Family == "pagesize" {
				class, fs = runPageCase(cs.N)
			} else {
				if cs.Op == nil {
					return false, "case without op"
				}
				w, s, a, err := replayPath(nil, cs.Path)
				if err != nil {
					return false, "history not replayable: " + err.Error()
				}
				if !opEnabled(*cs.Op, a) {
					return false, "op not applicable after the history"
				}
				r := step(w, s, a, *cs.Op, true)
				class, fs = r.class, r.findings
			}
			var lines []string
			for _, f := range fs {
				lines = append(lines, "["+f.sig+"] "+f.msg)
			}
			sort.Strings(lines)
			ops := fmt.Sprintf("pagesize N=%d", cs.N)
			if cs.Op != nil {
				ops = cs.Op.String()
			}
			return len(fs) > 0, fmt.Sprintf("history=%v op=%s outcome=%s\n%s", cs.Path, ops, class, strings.Join(lines, "\n"))
		},
	})
}
