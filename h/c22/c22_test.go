package c22

import (
	"fmt"
	"os"
	"strings"
	"testing"
	"time"

	"verif/h/mini"
)

const M = int64(time.Minute)

func TestProbe(t *testing.T) {
	f, err := mini.Open(mini.Options{})
	if err != nil {
		t.Fatal(err)
	}
	defer f.Close()
	b, _ := f.CreateBucket("db0", 0)
	var pts []mini.Point
	for k := 0; k < 12; k++ {
		if k%3 != 2 {
			pts = append(pts, mini.Point{M: "m", Tags: mini.T("h", "a"), Fields: map[string]any{"v": float64(k), "w": int64(k * 10)}, T: mini.Base + int64(k)*10*M})
		}
		if k%2 == 0 {
			pts = append(pts, mini.Point{M: "m", Tags: mini.T("h", "b"), Fields: map[string]any{"v": float64(100 + k)}, T: mini.Base + int64(k)*10*M})
		}
	}
	if err := f.Write(b, pts); err != nil {
		t.Fatal(err)
	}
	qs := strings.Split(os.Getenv("Q"), ";")
	for _, q := range qs {
		q = strings.TrimSpace(q)
		if q == "" {
			continue
		}
		rs, err := f.InfluxQL(b, q)
		fmt.Printf("Q: %s\n  err=%v\n", q, err)
		for _, r := range rs {
			fmt.Printf("  stmt %d err=%q\n", r.StatementID, r.Err)
			for _, row := range r.Rows {
				fmt.Printf("   row name=%s tags=%v cols=%v partial=%v\n", row.Name, row.Tags, row.Columns, row.Partial)
				for _, v := range row.Values {
					s := ""
					for _, x := range v {
						if tm, ok := x.(time.Time); ok {
							s += fmt.Sprintf(" %dm", (tm.UnixNano()-mini.Base)/M)
						} else {
							s += fmt.Sprintf(" %v(%T)", x, x)
						}
					}
					fmt.Println("     ", s)
				}
			}
		}
	}
}
