// C22: InfluxQL SELECT results match the language semantics.
//
// Bounded-exhaustive enumeration of a TEMPLATE GRAMMAR of SELECT statements (complete product of the slots, no sampling)
// over a fixed set of small multi-series / two-shard datasets, executed through the real query.Executor →
// coordinator.StatementExecutor → LocalShardMapper → tsdb.Shard / tsm1 iterators → query.Emitter (fixture `mini`), and
// compared with an independent reference evaluator written in this file from the InfluxQL documentation
// (filter → group (tags) → bucket (GROUP BY time) → aggregate → fill → order → LIMIT/OFFSET per series → SLIMIT/SOFFSET).
// The evaluator never calls repo code.
//
// WHERE-tree family: in addition the tag/field slots are replaced by EVERY condition tree of depth <= 2 over the atoms
// {h = 'a', h != 'a', h =~ /^[ac]$/, v > 2, v <= 2, v = 2} × {AND, OR} (tag predicates mixed with field predicates under
// OR and AND in both operand orders, nested under AND and OR), evaluated by the reference per point.
//
// Where the InfluxQL documentation is silent the oracle accepts every reasonable answer (see Assumptions in TestCheck):
// order of rows with equal time stamps in a merged (not grouped by tag) raw result, which of several equal-time points
// first()/last() pick, which of several equal-valued points min()/max() report the time of, the direction of
// fill(previous) under ORDER BY time DESC, rounding of fill(linear) on integers, the order of series under DESC, and the
// set of series SLIMIT/SOFFSET count over (all series of the measurement that match the tag predicate, or only those with
// rows).
package c22

import (
	"encoding/json"
	"fmt"
	"math"
	"sort"
	"strings"
	"testing"
	"time"

	"verif/h/mini"
	"verif/h/vlib"
)

// ---------------------------------------------------------------------------------------------------------
// datasets

const (
	minute = int64(time.Minute)
	B      = mini.Base // 2000-01-01T00:00:00Z; shard groups [B,B+60m) and [B+60m,B+120m)
)

// P is one written point of measurement "m": tag h, time B+Min minutes, fields v and/or w (nil = absent).
type P struct {
	H   string
	Min int64
	V   any
	W   any
}

// Dataset: Layout is cache | tsm | mixed (even-indexed points snapshotted to TSM, odd in cache) | tsm2 (two TSM files) |
// overwrite (old values in TSM, final values of even-indexed points in a second TSM file, of odd-indexed ones in the cache).
type Dataset struct {
	Name   string
	Layout string
	Pts    []P
}

func f(x float64) any { return x }
func i(x int64) any   { return x }

var datasets = []Dataset{
	// D0: two dense float series with IDENTICAL time stamps in both shards; w (integer) on every other point of h=a.
	{Name: "D0-dense-float-dup-times", Layout: "cache", Pts: func() []P {
		var out []P
		for k := int64(0); k < 12; k++ {
			p := P{H: "a", Min: 10 * k, V: f(0.5*float64(k) - 1)}
			if k%2 == 0 {
				p.W = i(k * 10)
			}
			out = append(out, p, P{H: "b", Min: 10 * k, V: f(float64(6 - k))})
		}
		return out
	}()},
	// D1: integer v with gaps and off-grid time stamps, float w on a few points, one point that has only w.
	{Name: "D1-gaps-int", Layout: "tsm", Pts: []P{
		{"a", 0, i(5), nil}, {"a", 13, i(1), f(1.5)}, {"a", 27, nil, f(3.5)}, {"a", 40, i(7), nil}, {"a", 59, i(2), nil},
		{"a", 75, i(0), f(2.5)}, {"a", 100, i(9), nil},
		{"b", 13, i(3), nil}, {"b", 20, i(8), nil}, {"b", 60, i(1), nil}, {"b", 75, i(4), nil}, {"b", 119, i(6), nil},
	}},
	// D2: three float series; h=a lives only in the first shard, h=b only in the second, h=c in both.
	{Name: "D2-three-series-split-shards", Layout: "mixed", Pts: []P{
		{"a", 0, f(2.5), nil}, {"a", 20, f(0.5), nil}, {"a", 30, f(4), nil},
		{"b", 70, f(1), nil}, {"b", 80, f(3.5), nil}, {"b", 100, f(7), nil},
		{"c", 10, f(9), nil}, {"c", 50, f(-2), i(7)}, {"c", 60, f(1.5), nil}, {"c", 110, f(6), nil},
	}},
	// D3: integer v, several points per bucket, equal values inside and across series, equal time stamps across series.
	{Name: "D3-ties-int", Layout: "tsm2", Pts: []P{
		{"a", 0, i(3), nil}, {"a", 5, i(1), nil}, {"a", 10, i(3), nil}, {"a", 25, i(2), nil}, {"a", 40, i(2), nil}, {"a", 45, i(5), nil},
		{"a", 60, i(5), nil}, {"a", 65, i(1), nil}, {"a", 90, i(0), nil}, {"a", 95, i(4), nil}, {"a", 115, i(4), nil},
		{"b", 0, i(3), nil}, {"b", 5, i(3), nil}, {"b", 30, i(1), nil}, {"b", 45, i(5), nil}, {"b", 60, i(2), nil}, {"b", 90, i(4), nil}, {"b", 95, i(0), nil},
	}},
	// D4: float v at off-grid times; every point is first written with an OLD value (+1000) and snapshotted, then
	// overwritten with its final value (even-indexed points in a second TSM file, odd-indexed ones in the cache).
	{Name: "D4-overwritten-float", Layout: "overwrite", Pts: []P{
		{"a", 3, f(4.25), nil}, {"a", 17, f(0.75), i(3)}, {"a", 22, f(2), nil}, {"a", 38, f(-1.5), nil}, {"a", 51, f(6), i(8)},
		{"a", 66, f(1), nil}, {"a", 79, f(3.25), nil}, {"a", 84, f(8.5), i(1)}, {"a", 97, f(0.5), nil}, {"a", 118, f(5), nil},
		{"b", 17, f(7.5), nil}, {"b", 29, f(1.25), nil}, {"b", 51, f(0.25), nil}, {"b", 60, f(9), nil}, {"b", 84, f(2.75), nil}, {"b", 111, f(-3), nil},
	}},
	// D5: four float series around the constant 2 of the field atoms of the WHERE-tree family: h=a holds values below,
	// equal to and above 2 (and one point that has only w); every value of h=b is > 2; every value of h=c is <= 2;
	// h=d is mixed again. Equal time stamps across series, both shards, TSM + cache.
	{Name: "D5-where-mix", Layout: "mixed", Pts: []P{
		{"a", 5, f(1), nil}, {"a", 20, f(2), i(4)}, {"a", 35, f(3.5), nil}, {"a", 50, nil, i(7)}, {"a", 65, f(0.5), nil}, {"a", 80, f(5), i(1)}, {"a", 110, f(2), nil},
		{"b", 5, f(4), nil}, {"b", 50, f(7.5), i(2)}, {"b", 70, f(3), nil}, {"b", 100, f(2.25), nil},
		{"c", 20, f(0), nil}, {"c", 40, f(1.5), nil}, {"c", 65, f(2), i(9)}, {"c", 95, f(-1), nil},
		{"d", 10, f(2), nil}, {"d", 50, f(6), nil}, {"d", 90, f(1), i(3)}, {"d", 115, f(2), nil},
	}},
}

// whereDS is the dataset built for the WHERE-tree family; whereThoroughDS are the datasets the family runs on in the
// thorough tier (D1: integer v with a w-only point, TSM; D2: series living in one shard only; D5).
const whereDS = 5

var whereThoroughDS = map[int]bool{1: true, 2: true, 5: true}

func (d Dataset) intV() bool {
	for _, p := range d.Pts {
		if p.V != nil {
			_, ok := p.V.(int64)
			return ok
		}
	}
	return false
}

func load(ds Dataset) (*mini.Fixture, mini.Bucket, error) {
	fx, err := mini.Open(mini.Options{})
	if err != nil {
		return nil, mini.Bucket{}, err
	}
	b, err := fx.CreateBucket("db0", 0)
	if err != nil {
		fx.Close()
		return nil, b, err
	}
	bump := func(v any, old bool) any {
		if !old {
			return v
		}
		switch x := v.(type) {
		case float64:
			return x + 1000
		case int64:
			return x + 1000
		}
		return v
	}
	mkv := func(sel func(k int) bool, old bool) []mini.Point {
		var out []mini.Point
		for k, p := range ds.Pts {
			if !sel(k) {
				continue
			}
			fields := map[string]any{}
			if p.V != nil {
				fields["v"] = bump(p.V, old)
			}
			if p.W != nil {
				fields["w"] = bump(p.W, old)
			}
			out = append(out, mini.Point{M: "m", Tags: mini.T("h", p.H), Fields: fields, T: B + p.Min*minute})
		}
		return out
	}
	mk := func(sel func(k int) bool) []mini.Point { return mkv(sel, false) }
	type step struct {
		pts  []mini.Point
		snap bool
	}
	all := func(int) bool { return true }
	even := func(k int) bool { return k%2 == 0 }
	odd := func(k int) bool { return k%2 == 1 }
	var steps []step
	switch ds.Layout {
	case "cache":
		steps = []step{{mk(all), false}}
	case "tsm":
		steps = []step{{mk(all), true}}
	case "mixed":
		steps = []step{{mk(even), true}, {mk(odd), false}}
	case "tsm2":
		steps = []step{{mk(even), true}, {mk(odd), true}}
	case "overwrite":
		steps = []step{{mkv(all, true), true}, {mk(even), true}, {mk(odd), false}}
	default:
		fx.Close()
		return nil, b, fmt.Errorf("unknown layout %q", ds.Layout)
	}
	for _, st := range steps {
		if err := fx.Write(b, st.pts); err != nil {
			fx.Close()
			return nil, b, fmt.Errorf("write: %w", err)
		}
		if st.snap {
			if err := fx.SnapshotAll(); err != nil {
				fx.Close()
				return nil, b, fmt.Errorf("snapshot: %w", err)
			}
		}
	}
	return fx, b, nil
}

// ---------------------------------------------------------------------------------------------------------
// the template grammar

// Q is one statement of the grammar (every slot is an index/alternative).
type Q struct {
	Proj    string `json:"proj"`            // v | vw | count | sum | mean | min | max | first | last
	TR      int    `json:"time,omitempty"`  // index into timeRanges
	Tag     int    `json:"tag,omitempty"`   // 0 none, 1 h='a', 2 h!='a'
	Field   bool   `json:"field,omitempty"` // v > 1
	GB      int    `json:"group,omitempty"` // 0 none, 1 time(20m), 2 time(30m,10m), 3 h, 4 time(20m),h
	Fill    string `json:"fill,omitempty"`  // "" (clause absent) | null | none | 0 | previous | linear
	Desc    bool   `json:"desc,omitempty"`
	Limit   int    `json:"limit,omitempty"`
	Offset  int    `json:"offset,omitempty"`
	SLimit  int    `json:"slimit,omitempty"`
	SOffset int    `json:"soffset,omitempty"`
	// WHERE-tree family: Cond replaces the Tag/Field slots by a condition tree over the atom alphabet (ANDed with the
	// time range, if any). Bare: print the tree with the minimal parentheses that still parse to the same tree.
	Cond *Cond `json:"cond,omitempty"`
	Bare bool  `json:"bare,omitempty"`
}

// Cond is a WHERE condition tree: a leaf (Atom = 1..6, index into condAtoms) or Op ∈ {AND, OR} over two subtrees.
type Cond struct {
	Atom int    `json:"atom,omitempty"`
	Op   string `json:"op,omitempty"`
	L    *Cond  `json:"l,omitempty"`
	R    *Cond  `json:"r,omitempty"`
}

// condAtoms: three pure tag predicates and three field-value predicates (constant 2: every dataset holds values below,
// equal to and above it).
var condAtoms = []string{"", "h = 'a'", "h != 'a'", "h =~ /^[ac]$/", "v > 2", "v <= 2", "v = 2"}

const nTagAtoms = 3

func (c *Cond) leaf() bool { return c.Op == "" }

// eval: the condition per point from its tag value and the value of field v (nil = the point has no v: every
// comparison with it is false).
func (c *Cond) eval(h string, v any) bool {
	if !c.leaf() {
		if c.Op == "AND" {
			return c.L.eval(h, v) && c.R.eval(h, v)
		}
		return c.L.eval(h, v) || c.R.eval(h, v)
	}
	switch c.Atom {
	case 1:
		return h == "a"
	case 2:
		return h != "a"
	case 3:
		return h == "a" || h == "c"
	case 4:
		return v != nil && asF(v) > 2
	case 5:
		return v != nil && asF(v) <= 2
	case 6:
		return v != nil && asF(v) == 2
	}
	panic("bad atom")
}

func (c *Cond) text(bare bool) string {
	if c.leaf() {
		return condAtoms[c.Atom]
	}
	sub := func(k *Cond, right bool) string {
		t := k.text(bare)
		if k.leaf() {
			return t
		}
		// AND binds tighter than OR and both associate to the left: parentheses are needed around an OR under an AND
		// and around a right operand with the operator of its parent.
		if !bare || (k.Op == "OR" && c.Op == "AND") || (right && k.Op == c.Op) {
			return "(" + t + ")"
		}
		return t
	}
	return sub(c.L, false) + " " + c.Op + " " + sub(c.R, true)
}

// kinds: does the subtree hold tag atoms / field atoms.
func (c *Cond) kinds() (tag, field bool) {
	if c.leaf() {
		return c.Atom <= nTagAtoms, c.Atom > nTagAtoms
	}
	lt, lf := c.L.kinds()
	rt, rf := c.R.kinds()
	return lt || rt, lf || rf
}

func (c *Cond) depth() int {
	if c.leaf() {
		return 0
	}
	return 1 + max(c.L.depth(), c.R.depth())
}

// class: tag-only | field-only | or-tag-field (some OR node has a pure tag operand and an operand holding field atoms) |
// or-mixed (tag and field atoms, some OR node has a tag atom below it, but none pairs a pure tag operand with a field
// one) | mixed-and (tag and field atoms, no OR above a tag atom).
func (c *Cond) class() string {
	t, f := c.kinds()
	switch {
	case !f:
		return "tag-only"
	case !t:
		return "field-only"
	}
	orTF, or := false, false
	var walk func(k *Cond)
	walk = func(k *Cond) {
		if k.leaf() {
			return
		}
		if k.Op == "OR" {
			lt, lf := k.L.kinds()
			rt, rf := k.R.kinds()
			if lt || rt {
				or = true
			}
			if (lt && !lf && rf) || (rt && !rf && lf) {
				orTF = true
			}
		}
		walk(k.L)
		walk(k.R)
	}
	walk(c)
	switch {
	case orTF:
		return "or-tag-field"
	case or:
		return "or-mixed"
	}
	return "mixed-and"
}

// condTrees: every condition tree of depth <= depth over the atom alphabet × {AND, OR}, simplest first
// (6; +72 = 78; + 2·78² − 72 = 12 174).
func condTrees(depth int) []*Cond {
	var level []*Cond
	for a := 1; a < len(condAtoms); a++ {
		level = append(level, &Cond{Atom: a})
	}
	for d := 1; d <= depth; d++ {
		next := append([]*Cond(nil), level...)
		for _, l := range level {
			for _, r := range level {
				if l.depth() < d-1 && r.depth() < d-1 {
					continue // already enumerated at a smaller depth
				}
				for _, op := range []string{"AND", "OR"} {
					next = append(next, &Cond{Op: op, L: l, R: r})
				}
			}
		}
		level = next
	}
	return level
}

// timeRange: inclusive nanosecond bounds relative to B; has=false: no bound. Text is built from the same numbers.
type timeRange struct {
	name           string
	hasLo, hasHi   bool
	loMin, hiMin   int64 // minutes
	loExcl, hiIncl bool  // `time > lo` instead of `>=`; `time <= hi` instead of `<`
}

// index 3 differs for interval and non-interval statements (an interval statement without an upper bound would end at
// now(), one without a lower bound has no documented first bucket).
var timeRanges = []timeRange{
	{name: "[0m,120m)", hasLo: true, hasHi: true, loMin: 0, hiMin: 120},
	{name: "[15m,80m]", hasLo: true, hasHi: true, loMin: 15, hiMin: 80, hiIncl: true},
	{name: "(20m,70m)", hasLo: true, hasHi: true, loMin: 20, hiMin: 70, loExcl: true},
	{name: "unbounded | [-30m,150m)", hasLo: true, hasHi: true, loMin: -30, hiMin: 150},
	{name: "[60m,120m)", hasLo: true, hasHi: true, loMin: 60, hiMin: 120},
	{name: "[25m,35m)", hasLo: true, hasHi: true, loMin: 25, hiMin: 35},
}

func (q Q) interval() (dur, off int64) {
	switch q.GB {
	case 1, 4:
		return 20 * minute, 0
	case 2:
		return 30 * minute, 10 * minute
	}
	return 0, 0
}

func (q Q) byTag() bool { return q.GB == 3 || q.GB == 4 }

func (q Q) isAgg() bool { return q.Proj != "v" && q.Proj != "vw" }

func (q Q) isSelector() bool {
	switch q.Proj {
	case "min", "max", "first", "last":
		return true
	}
	return false
}

// bounds returns the inclusive time bounds of the statement (lo/hi valid when the has* flag is set).
func (q Q) bounds() (lo, hi int64, hasLo, hasHi bool) {
	tr := timeRanges[q.TR]
	if q.TR == 3 {
		if d, _ := q.interval(); d == 0 {
			return 0, 0, false, false
		}
	}
	lo, hi = B+tr.loMin*minute, B+tr.hiMin*minute
	if tr.loExcl {
		lo++
	}
	if !tr.hiIncl {
		hi--
	}
	return lo, hi, tr.hasLo, tr.hasHi
}

func (q Q) String() string {
	var sb strings.Builder
	sb.WriteString("SELECT ")
	switch q.Proj {
	case "v":
		sb.WriteString("v")
	case "vw":
		sb.WriteString("v, w")
	default:
		sb.WriteString(q.Proj + "(v)")
	}
	sb.WriteString(" FROM m")
	var conds []string
	if _, _, hasLo, hasHi := q.bounds(); hasLo || hasHi {
		tr := timeRanges[q.TR]
		op := ">="
		if tr.loExcl {
			op = ">"
		}
		conds = append(conds, fmt.Sprintf("time %s %d", op, B+tr.loMin*minute))
		op = "<"
		if tr.hiIncl {
			op = "<="
		}
		conds = append(conds, fmt.Sprintf("time %s %d", op, B+tr.hiMin*minute))
	}
	switch q.Tag {
	case 1:
		conds = append(conds, "h = 'a'")
	case 2:
		conds = append(conds, "h != 'a'")
	}
	if q.Field {
		conds = append(conds, "v > 1")
	}
	if q.Cond != nil {
		t := q.Cond.text(q.Bare)
		if len(conds) > 0 && !q.Cond.leaf() {
			t = "(" + t + ")"
		}
		conds = append(conds, t)
	}
	if len(conds) > 0 {
		sb.WriteString(" WHERE " + strings.Join(conds, " AND "))
	}
	switch q.GB {
	case 1:
		sb.WriteString(" GROUP BY time(20m)")
	case 2:
		sb.WriteString(" GROUP BY time(30m, 10m)")
	case 3:
		sb.WriteString(" GROUP BY h")
	case 4:
		sb.WriteString(" GROUP BY time(20m), h")
	}
	if q.Fill != "" {
		sb.WriteString(" fill(" + q.Fill + ")")
	}
	if q.Desc {
		sb.WriteString(" ORDER BY time DESC")
	}
	if q.Limit > 0 {
		fmt.Fprintf(&sb, " LIMIT %d", q.Limit)
	}
	if q.Offset > 0 {
		fmt.Fprintf(&sb, " OFFSET %d", q.Offset)
	}
	if q.SLimit > 0 {
		fmt.Fprintf(&sb, " SLIMIT %d", q.SLimit)
	}
	if q.SOffset > 0 {
		fmt.Fprintf(&sb, " SOFFSET %d", q.SOffset)
	}
	return sb.String()
}

type lim struct{ l, o int }

// queries enumerates the complete product of the slot alternatives of the tier, simplest first. The fill slot only
// exists for statements with GROUP BY time (fill without an interval is not specified by the documentation); for raw
// projections with GROUP BY time (which the compiler must reject) only fill absent is enumerated.
func queries(thorough bool) []Q {
	projs := []string{"v", "count", "mean", "max", "first", "vw"}
	trs := []int{0, 1, 3}
	tags := []int{0, 2}
	fields := []bool{false, true}
	gbs := []int{0, 2, 4}
	fills := []string{"", "previous", "linear"}
	lims := []lim{{0, 0}, {1, 1}}
	slims := []lim{{0, 0}, {1, 1}}
	if thorough {
		projs = []string{"v", "count", "sum", "mean", "min", "max", "first", "last", "vw"}
		trs = []int{0, 1, 2, 3, 4, 5}
		tags = []int{0, 1, 2}
		gbs = []int{0, 1, 2, 3, 4}
		fills = []string{"", "null", "none", "0", "previous", "linear"}
		lims = []lim{{0, 0}, {1, 0}, {1, 1}, {2, 1}}
		slims = []lim{{0, 0}, {1, 0}, {1, 1}}
	}
	var out []Q
	for _, sl := range slims {
		for _, l := range lims {
			for _, desc := range []bool{false, true} {
				for _, gb := range gbs {
					for _, proj := range projs {
						for _, fill := range fills {
							q0 := Q{Proj: proj, GB: gb, Fill: fill}
							if d, _ := q0.interval(); fill != "" && (d == 0 || !q0.isAgg()) {
								continue
							}
							for _, tr := range trs {
								for _, tag := range tags {
									for _, fld := range fields {
										out = append(out, Q{Proj: proj, TR: tr, Tag: tag, Field: fld, GB: gb, Fill: fill, Desc: desc,
											Limit: l.l, Offset: l.o, SLimit: sl.l, SOffset: sl.o})
									}
								}
							}
						}
					}
				}
			}
		}
	}
	return out
}

// whereQueries: the WHERE-tree family = frames × condition trees. A frame fixes the other slots; SLIMIT/SOFFSET are
// never combined with a tree (their candidate-series reading depends on a "tag predicate", which a tree does not have).
func whereQueries(thorough bool) []Q {
	all, shallow := condTrees(2), condTrees(1)
	type frame struct {
		q     Q
		trees []*Cond
	}
	frames := []frame{
		{Q{Proj: "v", TR: 3}, all}, // no time bound: the tree is the whole WHERE clause
		{Q{Proj: "count", TR: 0, GB: 3}, shallow},
		{Q{Proj: "vw", TR: 1, GB: 3, Bare: true}, shallow},
		{Q{Proj: "v", TR: 3, Desc: true, Limit: 2, Offset: 1}, shallow},
	}
	if thorough {
		frames = []frame{
			{Q{Proj: "v", TR: 3}, all},
			{Q{Proj: "count", TR: 0, GB: 3}, all},
			{Q{Proj: "vw", TR: 1, GB: 3, Bare: true}, all},
			{Q{Proj: "v", TR: 3, Desc: true, Limit: 2, Offset: 1, Bare: true}, all},
			{Q{Proj: "max", TR: 0, GB: 4, Fill: "none"}, all},
			{Q{Proj: "mean", TR: 2, GB: 2, Fill: "previous"}, all},
		}
	}
	var out []Q
	for _, fr := range frames {
		for _, t := range fr.trees {
			q := fr.q
			q.Cond = t
			out = append(out, q)
		}
	}
	return out
}

// statements: the statement list of dataset di. D0..D4 run the template grammar, D5 the WHERE-tree family; in the
// thorough tier the family also runs on D1 and D2 (after their grammar statements).
func statements(di int, thorough bool, grammar, where []Q) []Q {
	switch {
	case di == whereDS:
		return where
	case thorough && whereThoroughDS[di]:
		return append(append([]Q(nil), grammar...), where...)
	}
	return grammar
}

// ---------------------------------------------------------------------------------------------------------
// reference evaluator (from the InfluxQL documentation; no repo code)

// xcell: the acceptable values of one cell (nil = null). xrow: acceptable time stamps + cells.
type xcell []any
type xrow struct {
	times []int64
	cells []xcell
}

// xseries: one expected output series. For raw projections `all` holds every row before LIMIT/OFFSET (time-ascending
// or -descending, equal-time rows in arbitrary order) and the comparison applies offset/limit tie-tolerantly.
type xseries struct {
	tag  string // value of h when grouped by h, "" otherwise
	rows []xrow // after LIMIT/OFFSET
	all  []xrow // raw only: before LIMIT/OFFSET
}

type expectation struct {
	errSub     string      // non-empty: the statement must be rejected with an error containing this text
	cols       []string    // column names
	byTag      bool        // series carry tag h
	raw        bool        // tie-tolerant raw comparison
	q          Q           // the statement (for limit/offset)
	candidates [][]xseries // acceptable series lists
	maxRows    int
}

type rrow struct {
	h    string
	t    int64
	v, w any
}

func asF(v any) float64 {
	switch x := v.(type) {
	case float64:
		return x
	case int64:
		return float64(x)
	}
	return math.NaN()
}

func floorDiv(a, b int64) int64 {
	q := a / b
	if (a%b != 0) && ((a < 0) != (b < 0)) {
		q--
	}
	return q
}

// window returns the start of the GROUP BY time bucket containing t.
func window(t, dur, off int64) int64 { return floorDiv(t-off, dur)*dur + off }

func dedupe(c xcell) xcell {
	var out xcell
	for _, v := range c {
		dup := false
		for _, o := range out {
			if o == v {
				dup = true
			}
		}
		if !dup {
			out = append(out, v)
		}
	}
	return out
}

// aggregate computes proj over a non-empty, time-ascending point list of one bucket/series (values of field v).
// Returns the acceptable values and, for selectors, the acceptable point time stamps.
func aggregate(proj string, intV bool, pts []rrow) (xcell, []int64) {
	num := func(x float64) any {
		if intV {
			return int64(x)
		}
		return x
	}
	switch proj {
	case "count":
		return xcell{int64(len(pts))}, nil
	case "sum", "mean":
		s := 0.0
		for _, p := range pts {
			s += asF(p.v)
		}
		if proj == "sum" {
			return xcell{num(s)}, nil
		}
		return xcell{s / float64(len(pts))}, nil
	case "min", "max":
		best := asF(pts[0].v)
		for _, p := range pts {
			x := asF(p.v)
			if (proj == "min" && x < best) || (proj == "max" && x > best) {
				best = x
			}
		}
		var ts []int64
		for _, p := range pts {
			if asF(p.v) == best {
				ts = append(ts, p.t)
			}
		}
		return xcell{num(best)}, ts
	case "first", "last":
		t := pts[0].t
		for _, p := range pts {
			if (proj == "first" && p.t < t) || (proj == "last" && p.t > t) {
				t = p.t
			}
		}
		var c xcell
		for _, p := range pts {
			if p.t == t {
				c = append(c, p.v)
			}
		}
		return dedupe(c), []int64{t}
	}
	panic("unknown projection " + proj)
}

func applyLimit(rows []xrow, l, o int) []xrow {
	if o >= len(rows) {
		return nil
	}
	rows = rows[o:]
	if l > 0 && l < len(rows) {
		rows = rows[:l]
	}
	return rows
}

func sliceSeries(list []xseries, l, o int) []xseries {
	if l == 0 && o == 0 {
		return list
	}
	if o >= len(list) {
		return nil
	}
	list = list[o:]
	if l > 0 && l < len(list) {
		list = list[:l]
	}
	return list
}

func reverse(list []xseries) []xseries {
	out := make([]xseries, len(list))
	for k := range list {
		out[len(list)-1-k] = list[k]
	}
	return out
}

// reference evaluates q over ds. perShard=false is the oracle. perShard=true is a DIAGNOSIS model used only to label a
// mismatch (never to accept a result): SLIMIT/SOFFSET applied inside every shard to that shard's own list of tag sets.
func reference(ds Dataset, q Q, perShard bool) *expectation {
	ex := &expectation{q: q, byTag: q.byTag(), raw: !q.isAgg()}
	dur, off := q.interval()
	if !q.isAgg() && dur != 0 {
		ex.errSub = "GROUP BY requires at least one aggregate function"
		return ex
	}
	switch q.Proj {
	case "v":
		ex.cols = []string{"time", "v"}
	case "vw":
		ex.cols = []string{"time", "v", "w"}
	default:
		ex.cols = []string{"time", q.Proj}
	}
	intV := ds.intV()
	lo, hi, hasLo, hasHi := q.bounds()

	// 1. WHERE: time, tag, field predicates. candidateTags = series of the measurement matching the tag predicate.
	tagOK := func(h string) bool {
		switch q.Tag {
		case 1:
			return h == "a"
		case 2:
			return h != "a"
		}
		return true
	}
	candTags := map[string]bool{}
	var rows []rrow
	for _, p := range ds.Pts {
		if !tagOK(p.H) {
			continue
		}
		candTags[p.H] = true
		t := B + p.Min*minute
		if (hasLo && t < lo) || (hasHi && t > hi) {
			continue
		}
		if q.Field && !(p.V != nil && asF(p.V) > 1) {
			continue
		}
		// WHERE-tree family: the condition is evaluated per point from its tag and field value
		if q.Cond != nil && !q.Cond.eval(p.H, p.V) {
			continue
		}
		// projection: a point contributes when at least one selected field is present
		if q.Proj == "vw" {
			if p.V == nil && p.W == nil {
				continue
			}
		} else if p.V == nil {
			continue
		}
		rows = append(rows, rrow{p.H, t, p.V, p.W})
	}
	sort.SliceStable(rows, func(a, b int) bool { return rows[a].t < rows[b].t })

	// 2. GROUP BY tag
	groupOf := func(h string) string {
		if q.byTag() {
			return h
		}
		return ""
	}
	if perShard && (q.SLimit > 0 || q.SOffset > 0) {
		shardOf := func(t int64) int64 { return floorDiv(t-B, 60*minute) }
		inShard := map[int64]map[string]bool{}
		for _, p := range ds.Pts {
			if tagOK(p.H) {
				s := shardOf(B + p.Min*minute)
				if inShard[s] == nil {
					inShard[s] = map[string]bool{}
				}
				inShard[s][groupOf(p.H)] = true
			}
		}
		kept := map[int64]map[string]bool{}
		for s, set := range inShard {
			var l []xseries
			for g := range set {
				l = append(l, xseries{tag: g})
			}
			sort.Slice(l, func(a, b int) bool { return l[a].tag < l[b].tag })
			kept[s] = map[string]bool{}
			for _, x := range sliceSeries(l, q.SLimit, q.SOffset) {
				kept[s][x.tag] = true
			}
		}
		var nr []rrow
		for _, r := range rows {
			if kept[shardOf(r.t)][groupOf(r.h)] {
				nr = append(nr, r)
			}
		}
		rows = nr
		q.SLimit, q.SOffset = 0, 0
	}
	groups := map[string][]rrow{}
	for _, r := range rows {
		groups[groupOf(r.h)] = append(groups[groupOf(r.h)], r)
	}
	candGroups := map[string]bool{}
	for h := range candTags {
		candGroups[groupOf(h)] = true
	}
	var names []string
	for g := range candGroups {
		names = append(names, g)
	}
	sort.Strings(names)

	// 3. per series: rows before LIMIT
	full := map[string][]xrow{}
	for _, g := range names {
		pts := groups[g]
		if len(pts) == 0 {
			continue // a series without data in range yields nothing, also with fill()
		}
		var out []xrow
		switch {
		case !q.isAgg():
			for _, r := range pts {
				row := xrow{times: []int64{r.t}, cells: []xcell{{r.v}}}
				if q.Proj == "vw" {
					row.cells = append(row.cells, xcell{r.w})
				}
				out = append(out, row)
			}
		case dur == 0:
			vals, ts := aggregate(q.Proj, intV, pts)
			if !q.isSelector() {
				// an aggregate without GROUP BY time reports the lower bound of the time range, or epoch 0
				ts = []int64{0}
				if hasLo {
					ts = []int64{lo}
				}
			}
			out = []xrow{{times: ts, cells: []xcell{vals}}}
		default:
			out = bucketed(q, intV, pts, lo, hi, dur, off)
		}
		if q.Desc {
			for a, b := 0, len(out)-1; a < b; a, b = a+1, b-1 {
				out[a], out[b] = out[b], out[a]
			}
		}
		full[g] = out
	}

	// 4. LIMIT/OFFSET per series, SLIMIT/SOFFSET over the series list.
	mk := func(includeEmptyBefore, includeEmptyAfter bool) []xseries {
		var list []xseries
		for _, g := range names {
			s := xseries{tag: g, all: full[g], rows: applyLimit(full[g], q.Limit, q.Offset)}
			if len(s.all) == 0 && !includeEmptyBefore {
				continue
			}
			if len(s.rows) == 0 && !includeEmptyAfter {
				continue
			}
			list = append(list, s)
		}
		return list
	}
	strip := func(list []xseries) []xseries {
		var out []xseries
		for _, s := range list {
			if len(s.rows) > 0 {
				out = append(out, s)
			}
		}
		return out
	}
	var lists [][]xseries
	if q.SLimit == 0 && q.SOffset == 0 {
		lists = [][]xseries{mk(false, false)}
	} else {
		// the documentation does not say whether SLIMIT counts series that match the tag predicate but contribute no row
		lists = [][]xseries{mk(false, false), mk(false, true), mk(true, true)}
	}
	for _, l := range lists {
		ex.candidates = append(ex.candidates, strip(sliceSeries(l, q.SLimit, q.SOffset)))
		if q.Desc {
			// series order under ORDER BY time DESC is not documented: ascending or descending tag order
			ex.candidates = append(ex.candidates, strip(sliceSeries(reverse(l), q.SLimit, q.SOffset)))
			ex.candidates = append(ex.candidates, reverse(strip(sliceSeries(l, q.SLimit, q.SOffset))))
		}
	}
	for _, c := range ex.candidates {
		n := 0
		for _, s := range c {
			n += len(s.rows)
		}
		if n > ex.maxRows {
			ex.maxRows = n
		}
	}
	return ex
}

// bucketed: GROUP BY time(dur, off) over the inclusive range [lo,hi] with the statement's fill option. Ascending.
func bucketed(q Q, intV bool, pts []rrow, lo, hi, dur, off int64) []xrow {
	byBucket := map[int64][]rrow{}
	for _, p := range pts {
		w := window(p.t, dur, off)
		byBucket[w] = append(byBucket[w], p)
	}
	fill := q.Fill
	if fill == "" {
		fill = "null"
	}
	type bk struct {
		t    int64
		data bool
		c    xcell
	}
	var bks []bk
	for t := window(lo, dur, off); t <= window(hi, dur, off); t += dur {
		b := bk{t: t}
		if ps := byBucket[t]; len(ps) > 0 {
			b.data = true
			b.c, _ = aggregate(q.Proj, intV, ps)
		}
		bks = append(bks, b)
	}
	colInt := q.Proj == "count" || (intV && q.Proj != "mean")
	var out []xrow
	for k, b := range bks {
		if b.data {
			out = append(out, xrow{times: []int64{b.t}, cells: []xcell{b.c}})
			continue
		}
		var c xcell
		switch fill {
		case "none":
			continue
		case "null":
			c = xcell{nil}
			if q.Proj == "count" {
				c = xcell{int64(0)} // documented: count() reports 0 for intervals without data
			}
		case "0":
			if colInt {
				c = xcell{int64(0)}
			} else {
				c = xcell{float64(0)}
			}
		case "previous":
			// value of the previous interval (data or itself filled = the nearest earlier interval with data), else null.
			// Under ORDER BY time DESC the documentation does not say whether "previous" is chronological or in output
			// order: accept both.
			prev := xcell{nil}
			for j := k - 1; j >= 0; j-- {
				if bks[j].data {
					prev = bks[j].c
					break
				}
			}
			c = append(c, prev...)
			if q.Desc {
				next := xcell{nil}
				for j := k + 1; j < len(bks); j++ {
					if bks[j].data {
						next = bks[j].c
						break
					}
				}
				c = append(c, next...)
			}
		case "linear":
			pj, nj := -1, -1
			for j := k - 1; j >= 0; j-- {
				if bks[j].data {
					pj = j
					break
				}
			}
			for j := k + 1; j < len(bks); j++ {
				if bks[j].data {
					nj = j
					break
				}
			}
			if pj < 0 || nj < 0 {
				c = xcell{nil}
				break
			}
			for _, pv := range bks[pj].c {
				for _, nv := range bks[nj].c {
					x := asF(pv) + (asF(nv)-asF(pv))*float64(b.t-bks[pj].t)/float64(bks[nj].t-bks[pj].t)
					if colInt {
						// rounding of integer interpolation is not documented
						c = append(c, int64(math.Floor(x)), int64(math.Ceil(x)))
					} else {
						c = append(c, x)
					}
				}
			}
		}
		out = append(out, xrow{times: []int64{b.t}, cells: []xcell{dedupe(c)}})
	}
	return out
}

// ---------------------------------------------------------------------------------------------------------
// comparison

func cellEq(got any, want any) bool {
	switch w := want.(type) {
	case nil:
		return got == nil
	case int64:
		g, ok := got.(int64)
		return ok && g == w
	case float64:
		g, ok := got.(float64)
		return ok && (g == w || math.Abs(g-w) <= 1e-9*math.Max(1, math.Abs(w)))
	}
	return false
}

func cellOK(got any, want xcell) bool {
	for _, w := range want {
		if cellEq(got, w) {
			return true
		}
	}
	return false
}

func timeOf(v any) (int64, bool) {
	t, ok := v.(time.Time)
	if !ok {
		return 0, false
	}
	return t.UnixNano(), true
}

func rowOK(got []any, want xrow) bool {
	if len(got) != len(want.cells)+1 {
		return false
	}
	t, ok := timeOf(got[0])
	if !ok {
		return false
	}
	tok := false
	for _, wt := range want.times {
		tok = tok || wt == t
	}
	if !tok {
		return false
	}
	for k, c := range want.cells {
		if !cellOK(got[k+1], c) {
			return false
		}
	}
	return true
}

// seriesOK compares one returned series with one expected series; "" = equal, else the mismatch clause.
func seriesOK(ex *expectation, got mini.Row, want xseries) string {
	if got.Name != "m" {
		return "series-name"
	}
	if ex.byTag {
		if len(got.Tags) != 1 || got.Tags["h"] != want.tag {
			return "series-tags"
		}
	} else if len(got.Tags) != 0 {
		return "series-tags"
	}
	if strings.Join(got.Columns, ",") != strings.Join(ex.cols, ",") {
		return "columns"
	}
	if len(got.Values) != len(want.rows) {
		return "row-count"
	}
	if !ex.raw {
		for k, r := range want.rows {
			if !rowOK(got.Values[k], r) {
				if t, ok := timeOf(got.Values[k][0]); ok && len(r.times) == 1 && t == r.times[0] {
					return "row-value"
				}
				return "row-time"
			}
		}
		return ""
	}
	// raw: the time stamps are determined; rows with equal time may come in any order and LIMIT/OFFSET may cut through
	// such a run anywhere: every returned row must be matched by a distinct not-yet-used expected row of that time.
	used := make([]bool, len(want.all))
	for k, g := range got.Values {
		t, ok := timeOf(g[0])
		if !ok || t != want.rows[k].times[0] {
			return "row-time"
		}
		found := false
		for j, r := range want.all {
			if !used[j] && rowOK(g, r) {
				used[j], found = true, true
				break
			}
		}
		if !found {
			return "row-value"
		}
	}
	return ""
}

// judge returns "" when the result matches one acceptable series list, else the mismatch clause of the FIRST candidate
// (the canonical reading) refined by a series-count class.
func judge(ex *expectation, rs []mini.Result, err error) (clause string) {
	if err != nil {
		return "parse-error"
	}
	if len(rs) != 1 {
		return "statement-count"
	}
	r := rs[0]
	if ex.errSub != "" {
		if r.Err == "" {
			return "missing-error"
		}
		if !strings.Contains(r.Err, ex.errSub) {
			return "other-error"
		}
		return ""
	}
	if r.Err != "" {
		return "unexpected-error"
	}
	first := ""
	for ci, cand := range ex.candidates {
		cl := ""
		if len(r.Rows) != len(cand) {
			cl = "series-count-less"
			if len(r.Rows) > len(cand) {
				cl = "series-count-more"
			}
		} else {
			for k := range cand {
				if c := seriesOK(ex, r.Rows[k], cand[k]); c != "" {
					cl = c
					break
				}
			}
		}
		if cl == "" {
			return ""
		}
		if ci == 0 {
			first = cl
		}
	}
	return first
}

// ---------------------------------------------------------------------------------------------------------
// rendering (deterministic)

func relMin(t int64) string {
	d := t - B
	if t == 0 {
		return "epoch0"
	}
	if d%minute == 0 {
		return fmt.Sprintf("%dm", d/minute)
	}
	return fmt.Sprintf("%dm%+dns", floorDiv(d, minute), d-floorDiv(d, minute)*minute)
}

func fmtVal(v any) string {
	switch x := v.(type) {
	case nil:
		return "null"
	case time.Time:
		return relMin(x.UnixNano())
	case float64:
		return fmt.Sprintf("%gf", x)
	case int64:
		return fmt.Sprintf("%di", x)
	}
	return fmt.Sprintf("%v(%T)", v, v)
}

func fmtGot(ex *expectation, rs []mini.Result) string {
	var sb strings.Builder
	for _, r := range rs {
		if r.Err != "" {
			fmt.Fprintf(&sb, "  error: %s\n", r.Err)
		}
		for _, row := range r.Rows {
			fmt.Fprintf(&sb, "  series %s tags{h=%q present=%v} cols=%v:", row.Name, row.Tags["h"], len(row.Tags) > 0, row.Columns)
			lines := make([]string, len(row.Values))
			for k, v := range row.Values {
				var cs []string
				for _, x := range v {
					cs = append(cs, fmtVal(x))
				}
				lines[k] = "[" + strings.Join(cs, " ") + "]"
			}
			if ex.raw {
				// the order of equal-time rows is not judged and may vary from run to run: print them sorted
				lines = sortEqualTimeRuns(row.Values, lines)
			}
			sb.WriteString(" " + strings.Join(lines, " ") + "\n")
		}
		if len(r.Rows) == 0 && r.Err == "" {
			sb.WriteString("  (no series)\n")
		}
	}
	return sb.String()
}

func sortEqualTimeRuns(vals [][]any, lines []string) []string {
	out := append([]string(nil), lines...)
	for a := 0; a < len(vals); {
		b := a + 1
		ta, _ := timeOf(vals[a][0])
		for b < len(vals) {
			tb, _ := timeOf(vals[b][0])
			if tb != ta {
				break
			}
			b++
		}
		sort.Strings(out[a:b])
		a = b
	}
	return out
}

func fmtCell(c xcell) string {
	var s []string
	for _, v := range c {
		s = append(s, fmtVal(v))
	}
	return strings.Join(s, "|")
}

func fmtWant(ex *expectation) string {
	if ex.errSub != "" {
		return fmt.Sprintf("  error containing %q\n", ex.errSub)
	}
	var sb strings.Builder
	seen := map[string]bool{}
	n := 0
	for _, cand := range ex.candidates {
		var cb strings.Builder
		for _, s := range cand {
			fmt.Fprintf(&cb, "  series m tags{h=%q present=%v} cols=%v:", s.tag, ex.byTag, ex.cols)
			for _, r := range s.rows {
				var ts []string
				for _, t := range r.times {
					ts = append(ts, relMin(t))
				}
				cs := []string{strings.Join(ts, "|")}
				for _, c := range r.cells {
					cs = append(cs, fmtCell(c))
				}
				cb.WriteString(" [" + strings.Join(cs, " ") + "]")
			}
			cb.WriteString("\n")
		}
		if len(cand) == 0 {
			cb.WriteString("  (no series)\n")
		}
		if seen[cb.String()] {
			continue
		}
		seen[cb.String()] = true
		if n > 0 {
			sb.WriteString(" or\n")
		}
		n++
		sb.WriteString(cb.String())
	}
	if ex.raw && (ex.q.Limit > 0 || ex.q.Offset > 0) {
		sb.WriteString("  (raw result: rows of equal time may appear in any order, LIMIT/OFFSET may cut such a run anywhere)\n")
	}
	return sb.String()
}

func fmtDataset(ds Dataset) string {
	var sb strings.Builder
	fmt.Fprintf(&sb, "dataset %s (layout %s), measurement m, shard groups [0m,60m) [60m,120m):\n", ds.Name, ds.Layout)
	for _, p := range ds.Pts {
		fmt.Fprintf(&sb, "  h=%s t=%dm v=%s w=%s\n", p.H, p.Min, fmtVal(p.V), fmtVal(p.W))
	}
	return sb.String()
}

// ---------------------------------------------------------------------------------------------------------
// signatures and outcome classes

func projKind(q Q) string {
	switch {
	case !q.isAgg():
		return "raw"
	case q.isSelector():
		return "selector"
	}
	return "aggregate"
}

func sigOf(q Q, clause string) string {
	gb := []string{"none", "time", "time", "tag", "time+tag"}[q.GB]
	parts := []string{"SELECT", clause, projKind(q), "groupby=" + gb}
	if q.Cond != nil {
		parts = append(parts, "where="+q.Cond.class())
	}
	if strings.HasSuffix(clause, "-error") {
		return vlib.JoinSig(parts...) // acceptance/rejection of a statement does not depend on the other slots
	}
	if d, _ := q.interval(); d != 0 && q.isAgg() {
		fl := q.Fill
		if fl == "" {
			fl = "null"
		}
		parts = append(parts, "fill="+fl)
	}
	if q.Desc {
		parts = append(parts, "desc")
	}
	if q.Limit > 0 || q.Offset > 0 {
		parts = append(parts, "limit")
	}
	if q.SLimit > 0 || q.SOffset > 0 {
		parts = append(parts, "slimit")
	}
	return vlib.JoinSig(parts...)
}

// diagnose turns a mismatch clause into the class signature. A mismatch of a statement with SLIMIT/SOFFSET whose result
// equals what "SLIMIT/SOFFSET applied per shard" predicts is put into one class per grouping.
func diagnose(ds Dataset, q Q, clause string, rs []mini.Result, err error) string {
	if q.SLimit > 0 || q.SOffset > 0 {
		if judge(reference(ds, q, true), rs, err) == "" {
			gb := []string{"none", "time", "time", "tag", "time+tag"}[q.GB]
			return vlib.JoinSig("SELECT", "slimit-applied-per-shard", "groupby="+gb)
		}
	}
	return sigOf(q, clause)
}

func rowClass(n int) string {
	switch {
	case n == 0:
		return "0"
	case n == 1:
		return "1"
	case n <= 4:
		return "2-4"
	case n <= 12:
		return "5-12"
	}
	return "13+"
}

type Case struct {
	DS int `json:"dataset"`
	Q  Q   `json:"query"`
}

func run(fx *mini.Fixture, b mini.Bucket, q Q) (rs []mini.Result, err error, panicked string) {
	p, d := vlib.Guard(func() { rs, err = fx.InfluxQL(b, q.String()) })
	if p {
		panicked = d
	}
	return
}

func TestCheck(t *testing.T) {
	vlib.Main(t, &vlib.Check{
		ID: "C22", Level: "exploration",
		Rule: "datasets × statements, COMPLETE product of a template grammar (no sampling). Statement = SELECT <proj> FROM m [WHERE <time> AND <tag> AND <field>] [GROUP BY <gb>] [fill(<f>)] [ORDER BY time DESC] [LIMIT/OFFSET] [SLIMIT/SOFFSET]. " +
			"thorough: proj ∈ {v; count,sum,mean,min,max,first,last (v); v,w} × time ∈ {[0m,120m), [15m,80m], (20m,70m), none (for GROUP BY time statements: [-30m,150m)), [60m,120m), [25m,35m)} × tag ∈ {none, h='a', h!='a'} × field ∈ {none, v>1} × gb ∈ {none, time(20m), time(30m,10m), h, time(20m)+h} × fill ∈ {absent,null,none,0,previous,linear} (only with an aggregate and GROUP BY time; raw projections with GROUP BY time are enumerated once and must be rejected) × order ∈ {asc,desc} × limit ∈ {none, 1, (1,1), (2,1)} × slimit ∈ {none, 1, (1,1)} = 129 600 statements × 5 datasets D0–D4 (D0 two dense float series with identical time stamps, cache; D1 integer v with gaps/off-grid times/a w-only point, TSM; D2 three float series: h=a only in shard 1, h=b only in shard 2, h=c in both, TSM+cache; D3 integer v with several points per bucket and equal values/time stamps within and across series, two TSM files; D4 float v at off-grid times, every point first written with an old value into TSM and then overwritten (second TSM file / cache)); every dataset spans two 1h shard groups. " +
			"quick: the same grammar with fewer alternatives per slot (proj {v,count,mean,max,first,v+w} × 3 time × 2 tag × 2 field × gb {none,time(30m,10m),time(20m)+h} × fill {absent,previous,linear} × 2 order × limit {none,(1,1)} × slimit {none,(1,1)} = 3 264 statements) × 5 datasets D0–D4. " +
			"WHERE-tree family (in addition): the <tag>/<field> slots are replaced by a condition TREE: EVERY tree of depth ≤ 2 over the atom alphabet {h = 'a', h != 'a', h =~ /^[ac]$/, v > 2, v <= 2, v = 2} × {AND, OR} (6 + 72 + 12 096 = 12 174 trees: all pure-tag, pure-field and mixed conditions, a tag predicate ORed/ANDed with a field predicate in both operand orders, and such an OR/AND nested under AND and under OR on either side), ANDed with the time range of its frame, on dataset D5 (four float series around the constant 2: h=a has values below, equal to and above 2 and a w-only point, every value of h=b is > 2, every value of h=c is ≤ 2, h=d mixed; equal time stamps across series; two shards; TSM + cache). The reference evaluates the tree per point from the point's tag and its v value (absent v ⇒ every comparison false). " +
			"quick frames: SELECT v without time bound × all 12 174 trees; count(v) GROUP BY h in [0m,120m), SELECT v,w GROUP BY h in [15m,80m] printed with minimal parentheses, SELECT v ORDER BY time DESC LIMIT 2 OFFSET 1 × the 78 trees of depth ≤ 1 (12 408 statements). thorough frames: those four plus max(v) GROUP BY time(20m),h fill(none) and mean(v) GROUP BY time(30m,10m) fill(previous) in (20m,70m), each × all 12 174 trees (73 044 statements), on D5, D1 and D2. " +
			"Oracle: reference evaluator written from the InfluxQL documentation (see file header). non-trivial = statements for which the reference expects ≥ 1 row (distinct by construction); coverage.extra counts the WHERE-tree cases per tree class (tag-only, field-only, mixed-and, or-tag-field, or-mixed) and how many of them expect rows.",
		Assumptions: []string{
			"documentation silent ⇒ accepted: order of equal-time rows in a merged raw result (and which of them LIMIT/OFFSET keeps); which equal-time point first()/last() reports; which equal-valued point's time min()/max() report without GROUP BY time; fill(previous) under ORDER BY time DESC may take the chronologically previous or the previously emitted (= later) interval; fill(linear) on integer columns may round either way; series order under ORDER BY time DESC (ascending or descending tags); SLIMIT/SOFFSET may count all series matching the tag predicate, those with rows before LIMIT/OFFSET, or those with rows after it",
			"documented and demanded: count() reports 0 (not null) for empty intervals unless a fill option replaces it; an aggregate without GROUP BY time is stamped with the lower time bound (epoch 0 if none), a selector with its point's time; GROUP BY time buckets are aligned to epoch + offset and cover the whole WHERE range (first bucket may start before the lower bound); fill applies only to series that have ≥ 1 point in range; LIMIT/OFFSET apply per series after fill and ordering; result value types: count integer, mean float, others the field's type; raw projection with GROUP BY time is rejected",
			"GROUP BY time statements always carry both time bounds (without an upper bound the range ends at now(); without a lower bound the first bucket is undocumented); fill() is only enumerated with GROUP BY time",
			"float data are multiples of 0.25 so that sums are exact in any order; means and interpolations are compared with relative tolerance 1e-9",
			"WHERE-tree family: a condition is a predicate on single points (InfluxQL documentation: tag and field predicates may be combined with AND/OR and parentheses; AND binds tighter than OR): a point is returned iff the tree holds for its tag value and its v value; a point without field v fails every v comparison; h =~ /^[ac]$/ holds for h ∈ {a, c}; trees are never combined with SLIMIT/SOFFSET; one regex, one constant, one tag key, field atoms on v only",
			"background compaction off (mini fixture); layouts cache / TSM / TSM+cache / two TSM files / overwritten-in-TSM-and-cache are fixed per dataset",
		},
		QuickBudgetS: 60, ThoroughBudgetS: 800,
		Run: func(c *vlib.Ctx) {
			grammar, where := queries(c.Thorough()), whereQueries(c.Thorough())
			lists := make([][]Q, len(datasets))
			total := int64(0)
			for di := range datasets {
				lists[di] = statements(di, c.Thorough(), grammar, where)
				total += int64(len(lists[di]))
			}
			c.Note("grammar_statements_per_dataset", fmt.Sprint(len(grammar)))
			c.Note("where_tree_statements_per_dataset", fmt.Sprint(len(where)))
			c.Note("where_trees_depth_le_2", fmt.Sprint(len(condTrees(2))))
			c.Note("datasets_total", fmt.Sprint(len(datasets)))
			c.Note("cases_total", fmt.Sprint(total))
			// Partition: the global case index (dataset-major) is cut into NShards contiguous blocks, so that a worker
			// builds only the one or two datasets its block touches (a dataset costs as much as ~200 statements).
			mine := func(g int64) bool { return int(g*int64(c.NShards)/total) == c.Shard }
			base := int64(0)
			for di, ds := range datasets {
				qs := lists[di]
				if di > 0 {
					base += int64(len(lists[di-1]))
				}
				if len(qs) == 0 {
					continue
				}
				sFirst, sLast := int(base*int64(c.NShards)/total), int((base+int64(len(qs))-1)*int64(c.NShards)/total)
				if c.Shard < sFirst || c.Shard > sLast {
					continue // no case of this dataset belongs to this shard (the block map is monotone)
				}
				fx, b, err := load(ds)
				if err != nil {
					c.HarnessError(fmt.Sprintf("dataset %s: %v", ds.Name, err))
					continue
				}
				for qi, q := range qs {
					if !mine(base + int64(qi)) {
						continue
					}
					if qi%256 == 0 && c.Expired() {
						c.Cap(fmt.Sprintf("wall budget: a worker stopped inside its contiguous block of (dataset, statement) cases, in dataset %d of %d", di+1, len(datasets)))
						fx.Close()
						return
					}
					ex := reference(ds, q, false)
					rs, err, pan := run(fx, b, q)
					c.Eval(1)
					cs := Case{di, q}
					if pan != "" {
						fr := pan[strings.LastIndex(pan, "@ ")+2:]
						c.Violation(sigOf(q, "panic/"+fr), fmt.Sprintf("%s on %s: %s", q, ds.Name, pan), cs)
						c.Outcome("panic")
						continue
					}
					if ex.maxRows > 0 {
						c.NontrivialN(1)
					}
					nser, nrows, filled := 0, 0, false
					if len(rs) == 1 {
						nser = len(rs[0].Rows)
						for _, r := range rs[0].Rows {
							nrows += len(r.Values)
							for _, v := range r.Values {
								for _, x := range v[1:] {
									filled = filled || x == nil
								}
							}
						}
					}
					if q.Cond != nil {
						cls := q.Cond.class()
						c.Extra("where_tree_cases/"+cls, 1)
						if ex.maxRows > 0 {
							c.Extra("where_tree_cases_with_rows/"+cls, 1)
						}
						c.Outcome(fmt.Sprintf("where=%s/series=%d/rows=%s", cls, min(nser, 3), rowClass(nrows)))
					} else if ex.errSub != "" {
						c.Outcome("rejected-by-compiler")
					} else {
						c.Outcome(fmt.Sprintf("%s/series=%d/rows=%s/nulls=%v", projKind(q), min(nser, 3), rowClass(nrows), filled))
					}
					if cl := judge(ex, rs, err); cl != "" {
						c.Violation(diagnose(ds, q, cl, rs, err), fmt.Sprintf("%s on %s: got\n%swant\n%s", q, ds.Name, fmtGot(ex, rs), fmtWant(ex)), cs)
					}
					if c.WantSample() && ex.maxRows >= 3 && ((q.GB == 4 && q.Limit > 0 && q.Field) || (q.Cond != nil && q.Cond.depth() == 2 && q.Cond.class() == "or-tag-field")) {
						c.Sample(map[string]any{"dataset": ds.Name, "statement": q.String(), "returned": fmtGot(ex, rs)})
					}
				}
				fx.Close()
			}
		},
		Replay: func(c *vlib.Ctx, raw json.RawMessage) (bool, string) {
			var cs Case
			if err := json.Unmarshal(raw, &cs); err != nil {
				return false, err.Error()
			}
			if cs.DS < 0 || cs.DS >= len(datasets) {
				return false, "bad dataset index"
			}
			ds := datasets[cs.DS]
			fx, b, err := load(ds)
			if err != nil {
				return false, "fixture: " + err.Error()
			}
			defer fx.Close()
			ex := reference(ds, cs.Q, false)
			rs, err, pan := run(fx, b, cs.Q)
			var sb strings.Builder
			fmt.Fprintf(&sb, "statement: %s\n%s", cs.Q, fmtDataset(ds))
			if pan != "" {
				fmt.Fprintf(&sb, "PANIC: %s\n", pan)
				return true, sb.String()
			}
			if err != nil {
				fmt.Fprintf(&sb, "parse error: %v\n", err)
			}
			cl := judge(ex, rs, err)
			fmt.Fprintf(&sb, "returned:\n%sreference evaluator accepts:\n%s", fmtGot(ex, rs), fmtWant(ex))
			if cl != "" {
				fmt.Fprintf(&sb, "VIOLATED: %s\n", diagnose(ds, cs.Q, cl, rs, err))
			}
			return cl != "", sb.String()
		},
	})
}
