// C21: storage read requests return exactly the stored series and points.
//
// Bounded-exhaustive input enumeration on the `mini` fixture (the real storage.Engine + tsdb.Store + the real
// v1/services/storage.Store): for every dataset of two declared families (series × fields × time slots straddling a
// shard-group boundary × storage layout cache/TSM/mixed/overwritten) every ReadFilter request of a declared
// (time range × predicate) family and every ReadGroup request of a declared (group mode × group keys × aggregate ×
// range × predicate) family is executed and compared with a reference model built from the written points.
// A third family ("C": shard-group presence patterns) spreads the series over THREE (thorough: also four) shard groups:
// every series is present or absent per group, so a series may have points in an earlier and a later shard and none in
// a shard between them, where that shard does not exist / exists but does not know the field (nil cursor) / knows the
// field through another series of the same measurement (non-nil, immediately empty cursor).
//
// A fourth family ("V": field values) reads the three-shard-group layout with predicates that compare the FIELD VALUE
// (`_value > 80`, alone and AND/OR-ed with tag comparisons) over datasets in which every point is low or high, for every
// low/high assignment to the six time slots: a point must be returned iff the predicate, evaluated as a Boolean
// expression over its series' tags and its OWN value, is true.
//
// What the oracle demands (and nothing more than the statement says):
//   - filter: every series (measurement, tag set, field) that matches the predicate and has ≥ 1 stored point in
//     [start,end) is returned exactly once, with exactly those points, strictly ascending in time, with the stored
//     (latest written) value and type; no other series is returned with points; no series that does not match the
//     predicate is returned at all.
//   - group: the same series with the same points (or, with an aggregate, the aggregate of exactly those points),
//     every series in exactly one group, all series of a group agree with the group's partition key values, no two
//     groups have the same partition key, groups come in strictly ascending partition-key order (missing tag value
//     sorting consistently first or consistently last); group mode none = one group.
//
// Where the statement is silent every answer is accepted: series returned with an EMPTY cursor (the store lists
// index series × measurement fields, also those without points in range), the order of series (filter: any; inside a
// group: any), the union-of-keys column of a group, time stamps of aggregate results, and whether `tag != "v"` matches a
// series that does not have the tag at all (three-valued: such a series may or may not be returned, but if it is
// returned its points must be exact).
package c21

import (
	"encoding/json"
	"fmt"
	"math"
	"sort"
	"strconv"
	"strings"
	"testing"

	"github.com/influxdata/influxdb/v2/storage/reads/datatypes"
	"verif/h/mini"
	"verif/h/vlib"
)

// ---------------------------------------------------------------------------------------------------------
// domain

const H = mini.Hour

// four time slots: two in the first shard group, two in the second; slots 1 and 2 are adjacent nanoseconds across
// the shard-group boundary.
var slotT = [4]int64{mini.Base + 10, mini.Base + H - 1, mini.Base + H, mini.Base + H + 10}

type seriesDef struct {
	M    string
	Tags []mini.Tag
}

var pool = []seriesDef{
	{"m0", mini.T("a", "x")},
	{"m0", mini.T("a", "y", "b", "z")},
	{"m1", mini.T("a", "x", "b", "z")},
	{"m1", mini.T("b", "w")},
}

var fieldNames = []string{"f0", "f1"} // f0 is written as float, f1 as integer

// Cell: the points of field F of series S are at the slots of Mask (bit k = slot k).
type Cell struct {
	S    int `json:"s"`
	F    int `json:"f"`
	Mask int `json:"mask"`
}

// Dataset is one enumerated dataset. Mode is the storage layout:
//
//	cache     all points written, nothing snapshotted
//	tsm       all written, then every shard snapshotted to TSM
//	mixed     even slots written, snapshot, odd slots written (every shard has TSM + cache data, interleaved in time)
//	tsm2      even slots, snapshot, odd slots, snapshot (two TSM files per shard)
//	overwrite every point written with an OLD value, snapshot, every point written again with its final value
//
// Families A and B use the four slots of slotT (two shard groups). Family C uses Groups shard groups with two slots per
// group: slot 2g = first nanosecond of group g, slot 2g+1 = last nanosecond of group g (so slots 2g+1 and 2g+2 are
// adjacent nanoseconds across every shard-group boundary).
type Dataset struct {
	Fam    string `json:"family"`
	Cells  []Cell `json:"cells"`
	Mode   string `json:"mode"`
	Groups int    `json:"groups,omitempty"` // families C and V: number of shard groups (3 or 4)
	VMask  int    `json:"vmask,omitempty"`  // family V only: bit k set = the value at slot k is "high" (see valueV)
}

// slotC is the time of slot k of family C.
func slotC(k int) int64 {
	if k%2 == 0 {
		return mini.Base + int64(k/2)*H
	}
	return mini.Base + int64(k/2+1)*H - 1
}

// slots are the slot times of the dataset's family.
func (ds Dataset) slots() []int64 {
	if ds.Fam != "C" && ds.Fam != "V" {
		return slotT[:]
	}
	out := make([]int64, 2*ds.Groups)
	for k := range out {
		out[k] = slotC(k)
	}
	return out
}

// ngroups is the number of shard groups the dataset's slots span.
func (ds Dataset) ngroups() int {
	if ds.Fam != "C" && ds.Fam != "V" {
		return 2
	}
	return ds.Groups
}

func value(s, f, k int, old bool) any {
	if f == 0 {
		v := float64(s*100+k) + 0.5
		if old {
			v += 1000
		}
		return v
	}
	v := int64(s*100 + 10 + k)
	if old {
		v += 1000
	}
	return v
}

// Family V ("field values"): slot geometry and field layout of family C; every point is "low" or "high":
//
//	n = s*10 + k (+100 if high)          f0: float64(n)+0.5     f1: int64(n)
//
// so low values are 0…37.5 and high values 100…137.5, unique per (series, slot). Slot k is high for the even pool
// series iff bit k of VMask is set, and for the odd pool series iff it is NOT set (the two series of a measurement have
// complementary patterns). The OLD value of the layout "overwrite" is of the OPPOSITE class, +40 (40…77.5 / 140…177.5):
// a value condition with threshold 80 separates low from high for final and old values alike, and an overwritten point
// must be judged by its final value.
const vThreshold = 80

func valueV(ds Dataset, s, f, k int, old bool) any {
	hi := ds.VMask>>k&1 == 1
	if s%2 == 1 {
		hi = !hi
	}
	n := s*10 + k
	if old {
		hi = !hi
		n += 40
	}
	if hi {
		n += 100
	}
	if f == 0 {
		return float64(n) + 0.5
	}
	return int64(n)
}

// val is the value written at (series s, field f, slot k) of the dataset.
func (ds Dataset) val(s, f, k int, old bool) any {
	if ds.Fam == "V" {
		return valueV(ds, s, f, k, old)
	}
	return value(s, f, k, old)
}

// P is a predicate of the family. The ops vgt, vlt, vge, vle, veq, vne compare the FIELD VALUE of a point (the `_value`
// column: datatypes.Node_TypeFieldRef, as the Flux planner pushes `r._value > 80.0` down) with the numeric literal Num,
// sent as a float literal or (IntLit) as an integer literal.
type P struct {
	Op     string  `json:"op"` // eq | ne | and | or | vgt | vlt | vge | vle | veq | vne
	K      string  `json:"k,omitempty"`
	V      string  `json:"v,omitempty"`
	L      *P      `json:"l,omitempty"`
	R      *P      `json:"r,omitempty"`
	Num    float64 `json:"num,omitempty"`
	IntLit bool    `json:"int_literal,omitempty"`
}

func vcmp(op string, num float64) *P  { return &P{Op: op, Num: num} }
func vcmpInt(op string, num int64) *P { return &P{Op: op, Num: float64(num), IntLit: true} }

var vOps = map[string]struct {
	sym string
	pb  datatypes.Node_Comparison
}{
	"vgt": {">", datatypes.Node_ComparisonGreater}, "vlt": {"<", datatypes.Node_ComparisonLess},
	"vge": {">=", datatypes.Node_ComparisonGreaterEqual}, "vle": {"<=", datatypes.Node_ComparisonLessEqual},
	"veq": {"=", datatypes.Node_ComparisonEqual}, "vne": {"!=", datatypes.Node_ComparisonNotEqual},
}

func (p *P) isValueAtom() bool { _, ok := vOps[p.Op]; return ok }

// hasValue: the predicate contains a field-value comparison.
func (p *P) hasValue() bool {
	if p == nil {
		return false
	}
	if p.isValueAtom() {
		return true
	}
	return p.L.hasValue() || p.R.hasValue()
}

// valueNode builds `_value <op> literal` (own builder: mini has tag comparisons only).
func (p *P) valueNode() *datatypes.Node {
	lit := &datatypes.Node{NodeType: datatypes.Node_TypeLiteral, Value: &datatypes.Node_FloatValue{FloatValue: p.Num}}
	if p.IntLit {
		lit = &datatypes.Node{NodeType: datatypes.Node_TypeLiteral, Value: &datatypes.Node_IntegerValue{IntegerValue: int64(p.Num)}}
	}
	return &datatypes.Node{
		NodeType: datatypes.Node_TypeComparisonExpression,
		Value:    &datatypes.Node_Comparison_{Comparison: vOps[p.Op].pb},
		Children: []*datatypes.Node{
			{NodeType: datatypes.Node_TypeFieldRef, Value: &datatypes.Node_FieldRefValue{FieldRefValue: datatypes.ValueKey}},
			lit,
		},
	}
}

func eq(k, v string) *P { return &P{Op: "eq", K: k, V: v} }
func ne(k, v string) *P { return &P{Op: "ne", K: k, V: v} }
func and(l, r *P) *P    { return &P{Op: "and", L: l, R: r} }
func or(l, r *P) *P     { return &P{Op: "or", L: l, R: r} }

func (p *P) String() string {
	if p == nil {
		return "none"
	}
	switch p.Op {
	case "eq":
		return fmt.Sprintf("%s=%q", p.K, p.V)
	case "ne":
		return fmt.Sprintf("%s!=%q", p.K, p.V)
	case "and":
		return "(" + p.L.String() + " AND " + p.R.String() + ")"
	case "or":
		return "(" + p.L.String() + " OR " + p.R.String() + ")"
	default:
		if p.IntLit {
			return fmt.Sprintf("_value%s%d", vOps[p.Op].sym, int64(p.Num))
		}
		return fmt.Sprintf("_value%s%s", vOps[p.Op].sym, strconv.FormatFloat(p.Num, 'f', 1, 64))
	}
}

func (p *P) node() *datatypes.Node {
	if p == nil {
		return nil
	}
	switch p.Op {
	case "eq":
		return mini.TagEq(p.K, p.V)
	case "ne":
		return mini.TagNe(p.K, p.V)
	case "and":
		return mini.And(p.L.node(), p.R.node())
	case "or":
		return mini.Or(p.L.node(), p.R.node())
	default:
		return p.valueNode()
	}
}

// kind is the discriminating feature used in signatures.
func (p *P) kind() string {
	if p == nil {
		return "none"
	}
	switch p.Op {
	case "eq", "ne":
		k := "tag"
		if p.K == "_measurement" || p.K == "_field" {
			k = p.K
		}
		return k + "-" + p.Op
	}
	if p.isValueAtom() {
		return "value"
	}
	if p.hasValue() { // and / or with a field-value comparison below it
		return p.Op + "-value"
	}
	return p.Op
}

// Req is one read request.
type Req struct {
	Kind  string   `json:"kind"` // filter | group
	Start int64    `json:"start"`
	End   int64    `json:"end"`
	Pred  *P       `json:"pred,omitempty"`
	GMode string   `json:"gmode,omitempty"` // by | none
	Keys  []string `json:"keys,omitempty"`
	Agg   string   `json:"agg,omitempty"` // "" | count | sum | min | max | first | last | mean
}

func relT(t int64) string {
	switch {
	case t == math.MinInt64:
		return "MinInt64"
	case t == math.MaxInt64:
		return "MaxInt64"
	}
	d := t - mini.Base
	if d >= H/2 {
		if n := (d + H/2) / H; n > 1 { // only family C reaches beyond the second shard group
			return fmt.Sprintf("B+%dH%+d", n, d-n*H)
		}
		return fmt.Sprintf("B+H%+d", d-H)
	}
	return fmt.Sprintf("B%+d", d)
}

func (r Req) String() string {
	s := fmt.Sprintf("%s [%s,%s) pred=%s", r.Kind, relT(r.Start), relT(r.End), r.Pred)
	if r.Kind == "group" {
		s += fmt.Sprintf(" group=%s keys=%v agg=%q", r.GMode, r.Keys, r.Agg)
	}
	return s
}

type Case struct {
	DS  Dataset `json:"dataset"`
	Req Req     `json:"request"`
}

var aggPB = map[string]datatypes.Aggregate_AggregateType{
	"": mini.AggNone, "count": mini.AggCount, "sum": mini.AggSum, "min": mini.AggMin, "max": mini.AggMax,
	"first": mini.AggFirst, "last": mini.AggLast, "mean": mini.AggMean,
}

// ---------------------------------------------------------------------------------------------------------
// enumeration families

func cuts(thorough bool) []int64 {
	t := slotT
	if !thorough {
		return []int64{math.MinInt64, t[0] + 1, t[1], t[2], t[2] + 1, t[3] + 1}
	}
	set := map[int64]bool{math.MinInt64: true, math.MaxInt64: true}
	for _, x := range t {
		set[x-1], set[x], set[x+1] = true, true, true
	}
	var out []int64
	for x := range set {
		out = append(out, x)
	}
	sort.Slice(out, func(i, j int) bool { return out[i] < out[j] })
	return out
}

type rng struct{ s, e int64 }

func ranges(thorough bool) []rng {
	c := cuts(thorough)
	var out []rng
	for i := range c {
		for j := i + 1; j < len(c); j++ {
			out = append(out, rng{c[i], c[j]})
		}
	}
	if thorough { // empty ranges [s,s)
		out = append(out, rng{slotT[1], slotT[1]}, rng{slotT[2], slotT[2]}, rng{slotT[0], slotT[0]})
	}
	return out
}

func filterPreds(thorough bool) []*P {
	if !thorough {
		return []*P{nil, eq("a", "x"), ne("a", "x"), eq("b", "z"), eq("_measurement", "m1"), eq("_field", "f1"),
			and(eq("a", "x"), eq("_field", "f0")), or(eq("a", "x"), eq("b", "z")),
			or(eq("_measurement", "m0"), eq("_field", "f1")), and(ne("a", "x"), eq("b", "z"))}
	}
	out := []*P{nil,
		eq("a", "x"), ne("a", "x"), eq("a", "y"), eq("b", "z"), ne("b", "z"), eq("a", "q"),
		eq("_measurement", "m0"), ne("_measurement", "m0"), eq("_measurement", "m1"),
		eq("_field", "f0"), eq("_field", "f1"), ne("_field", "f0")}
	atoms := []*P{eq("a", "x"), eq("b", "z"), eq("_measurement", "m0"), eq("_field", "f0"), ne("a", "x")}
	for i := range atoms {
		for j := i + 1; j < len(atoms); j++ {
			out = append(out, and(atoms[i], atoms[j]), or(atoms[i], atoms[j]))
		}
	}
	return out
}

var groupDims = []string{"_measurement", "a", "b", "_field"}

func keyLists(thorough bool) [][]string {
	if !thorough {
		return [][]string{{}, {"a"}, {"b"}, {"_measurement"}, {"_field"}, {"a", "b"}, {"b", "a"},
			{"_measurement", "_field"}, {"_field", "a", "b", "_measurement"}}
	}
	var out [][]string
	for m := 0; m < 16; m++ {
		var ks []string
		for i, d := range groupDims {
			if m>>i&1 == 1 {
				ks = append(ks, d)
			}
		}
		if ks == nil {
			ks = []string{}
		}
		out = append(out, ks)
		if len(ks) >= 2 {
			rev := make([]string, len(ks))
			for i := range ks {
				rev[len(ks)-1-i] = ks[i]
			}
			out = append(out, rev)
		}
	}
	return append(out, []string{"nokey"}, []string{"a", "nokey"})
}

var allAggs = []string{"", "count", "sum", "min", "max", "first", "last", "mean"}

// requests is the request family of one dataset family. Family A (slot masks of two series of one measurement) gets
// every range with a few predicates and group lists; family B (series sets) gets the full predicate / group-key product.
func requests(thorough bool, fam string) []Req {
	var out []Req
	fp := filterPreds(thorough)
	if fam == "A" {
		fp = []*P{nil, eq("a", "x"), eq("_field", "f0"), ne("a", "x")}
	}
	for _, r := range ranges(thorough) {
		for _, p := range fp {
			out = append(out, Req{Kind: "filter", Start: r.s, End: r.e, Pred: p})
		}
	}
	t := slotT
	// group requests: ranges/predicates for un-aggregated and aggregated reads
	var gr, ar []rng
	var gp, ap []*P
	if thorough {
		gr = []rng{{math.MinInt64, math.MaxInt64}, {t[0], t[3] + 1}, {t[1], t[2] + 1}, {t[0] + 1, t[3]}, {t[0], t[2]}, {t[2], t[3] + 1}, {t[1], t[2]}, {t[1] + 1, t[2] + 1}}
		gp = []*P{nil, eq("a", "x"), eq("_field", "f0"), ne("b", "z")}
		ar = []rng{{math.MinInt64, math.MaxInt64}, {t[1], t[2] + 1}, {t[0] + 1, t[3]}, {t[0], t[2]}}
		ap = []*P{nil, eq("a", "x")}
	} else {
		gr = []rng{{math.MinInt64, math.MaxInt64}, {t[1], t[2] + 1}, {t[0] + 1, t[3]}}
		gp = []*P{nil, eq("a", "x")}
		ar, ap = gr, gp
	}
	type gk struct {
		mode string
		keys []string
	}
	var gks, aks []gk // key lists for plain and for aggregated group reads
	if fam == "A" {
		gks = []gk{{"by", []string{"a"}}, {"by", []string{}}, {"none", []string{}}}
		aks = gks
		ar, gp, ap = gr, []*P{nil}, []*P{nil}
	} else {
		for _, ks := range keyLists(thorough) {
			gks = append(gks, gk{"by", ks})
			if thorough && (len(ks) <= 1 || len(ks) == 4) {
				aks = append(aks, gk{"by", ks})
			}
		}
		gks = append(gks, gk{"none", []string{}})
		if thorough {
			gks = append(gks, gk{"none", []string{"a"}})
		} else {
			aks = []gk{{"by", []string{"a"}}, {"by", []string{"_measurement", "_field"}}}
		}
		aks = append(aks, gk{"none", []string{}})
	}
	for _, agg := range allAggs {
		ks, rs, ps := gks, gr, gp
		if agg != "" {
			ks, rs, ps = aks, ar, ap
		}
		for _, g := range ks {
			for _, r := range rs {
				for _, p := range ps {
					out = append(out, Req{Kind: "group", Start: r.s, End: r.e, Pred: p, GMode: g.mode, Keys: g.keys, Agg: agg})
				}
			}
		}
	}
	return out
}

// family B ("series sets"): every series of the pool is absent / only in shard A (slots 0,1) / only in shard B
// (slots 2,3) / in both; the field layout of a series is fixed by its identity.
func famBCells(pat []int) []Cell {
	masks := []int{0, 0b0011, 0b1100, 0b1111}
	var cells []Cell
	for s, p := range pat {
		m := masks[p]
		if m == 0 {
			continue
		}
		switch s {
		case 0: // both fields everywhere
			cells = append(cells, Cell{0, 0, m}, Cell{0, 1, m})
		case 1: // f0 only in shard A, f1 only in shard B: the field set of m0 differs between the shards
			if m&0b0011 != 0 {
				cells = append(cells, Cell{1, 0, m & 0b0011})
			}
			if m&0b1100 != 0 {
				cells = append(cells, Cell{1, 1, m & 0b1100})
			}
		case 2:
			cells = append(cells, Cell{2, 0, m})
		case 3:
			cells = append(cells, Cell{3, 1, m})
		}
	}
	return cells
}

func datasets(thorough bool) []Dataset {
	var out, outB []Dataset
	nser, modesB, modesA := 3, []string{"mixed", "overwrite"}, []string{"tsm"}
	if thorough {
		nser, modesB, modesA = 4, []string{"cache", "tsm", "mixed", "tsm2", "overwrite"}, []string{"cache", "tsm", "mixed", "tsm2", "overwrite"}
	}
	// family A ("slot masks"): two series of the same measurement, field f0; every slot mask.
	// quick: series 0 takes every mask, series 1 is fixed at slots {1,2} (straddling the boundary)
	for _, mode := range modesA {
		for m0 := 0; m0 < 16; m0++ {
			lo, hi := 0b0110, 0b0110
			if thorough {
				lo, hi = 0, 15
			}
			for m1 := lo; m1 <= hi; m1++ {
				var cells []Cell
				if m0 != 0 {
					cells = append(cells, Cell{0, 0, m0})
				}
				if m1 != 0 {
					cells = append(cells, Cell{1, 0, m1})
				}
				if cells == nil {
					continue
				}
				out = append(out, Dataset{Fam: "A", Cells: cells, Mode: mode})
			}
		}
	}
	total := 1
	for i := 0; i < nser; i++ {
		total *= 4
	}
	// simplest first: order by number of present series
	var pats [][]int
	for x := 1; x < total; x++ {
		pat := make([]int, nser)
		y := x
		for i := range pat {
			pat[i] = y % 4
			y /= 4
		}
		pats = append(pats, pat)
	}
	sort.SliceStable(pats, func(i, j int) bool { return present(pats[i]) < present(pats[j]) })
	for _, pat := range pats {
		for _, mode := range modesB {
			outB = append(outB, Dataset{Fam: "B", Cells: famBCells(pat), Mode: mode})
		}
	}
	// family A first, then families B, C and V in alternating blocks of 16 (each simplest-first)
	return append(out, interleave(16, outB, datasetsC(thorough), datasetsV(thorough))...)
}

func present(p []int) int {
	n := 0
	for _, x := range p {
		if x != 0 {
			n++
		}
	}
	return n
}

// ---------------------------------------------------------------------------------------------------------
// family C ("shard-group presence patterns"): G shard groups, two slots per group; every pool series is present
// (both slots of the group) or absent in each group. A dataset is a vector of G-bit presence masks, one per pool
// series. Field layout, fixed by the identity of the series:
//
//	m0{a=x}      f0+f1     m0{a=y,b=z}  f0
//	m1{a=x,b=z}  f1        m1{b=w}      f0+f1
//
// so that inside either measurement a group skipped by one series and written by the other yields, for the skipping
// series, a non-nil empty cursor for the shared field (float in m0, integer in m1) and a nil cursor for the other field;
// a group written only by the other measurement yields a nil cursor (measurement unknown to the shard), and a group
// written by nobody has no shard.
var famCFields = [][]int{{0, 1}, {0}, {1}, {0, 1}}

func famCCells(pm []int, groups int) []Cell {
	var cells []Cell
	for s, m := range pm {
		mask := 0
		for g := 0; g < groups; g++ {
			if m>>g&1 == 1 {
				mask |= 0b11 << (2 * g)
			}
		}
		if mask == 0 {
			continue
		}
		for _, f := range famCFields[s] {
			cells = append(cells, Cell{s, f, mask})
		}
	}
	return cells
}

// unwrittenBeforeWritten: the group set u has an unset bit below its highest set bit.
func unwrittenBeforeWritten(u int) bool {
	seenUnset := false
	for g := 0; u>>g != 0; g++ {
		if u>>g&1 == 0 {
			seenUnset = true
		} else if seenUnset {
			return true
		}
	}
	return false
}

func popcount(x int) int {
	n := 0
	for ; x != 0; x &= x - 1 {
		n++
	}
	return n
}

// famCVectors enumerates the presence-mask vectors (one mask per pool series) of family C.
//
//	mirror: every pair (a,b) of group subsets, not both empty: m0{a=x} and m1{b=w} (the two-field series) are present in
//	        the groups a, m0{a=y,b=z} and m1{a=x,b=z} (the one-field series) in the groups b – both measurements carry the
//	        same pattern, m0 with a shared float field and m1 with a shared integer field; and, where a∪b leaves a group
//	        unwritten that lies before a written one, additionally m0 with (a,b) and m1{a=x,b=z} alone in EVERY group
//	        (all shards exist; the groups skipped by m0 do not know the measurement m0).
//	wide:   mirror ∪ every vector in which m0{a=y,b=z} or m1{b=w} is absent everywhere (this contains every pair of
//	        subsets for the two series of one measurement with 0 or 1 series of the other measurement in any subset).
func famCVectors(groups int, wide bool) [][]int {
	all := 1<<groups - 1
	seen := map[[4]int]bool{}
	var out [][]int
	add := func(v [4]int) {
		if v == [4]int{} || seen[v] {
			return
		}
		seen[v] = true
		out = append(out, []int{v[0], v[1], v[2], v[3]})
	}
	for a := 0; a <= all; a++ {
		for b := 0; b <= all; b++ {
			add([4]int{a, b, b, a})
			if unwrittenBeforeWritten(a | b) {
				add([4]int{a, b, all, 0})
			}
		}
	}
	if wide {
		for x := 0; x < 1<<(4*groups); x++ {
			v := [4]int{x & all, x >> groups & all, x >> (2 * groups) & all, x >> (3 * groups) & all}
			if v[1] == 0 || v[3] == 0 {
				add(v)
			}
		}
	}
	// simplest first: by the number of (series, group) presences, then by vector
	sort.SliceStable(out, func(i, j int) bool {
		pi, pj := 0, 0
		for k := 0; k < 4; k++ {
			pi += popcount(out[i][k])
			pj += popcount(out[j][k])
		}
		if pi != pj {
			return pi < pj
		}
		for k := 0; k < 4; k++ {
			if out[i][k] != out[j][k] {
				return out[i][k] < out[j][k]
			}
		}
		return false
	})
	return out
}

func datasetsC(thorough bool) []Dataset {
	var out []Dataset
	mk := func(groups int, wide bool, modes ...string) {
		for _, v := range famCVectors(groups, wide) {
			for _, mode := range modes {
				out = append(out, Dataset{Fam: "C", Cells: famCCells(v, groups), Mode: mode, Groups: groups})
			}
		}
	}
	if !thorough {
		mk(3, false, "mixed")
		return out
	}
	mk(3, true, "mixed")
	mk(3, false, "cache", "tsm2", "overwrite")
	mk(4, false, "mixed")
	return out
}

// interleave merges two dataset lists in alternating blocks of n (n = the number of workers, so that every worker
// meets both lists in their own order and a wall-budget cap cuts the tails of both rather than one list entirely).
func interleave(n int, lists ...[]Dataset) []Dataset {
	var out []Dataset
	for more := true; more; {
		more = false
		for i := range lists {
			k := min(n, len(lists[i]))
			out, lists[i] = append(out, lists[i][:k]...), lists[i][k:]
			more = more || len(lists[i]) > 0
		}
	}
	return out
}

// ---------------------------------------------------------------------------------------------------------
// family V ("field values"): G = 3 shard groups with the slot geometry and the field layout of family C; a dataset is a
// presence vector (which series is written in which group) × a value mask over the 2G slots (see valueV): EVERY
// assignment of low/high to the slots, so the value condition `_value > 80` / `_value < 80` holds for none / some / all
// points of a shard, differently per shard and (complementary patterns) per series of a measurement.
//
//	full       every pool series in every group
//	staggered  m0{a=x}: groups 0,1   m0{a=y,b=z}: groups 1,2   m1{a=x,b=z}: groups 0,1,2   m1{b=w}: groups 0,2
func datasetsV(thorough bool) []Dataset {
	const groups = 3
	full, staggered := []int{0b111, 0b111, 0b111, 0b111}, []int{0b011, 0b110, 0b111, 0b101}
	var out []Dataset
	mk := func(pres []int, modes ...string) {
		for vm := 0; vm < 1<<(2*groups); vm++ {
			for _, mode := range modes {
				out = append(out, Dataset{Fam: "V", Cells: famCCells(pres, groups), Mode: mode, Groups: groups, VMask: vm})
			}
		}
	}
	if !thorough {
		mk(full, "mixed")
		return out
	}
	mk(full, "mixed", "overwrite")
	mk(staggered, "mixed", "overwrite")
	mk(full, "cache", "tsm2")
	return out
}

// requestsV is the request family of a family-V dataset: ranges over the cut points MinInt64, one cut inside every
// group, MaxInt64 × value predicates: the value comparison alone,
// tag OR value, tag AND value (both operand orders), two nested shapes; thorough: every tag atom × every value atom.
func requestsV(thorough bool, groups int) []Req {
	cutSet := map[int64]bool{math.MinInt64: true, math.MaxInt64: true}
	for g := 0; g < groups; g++ {
		cutSet[slotC(2*g)+1] = true
	}
	var c []int64
	for x := range cutSet {
		c = append(c, x)
	}
	sort.Slice(c, func(i, j int) bool { return c[i] < c[j] })
	va, vb := vcmp("vgt", vThreshold), vcmp("vlt", vThreshold)
	fp := []*P{va, vb,
		or(eq("a", "x"), va), or(eq("b", "z"), va), or(eq("a", "y"), vb), or(vb, eq("a", "x")),
		or(eq("_field", "f0"), va), or(eq("_measurement", "m1"), vb),
		and(eq("a", "x"), va), and(eq("_field", "f1"), vb), and(va, eq("b", "z")),
		or(and(eq("a", "x"), va), eq("b", "w")), and(or(eq("a", "y"), va), eq("_measurement", "m0"))}
	if thorough {
		atoms := []*P{eq("a", "x"), eq("a", "y"), eq("b", "z"), eq("b", "w"), eq("_measurement", "m0"), eq("_measurement", "m1"),
			eq("_field", "f0"), eq("_field", "f1"), ne("a", "x")}
		// 100.5 is the value of m0{a=x}#f0 at slot 0 when high, 110 the value of m0{a=y,b=z}… / any f1 of series 1 at slot 0
		// when high: = and != have points on both sides; integer literals are compared with float and integer fields alike
		vals := []*P{va, vb, vcmp("vge", vThreshold), vcmp("vle", vThreshold), vcmp("veq", 100.5), vcmp("vne", 100.5),
			vcmpInt("veq", 110), vcmpInt("vgt", vThreshold)}
		fp = append(fp, vals[2:]...)
		for _, a := range atoms {
			for _, v := range vals {
				fp = append(fp, or(a, v), and(a, v))
			}
		}
	}
	var out []Req
	for i := range c {
		for j := i + 1; j < len(c); j++ {
			for _, p := range fp {
				out = append(out, Req{Kind: "filter", Start: c[i], End: c[j], Pred: p})
			}
		}
	}
	inFirst, inLast := slotC(0)+1, slotC(2*groups-2)+1
	gr := []rng{{math.MinInt64, math.MaxInt64}, {inFirst, inLast}}
	type gk struct {
		mode string
		keys []string
	}
	gks := []gk{{"by", []string{"a"}}, {"none", []string{}}}
	aggs := []string{"", "count", "sum", "last"}
	gp := []*P{va, or(eq("a", "y"), vb), and(eq("b", "z"), va)}
	if thorough {
		gks = append(gks, gk{"by", []string{"_measurement", "_field"}})
		aggs = allAggs
		gp = append(gp, vb, or(eq("b", "z"), va), or(eq("_field", "f0"), vb), and(eq("a", "x"), vb))
	}
	for _, agg := range aggs {
		for _, g := range gks {
			for _, r := range gr {
				for _, p := range gp {
					out = append(out, Req{Kind: "group", Start: r.s, End: r.e, Pred: p, GMode: g.mode, Keys: g.keys, Agg: agg})
				}
			}
		}
	}
	return out
}

// valueCut (family V, outcome class) describes, from the model only, what the value part of the predicate does to the
// series the request must return: none = every in-range point of every such series is accepted; some-points = some are
// rejected; whole-shard = some series has a shard group whose in-range points are ALL rejected although the series has
// accepted points in another group (the read meets a fully filtered shard); no-series = nothing must be returned.
func valueCut(md *model, r Req) string {
	out, rank := "no-series", map[string]int{"no-series": 0, "none": 1, "some-points": 2, "whole-shard": 3}
	for _, k := range md.keys {
		mc := md.cells[k]
		inr, must, _ := splitV(mc, r)
		if len(must) == 0 {
			continue
		}
		cl := "none"
		if len(must) < len(inr) {
			cl = "some-points"
			hasIn, hasMust := map[int]bool{}, map[int]bool{}
			for _, p := range inr {
				hasIn[groupOf(p.T)] = true
			}
			for _, p := range must {
				hasMust[groupOf(p.T)] = true
			}
			if len(hasMust) < len(hasIn) {
				cl = "whole-shard"
			}
		}
		if rank[cl] > rank[out] {
			out = cl
		}
	}
	return out
}

// requestsC is the request family of a family-C dataset with the given number of shard groups. Cut points: MinInt64,
// one cut INSIDE every group (just after its first slot, so the range starts/ends between the two points of the group),
// MaxInt64; thorough adds every group boundary and the last nanosecond of every group. ReadFilter: every range [s,e)
// over the cut points × predicates. ReadGroup: key lists × every aggregate setting × ranges (full, cutting inside the
// first and the last group, ...) × predicates.
func requestsC(thorough bool, groups int) []Req {
	cutSet := map[int64]bool{math.MinInt64: true, math.MaxInt64: true}
	for g := 0; g < groups; g++ {
		cutSet[slotC(2*g)+1] = true
		if thorough {
			if g > 0 {
				cutSet[slotC(2*g)] = true
			}
			cutSet[slotC(2*g+1)] = true
		}
	}
	var c []int64
	for x := range cutSet {
		c = append(c, x)
	}
	sort.Slice(c, func(i, j int) bool { return c[i] < c[j] })
	fp := []*P{nil, eq("a", "x"), eq("_field", "f0"), ne("a", "x")}
	if thorough {
		fp = append(fp, eq("_field", "f1"))
	}
	var out []Req
	for i := range c {
		for j := i + 1; j < len(c); j++ {
			for _, p := range fp {
				out = append(out, Req{Kind: "filter", Start: c[i], End: c[j], Pred: p})
			}
		}
	}
	inFirst, inLast := slotC(0)+1, slotC(2*groups-2)+1
	gr := []rng{{math.MinInt64, math.MaxInt64}, {inFirst, inLast}, {inFirst, math.MaxInt64}}
	type gk struct {
		mode string
		keys []string
	}
	gks := []gk{{"by", []string{"a"}}, {"by", []string{"_measurement", "_field"}}, {"none", []string{}}}
	if thorough {
		gr = append(gr, rng{math.MinInt64, inLast}, rng{slotC(2) + 1, math.MaxInt64})
		gks = append(gks, gk{"by", []string{}})
	}
	for _, agg := range allAggs {
		ps := []*P{nil}
		if thorough && agg == "" {
			ps = append(ps, eq("a", "x"))
		}
		for _, g := range gks {
			for _, r := range gr {
				for _, p := range ps {
					out = append(out, Req{Kind: "group", Start: r.s, End: r.e, Pred: p, GMode: g.mode, Keys: g.keys, Agg: agg})
				}
			}
		}
	}
	return out
}

// ---------------------------------------------------------------------------------------------------------
// reference model

type mcell struct {
	key   string
	tags  map[string]string // incl. _measurement and _field
	field int
	pts   []mini.Pt // ascending
}

type model struct {
	cells    map[string]*mcell
	keys     []string                   // sorted cell keys
	seriesOf map[string]bool            // "m|tags" of every stored series
	fieldsOf map[string]map[string]bool // measurement -> fields stored for it (any series)
}

func cellKey(tags map[string]string) string {
	var ks []string
	for k := range tags {
		if k != "_measurement" && k != "_field" {
			ks = append(ks, k)
		}
	}
	sort.Strings(ks)
	var sb strings.Builder
	sb.WriteString(tags["_measurement"])
	for _, k := range ks {
		sb.WriteString("," + k + "=" + tags[k])
	}
	return sb.String() + "#" + tags["_field"]
}

func seriesKey(tags map[string]string) string {
	k := cellKey(tags)
	return k[:strings.LastIndexByte(k, '#')]
}

func buildModel(ds Dataset) *model {
	m := &model{cells: map[string]*mcell{}, seriesOf: map[string]bool{}, fieldsOf: map[string]map[string]bool{}}
	for _, c := range ds.Cells {
		sd := pool[c.S]
		tags := map[string]string{"_measurement": sd.M, "_field": fieldNames[c.F]}
		for _, t := range sd.Tags {
			tags[t.K] = t.V
		}
		mc := &mcell{key: cellKey(tags), tags: tags, field: c.F}
		for k, t := range ds.slots() {
			if c.Mask>>k&1 == 1 {
				mc.pts = append(mc.pts, mini.Pt{T: t, V: ds.val(c.S, c.F, k, false)})
			}
		}
		if len(mc.pts) == 0 {
			continue
		}
		m.cells[mc.key] = mc
		m.keys = append(m.keys, mc.key)
		m.seriesOf[seriesKey(tags)] = true
		if m.fieldsOf[sd.M] == nil {
			m.fieldsOf[sd.M] = map[string]bool{}
		}
		m.fieldsOf[sd.M][fieldNames[c.F]] = true
	}
	sort.Strings(m.keys)
	return m
}

// three-valued predicate evaluation
const (
	no = iota
	either
	yes
)

// match judges a SERIES: field-value comparisons are unknown at this level (either).
func match(p *P, tags map[string]string) int { return evalPt(p, tags, nil) }

// evalPt judges one POINT with field value v (float64 or int64; nil = unknown) of a series with the given tags: the
// predicate is evaluated as a Boolean expression over the series' tags and the point's own value, as the statement's
// "tag/field predicate" and the documented semantics of AND / OR prescribe.
func evalPt(p *P, tags map[string]string, v any) int {
	if p == nil {
		return yes
	}
	if p.isValueAtom() {
		f, ok := num(v)
		if !ok {
			return either
		}
		var b bool
		switch p.Op {
		case "vgt":
			b = f > p.Num
		case "vlt":
			b = f < p.Num
		case "vge":
			b = f >= p.Num
		case "vle":
			b = f <= p.Num
		case "veq":
			b = f == p.Num
		default:
			b = f != p.Num
		}
		if b {
			return yes
		}
		return no
	}
	switch p.Op {
	case "eq":
		v, ok := tags[p.K]
		if ok && v == p.V {
			return yes
		}
		return no // an absent tag never equals a non-empty literal (all literals of the family are non-empty)
	case "ne":
		v, ok := tags[p.K]
		if !ok {
			return either // the statement does not say whether a missing tag "differs" from a value
		}
		if v != p.V {
			return yes
		}
		return no
	case "and":
		return min(evalPt(p.L, tags, v), evalPt(p.R, tags, v))
	default:
		return max(evalPt(p.L, tags, v), evalPt(p.R, tags, v))
	}
}

// splitV (value predicates): of the stored points of a cell in range, must = those the predicate accepts (yes),
// allowed = those it does not reject (yes or either; "either" only arises from `tag != v` on a series lacking the tag).
func splitV(mc *mcell, r Req) (inr, must, allowed []mini.Pt) {
	inr = inRange(mc.pts, r)
	for _, p := range inr {
		switch evalPt(r.Pred, mc.tags, p.V) {
		case yes:
			must = append(must, p)
			allowed = append(allowed, p)
		case either:
			allowed = append(allowed, p)
		}
	}
	return
}

// comparePointsV: got must be strictly ascending stored points of the range with their stored values, none rejected by
// the predicate, and contain every point the predicate accepts.
func comparePointsV(got, inr, must, allowed []mini.Pt) (string, bool) {
	for i := 1; i < len(got); i++ {
		if got[i].T == got[i-1].T {
			return "duplicate-points", false
		}
	}
	for i := 1; i < len(got); i++ {
		if got[i].T < got[i-1].T {
			return "points-out-of-order", false
		}
	}
	st, al, gt := map[int64]any{}, map[int64]bool{}, map[int64]bool{}
	for _, p := range inr {
		st[p.T] = p.V
	}
	for _, p := range allowed {
		al[p.T] = true
	}
	for _, p := range got {
		gt[p.T] = true
		v, ok := st[p.T]
		if !ok {
			return "extra-points", false
		}
		if !sameVal(p.V, v) {
			return "wrong-values", false
		}
	}
	for _, p := range got {
		if !al[p.T] {
			return "nonmatching-points", false
		}
	}
	for _, p := range must {
		if !gt[p.T] {
			return "dropped-points", false
		}
	}
	return "", true
}

// matchedBy (value predicates, signature feature): "tags" if the series satisfies the predicate whatever the value of a
// point is (its tag part alone decides), else "value".
func matchedBy(p *P, tags map[string]string) string {
	if match(p, tags) == yes {
		return "tags"
	}
	return "value"
}

func inRange(pts []mini.Pt, r Req) []mini.Pt {
	var out []mini.Pt
	for _, p := range pts {
		if p.T >= r.Start && p.T < r.End {
			out = append(out, p)
		}
	}
	return out
}

func num(v any) (float64, bool) {
	switch x := v.(type) {
	case float64:
		return x, true
	case int64:
		return float64(x), true
	case uint64:
		return float64(x), true
	}
	return 0, false
}

// aggregate of a non-empty ascending point list; the returned time stamp is only meaningful for first/last.
func aggregate(agg string, field int, pts []mini.Pt) mini.Pt {
	switch agg {
	case "count":
		return mini.Pt{V: int64(len(pts))}
	case "first":
		return pts[0]
	case "last":
		return pts[len(pts)-1]
	}
	var sum float64
	mn, mx := math.Inf(1), math.Inf(-1)
	for _, p := range pts {
		f, _ := num(p.V)
		sum += f
		mn, mx = math.Min(mn, f), math.Max(mx, f)
	}
	conv := func(f float64) any {
		if field == 1 {
			return int64(f)
		}
		return f
	}
	switch agg {
	case "sum":
		return mini.Pt{V: conv(sum)}
	case "min":
		return mini.Pt{V: conv(mn)}
	case "max":
		return mini.Pt{V: conv(mx)}
	default: // mean
		return mini.Pt{V: sum / float64(len(pts))}
	}
}

// ---------------------------------------------------------------------------------------------------------
// oracle

type problem struct {
	clause string // short class name (goes into the signature)
	detail string
	feat   string // value-predicate family only: extra signature feature ("series-matches-by=tags|value")
}

func tagMap(ts []mini.Tag) map[string]string {
	m := map[string]string{}
	for _, t := range ts {
		m[t.K] = t.V
	}
	return m
}

func sameVal(a, b any) bool {
	switch x := a.(type) {
	case float64:
		y, ok := b.(float64)
		return ok && x == y
	case int64:
		y, ok := b.(int64)
		return ok && x == y
	}
	return false
}

func fmtPts(p []mini.Pt) string {
	var sb strings.Builder
	sb.WriteByte('[')
	for i, x := range p {
		if i > 0 {
			sb.WriteByte(' ')
		}
		fmt.Fprintf(&sb, "%s:%v(%T)", relT(x.T), x.V, x.V)
	}
	sb.WriteByte(']')
	return sb.String()
}

func comparePoints(got, want []mini.Pt) (string, bool) {
	if len(got) == len(want) {
		same := true
		for i := range got {
			if got[i].T != want[i].T || !sameVal(got[i].V, want[i].V) {
				same = false
			}
		}
		if same {
			return "", true
		}
	}
	for i := 1; i < len(got); i++ {
		if got[i].T == got[i-1].T {
			return "duplicate-points", false
		}
	}
	for i := 1; i < len(got); i++ {
		if got[i].T < got[i-1].T {
			return "points-out-of-order", false
		}
	}
	wt := map[int64]any{}
	for _, p := range want {
		wt[p.T] = p.V
	}
	for _, p := range got {
		if _, ok := wt[p.T]; !ok {
			return "extra-points", false
		}
	}
	if len(got) < len(want) {
		return "dropped-points", false
	}
	return "wrong-values", false
}

// checkSeries judges a flat list of returned series against the model.
func checkSeries(list []mini.Series, md *model, r Req) (probs []problem, nonEmpty int) {
	seen := map[string]int{}
	for _, s := range list {
		tags := tagMap(s.Tags)
		key := cellKey(tags)
		if len(tags) != len(s.Tags) {
			probs = append(probs, problem{clause: "malformed-tags", detail: fmt.Sprintf("series %v repeats a tag key", s.Tags)})
			continue
		}
		mt := match(r.Pred, tags)
		if len(s.Points) == 0 {
			// an index series without points in range: tolerated if it is a stored series × a stored field of its
			// measurement and is not excluded by the predicate
			if !md.seriesOf[seriesKey(tags)] || !md.fieldsOf[tags["_measurement"]][tags["_field"]] {
				probs = append(probs, problem{clause: "unknown-series-empty", detail: fmt.Sprintf("returned series %s was never written", key)})
			} else if mt == no {
				probs = append(probs, problem{clause: "nonmatching-series-empty", detail: fmt.Sprintf("returned series %s (no points) does not match %s", key, r.Pred)})
			}
			continue
		}
		nonEmpty++
		mc := md.cells[key]
		if mc == nil {
			probs = append(probs, problem{clause: "unknown-series", detail: fmt.Sprintf("returned series %s with points %s was never written", key, fmtPts(s.Points))})
			continue
		}
		if mt == no {
			probs = append(probs, problem{clause: "nonmatching-series", detail: fmt.Sprintf("returned series %s does not match %s", key, r.Pred)})
			continue
		}
		seen[key]++
		if seen[key] > 1 {
			probs = append(probs, problem{clause: "duplicate-series", detail: fmt.Sprintf("series %s returned %d times with points", key, seen[key])})
			continue
		}
		want := inRange(mc.pts, r)
		if len(want) == 0 {
			probs = append(probs, problem{clause: "points-outside-range", detail: fmt.Sprintf("series %s has no stored point in range but %s was returned", key, fmtPts(s.Points))})
			continue
		}
		by := ""
		if r.Pred.hasValue() {
			inr, must, allowed := splitV(mc, r)
			by = "series-matches-by=" + matchedBy(r.Pred, tags)
			if r.Agg == "" {
				if cl, ok := comparePointsV(s.Points, inr, must, allowed); !ok {
					probs = append(probs, problem{cl, fmt.Sprintf("series %s: got %s; stored in range %s, of which %s satisfy %s", key, fmtPts(s.Points), fmtPts(inr), fmtPts(must), r.Pred), by})
				}
				continue
			}
			if len(must) != len(allowed) {
				continue // `tag != v` on a series lacking the tag: the aggregate's input is not determined by the statement
			}
			if len(must) == 0 {
				probs = append(probs, problem{clause: "nonmatching-points", detail: fmt.Sprintf("series %s: no stored point in range satisfies %s but %s returned %s", key, r.Pred, r.Agg, fmtPts(s.Points)), feat: by})
				continue
			}
			want = must
		}
		if r.Agg == "" {
			if cl, ok := comparePoints(s.Points, want); !ok {
				probs = append(probs, problem{clause: cl, detail: fmt.Sprintf("series %s: got %s want %s", key, fmtPts(s.Points), fmtPts(want))})
			}
			continue
		}
		wa := aggregate(r.Agg, mc.field, want)
		if len(s.Points) != 1 {
			probs = append(probs, problem{clause: "aggregate-cardinality", detail: fmt.Sprintf("series %s: %s returned %s, want one value %v", key, r.Agg, fmtPts(s.Points), wa.V), feat: by})
			continue
		}
		g := s.Points[0]
		ok := sameVal(g.V, wa.V)
		if r.Agg == "mean" {
			gf, isf := g.V.(float64)
			wf := wa.V.(float64)
			ok = isf && math.Abs(gf-wf) <= 1e-9*math.Max(1, math.Abs(wf))
		}
		if !ok {
			probs = append(probs, problem{clause: "aggregate-value", detail: fmt.Sprintf("series %s: %s over %s returned %v(%T), want %v(%T)", key, r.Agg, fmtPts(want), g.V, g.V, wa.V, wa.V), feat: by})
		}
	}
	for _, key := range md.keys {
		mc := md.cells[key]
		if r.Pred.hasValue() {
			if _, must, _ := splitV(mc, r); len(must) > 0 && seen[key] == 0 {
				probs = append(probs, problem{clause: "missing-series", detail: fmt.Sprintf("series %s has %s in range satisfying %s but was not returned with points", key, fmtPts(must), r.Pred), feat: "series-matches-by=" + matchedBy(r.Pred, mc.tags)})
			}
			continue
		}
		if match(r.Pred, mc.tags) == yes && len(inRange(mc.pts, r)) > 0 && seen[key] == 0 {
			probs = append(probs, problem{clause: "missing-series", detail: fmt.Sprintf("series %s matches %s and has %s in range but was not returned with points", key, r.Pred, fmtPts(inRange(mc.pts, r)))})
		}
	}
	return
}

func tupleLess(a, b []string, ah, bh []bool, nilHi bool) int {
	for i := range a {
		switch {
		case ah[i] && bh[i]:
			if a[i] != b[i] {
				if a[i] < b[i] {
					return -1
				}
				return 1
			}
		case !ah[i] && !bh[i]:
		case !ah[i]: // a is nil
			if nilHi {
				return 1
			}
			return -1
		default:
			if nilHi {
				return -1
			}
			return 1
		}
	}
	return 0
}

func checkGroups(gs []mini.Group, md *model, r Req) (probs []problem, nonEmpty int) {
	var flat []mini.Series
	for _, g := range gs {
		flat = append(flat, g.Series...)
	}
	probs, nonEmpty = checkSeries(flat, md, r)
	if r.GMode == "none" {
		if len(gs) > 1 {
			probs = append(probs, problem{clause: "group-none-several-groups", detail: fmt.Sprintf("group mode none returned %d groups", len(gs))})
		}
		return
	}
	for gi, g := range gs {
		if len(g.PartitionVals) != len(r.Keys) {
			probs = append(probs, problem{clause: "partition-key-arity", detail: fmt.Sprintf("group %d has %d partition values for keys %v", gi, len(g.PartitionVals), r.Keys)})
			return
		}
		// a missing value may be reported as nil or as ""
		for i := range g.HasVal {
			if g.PartitionVals[i] == "" {
				g.HasVal[i] = false
			}
		}
		for _, s := range g.Series {
			tags := tagMap(s.Tags)
			for i, k := range r.Keys {
				v, ok := tags[k]
				if ok != g.HasVal[i] || v != g.PartitionVals[i] {
					probs = append(probs, problem{clause: "series-in-wrong-group", detail: fmt.Sprintf("series %s is in the group with %s=%q(present=%v)", cellKey(tags), k, g.PartitionVals[i], g.HasVal[i])})
				}
			}
		}
	}
	for _, nilHi := range []bool{true, false} {
		ok := true
		for i := 1; i < len(gs); i++ {
			if tupleLess(gs[i-1].PartitionVals, gs[i].PartitionVals, gs[i-1].HasVal, gs[i].HasVal, nilHi) >= 0 {
				ok = false
			}
		}
		if ok {
			return
		}
	}
	var ord []string
	dup := false
	for i, g := range gs {
		ord = append(ord, fmt.Sprintf("%q%v", g.PartitionVals, g.HasVal))
		for j := 0; j < i; j++ {
			if tupleLess(gs[j].PartitionVals, g.PartitionVals, gs[j].HasVal, g.HasVal, true) == 0 {
				dup = true
			}
		}
	}
	if dup {
		probs = append(probs, problem{clause: "group-key-repeated", detail: fmt.Sprintf("two groups share a partition key (series with equal group key are not in one group): %v", ord)})
	} else {
		probs = append(probs, problem{clause: "groups-out-of-order", detail: fmt.Sprintf("groups are not in ascending partition-key order for keys %v: %v", r.Keys, ord)})
	}
	return
}

// ---------------------------------------------------------------------------------------------------------
// execution

func load(ds Dataset) (*mini.Fixture, mini.Bucket, error) {
	f, err := mini.Open(mini.Options{})
	if err != nil {
		return nil, mini.Bucket{}, err
	}
	b, err := f.CreateBucket("db0", 0)
	if err != nil {
		f.Close()
		return nil, b, err
	}
	slotTimes := ds.slots()
	batch := func(slots func(k int) bool, old bool) []mini.Point {
		var pts []mini.Point
		for s := range pool {
			for k := range slotTimes {
				if !slots(k) {
					continue
				}
				fields := map[string]any{}
				for _, c := range ds.Cells {
					if c.S == s && c.Mask>>k&1 == 1 {
						fields[fieldNames[c.F]] = ds.val(c.S, c.F, k, old)
					}
				}
				if len(fields) > 0 {
					pts = append(pts, mini.Point{M: pool[s].M, Tags: pool[s].Tags, Fields: fields, T: slotTimes[k]})
				}
			}
		}
		return pts
	}
	all := func(int) bool { return true }
	even := func(k int) bool { return k%2 == 0 }
	odd := func(k int) bool { return k%2 == 1 }
	type step struct {
		pts  []mini.Point
		snap bool
	}
	var steps []step
	switch ds.Mode {
	case "cache":
		steps = []step{{batch(all, false), false}}
	case "tsm":
		steps = []step{{batch(all, false), true}}
	case "mixed":
		steps = []step{{batch(even, false), true}, {batch(odd, false), false}}
	case "tsm2":
		steps = []step{{batch(even, false), true}, {batch(odd, false), true}}
	case "overwrite":
		steps = []step{{batch(all, true), true}, {batch(all, false), false}}
	default:
		f.Close()
		return nil, b, fmt.Errorf("unknown mode %q", ds.Mode)
	}
	for _, st := range steps {
		if len(st.pts) > 0 {
			if err := f.Write(b, st.pts); err != nil {
				f.Close()
				return nil, b, fmt.Errorf("write: %w", err)
			}
		}
		if st.snap {
			if err := f.SnapshotAll(); err != nil {
				f.Close()
				return nil, b, fmt.Errorf("snapshot: %w", err)
			}
		}
	}
	return f, b, nil
}

type verdict struct {
	probs    []problem
	nonEmpty int
	nGroups  int
	emptySer int
	raw      string // JSON of what was returned
	panicked string
	err      error
}

func run(f *mini.Fixture, b mini.Bucket, md *model, r Req, wantRaw bool) (v verdict) {
	p, d := vlib.Guard(func() {
		if r.Kind == "filter" {
			ss, err := f.ReadFilter(b, r.Start, r.End, r.Pred.node())
			if err != nil {
				v.err = err
				return
			}
			v.probs, v.nonEmpty = checkSeries(ss, md, r)
			v.emptySer = len(ss) - v.nonEmpty
			if wantRaw {
				j, _ := json.Marshal(ss)
				v.raw = string(j)
			}
			return
		}
		mode := mini.GroupBy
		if r.GMode == "none" {
			mode = mini.GroupNone
		}
		gs, err := f.ReadGroup(b, r.Start, r.End, r.Pred.node(), mode, r.Keys, aggPB[r.Agg])
		if err != nil {
			v.err = err
			return
		}
		v.probs, v.nonEmpty = checkGroups(gs, md, r)
		v.nGroups = len(gs)
		for _, g := range gs {
			v.emptySer += len(g.Series)
		}
		v.emptySer -= v.nonEmpty
		if wantRaw {
			j, _ := json.Marshal(gs)
			v.raw = string(j)
		}
	})
	if p {
		v.panicked = d
	}
	return
}

// nShards is the number of the dataset's shard groups [B+g·1h, B+(g+1)·1h) that intersect the request's range.
func nShards(ds Dataset, r Req) int {
	n := 0
	for g := 0; g < ds.ngroups(); g++ {
		lo := mini.Base + int64(g)*H
		if r.Start < lo+H && r.End > lo {
			n++
		}
	}
	return n
}

// sigOf: hole is "" for families A and B (their signatures are unchanged) and the hole flavour for family C.
func sigOf(ds Dataset, r Req, clause, hole string) string {
	api := "ReadFilter"
	if r.Kind == "group" {
		api = "ReadGroup-" + r.GMode
		if r.Agg != "" {
			api += "-agg"
		}
	}
	parts := []string{api, clause, "pred=" + r.Pred.kind(), fmt.Sprintf("shards-in-range=%d", nShards(ds, r))}
	if hole != "" {
		parts = append(parts, "hole="+hole)
	}
	return vlib.JoinSig(parts...)
}

// sigV is the signature of a family-V (field-value predicate) violation.
func sigV(r Req, clause, feat string) string {
	api := "ReadFilter"
	if r.Kind == "group" {
		api = "ReadGroup-" + r.GMode
		if r.Agg != "" {
			api += "-agg"
		}
	}
	parts := []string{api, clause, "pred=" + r.Pred.kind()}
	if feat != "" {
		parts = append(parts, feat)
	}
	return vlib.JoinSig(parts...)
}

func sigOfFam(ds Dataset, r Req, clause, hole string) string {
	if ds.Fam == "V" {
		return sigV(r, clause, "")
	}
	return sigOf(ds, r, clause, hole)
}

// holeInfo (family C) describes the expected result of a request in terms of shard groups, from the model only:
// span = the largest number of shard groups between (and including) the first and the last in-range point of a series
// not excluded by the predicate; hole = the strongest flavour of a "skipped" shard group of such a series: a group that intersects the
// range, lies before the group of the series' last in-range point, and holds no in-range point of the series (the read
// has to step over that shard to reach the later points):
//
//	none                no expected series skips a shard group
//	no-shard            nothing at all was written into the skipped group (the shard does not exist)
//	shard-without-field something was written there, but not this field of this measurement (the shard's cursor is nil)
//	empty-cursor        another series of the same measurement wrote this field there (non-nil, immediately empty cursor)
var holeRank = map[string]int{"none": 0, "no-shard": 1, "shard-without-field": 2, "empty-cursor": 3}

func groupOf(t int64) int { return int((t - mini.Base) / H) }

func holeInfo(md *model, r Req) (span int, hole string) {
	hole = "none"
	for _, k := range md.keys {
		mc := md.cells[k]
		if match(r.Pred, mc.tags) == no { // "either" (tag != v on a series lacking the tag): judged if returned
			continue
		}
		w := inRange(mc.pts, r)
		if len(w) == 0 {
			continue
		}
		has := map[int]bool{}
		for _, p := range w {
			has[groupOf(p.T)] = true
		}
		first, last := groupOf(w[0].T), groupOf(w[len(w)-1].T)
		span = max(span, last-first+1)
		for g := 0; g < last; g++ {
			if has[g] || r.Start >= mini.Base+int64(g+1)*H { // group g lies before the range
				continue
			}
			fl := "no-shard"
			for _, ok := range md.keys {
				oc := md.cells[ok]
				in := false
				for _, p := range oc.pts {
					if groupOf(p.T) == g {
						in = true
					}
				}
				if !in {
					continue
				}
				if oc.tags["_measurement"] == mc.tags["_measurement"] && oc.tags["_field"] == mc.tags["_field"] {
					fl = "empty-cursor"
				} else if fl == "no-shard" {
					fl = "shard-without-field"
				}
			}
			if holeRank[fl] > holeRank[hole] {
				hole = fl
			}
		}
	}
	return
}

func expectNonEmpty(md *model, r Req) (n int, straddle bool) {
	for _, k := range md.keys {
		mc := md.cells[k]
		if r.Pred.hasValue() {
			if _, w, _ := splitV(mc, r); len(w) > 0 {
				n++
				straddle = straddle || (w[0].T < mini.Base+H && w[len(w)-1].T >= mini.Base+H)
			}
			continue
		}
		if match(r.Pred, mc.tags) == yes {
			w := inRange(mc.pts, r)
			if len(w) > 0 {
				n++
				if w[0].T < mini.Base+H && w[len(w)-1].T >= mini.Base+H {
					straddle = true
				}
			}
		}
	}
	return
}

func TestCheck(t *testing.T) {
	vlib.Main(t, &vlib.Check{
		ID: "C21", Level: "exploration",
		Rule: "datasets × requests, complete product within the bounds. Series pool: m0{a=x}, m0{a=y,b=z}, m1{a=x,b=z}, m1{b=w}; fields f0(float), f1(integer); 4 time slots B+10, B+1h-1 | B+1h, B+1h+10 in two 1h shard groups (slots 1,2 adjacent across the boundary); unique value per point; storage layouts cache / tsm / mixed (even slots in TSM, odd in cache) / tsm2 (two TSM files) / overwrite (old values in TSM, final values in cache). " +
			"Family A (slot masks): series m0{a=x} and m0{a=y,b=z}, field f0, every slot mask (quick: 16 masks × fixed {1,2}, layout tsm = 16 datasets; thorough: 16×16-1 mask pairs × 5 layouts = 1275 datasets). Family B (series sets): every pool series absent / shard A only / shard B only / both, field layout fixed per series (m0{a=x}: f0+f1; m0{a=y,b=z}: f0 in shard A, f1 in shard B; m1{a=x,b=z}: f0; m1{b=w}: f1) (quick: first 3 series, 63 sets × layouts mixed,overwrite = 126 datasets; thorough: 255 sets × 5 layouts = 1275 datasets). " +
			"Requests per family-B dataset: ReadFilter for every range [s,e) over the cut points (quick: MinInt64,t0+1,t1,t2,t2+1,t3+1 → 15 ranges; thorough: every slot±1 + MinInt64/MaxInt64 = 12 cuts → 66 ranges + 3 empty ranges) × every predicate (quick 10; thorough 33: none, a=x, a!=x, a=y, b=z, b!=z, a=q, _measurement =/!=, _field =/!=, AND and OR of every pair of the atoms a=x, b=z, _measurement=m0, _field=f0, a!=x); " +
			"ReadGroup without aggregate for group-by over key lists (quick 9; thorough: all 16 subsets of {_measurement,a,b,_field}, each also in reversed order, + [nokey], [a,nokey] = 29) and group none, × ranges (quick 3; thorough 8) × predicates (quick 2; thorough 4); ReadGroup with each aggregate of {count,sum,min,max,first,last,mean} for group-by key lists (quick [a],[_measurement,_field]; thorough: the subsets of size ≤1 and 4 + unknown key) and group none × ranges (quick 3; thorough 4) × predicates (2). " +
			"Family-A datasets get every range × predicates {none, a=x, _field=f0, a!=x} and group-by [a], group-by [], group none × all 8 aggregate settings × the group ranges. quick = 336 / 132 requests per B / A dataset, thorough = 3773 / 468. " +
			"Family C (shard-group presence patterns): G 1h shard groups (quick 3; thorough 3 and 4), two slots per group (first and last nanosecond of the group: adjacent nanoseconds across every boundary); a dataset assigns every pool series a subset of the G groups in which it is present (both slots), field layout fixed per series (m0{a=x}: f0+f1; m0{a=y,b=z}: f0; m1{a=x,b=z}: f1; m1{b=w}: f0+f1), so a group skipped by a series is, for that series, a missing shard (nobody wrote there) / a shard that does not know the field or the measurement (nil cursor) / a shard that knows the field through the other series of the measurement (non-nil, immediately empty cursor; float in m0, integer in m1); this includes present-absent-present, absent-present-absent, absent-absent-present, … for every series. " +
			"'mirror' = every pair (a,b) of group subsets, not both empty: the two-field series m0{a=x}, m1{b=w} present in a, the one-field series m0{a=y,b=z}, m1{a=x,b=z} present in b ((2^G)^2-1 vectors), plus, where a∪b leaves a group unwritten before a written one, m0 with (a,b) and m1{a=x,b=z} alone in every group (24 / 135 vectors for G = 3 / 4); 'wide' = mirror ∪ every vector of four subsets in which m0{a=y,b=z} or m1{b=w} is absent everywhere. quick: mirror over 3 groups, layout mixed = 87 datasets; thorough: wide over 3 groups, layout mixed (1008) + mirror over 3 groups × layouts cache,tsm2,overwrite (261) + mirror over 4 groups, layout mixed (390) = 1659 datasets. " +
			"Requests per family-C dataset: cut points MinInt64, one cut inside every group (first slot+1, i.e. between the two points of the group), MaxInt64 (thorough: + every group boundary + the last nanosecond of every group); ReadFilter for every range [s,e) over the cuts (quick 10; thorough 45 / 78 for 3 / 4 groups) × predicates {none, a=x, _field=f0, a!=x} (thorough + _field=f1); ReadGroup for group-by [a], group-by [_measurement,_field], group none (thorough + group-by []) × all 8 aggregate settings × ranges {full, inside first group → inside last group, inside first group → MaxInt64} (thorough + 2) × predicate none (thorough: + a=x without aggregate). quick = 112 requests per C dataset, thorough = 405 / 570 (3 / 4 groups). The read API has no order parameter: all reads iterate the shards in ascending time order, except ReadGroup with aggregate last, which the store serves with descending cursors (shards in reverse order; the skipped-shard patterns are thereby also met from the other side). " +
			"Family V (field values): 3 shard groups, slot geometry and field layout of family C; every point is low (s*10+k, +0.5 for the float field: 0…37.5) or high (+100); a dataset = presence vector × value mask over the 6 slots (bit k: slot k is high for the even pool series and low for the odd ones) — ALL 64 masks, so `_value > 80` / `_value < 80` holds for none/some/all points of each shard independently; quick: every series in every group, layout mixed = 64 datasets; thorough: presence {full, staggered (m0{a=x}: groups 0,1; m0{a=y,b=z}: 1,2; m1{a=x,b=z}: 0,1,2; m1{b=w}: 0,2)} × layouts mixed, overwrite (old value of the opposite class) + full × cache, tsm2 = 384 datasets. " +
			"Requests per V dataset: ReadFilter for every range over the cuts MinInt64, inside each group, MaxInt64 (10) × value predicates (quick 13: _value>80, _value<80, tag OR value ×6 incl. swapped operands and _field/_measurement atoms, tag AND value ×3, (a=x AND v) OR b=w, (a=y OR v) AND _measurement=m0; thorough 163: every atom of {a=x,a=y,b=z,b=w,_measurement=m0/m1,_field=f0/f1,a!=x} AND/OR every value atom of {>80,<80,>=80,<=80,=100.5,!=100.5,=110 (integer literal),>80 (integer literal)}); ReadGroup group-by [a], group none (thorough + [_measurement,_field]) × aggregates {none,count,sum,last} (thorough all 8) × 2 ranges × 3 (thorough 7) value predicates. Reference: a point is returned iff the predicate evaluated over (tags of its series, its own value) is true; aggregates over exactly those points. " +
			"Visiting order: family A, then families B, C and V in alternating blocks of 16 datasets, each family simplest-first. " +
			"Oracle: reference model of the written points (see file header). non-trivial = requests for which the model expects ≥1 series with points (distinct by construction).",
		Assumptions: []string{
			"series returned with an empty/nil cursor are not judged (except that they must be stored series that are not excluded by the predicate)",
			"`tag != v` on a series lacking the tag is three-valued: the series may or may not be returned",
			"order of series inside a filter result / inside a group is not judged (the statement orders points and groups only); a missing group-key value may sort first or last, consistently",
			"aggregate results are judged by value only (count/sum/min/max/first/last/mean of exactly the model points in range); their time stamps are not judged",
			"field-value predicates (family V): `_value <op> literal` is a condition on the individual point, AND/OR combine it with tag conditions as Boolean operators, so `tag = v OR _value > x` returns ALL points of a series that has the tag value and, of the other series, the points whose own value satisfies the comparison; numeric comparison is by mathematical value for float/integer fields and float/integer literals; a series none of whose points qualifies may still be listed with an empty cursor",
			"an error returned by a read on these valid inputs is reported as a violation (class 'error')",
			"background compaction/retention are off (mini fixture); shard groups are 1h (the minimum the meta client allows); one shard per shard group, created on demand by the first write into the group",
		},
		QuickBudgetS: 75, ThoroughBudgetS: 800,
		Run: func(c *vlib.Ctx) {
			reqsOf := map[string][]Req{"A": requests(c.Thorough(), "A"), "B": requests(c.Thorough(), "B"),
				"C3": requestsC(c.Thorough(), 3), "C4": requestsC(c.Thorough(), 4), "V": requestsV(c.Thorough(), 3)}
			dss := datasets(c.Thorough())
			perFam := map[string]int{}
			for _, ds := range dss {
				perFam[ds.Fam]++
			}
			c.Note("datasets_total", fmt.Sprint(len(dss)))
			c.Note("datasets_per_family", fmt.Sprintf("A: %d, B: %d, C: %d, V: %d", perFam["A"], perFam["B"], perFam["C"], perFam["V"]))
			c.Note("requests_per_dataset", fmt.Sprintf("family A: %d, family B: %d, family C: %d (3 groups) / %d (4 groups), family V: %d", len(reqsOf["A"]), len(reqsOf["B"]), len(reqsOf["C3"]), len(reqsOf["C4"]), len(reqsOf["V"])))
			done := int64(0)
			for i, ds := range dss {
				if !c.Mine(int64(i)) {
					continue
				}
				if c.Expired() {
					c.Cap(fmt.Sprintf("wall budget: datasets are visited family A first, then B, C and V in alternating blocks, each simplest-first; this shard completed %d of its datasets (all requests for each)", done))
					return
				}
				md := buildModel(ds)
				f, b, err := load(ds)
				if err != nil {
					c.HarnessError(fmt.Sprintf("dataset %+v: %v", ds, err))
					continue
				}
				rk := ds.Fam
				if ds.Fam == "C" {
					rk = fmt.Sprintf("C%d", ds.Groups)
				}
				for _, r := range reqsOf[rk] {
					v := run(f, b, md, r, false)
					c.Eval(1)
					want, straddle := expectNonEmpty(md, r)
					if want > 0 {
						c.NontrivialN(1)
					}
					kind := "filter"
					if r.Kind == "group" {
						kind = "group-" + r.GMode
						if r.Agg != "" {
							kind += "-agg"
						}
					}
					hole := ""
					if ds.Fam == "C" {
						var span int
						span, hole = holeInfo(md, r)
						ck := "filter"
						if r.Kind == "group" {
							ck = "group"
							if r.Agg != "" {
								ck = "group-agg"
							}
						}
						c.Outcome(fmt.Sprintf("C/%s/max-shard-span=%d/hole=%s", ck, span, hole))
					} else if ds.Fam == "V" {
						ck := "filter"
						if r.Kind == "group" {
							ck = "group"
							if r.Agg != "" {
								ck = "group-agg"
							}
						}
						c.Outcome(fmt.Sprintf("V/%s/pred=%s/value-cut=%s", ck, r.Pred.kind(), valueCut(md, r)))
					} else {
						c.Outcome(fmt.Sprintf("%s/series-with-points=%d/groups=%d/empty-series=%v/straddle=%v", kind, v.nonEmpty, min(v.nGroups, 5), v.emptySer > 0, straddle))
					}
					cs := Case{ds, r}
					switch {
					case v.panicked != "":
						fr := v.panicked[strings.LastIndex(v.panicked, "@ ")+2:]
						c.Violation(sigOfFam(ds, r, "panic/"+fr, hole), fmt.Sprintf("%s on dataset %+v: %s", r, ds, v.panicked), cs)
					case v.err != nil:
						c.Violation(sigOfFam(ds, r, "error", hole), fmt.Sprintf("%s on dataset %+v returned error: %v", r, ds, v.err), cs)
					default:
						seen := map[string]bool{}
						for _, p := range v.probs {
							if seen[p.clause+p.feat] {
								continue
							}
							seen[p.clause+p.feat] = true
							sig := sigOf(ds, r, p.clause, hole)
							if ds.Fam == "V" { // own signatures: without the shard count, with the value-family feature
								sig = sigV(r, p.clause, p.feat)
							}
							c.Violation(sig, fmt.Sprintf("%s on dataset %+v: %s", r, ds, p.detail), cs)
						}
					}
					if c.WantSample() && want >= 2 && straddle && r.Pred != nil {
						c.Sample(map[string]any{"case": cs, "series_with_points": v.nonEmpty, "groups": v.nGroups})
					}
				}
				f.Close()
				done++
			}
		},
		Replay: func(c *vlib.Ctx, raw json.RawMessage) (bool, string) {
			var cs Case
			if err := json.Unmarshal(raw, &cs); err != nil {
				return false, err.Error()
			}
			md := buildModel(cs.DS)
			f, b, err := load(cs.DS)
			if err != nil {
				return false, "fixture: " + err.Error()
			}
			defer f.Close()
			v := run(f, b, md, cs.Req, true)
			var sb strings.Builder
			fam := cs.DS.Fam
			if fam == "V" {
				fam = fmt.Sprintf("V (%d shard groups, value mask %06b: bit k set = slot k high for the even pool series, low for the odd ones; expected value cut: %s)", cs.DS.Groups, cs.DS.VMask, valueCut(md, cs.Req))
			}
			if fam == "C" {
				span, hole := holeInfo(md, cs.Req)
				fam = fmt.Sprintf("C (%d shard groups; expected max shard span %d, hole flavour %s)", cs.DS.Groups, span, hole)
			}
			fmt.Fprintf(&sb, "request: %s\ndataset: family %s, layout %s; stored series:\n", cs.Req, fam, cs.DS.Mode)
			for _, k := range md.keys {
				fmt.Fprintf(&sb, "  %s %s\n", k, fmtPts(md.cells[k].pts))
			}
			switch {
			case v.panicked != "":
				fmt.Fprintf(&sb, "PANIC: %s\n", v.panicked)
				return true, sb.String()
			case v.err != nil:
				fmt.Fprintf(&sb, "ERROR: %v\n", v.err)
				return true, sb.String()
			}
			fmt.Fprintf(&sb, "returned: %s\n", v.raw)
			for _, p := range v.probs {
				fmt.Fprintf(&sb, "VIOLATED %s: %s\n", p.clause, p.detail)
			}
			return len(v.probs) > 0, sb.String()
		},
	})
}
