package crashfs

import (
	"bufio"
	"fmt"
	"io"
	"strconv"
	"strings"
)

// TraceSet is the list of syscalls handed to `strace -e trace=`. Everything that can change file content or the
// directory tree through a path or an fd is listed, including calls the model does NOT implement (they abort the
// recording when they touch the data directory) so that nothing is silently missed.
const TraceSet = "openat,open,creat,openat2,write,pwrite64,writev,pwritev,pwritev2,lseek,ftruncate,truncate,fallocate," +
	"fsync,fdatasync,sync_file_range,rename,renameat,renameat2,unlink,unlinkat,mkdir,mkdirat,rmdir,link,linkat," +
	"symlink,symlinkat,close,dup,dup2,dup3,fcntl,copy_file_range,sendfile,splice,mmap,io_uring_setup,io_submit," +
	"clone,clone3,fork,vfork,chdir,fchdir"

// rawCall is one completed syscall of the strace log.
type rawCall struct {
	pid   int
	name  string
	args  []string
	ret   string // text after "= " up to the first blank: "3<..>", "-1", "?", "0x7f.."
	errno string // "ENOENT" when ret is -1
	line  int    // line of completion in the log
}

// retInt returns the numeric return value (fd annotations stripped).
func (c *rawCall) retInt() (int64, bool) {
	s := c.ret
	if i := strings.IndexByte(s, '<'); i >= 0 {
		s = s[:i]
	}
	v, err := strconv.ParseInt(s, 0, 64)
	return v, err == nil
}

func (c *rawCall) failed() bool { return strings.HasPrefix(c.ret, "-1") }

// parseRaw reads an strace -f -y -xx log and returns the completed syscalls in order of COMPLETION
// (`<unfinished ...>` / `<... resumed>` pairs are joined and placed where the resumed line stands).
func parseRaw(r io.Reader) ([]rawCall, error) {
	sc := bufio.NewScanner(r)
	sc.Buffer(make([]byte, 1<<20), 64<<20)
	pending := map[int]string{}
	var out []rawCall
	ln := 0
	for sc.Scan() {
		ln++
		line := sc.Text()
		if strings.TrimSpace(line) == "" {
			continue
		}
		// pid prefix
		i := 0
		for i < len(line) && line[i] >= '0' && line[i] <= '9' {
			i++
		}
		if i == 0 {
			return nil, fmt.Errorf("strace log line %d: no pid prefix (strace must run with -f -o): %.80q", ln, line)
		}
		pid, _ := strconv.Atoi(line[:i])
		rest := strings.TrimLeft(line[i:], " \t")
		switch {
		case strings.HasPrefix(rest, "+++"), strings.HasPrefix(rest, "---"):
			continue
		case strings.HasPrefix(rest, "<... "):
			j := strings.Index(rest, " resumed>")
			if j < 0 {
				return nil, fmt.Errorf("strace log line %d: malformed resumed line: %.80q", ln, rest)
			}
			pre, ok := pending[pid]
			if !ok {
				return nil, fmt.Errorf("strace log line %d: resumed without unfinished for pid %d", ln, pid)
			}
			delete(pending, pid)
			rest = pre + rest[j+len(" resumed>"):]
		}
		if strings.HasSuffix(rest, "<unfinished ...>") {
			pending[pid] = strings.TrimSuffix(rest, "<unfinished ...>")
			continue
		}
		c, err := parseCall(rest)
		if err != nil {
			return nil, fmt.Errorf("strace log line %d: %v: %.120q", ln, err, rest)
		}
		c.pid, c.line = pid, ln
		out = append(out, c)
	}
	if err := sc.Err(); err != nil {
		return nil, err
	}
	// calls still unfinished at the end (thread blocked in a syscall when the process exited) have no effect we
	// can know of; only file-changing ones matter and those are checked by the caller via leftover().
	for pid, pre := range pending {
		c, err := parseCall(strings.TrimRight(pre, " ,") + ") = ? UNFINISHED")
		if err != nil {
			return nil, fmt.Errorf("strace log: unfinished call of pid %d at end of log: %v: %.120q", pid, err, pre)
		}
		c.pid, c.line = pid, ln
		out = append(out, c)
	}
	return out, nil
}

// parseCall parses `name(arg, arg, ...) = ret [ERRNO (text)]`.
func parseCall(s string) (rawCall, error) {
	var c rawCall
	p := strings.IndexByte(s, '(')
	if p <= 0 {
		return c, fmt.Errorf("no syscall name")
	}
	c.name = s[:p]
	i := p + 1
	depth := 0
	inStr := false
	start := i
	done := false
	for ; i < len(s) && !done; i++ {
		ch := s[i]
		if inStr {
			if ch == '\\' {
				i++
			} else if ch == '"' {
				inStr = false
			}
			continue
		}
		switch ch {
		case '"':
			inStr = true
		case '(', '[', '{':
			depth++
		case ']', '}':
			depth--
		case ')':
			if depth == 0 {
				if a := strings.TrimSpace(s[start:i]); a != "" || len(c.args) > 0 {
					c.args = append(c.args, a)
				}
				done = true
				continue
			}
			depth--
		case ',':
			if depth == 0 {
				c.args = append(c.args, strings.TrimSpace(s[start:i]))
				start = i + 1
			}
		}
	}
	if !done {
		return c, fmt.Errorf("unterminated argument list")
	}
	rest := strings.TrimSpace(s[i:])
	if !strings.HasPrefix(rest, "=") {
		return c, fmt.Errorf("no return value")
	}
	rest = strings.TrimSpace(rest[1:])
	f := strings.Fields(rest)
	if len(f) == 0 {
		return c, fmt.Errorf("empty return value")
	}
	c.ret = f[0]
	if len(f) > 1 && (c.ret == "-1" || c.ret == "?") {
		c.errno = f[1]
	}
	return c, nil
}

// unhex decodes a strace -xx string literal `"\x41\x42"` (optionally followed by `...` = truncated).
func unhex(a string) (data []byte, truncated bool, err error) {
	a = strings.TrimSpace(a)
	if strings.HasSuffix(a, "...") {
		truncated = true
		a = strings.TrimSuffix(a, "...")
	}
	if len(a) < 2 || a[0] != '"' || a[len(a)-1] != '"' {
		return nil, false, fmt.Errorf("not a string literal: %.40q", a)
	}
	a = a[1 : len(a)-1]
	if len(a)%4 != 0 {
		return nil, false, fmt.Errorf("string literal is not in -xx form: %.40q", a)
	}
	data = make([]byte, 0, len(a)/4)
	for i := 0; i < len(a); i += 4 {
		if a[i] != '\\' || a[i+1] != 'x' {
			return nil, false, fmt.Errorf("string literal is not in -xx form: %.40q", a)
		}
		v, e := strconv.ParseUint(a[i+2:i+4], 16, 8)
		if e != nil {
			return nil, false, e
		}
		data = append(data, byte(v))
	}
	return data, truncated, nil
}

// fdArg splits `3<\x2f..>(deleted)` / `AT_FDCWD<\x2f..>` / `-1` into number and annotated path.
func fdArg(a string) (fd int, path string, deleted bool, err error) {
	a = strings.TrimSpace(a)
	num := a
	if i := strings.IndexByte(a, '<'); i >= 0 {
		j := strings.LastIndexByte(a, '>')
		if j < i {
			return 0, "", false, fmt.Errorf("malformed fd annotation %.40q", a)
		}
		num = a[:i]
		deleted = strings.Contains(a[j:], "(deleted)")
		b, _, e := unhex(`"` + a[i+1:j] + `"`)
		if e != nil {
			// not hex-escaped (socket:[..], pipe:[..] etc. are still escaped under -xx; be lenient)
			path = a[i+1 : j]
		} else {
			path = string(b)
		}
	}
	if num == "AT_FDCWD" {
		return -100, path, deleted, nil
	}
	v, e := strconv.Atoi(num)
	if e != nil {
		return 0, "", false, fmt.Errorf("malformed fd %.40q", a)
	}
	return v, path, deleted, nil
}

// iovData concatenates the iov_base strings of `[{iov_base="..", iov_len=N}, ...]`.
func iovData(a string) ([]byte, bool, error) {
	var out []byte
	trunc := false
	for {
		i := strings.Index(a, `iov_base=`)
		if i < 0 {
			break
		}
		a = a[i+len(`iov_base=`):]
		if !strings.HasPrefix(a, `"`) {
			return nil, false, fmt.Errorf("iov_base is not a string")
		}
		j := strings.IndexByte(a[1:], '"')
		if j < 0 {
			return nil, false, fmt.Errorf("unterminated iov_base")
		}
		lit := a[:j+2]
		a = a[j+2:]
		if strings.HasPrefix(a, "...") {
			trunc = true
		}
		b, _, err := unhex(lit)
		if err != nil {
			return nil, false, err
		}
		out = append(out, b...)
	}
	return out, trunc, nil
}

func hasFlag(a, flag string) bool {
	for _, f := range strings.FieldsFunc(a, func(r rune) bool { return r == '|' || r == ' ' }) {
		if f == flag {
			return true
		}
	}
	return false
}
