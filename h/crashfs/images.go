package crashfs

import (
	"crypto/sha256"
	"encoding/binary"
	"encoding/hex"
	"fmt"
	"iter"
	"os"
	"path/filepath"
)

// Options selects the image families.
type Options struct {
	// SyncClasses are globs on basenames (path.Match) naming the files whose mechanism is "fsync before
	// acknowledging". A file belongs to a class if ANY name it ever had matches (the class follows the inode
	// across renames). Only such files get U images.
	SyncClasses []string
	Torn        bool // T images
	Unsynced    bool // U images
	// TornExhaustiveMax: writes up to this many bytes get every torn length 0..n-1; longer ones get
	// {0..64, every 512th, n-64..n-1}. 0 means 4096.
	TornExhaustiveMax int
}

// Cut kinds.
const (
	KindP = "P" // prefix: crash between two events
	KindT = "T" // torn write: the write in flight at the cut persisted only its first TornLen bytes
	KindU = "U" // unsynced data of sync-class files dropped (Drop) or the most recent unsynced write torn (TornEvent<Cut)
)

// Descriptor identifies one image of a Log; Log.Build(desc, opts) rebuilds it.
type Descriptor struct {
	Kind      string `json:"kind"`
	Cut       int    `json:"cut"`                  // events [0,Cut) are applied
	TornEvent int    `json:"torn_event,omitempty"` // index of the write applied partially (== Cut for T, < Cut for U-torn); only meaningful when TornLen >= 0
	TornLen   int    `json:"torn_len"`             // -1: no torn write
	Drop      string `json:"drop,omitempty"`       // "", "all" (every dirty sync-class inode reverted to its last synced content) or "ino:N"
}

func (d Descriptor) String() string {
	s := fmt.Sprintf("%s@%d", d.Kind, d.Cut)
	if d.TornLen >= 0 {
		s += fmt.Sprintf("/torn(ev=%d,len=%d)", d.TornEvent, d.TornLen)
	}
	if d.Drop != "" {
		s += "/drop=" + d.Drop
	}
	return s
}

// Op is a logical operation of the history (from a BEGIN marker), with its result if acknowledged.
type Op struct {
	K      int    `json:"k"`
	Op     string `json:"op"`     // payload of BEGIN
	Result string `json:"result"` // payload of ACK ("" while in flight)
}

// Image is one possible on-disk state after a crash.
type Image struct {
	Desc  Descriptor
	Files []File // path order, directories included
	// Hash identifies the directory content (paths, sizes, bytes, hard-link structure), not the context.
	Hash string
	// NextOp/NextPath/NextClass describe what was happening at the cut: for P and T the event in flight
	// (events[Cut]; "end" after the last one), for U the file whose unsynced data was dropped or torn.
	NextOp, NextPath, NextClass string

	acked    []Op
	inflight *Op
}

// Acked returns the operations acknowledged before the cut, in order.
func (im *Image) Acked() []Op { return im.acked }

// InFlight returns the operation begun but not acknowledged at the cut (nil if none).
func (im *Image) InFlight() *Op { return im.inflight }

// Descriptor returns the replayable identity of the image within its log.
func (im *Image) Descriptor() Descriptor { return im.Desc }

// Stats counts images per kind before and after deduplication.
type Stats struct {
	Generated map[string]int // per kind, before dedup
	Distinct  map[string]int // per kind, after dedup by (content, acked count, in-flight op)
	Contents  int            // distinct directory contents
	LongTorn  int            // writes longer than TornExhaustiveMax whose torn lengths were subsampled
}

func tornLengths(n, max int) ([]int, bool) {
	if max <= 0 {
		max = 4096
	}
	if n <= max {
		out := make([]int, n)
		for i := range out {
			out[i] = i
		}
		return out, false
	}
	seen := map[int]bool{}
	var out []int
	add := func(v int) {
		if v >= 0 && v < n && !seen[v] {
			seen[v] = true
			out = append(out, v)
		}
	}
	for i := 0; i <= 64; i++ {
		add(i)
	}
	for i := 512; i < n; i += 512 {
		add(i)
	}
	for i := n - 64; i < n; i++ {
		add(i)
	}
	return out, true
}

func hashFiles(files []File) string {
	h := sha256.New()
	var b [8]byte
	first := map[int]int{} // inode -> index of first path
	for i, f := range files {
		h.Write([]byte(f.Path))
		h.Write([]byte{0})
		if f.Dir {
			h.Write([]byte{'d'})
			continue
		}
		if j, ok := first[f.Ino]; ok {
			h.Write([]byte{'l'})
			binary.LittleEndian.PutUint64(b[:], uint64(j))
			h.Write(b[:])
			continue
		}
		first[f.Ino] = i
		h.Write([]byte{'f'})
		binary.LittleEndian.PutUint64(b[:], uint64(f.Size))
		h.Write(b[:])
		// trailing zeros of Data are equivalent to implicit zeros
		d := f.Data
		for len(d) > 0 && d[len(d)-1] == 0 {
			d = d[:len(d)-1]
		}
		binary.LittleEndian.PutUint64(b[:], uint64(len(d)))
		h.Write(b[:])
		h.Write(d)
	}
	return hex.EncodeToString(h.Sum(nil)[:16])
}

// context computes acked ops and the in-flight op from the markers in events[0:cut).
func (l *Log) context(cut int) ([]Op, *Op) {
	var acked []Op
	open := map[int]*Op{}
	var order []int
	for i := 0; i < cut; i++ {
		e := &l.Events[i]
		if e.Op != OpMarker {
			continue
		}
		switch e.Marker.Kind {
		case "BEGIN":
			open[e.Marker.K] = &Op{K: e.Marker.K, Op: e.Marker.Payload}
			order = append(order, e.Marker.K)
		case "ACK":
			if o := open[e.Marker.K]; o != nil {
				o.Result = e.Marker.Payload
				acked = append(acked, *o)
				delete(open, e.Marker.K)
			}
		}
	}
	var infl *Op
	for _, k := range order {
		if o := open[k]; o != nil {
			infl = o // histories are sequential: at most one
		}
	}
	return acked, infl
}

// Validate checks the marker discipline: BEGIN k / ACK k alternate, k increasing, at most one op in flight.
func (l *Log) Validate() error {
	open := -1
	last := -1
	for _, m := range l.Markers() {
		switch m.Kind {
		case "BEGIN":
			if open >= 0 {
				return fmt.Errorf("crashfs: BEGIN %d while op %d is still in flight (histories must be sequential)", m.K, open)
			}
			if m.K <= last {
				return fmt.Errorf("crashfs: BEGIN %d after op %d (k must increase)", m.K, last)
			}
			open, last = m.K, m.K
		case "ACK":
			if open != m.K {
				return fmt.Errorf("crashfs: ACK %d without matching BEGIN", m.K)
			}
			open = -1
		}
	}
	return nil
}

// build replays the log according to d on a fresh model.
func (l *Log) build(d Descriptor, opts Options) (*Image, error) {
	if d.Cut < 0 || d.Cut > len(l.Events) {
		return nil, fmt.Errorf("crashfs: cut %d out of range (log has %d events)", d.Cut, len(l.Events))
	}
	fs := newFS()
	for i := 0; i < d.Cut; i++ {
		tl := -1
		if d.TornLen >= 0 && d.TornEvent == i {
			tl = d.TornLen
		}
		if err := fs.apply(&l.Events[i], tl); err != nil {
			return nil, fmt.Errorf("crashfs: replay of event %d: %v", i, err)
		}
	}
	return l.finish(fs, d, opts)
}

// finish applies the in-flight torn write / the drop of d to a model that already holds events [0,Cut).
// It may modify fs (callers pass a throw-away or restore afterwards).
func (l *Log) finish(fs *fsys, d Descriptor, opts Options) (*Image, error) {
	im := &Image{Desc: d}
	if d.Cut < len(l.Events) {
		e := &l.Events[d.Cut]
		im.NextOp, im.NextPath = e.Op, e.Path
		if e.Op == OpRename || e.Op == OpLink {
			im.NextPath = e.Path + "->" + e.Path2
			im.NextClass = classOf(e.Path2)
		} else {
			im.NextClass = classOf(e.Path)
		}
		if e.Op == OpMarker {
			im.NextOp = "marker:" + e.Marker.Kind
		}
	} else {
		im.NextOp = "end"
	}
	if d.Kind == KindT {
		if d.Cut >= len(l.Events) || l.Events[d.Cut].Op != OpWrite || d.TornEvent != d.Cut {
			return nil, fmt.Errorf("crashfs: descriptor %v: event at the cut is not a write", d)
		}
		if err := fs.apply(&l.Events[d.Cut], d.TornLen); err != nil {
			return nil, err
		}
	}
	if d.Kind == KindU {
		if d.TornLen >= 0 {
			if d.TornEvent < 0 || d.TornEvent >= d.Cut || l.Events[d.TornEvent].Op != OpWrite {
				return nil, fmt.Errorf("crashfs: descriptor %v: torn event is not a write before the cut", d)
			}
			e := &l.Events[d.TornEvent]
			im.NextOp, im.NextPath, im.NextClass = "unsynced-torn", e.Path, classOf(e.Path)
			if n := fs.inodes[e.Ino]; n != nil {
				if p := fs.pathOf(n); p != "" {
					im.NextPath, im.NextClass = p, classOf(p)
				}
			}
		}
		if d.Drop != "" {
			dropped := 0
			for _, n := range fs.linkedFiles() {
				if !n.dirty || matchClass(opts.SyncClasses, n) == "" {
					continue
				}
				if d.Drop != "all" && d.Drop != fmt.Sprintf("ino:%d", n.id) {
					continue
				}
				n.data, n.size = n.syncedData, n.syncedSize
				dropped++
				p := fs.pathOf(n)
				im.NextOp, im.NextPath, im.NextClass = "unsynced-drop", p, classOf(p)
			}
			if dropped == 0 {
				return nil, fmt.Errorf("crashfs: descriptor %v: nothing to drop", d)
			}
		}
	}
	im.Files = fs.snapshot()
	im.Hash = hashFiles(im.Files)
	im.acked, im.inflight = l.context(d.Cut)
	return im, nil
}

// Build rebuilds the image named by a descriptor (the replay path).
func (l *Log) Build(d Descriptor, opts Options) (*Image, error) { return l.build(d, opts) }

// Images enumerates the crash images of the log: simplest first (cut 0 upward; per cut P, then T, then U).
// Images equal in content AND context (number of acknowledged ops, op in flight) are yielded once.
// st, if non-nil, receives the counts when the iteration ends.
func (l *Log) Images(opts Options, st *Stats) iter.Seq[*Image] {
	return func(yield func(*Image) bool) {
		if st != nil {
			st.Generated, st.Distinct = map[string]int{}, map[string]int{}
		}
		seen := map[string]struct{}{}
		contents := map[string]struct{}{}
		stop := false
		emit := func(im *Image, err error) bool {
			if err != nil {
				panic(err) // the log replayed cleanly at parse time; anything else is a bug of the engine
			}
			if st != nil {
				st.Generated[im.Desc.Kind]++
			}
			k := 0
			if im.inflight != nil {
				k = im.inflight.K + 1
			}
			key := fmt.Sprintf("%s/%d/%d", im.Hash, len(im.acked), k)
			if _, dup := seen[key]; dup {
				return true
			}
			seen[key] = struct{}{}
			contents[im.Hash] = struct{}{}
			if st != nil {
				st.Distinct[im.Desc.Kind]++
				st.Contents = len(contents)
			}
			if !yield(im) {
				stop = true
				return false
			}
			return true
		}
		// prefix(c) rebuilds the model holding events [0,c) with an optional torn event; used for the
		// variants that must not disturb the incremental model.
		prefix := func(c, tornEv, tornLen int) *fsys {
			fs := newFS()
			for i := 0; i < c; i++ {
				tl := -1
				if i == tornEv {
					tl = tornLen
				}
				if err := fs.apply(&l.Events[i], tl); err != nil {
					panic(err)
				}
			}
			return fs
		}
		cur := newFS() // incremental model: holds events [0,c)
		for c := 0; c <= len(l.Events) && !stop; c++ {
			// P
			// finish() does not modify the model for P
			if im, err := l.finish(cur, Descriptor{Kind: KindP, Cut: c, TornLen: -1}, opts); !emit(im, err) {
				return
			}
			// T
			if opts.Torn && c < len(l.Events) && l.Events[c].Op == OpWrite {
				e := &l.Events[c]
				lens, sub := tornLengths(len(e.Data), opts.TornExhaustiveMax)
				if sub && st != nil {
					st.LongTorn++
				}
				n := cur.inodes[e.Ino]
				saveData, saveSize, saveDirty, saveLW := n.data, n.size, n.dirty, n.lastWrite
				for _, tl := range lens {
					if tl == 0 {
						continue // identical to P
					}
					n.data, n.size, n.dirty, n.lastWrite = saveData, saveSize, saveDirty, saveLW
					im, err := l.finish(cur, Descriptor{Kind: KindT, Cut: c, TornEvent: c, TornLen: tl}, opts)
					if !emit(im, err) {
						n.data, n.size, n.dirty, n.lastWrite = saveData, saveSize, saveDirty, saveLW
						return
					}
				}
				n.data, n.size, n.dirty, n.lastWrite = saveData, saveSize, saveDirty, saveLW
			}
			// U
			if opts.Unsynced {
				var dirty []*node
				lastW := -1
				for _, n := range cur.linkedFiles() {
					if n.dirty && matchClass(opts.SyncClasses, n) != "" {
						dirty = append(dirty, n)
						if n.lastWrite > lastW {
							lastW = n.lastWrite
						}
					}
				}
				if len(dirty) > 0 {
					drops := []string{"all"}
					if len(dirty) > 1 {
						for _, n := range dirty {
							drops = append(drops, fmt.Sprintf("ino:%d", n.id))
						}
					}
					for _, dr := range drops {
						im, err := l.finish(prefix(c, -1, -1), Descriptor{Kind: KindU, Cut: c, TornLen: -1, Drop: dr}, opts)
						if !emit(im, err) {
							return
						}
					}
					if opts.Torn && lastW >= 0 {
						lens, _ := tornLengths(len(l.Events[lastW].Data), opts.TornExhaustiveMax)
						for _, tl := range lens {
							im, err := l.finish(prefix(c, lastW, tl), Descriptor{Kind: KindU, Cut: c, TornEvent: lastW, TornLen: tl}, opts)
							if !emit(im, err) {
								return
							}
						}
					}
				}
			}
			if c < len(l.Events) {
				if err := cur.apply(&l.Events[c], -1); err != nil {
					panic(err)
				}
			}
		}
	}
}

// Materialize writes the image into dir (created if needed, must be empty). Trailing zero runs become
// sparse (ftruncate); hard links are recreated.
func (im *Image) Materialize(dir string) error {
	if err := os.MkdirAll(dir, 0o777); err != nil {
		return err
	}
	first := map[int]string{}
	for _, f := range im.Files {
		p := filepath.Join(dir, filepath.FromSlash(f.Path))
		if f.Dir {
			if err := os.Mkdir(p, 0o777); err != nil {
				return err
			}
			continue
		}
		if src, ok := first[f.Ino]; ok {
			if err := os.Link(src, p); err != nil {
				return err
			}
			continue
		}
		first[f.Ino] = p
		fh, err := os.OpenFile(p, os.O_CREATE|os.O_EXCL|os.O_WRONLY, 0o666)
		if err != nil {
			return err
		}
		d := f.Data
		if int64(len(d)) > f.Size {
			d = d[:f.Size]
		}
		if len(d) > 0 {
			if _, err := fh.Write(d); err != nil {
				fh.Close()
				return err
			}
		}
		if int64(len(d)) != f.Size {
			if err := fh.Truncate(f.Size); err != nil {
				fh.Close()
				return err
			}
		}
		if err := fh.Close(); err != nil {
			return err
		}
	}
	return nil
}

// ReadTree loads a real directory in the File form (used to compare the model with reality).
func ReadTree(dir string) ([]File, error) {
	var out []File
	inos := map[uint64]int{}
	err := filepath.Walk(dir, func(p string, fi os.FileInfo, err error) error {
		if err != nil {
			return err
		}
		rel, _ := filepath.Rel(dir, p)
		if rel == "." {
			return nil
		}
		rel = filepath.ToSlash(rel)
		if fi.IsDir() {
			out = append(out, File{Path: rel, Dir: true})
			return nil
		}
		if !fi.Mode().IsRegular() {
			return fmt.Errorf("crashfs: %s is neither a directory nor a regular file", p)
		}
		b, err := os.ReadFile(p)
		if err != nil {
			return err
		}
		ino := inodeOf(fi)
		id, ok := inos[ino]
		if !ok {
			id = len(inos) + 1
			inos[ino] = id
		}
		out = append(out, File{Path: rel, Ino: id, Data: b, Size: fi.Size()})
		return nil
	})
	return out, err
}

// DiffTrees describes the first difference between two trees ("" if equal in paths, kinds, sizes, bytes and
// hard-link structure).
func DiffTrees(a, b []File) string {
	if hashFiles(a) == hashFiles(b) {
		return ""
	}
	am := map[string]File{}
	for _, f := range a {
		am[f.Path] = f
	}
	for _, f := range b {
		g, ok := am[f.Path]
		if !ok {
			return fmt.Sprintf("%q only in the second tree", f.Path)
		}
		delete(am, f.Path)
		if g.Dir != f.Dir {
			return fmt.Sprintf("%q: directory vs file", f.Path)
		}
		if g.Size != f.Size {
			return fmt.Sprintf("%q: size %d vs %d", f.Path, g.Size, f.Size)
		}
		for i := int64(0); i < f.Size; i++ {
			var x, y byte
			if i < int64(len(g.Data)) {
				x = g.Data[i]
			}
			if i < int64(len(f.Data)) {
				y = f.Data[i]
			}
			if x != y {
				return fmt.Sprintf("%q: byte %d differs (%#x vs %#x)", f.Path, i, x, y)
			}
		}
	}
	for p := range am {
		return fmt.Sprintf("%q only in the first tree", p)
	}
	return "hard-link structure differs"
}
