package crashfs

import (
	"fmt"
	"path"
	"sort"
	"strings"
)

// node is an inode of the modelled tree (directory or regular file). File content is held as
// data[0:len(data)] followed by implicit zeros up to size, and the data slice is never modified in
// place (copy on write), so snapshots can share it.
type node struct {
	id       int
	dir      bool
	children map[string]*node
	data     []byte
	size     int64
	nlink    int

	// durability bookkeeping (files only)
	syncedData []byte
	syncedSize int64
	dirty      bool     // modified since the last fsync/fdatasync of this inode
	lastWrite  int      // index of the most recent write event since the last sync, -1 if none
	everNames  []string // every basename this inode has had (sync classes follow the inode across renames)
}

// fsys is the modelled directory tree rooted at the data directory.
type fsys struct {
	root   *node
	inodes map[int]*node
	nextID int
}

func newFS() *fsys {
	f := &fsys{inodes: map[int]*node{}}
	f.root = &node{id: 0, dir: true, children: map[string]*node{}, nlink: 1}
	f.inodes[0] = f.root
	f.nextID = 1
	return f
}

func splitRel(rel string) []string {
	rel = strings.Trim(path.Clean("/"+rel), "/")
	if rel == "" {
		return nil
	}
	return strings.Split(rel, "/")
}

// lookup returns the node at rel ("" = root) or nil.
func (f *fsys) lookup(rel string) *node {
	n := f.root
	for _, p := range splitRel(rel) {
		if n == nil || !n.dir {
			return nil
		}
		n = n.children[p]
	}
	return n
}

func (f *fsys) parentOf(rel string) (*node, string, error) {
	parts := splitRel(rel)
	if len(parts) == 0 {
		return nil, "", fmt.Errorf("path is the root")
	}
	n := f.root
	for _, p := range parts[:len(parts)-1] {
		if n == nil || !n.dir {
			break
		}
		n = n.children[p]
	}
	if n == nil || !n.dir {
		return nil, "", fmt.Errorf("parent directory of %q does not exist in the model", rel)
	}
	return n, parts[len(parts)-1], nil
}

func (n *node) addName(b string) {
	for _, x := range n.everNames {
		if x == b {
			return
		}
	}
	n.everNames = append(n.everNames, b)
}

// pathOf returns one current path of the node (lexicographically smallest), "" if unlinked.
func (f *fsys) pathOf(t *node) string {
	best := ""
	found := false
	var walk func(n *node, p string)
	walk = func(n *node, p string) {
		if n == t {
			if !found || p < best {
				best, found = p, true
			}
		}
		if n.dir {
			for name, c := range n.children {
				walk(c, path.Join(p, name))
			}
		}
	}
	walk(f.root, "")
	return best
}

// apply executes one event on the model. tornLen >= 0 applies only the first tornLen bytes of a write event.
func (f *fsys) apply(e *Event, tornLen int) error {
	switch e.Op {
	case OpMarker, OpDirSync:
		return nil
	case OpMkdir:
		if e.Path == "" {
			return nil
		}
		p, name, err := f.parentOf(e.Path)
		if err != nil {
			return err
		}
		if p.children[name] != nil {
			return fmt.Errorf("mkdir %q: exists in the model", e.Path)
		}
		n := &node{id: f.nextID, dir: true, children: map[string]*node{}, nlink: 1}
		f.nextID++
		f.inodes[n.id] = n
		p.children[name] = n
		if n.id != e.Ino {
			return fmt.Errorf("mkdir %q: inode id %d != recorded %d", e.Path, n.id, e.Ino)
		}
		return nil
	case OpCreate:
		p, name, err := f.parentOf(e.Path)
		if err != nil {
			return err
		}
		if p.children[name] != nil {
			return fmt.Errorf("create %q: exists in the model", e.Path)
		}
		n := &node{id: f.nextID, nlink: 1, lastWrite: -1}
		f.nextID++
		f.inodes[n.id] = n
		p.children[name] = n
		n.addName(name)
		if n.id != e.Ino {
			return fmt.Errorf("create %q: inode id %d != recorded %d", e.Path, n.id, e.Ino)
		}
		return nil
	case OpRmdir:
		p, name, err := f.parentOf(e.Path)
		if err != nil {
			return err
		}
		n := p.children[name]
		if n == nil || !n.dir {
			return fmt.Errorf("rmdir %q: not a directory in the model", e.Path)
		}
		if len(n.children) != 0 {
			return fmt.Errorf("rmdir %q: not empty in the model", e.Path)
		}
		delete(p.children, name)
		n.nlink = 0
		return nil
	case OpUnlink:
		p, name, err := f.parentOf(e.Path)
		if err != nil {
			return err
		}
		n := p.children[name]
		if n == nil || n.dir {
			return fmt.Errorf("unlink %q: not a file in the model", e.Path)
		}
		delete(p.children, name)
		n.nlink--
		return nil
	case OpLink:
		src := f.lookup(e.Path)
		if src == nil || src.dir {
			return fmt.Errorf("link %q: source is not a file in the model", e.Path)
		}
		p, name, err := f.parentOf(e.Path2)
		if err != nil {
			return err
		}
		if p.children[name] != nil {
			return fmt.Errorf("link %q: target exists in the model", e.Path2)
		}
		p.children[name] = src
		src.nlink++
		src.addName(name)
		return nil
	case OpRename:
		sp, sname, err := f.parentOf(e.Path)
		if err != nil {
			return err
		}
		src := sp.children[sname]
		if src == nil {
			return fmt.Errorf("rename %q: source does not exist in the model", e.Path)
		}
		dp, dname, err := f.parentOf(e.Path2)
		if err != nil {
			return err
		}
		if old := dp.children[dname]; old != nil {
			if old == src {
				return nil // rename of a name onto another name of the same inode: no-op
			}
			if old.dir != src.dir {
				return fmt.Errorf("rename %q -> %q: file/directory mismatch in the model", e.Path, e.Path2)
			}
			if old.dir && len(old.children) != 0 {
				return fmt.Errorf("rename %q -> %q: target directory not empty in the model", e.Path, e.Path2)
			}
			old.nlink--
		}
		delete(sp.children, sname)
		dp.children[dname] = src
		if !src.dir {
			src.addName(dname)
		}
		return nil
	case OpWrite:
		n := f.inodes[e.Ino]
		if n == nil || n.dir {
			return fmt.Errorf("write: inode %d is not a file in the model", e.Ino)
		}
		d := e.Data
		if tornLen >= 0 && tornLen < len(d) {
			d = d[:tornLen]
		}
		if len(d) == 0 {
			return nil
		}
		end := e.Off + int64(len(d))
		nl := int64(len(n.data))
		if end > nl {
			nl = end
		}
		nd := make([]byte, nl)
		copy(nd, n.data)
		copy(nd[e.Off:], d)
		n.data = nd
		if end > n.size {
			n.size = end
		}
		n.dirty = true
		n.lastWrite = e.Idx
		return nil
	case OpTrunc:
		n := f.inodes[e.Ino]
		if n == nil || n.dir {
			return fmt.Errorf("truncate: inode %d is not a file in the model", e.Ino)
		}
		if e.Size == n.size {
			return nil
		}
		if e.Size < int64(len(n.data)) {
			n.data = n.data[:e.Size:e.Size]
		}
		n.size = e.Size
		n.dirty = true
		return nil
	case OpFsync:
		n := f.inodes[e.Ino]
		if n == nil || n.dir {
			return fmt.Errorf("fsync: inode %d is not a file in the model", e.Ino)
		}
		n.syncedData, n.syncedSize = n.data, n.size
		n.dirty = false
		n.lastWrite = -1
		return nil
	}
	return fmt.Errorf("unknown event op %q", e.Op)
}

// File is one entry of a directory image.
type File struct {
	Path string // relative to the data directory, '/'-separated
	Dir  bool
	Ino  int    // entries with equal Ino are hard links of one file
	Data []byte // leading bytes; the file continues with zeros up to Size
	Size int64
}

// snapshot lists the tree in path order (directories before their content).
func (f *fsys) snapshot() []File {
	var out []File
	var walk func(n *node, p string)
	walk = func(n *node, p string) {
		names := make([]string, 0, len(n.children))
		for k := range n.children {
			names = append(names, k)
		}
		sort.Strings(names)
		for _, k := range names {
			c := n.children[k]
			cp := path.Join(p, k)
			if c.dir {
				out = append(out, File{Path: cp, Dir: true, Ino: c.id})
				walk(c, cp)
			} else {
				out = append(out, File{Path: cp, Ino: c.id, Data: c.data, Size: c.size})
			}
		}
	}
	walk(f.root, "")
	return out
}

// linked files (reachable from the root) in id order.
func (f *fsys) linkedFiles() []*node {
	seen := map[int]*node{}
	var walk func(n *node)
	walk = func(n *node) {
		for _, c := range n.children {
			if c.dir {
				walk(c)
			} else {
				seen[c.id] = c
			}
		}
	}
	walk(f.root)
	ids := make([]int, 0, len(seen))
	for id := range seen {
		ids = append(ids, id)
	}
	sort.Ints(ids)
	out := make([]*node, len(ids))
	for i, id := range ids {
		out[i] = seen[id]
	}
	return out
}

func matchClass(classes []string, n *node) string {
	for _, c := range classes {
		for _, b := range n.everNames {
			if ok, _ := path.Match(c, b); ok {
				return c
			}
		}
	}
	return ""
}
