// Package crashfs enumerates the on-disk states a process death can leave behind, from a syscall-level
// recording of a short real history. It knows nothing about influxdb; checks supply a history writer (any
// command) and a recovery checker (any callback).
//
// # Pipeline
//
//  1. Record. The history writer runs under
//     `strace -f -y -xx -s 1048576 --seccomp-bpf -o <log> -e trace=<TraceSet>`
//     on an empty data directory. It brackets every logical operation k with Markers.Begin(k, op) before and
//     Markers.Ack(k, result) after the real call returned; the marker file lives outside the data directory,
//     each marker is one write(2), so acknowledgement order is part of the same log.
//
//     log, err := crashfs.Record(crashfs.RecordSpec{Argv, Env, DataDir, MarkerFile})
//
//     errors.Is(err, crashfs.ErrNoTrace) means strace cannot run/attach here. Every other error is a harness
//     error: an unmodelled syscall touched the data dir, the marker discipline was broken, or the model's final
//     tree differs from the real directory (Record always compares them — the safety net for anything the
//     syscall log cannot show).
//
//  2. Parse (ParseLog, also usable on a captured log). The log is turned into Log.Events: create, mkdir,
//     rmdir, unlink, rename, link, write (absolute offset + payload), trunc, fsync, dirsync, marker — only
//     events on paths below the data dir, in order of syscall COMPLETION. The parser joins
//     `<unfinished ...>`/`<... resumed>` pairs, skips failed calls, keeps its own fd tables (open file
//     descriptions shared by dup/dup2/dup3/fcntl(F_DUPFD*); offsets from lseek results; O_APPEND incl. Linux's
//     pwrite-appends rule; O_TRUNC; O_CREAT|O_EXCL; O_SYNC/O_DSYNC = write+fsync), models inodes rather than
//     paths (hard links, rename over an existing file, unlink of an open file), and cross-checks every fd's
//     `-y` annotation against its own table. copy_file_range/sendfile between two data-dir files with NULL
//     offsets are modelled as a write of the source's bytes. A writable MAP_SHARED mapping of a data file,
//     symlinks, openat2, O_TMPFILE, sync_file_range/splice on data files, io_uring/io_submit, fallocate with a
//     mode, renames across the data-dir boundary, relative paths without a dirfd annotation, truncated
//     payloads and calls that never completed are errors (never ignored).
//
//  3. Enumerate. for img := range log.Images(opts, &stats):
//
//     P  every prefix of the event list (crash between any two syscalls; cut = 0..len(Events));
//     T  the write in flight at the cut persisted only its first 1..n-1 bytes (n <= 4096: every length;
//     longer: {0..64, every 512th, n-64..n-1}, counted in Stats.LongTorn);
//     U  for files of a caller-supplied sync class (glob on any basename the inode ever had): the image in
//     which every such file is reverted to its content at its last fsync/fdatasync (Drop "all"; with
//     several dirty files also each one alone, Drop "ino:N"), and the images in which the most recent
//     unsynced write to such a file is torn at every length while everything else is kept.
//
//     Directory operations always stay in program order (ordered-metadata model: un-fsynced creates, renames
//     and unlinks are NOT dropped). Images are deduplicated by (content hash, number of acknowledged ops, op in
//     flight); Image.Hash alone identifies the content so a client can cache recovery results per content.
//
//     img.Acked()      ops acknowledged before the cut, in order, with results
//     img.InFlight()   the at most one op begun but not acknowledged
//     img.Descriptor() {Kind, Cut, TornEvent, TornLen, Drop}: with the history spec this is the replay case;
//     log.Build(desc, opts) rebuilds the image from a (re-)recorded log. Descriptors are portable
//     between two recordings only if log.Shape() is equal.
//     img.NextOp/NextPath/NextClass  what was in flight at the cut (for signatures)
//
//  4. Materialize. img.Materialize(dir) writes the tree (sparse tails via ftruncate, hard links recreated);
//     the caller then runs its recovery checker on dir with the real open path.
//
// # Writer side
//
//	m, _ := crashfs.OpenMarkers(markerPath)
//	m.Begin(k, opDescription) ; err := realOp() ; m.Ack(k, fmt.Sprint(err))
//
// # Limits
//
// One process tree with a shared fd table is assumed for threads (clone with CLONE_FILES); forked children get
// a copy of the table, but a child that issues syscalls before its clone returns in the log is rejected.
// Event order between concurrent threads is completion order. File content is kept in memory (data up to
// the last written byte; trailing holes are implicit), so histories must stay small. Timestamps, modes and
// ownership are not part of an image.
package crashfs
