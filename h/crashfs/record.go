package crashfs

import (
	"bytes"
	"errors"
	"fmt"
	"os"
	"os/exec"
	"path/filepath"
	"strings"
	"syscall"
)

// ErrNoTrace is returned (wrapped) by Record when strace cannot be run or cannot attach in this environment.
var ErrNoTrace = errors.New("crashfs: syscall tracing is not available")

// RecordSpec describes one recording.
type RecordSpec struct {
	Argv       []string // history writer command
	Env        []string // its environment (nil = inherit)
	DataDir    string   // absolute; must be absent or empty; every file the history touches must live below it
	MarkerFile string   // absolute; outside DataDir; written through Markers
	// KeepLog, if set, is where the raw strace log is left (otherwise it is deleted).
	KeepLog string
}

// StraceArgs returns the strace command line (without the program) for a log file.
func StraceArgs(logPath string) []string {
	return []string{"strace", "-f", "-y", "-xx", "-s", "1048576", "--seccomp-bpf", "-o", logPath, "-e", "trace=" + TraceSet}
}

// Record runs the history writer under strace, parses the log, checks the marker discipline and compares
// the model's final tree with the real data directory. Any mismatch is an error of the harness (the model
// missed something), never a finding.
func Record(spec RecordSpec) (*Log, error) {
	if !filepath.IsAbs(spec.DataDir) || !filepath.IsAbs(spec.MarkerFile) {
		return nil, fmt.Errorf("crashfs: DataDir and MarkerFile must be absolute")
	}
	dd := filepath.Clean(spec.DataDir)
	if mf := filepath.Clean(spec.MarkerFile); mf == dd || strings.HasPrefix(mf, dd+"/") {
		return nil, fmt.Errorf("crashfs: the marker file must be outside the data directory")
	}
	if ents, err := os.ReadDir(dd); err == nil && len(ents) > 0 {
		return nil, fmt.Errorf("crashfs: data directory %s is not empty", dd)
	}
	os.Remove(spec.MarkerFile)
	logPath := spec.KeepLog
	if logPath == "" {
		f, err := os.CreateTemp(filepath.Dir(spec.MarkerFile), "strace-*.log")
		if err != nil {
			return nil, err
		}
		logPath = f.Name()
		f.Close()
		defer os.Remove(logPath)
	}
	args := append(StraceArgs(logPath)[1:], spec.Argv...)
	cmd := exec.Command("strace", args...)
	cmd.Env = spec.Env
	var stderr bytes.Buffer
	cmd.Stdout = &stderr
	cmd.Stderr = &stderr
	if err := cmd.Run(); err != nil {
		msg := tail(stderr.String(), 2000)
		var ee *exec.ExitError
		if !errors.As(err, &ee) || strings.Contains(msg, "PTRACE") || strings.Contains(msg, "ptrace(") || strings.Contains(msg, "Operation not permitted") {
			return nil, fmt.Errorf("%w: %v: %s", ErrNoTrace, err, msg)
		}
		return nil, fmt.Errorf("crashfs: history writer failed: %v: %s", err, msg)
	}
	f, err := os.Open(logPath)
	if err != nil {
		return nil, err
	}
	defer f.Close()
	l, err := ParseLog(f, dd, spec.MarkerFile)
	if err != nil {
		return nil, err
	}
	if fi, err := f.Stat(); err == nil {
		l.RawLogBytes = fi.Size()
	}
	if err := l.Validate(); err != nil {
		return nil, err
	}
	real, err := ReadTree(dd)
	if err != nil {
		return nil, err
	}
	if d := DiffTrees(l.Final, real); d != "" {
		return nil, fmt.Errorf("crashfs: the model's final tree differs from the real data directory (model vs real): %s", d)
	}
	return l, nil
}

func tail(s string, n int) string {
	if len(s) > n {
		return s[len(s)-n:]
	}
	return s
}

func inodeOf(fi os.FileInfo) uint64 {
	if st, ok := fi.Sys().(*syscall.Stat_t); ok {
		return st.Ino
	}
	return 0
}
