package crashfs

import (
	"encoding/json"
	"fmt"
	"os"
	"strings"
)

// Markers is the writer-side handle of the marker file. Every Begin/Ack is exactly one write(2) of one line,
// so the acknowledgement order is part of the same syscall log as the data-dir I/O.
type Markers struct{ f *os.File }

// OpenMarkers opens (creates) the marker file; it must live OUTSIDE the data directory.
func OpenMarkers(path string) (*Markers, error) {
	f, err := os.OpenFile(path, os.O_CREATE|os.O_WRONLY|os.O_APPEND, 0o666)
	if err != nil {
		return nil, err
	}
	return &Markers{f: f}, nil
}

// Begin records that logical operation k (described by v, JSON-encoded on one line) is about to start.
func (m *Markers) Begin(k int, v any) {
	b, err := json.Marshal(v)
	if err != nil {
		panic(err)
	}
	m.line(fmt.Sprintf("BEGIN %d %s\n", k, b))
}

// Ack records that operation k returned to its caller with the given result (one line of text).
func (m *Markers) Ack(k int, result string) {
	m.line(fmt.Sprintf("ACK %d %s\n", k, strings.ReplaceAll(result, "\n", " ")))
}

func (m *Markers) line(s string) {
	if n, err := m.f.Write([]byte(s)); err != nil || n != len(s) {
		panic(fmt.Sprintf("crashfs: marker write failed: %v", err))
	}
}

// Close closes the marker file.
func (m *Markers) Close() error { return m.f.Close() }
