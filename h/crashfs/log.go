package crashfs

import (
	"encoding/json"
	"fmt"
	"io"
	"path"
	"path/filepath"
	"strconv"
	"strings"
)

// Event operations. Only operations that change the image (or the durability bookkeeping, or the
// acknowledgement context) are events; open/close/lseek/dup only update the parser's fd tables.
const (
	OpCreate  = "create"  // a regular file appears at Path (open with O_CREAT, creat)
	OpMkdir   = "mkdir"   // Path ("" = the data directory itself)
	OpRmdir   = "rmdir"   // Path
	OpUnlink  = "unlink"  // Path
	OpRename  = "rename"  // Path -> Path2
	OpLink    = "link"    // Path2 becomes another name of Path's inode
	OpWrite   = "write"   // Data at Off of inode Ino (write, pwrite64, writev, pwritev, copy_file_range, sendfile)
	OpTrunc   = "trunc"   // inode Ino gets size Size (O_TRUNC, ftruncate, truncate, fallocate)
	OpFsync   = "fsync"   // inode Ino is durable (fsync, fdatasync, or a write through an O_SYNC/O_DSYNC fd)
	OpDirSync = "dirsync" // fsync of a directory fd (no effect in the ordered-metadata model; kept as a cut point)
	OpMarker  = "marker"  // BEGIN/ACK line written to the marker file
)

// Event is one step of the recorded history, replayable on an empty model without fd tables.
type Event struct {
	Idx     int     `json:"idx"`
	Op      string  `json:"op"`
	Path    string  `json:"path,omitempty"`  // relative to the data dir; for inode ops: a name of the inode at that time
	Path2   string  `json:"path2,omitempty"` // rename/link target
	Ino     int     `json:"ino,omitempty"`
	Off     int64   `json:"off,omitempty"`
	Data    []byte  `json:"data,omitempty"`
	Size    int64   `json:"size,omitempty"`
	Marker  *Marker `json:"marker,omitempty"`
	Syscall string  `json:"syscall"`
	Pid     int     `json:"pid"`
	Line    int     `json:"line"` // line of the strace log where the call completed
}

// Marker is one line of the marker file.
type Marker struct {
	Kind    string `json:"kind"` // "BEGIN" | "ACK"
	K       int    `json:"k"`
	Payload string `json:"payload"` // op JSON for BEGIN, result text for ACK
}

// Log is a parsed recording.
type Log struct {
	DataDir    string
	MarkerFile string
	Events     []Event
	// Final is the image after all events; Record compares it with the real directory.
	Final []File
	// Stats
	Syscalls    int            // completed syscalls seen in the log
	Ignored     map[string]int // syscalls by name that did not concern the data dir
	Pids        int
	RawLogBytes int64
}

// Markers returns the marker events in order.
func (l *Log) Markers() []Marker {
	var out []Marker
	for i := range l.Events {
		if l.Events[i].Op == OpMarker {
			out = append(out, *l.Events[i].Marker)
		}
	}
	return out
}

// Shape is a digest-able description of the event sequence that does not depend on file names'
// random parts or on pids: op, extension of the path(s), data length. Two recordings of the same
// deterministic history have equal shapes; descriptors are only portable between logs of equal shape.
func (l *Log) Shape() string {
	var b strings.Builder
	for i := range l.Events {
		e := &l.Events[i]
		fmt.Fprintf(&b, "%s:%s:%s:%d:%d;", e.Op, classOf(e.Path), classOf(e.Path2), len(e.Data), e.Size)
		if e.Marker != nil {
			fmt.Fprintf(&b, "%s%d;", e.Marker.Kind, e.Marker.K)
		}
	}
	return b.String()
}

// classOf returns the file class of a path: its last extension including the dot ("", ".wal", ".tmp", …);
// directories and extension-less names give "".
func classOf(p string) string {
	if p == "" {
		return ""
	}
	return path.Ext(path.Base(p))
}

// ParseError is returned for anything in the log the model cannot account for (never ignore silently).
type ParseError struct {
	Line int
	Msg  string
}

func (e *ParseError) Error() string {
	return fmt.Sprintf("crashfs: strace log line %d: %s", e.Line, e.Msg)
}

// ofd is an open file description (shared by dup'ed fds).
type ofd struct {
	n      *node // nil: not under the data dir (foreign) — kept so that dup/close stay consistent
	path   string
	off    int64
	append bool
	sync   bool
	marker bool
}

type fdTable map[int]*ofd

type parser struct {
	dataDir, markerFile string
	fs                  *fsys
	tables              map[int]fdTable // by pid/tid
	rootTable           fdTable
	log                 *Log
}

// ParseLog parses an strace log (flags -f -y -xx, trace set TraceSet) of a history writer that worked on
// dataDir (absolute, initially empty or absent) and wrote markers to markerFile (absolute, outside dataDir).
func ParseLog(r io.Reader, dataDir, markerFile string) (*Log, error) {
	raw, err := parseRaw(r)
	if err != nil {
		return nil, err
	}
	p := &parser{dataDir: filepath.Clean(dataDir), markerFile: filepath.Clean(markerFile), fs: newFS(),
		tables: map[int]fdTable{}, log: &Log{DataDir: dataDir, MarkerFile: markerFile, Ignored: map[string]int{}}}
	p.log.Syscalls = len(raw)
	for i := range raw {
		if err := p.call(&raw[i]); err != nil {
			if pe, ok := err.(*ParseError); ok {
				return nil, pe
			}
			return nil, &ParseError{Line: raw[i].line, Msg: fmt.Sprintf("%s: %v", raw[i].name, err)}
		}
	}
	p.log.Final = p.fs.snapshot()
	p.log.Pids = len(p.tables)
	return p.log, nil
}

func (p *parser) table(pid int) fdTable {
	if t, ok := p.tables[pid]; ok {
		return t
	}
	// unknown pid: first process, or a thread whose clone has not returned yet in the log → shares the root table
	if p.rootTable == nil {
		p.rootTable = fdTable{}
	}
	p.tables[pid] = p.rootTable
	return p.rootTable
}

// rel returns the path relative to the data dir and whether abs is inside it.
func (p *parser) rel(abs string) (string, bool) {
	abs = filepath.Clean(abs)
	if abs == p.dataDir {
		return "", true
	}
	if strings.HasPrefix(abs, p.dataDir+"/") {
		return abs[len(p.dataDir)+1:], true
	}
	return "", false
}

func (p *parser) inside(abs string) bool { _, ok := p.rel(abs); return ok }

// resolve makes a path argument absolute using the dirfd annotation.
func (p *parser) resolve(dirArg, pathArg string) (string, error) {
	b, trunc, err := unhex(pathArg)
	if err != nil {
		return "", err
	}
	if trunc {
		return "", fmt.Errorf("path argument truncated by strace")
	}
	s := string(b)
	if strings.HasPrefix(s, "/") {
		return filepath.Clean(s), nil
	}
	if dirArg == "" {
		return "", fmt.Errorf("relative path %q in a syscall without dirfd (cwd is not tracked)", s)
	}
	_, dp, _, err := fdArg(dirArg)
	if err != nil {
		return "", err
	}
	if dp == "" {
		return "", fmt.Errorf("relative path %q and dirfd %q without path annotation (strace -y required)", s, dirArg)
	}
	return filepath.Clean(filepath.Join(dp, s)), nil
}

func (p *parser) emit(c *rawCall, e Event) error {
	e.Idx = len(p.log.Events)
	e.Syscall, e.Pid, e.Line = c.name, c.pid, c.line
	if err := p.fs.apply(&e, -1); err != nil {
		return fmt.Errorf("model out of step with the recording: %v", err)
	}
	p.log.Events = append(p.log.Events, e)
	return nil
}

// fdOf returns the open file description for an fd argument, cross-checking the -y annotation.
// ok=false means the fd is not one of ours and does not point into the data dir.
func (p *parser) fdOf(c *rawCall, arg string) (*ofd, bool, error) {
	fd, ann, deleted, err := fdArg(arg)
	if err != nil {
		return nil, false, err
	}
	o := p.table(c.pid)[fd]
	annInside := ann != "" && (p.inside(ann) || filepath.Clean(ann) == p.markerFile)
	if o == nil {
		if annInside {
			return nil, false, fmt.Errorf("fd %d refers to %q but its open was not seen (fd table out of step)", fd, ann)
		}
		return nil, false, nil
	}
	if o.n == nil && !o.marker {
		if annInside {
			return nil, false, fmt.Errorf("fd %d is modelled as foreign but strace says %q", fd, ann)
		}
		return o, false, nil
	}
	if o.n != nil && ann != "" && !deleted {
		// the annotation must be a current name of the inode
		r, in := p.rel(ann)
		if !in || p.fs.lookup(r) != o.n {
			return nil, false, fmt.Errorf("fd %d: strace says %q, the model has inode %d (%q)", fd, ann, o.n.id, p.fs.pathOf(o.n))
		}
	}
	return o, true, nil
}

func (p *parser) call(c *rawCall) (err error) {
	defer func() {
		if r := recover(); r != nil {
			// too few arguments (a call cut short at the end of the log) or a shape this parser does not know
			err = fmt.Errorf("cannot interpret the arguments %q (result %q): %v", c.args, c.ret, r)
		}
	}()
	switch c.name {
	case "openat", "open", "creat", "openat2":
		return p.open(c)
	case "close":
		if c.failed() {
			return nil
		}
		fd, _, _, err := fdArg(c.args[0])
		if err != nil {
			return err
		}
		delete(p.table(c.pid), fd)
		return nil
	case "dup", "dup2", "dup3", "fcntl":
		return p.dup(c)
	case "write", "pwrite64", "writev", "pwritev", "pwritev2":
		return p.write(c)
	case "lseek":
		if c.failed() {
			return nil
		}
		o, ours, err := p.fdOf(c, c.args[0])
		if err != nil || o == nil || (!ours && !o.marker) {
			return err
		}
		v, ok := c.retInt()
		if !ok {
			return fmt.Errorf("lseek: unreadable result %q", c.ret)
		}
		o.off = v
		return nil
	case "ftruncate", "truncate", "fallocate":
		return p.trunc(c)
	case "fsync", "fdatasync":
		if c.ret == "?" {
			return p.unknownResult(c, c.args[0])
		}
		if c.failed() {
			return nil
		}
		o, ours, err := p.fdOf(c, c.args[0])
		if err != nil || !ours || o.marker {
			if err == nil {
				p.log.Ignored[c.name]++
			}
			return err
		}
		if o.n.dir {
			return p.emit(c, Event{Op: OpDirSync, Path: p.fs.pathOf(o.n), Ino: o.n.id})
		}
		return p.emit(c, Event{Op: OpFsync, Path: p.fs.pathOf(o.n), Ino: o.n.id})
	case "sync_file_range", "splice", "io_uring_setup", "io_submit":
		if c.name == "io_uring_setup" || c.name == "io_submit" {
			return fmt.Errorf("asynchronous I/O interface used by the writer: not modelled")
		}
		for _, a := range c.args {
			if strings.Contains(a, "<") {
				if _, ann, _, err := fdArg(a); err == nil && ann != "" && p.inside(ann) {
					return fmt.Errorf("%s on a data-dir file is not modelled", c.name)
				}
			}
		}
		p.log.Ignored[c.name]++
		return nil
	case "copy_file_range", "sendfile":
		return p.copyRange(c)
	case "mmap":
		return p.mmap(c)
	case "rename", "renameat", "renameat2", "link", "linkat", "unlink", "unlinkat", "mkdir", "mkdirat", "rmdir",
		"symlink", "symlinkat":
		return p.dirop(c)
	case "clone", "clone3", "fork", "vfork":
		return p.clone(c)
	case "chdir", "fchdir":
		// cwd only matters for relative paths, which are resolved from AT_FDCWD annotations or rejected.
		return nil
	}
	return fmt.Errorf("syscall %q is in the trace set but has no handler", c.name)
}

func (p *parser) unknownResult(c *rawCall, fdarg string) error {
	if _, ann, _, err := fdArg(fdarg); err == nil && ann != "" && !p.inside(ann) && filepath.Clean(ann) != p.markerFile {
		return nil
	}
	return fmt.Errorf("%s did not complete in the log (result %q %s): its effect is unknown", c.name, c.ret, c.errno)
}

func (p *parser) clone(c *rawCall) error {
	if c.failed() || c.ret == "?" {
		return nil
	}
	child64, ok := c.retInt()
	if !ok {
		return nil
	}
	child := int(child64)
	if child == 0 {
		return nil
	}
	shares := false
	if c.name == "clone" || c.name == "clone3" {
		for _, a := range c.args {
			if strings.Contains(a, "CLONE_FILES") {
				shares = true
			}
		}
	}
	parent := p.table(c.pid)
	if existing, seen := p.tables[child]; seen {
		// the child already issued syscalls before the parent's clone returned; it was given the root table
		if !shares {
			return fmt.Errorf("process %d (forked without CLONE_FILES) issued syscalls before its creation was logged: not modelled", child)
		}
		_ = existing
		p.tables[child] = parent
		return nil
	}
	if shares {
		p.tables[child] = parent
	} else {
		cp := fdTable{}
		for k, v := range parent {
			cp[k] = v // a forked child shares open file descriptions but has its own fd numbers
		}
		p.tables[child] = cp
	}
	return nil
}

func (p *parser) open(c *rawCall) error {
	var dirArg, pathArg, flags string
	switch c.name {
	case "openat":
		dirArg, pathArg, flags = c.args[0], c.args[1], c.args[2]
	case "open":
		pathArg, flags = c.args[0], c.args[1]
	case "creat":
		pathArg, flags = c.args[0], "O_CREAT|O_WRONLY|O_TRUNC"
	case "openat2":
		dirArg, pathArg = c.args[0], c.args[1]
		abs, err := p.resolve(dirArg, pathArg)
		if err == nil && !p.inside(abs) && abs != p.markerFile {
			p.log.Ignored[c.name]++
			return nil
		}
		return fmt.Errorf("openat2 on the data dir is not modelled")
	}
	if len(pathArg) > 0 && pathArg[0] != '"' { // NULL pointer etc.
		return nil
	}
	abs, err := p.resolve(dirArg, pathArg)
	if err != nil {
		if c.failed() {
			return nil
		}
		return err
	}
	rel, in := p.rel(abs)
	isMarker := abs == p.markerFile
	if c.ret == "?" {
		if in || isMarker {
			return fmt.Errorf("open of %q did not complete in the log", abs)
		}
		return nil
	}
	if c.failed() {
		return nil
	}
	fd64, ok := c.retInt()
	if !ok {
		return fmt.Errorf("unreadable fd %q", c.ret)
	}
	fd := int(fd64)
	t := p.table(c.pid)
	if !in && !isMarker {
		t[fd] = &ofd{path: abs}
		p.log.Ignored[c.name]++
		return nil
	}
	o := &ofd{path: abs, append: hasFlag(flags, "O_APPEND"), sync: hasFlag(flags, "O_SYNC") || hasFlag(flags, "O_DSYNC"), marker: isMarker}
	if isMarker {
		t[fd] = o
		return nil
	}
	if hasFlag(flags, "O_TMPFILE") || hasFlag(flags, "O_PATH") && hasFlag(flags, "O_CREAT") {
		return fmt.Errorf("open flags %s on the data dir are not modelled", flags)
	}
	n := p.fs.lookup(rel)
	if n == nil {
		if !hasFlag(flags, "O_CREAT") {
			return fmt.Errorf("open of %q succeeded without O_CREAT but the model has no such file", rel)
		}
		if err := p.emit(c, Event{Op: OpCreate, Path: rel, Ino: p.fs.nextID}); err != nil {
			return err
		}
		n = p.fs.lookup(rel)
	} else {
		if hasFlag(flags, "O_CREAT") && hasFlag(flags, "O_EXCL") {
			return fmt.Errorf("open of %q with O_CREAT|O_EXCL succeeded but the model already has the file", rel)
		}
		if hasFlag(flags, "O_TRUNC") && !n.dir && n.size != 0 {
			if err := p.emit(c, Event{Op: OpTrunc, Path: rel, Ino: n.id, Size: 0}); err != nil {
				return err
			}
		}
	}
	o.n = n
	t[fd] = o
	return nil
}

func (p *parser) dup(c *rawCall) error {
	if c.failed() || c.ret == "?" {
		return nil
	}
	if c.name == "fcntl" {
		if len(c.args) < 2 || !strings.HasPrefix(c.args[1], "F_DUPFD") {
			return nil
		}
	}
	fd, _, _, err := fdArg(c.args[0])
	if err != nil {
		return err
	}
	nfd64, ok := c.retInt()
	if !ok {
		return fmt.Errorf("unreadable fd %q", c.ret)
	}
	t := p.table(c.pid)
	o, _, err := p.fdOf(c, c.args[0])
	if err != nil {
		return err
	}
	if o == nil {
		o = t[fd]
	}
	if o == nil {
		delete(t, int(nfd64)) // dup of an fd we never saw (stdin etc.): the target number is now foreign
		return nil
	}
	t[int(nfd64)] = o
	return nil
}

func (p *parser) write(c *rawCall) error {
	if c.ret == "?" {
		return p.unknownResult(c, c.args[0])
	}
	if c.failed() {
		return nil
	}
	o, ours, err := p.fdOf(c, c.args[0])
	if err != nil {
		return err
	}
	if !ours && (o == nil || !o.marker) {
		p.log.Ignored[c.name]++
		return nil
	}
	n64, ok := c.retInt()
	if !ok {
		return fmt.Errorf("unreadable result %q", c.ret)
	}
	var data []byte
	var trunc bool
	off := int64(-1)
	switch c.name {
	case "write":
		data, trunc, err = unhex(c.args[1])
	case "pwrite64":
		data, trunc, err = unhex(c.args[1])
		if err == nil {
			off, err = strconv.ParseInt(c.args[3], 0, 64)
		}
	case "writev":
		data, trunc, err = iovData(c.args[1])
	case "pwritev", "pwritev2":
		data, trunc, err = iovData(c.args[1])
		if err == nil {
			off, err = strconv.ParseInt(c.args[3], 0, 64)
		}
	}
	if err != nil {
		return err
	}
	if trunc || int64(len(data)) < n64 {
		return fmt.Errorf("payload of a %d-byte write was truncated by strace (raise -s)", n64)
	}
	data = data[:n64]
	if o.marker {
		return p.marker(c, data)
	}
	if o.n.dir {
		return fmt.Errorf("write to a directory fd")
	}
	positional := off >= 0
	if o.append { // Linux: O_APPEND wins even for pwrite
		off = o.n.size
	} else if !positional {
		off = o.off
	}
	if err := p.emit(c, Event{Op: OpWrite, Path: p.fs.pathOf(o.n), Ino: o.n.id, Off: off, Data: data}); err != nil {
		return err
	}
	if !positional {
		o.off = off + n64
	}
	if o.sync {
		return p.emit(c, Event{Op: OpFsync, Path: p.fs.pathOf(o.n), Ino: o.n.id})
	}
	return nil
}

func (p *parser) marker(c *rawCall, data []byte) error {
	s := strings.TrimRight(string(data), "\n")
	if strings.Contains(s, "\n") {
		return fmt.Errorf("marker write contains more than one line: %q", s)
	}
	f := strings.SplitN(s, " ", 3)
	if len(f) < 2 || (f[0] != "BEGIN" && f[0] != "ACK") {
		return fmt.Errorf("malformed marker %q", s)
	}
	k, err := strconv.Atoi(f[1])
	if err != nil {
		return fmt.Errorf("malformed marker %q", s)
	}
	m := &Marker{Kind: f[0], K: k}
	if len(f) == 3 {
		m.Payload = f[2]
	}
	return p.emit(c, Event{Op: OpMarker, Marker: m})
}

func (p *parser) trunc(c *rawCall) error {
	if c.name == "truncate" {
		abs, err := p.resolve("", c.args[0])
		if err != nil {
			if c.failed() {
				return nil
			}
			return err
		}
		rel, in := p.rel(abs)
		if !in {
			p.log.Ignored[c.name]++
			return nil
		}
		if c.ret == "?" {
			return fmt.Errorf("truncate of %q did not complete in the log", rel)
		}
		if c.failed() {
			return nil
		}
		n := p.fs.lookup(rel)
		if n == nil || n.dir {
			return fmt.Errorf("truncate of %q: not a file in the model", rel)
		}
		sz, err := strconv.ParseInt(c.args[1], 0, 64)
		if err != nil {
			return err
		}
		return p.emit(c, Event{Op: OpTrunc, Path: rel, Ino: n.id, Size: sz})
	}
	if c.ret == "?" {
		return p.unknownResult(c, c.args[0])
	}
	if c.failed() {
		return nil
	}
	o, ours, err := p.fdOf(c, c.args[0])
	if err != nil {
		return err
	}
	if !ours || o.marker {
		p.log.Ignored[c.name]++
		return nil
	}
	if c.name == "ftruncate" {
		sz, err := strconv.ParseInt(c.args[1], 0, 64)
		if err != nil {
			return err
		}
		return p.emit(c, Event{Op: OpTrunc, Path: p.fs.pathOf(o.n), Ino: o.n.id, Size: sz})
	}
	// fallocate(fd, mode, offset, len)
	mode := strings.TrimSpace(c.args[1])
	if mode != "0" {
		return fmt.Errorf("fallocate mode %s on a data-dir file is not modelled", mode)
	}
	a, err1 := strconv.ParseInt(c.args[2], 0, 64)
	b, err2 := strconv.ParseInt(c.args[3], 0, 64)
	if err1 != nil || err2 != nil {
		return fmt.Errorf("fallocate: unreadable arguments")
	}
	if a+b <= o.n.size {
		return nil
	}
	return p.emit(c, Event{Op: OpTrunc, Path: p.fs.pathOf(o.n), Ino: o.n.id, Size: a + b})
}

func (p *parser) copyRange(c *rawCall) error {
	var inArg, outArg, offIn, offOut string
	if c.name == "copy_file_range" { // (fd_in, off_in, fd_out, off_out, len, flags)
		inArg, offIn, outArg, offOut = c.args[0], c.args[1], c.args[2], c.args[3]
	} else { // sendfile(out_fd, in_fd, offset, count)
		outArg, inArg, offIn, offOut = c.args[0], c.args[1], c.args[2], "NULL"
	}
	out, oursOut, err := p.fdOf(c, outArg)
	if err != nil {
		return err
	}
	in, oursIn, err := p.fdOf(c, inArg)
	if err != nil {
		return err
	}
	if !oursOut {
		// reading from a data file into something foreign moves the source offset only
		if oursIn && !c.failed() && offIn == "NULL" {
			if v, ok := c.retInt(); ok {
				in.off += v
			}
		}
		p.log.Ignored[c.name]++
		return nil
	}
	if c.ret == "?" {
		return fmt.Errorf("%s into a data-dir file did not complete in the log", c.name)
	}
	if c.failed() {
		return nil
	}
	if out.marker {
		return fmt.Errorf("%s into the marker file", c.name)
	}
	if !oursIn || in.n == nil || in.n.dir {
		return fmt.Errorf("%s into a data-dir file from a source outside the model: content unknown", c.name)
	}
	if offIn != "NULL" || offOut != "NULL" {
		return fmt.Errorf("%s with explicit offsets is not modelled", c.name)
	}
	n64, ok := c.retInt()
	if !ok {
		return fmt.Errorf("unreadable result %q", c.ret)
	}
	if n64 == 0 {
		return nil
	}
	src := make([]byte, n64)
	if in.off < int64(len(in.n.data)) {
		copy(src, in.n.data[in.off:])
	}
	if in.off+n64 > in.n.size {
		return fmt.Errorf("%s copied %d bytes from offset %d of a %d-byte file in the model", c.name, n64, in.off, in.n.size)
	}
	off := out.off
	if out.append {
		off = out.n.size
	}
	if err := p.emit(c, Event{Op: OpWrite, Path: p.fs.pathOf(out.n), Ino: out.n.id, Off: off, Data: src}); err != nil {
		return err
	}
	in.off += n64
	out.off = off + n64
	return nil
}

func (p *parser) mmap(c *rawCall) error {
	if len(c.args) < 5 || c.failed() {
		return nil
	}
	if !strings.Contains(c.args[4], "<") {
		p.log.Ignored[c.name]++
		return nil
	}
	_, ann, _, err := fdArg(c.args[4])
	if err != nil {
		return err
	}
	if ann == "" || !p.inside(ann) {
		p.log.Ignored[c.name]++
		return nil
	}
	if hasFlag(c.args[2], "PROT_WRITE") && hasFlag(c.args[3], "MAP_SHARED") {
		return fmt.Errorf("writable shared mapping of data-dir file %q: stores through it are invisible to the syscall log", ann)
	}
	return nil
}

func (p *parser) dirop(c *rawCall) error {
	a := c.args
	var op string
	var d1, p1, d2, p2 string
	switch c.name {
	case "rename":
		op, p1, p2 = OpRename, a[0], a[1]
	case "renameat":
		op, d1, p1, d2, p2 = OpRename, a[0], a[1], a[2], a[3]
	case "renameat2":
		op, d1, p1, d2, p2 = OpRename, a[0], a[1], a[2], a[3]
	case "link":
		op, p1, p2 = OpLink, a[0], a[1]
	case "linkat":
		op, d1, p1, d2, p2 = OpLink, a[0], a[1], a[2], a[3]
	case "unlink":
		op, p1 = OpUnlink, a[0]
	case "unlinkat":
		op, d1, p1 = OpUnlink, a[0], a[1]
		if len(a) > 2 && hasFlag(a[2], "AT_REMOVEDIR") {
			op = OpRmdir
		}
	case "mkdir":
		op, p1 = OpMkdir, a[0]
	case "mkdirat":
		op, d1, p1 = OpMkdir, a[0], a[1]
	case "rmdir":
		op, p1 = OpRmdir, a[0]
	case "symlink":
		op, p1 = "symlink", a[1]
	case "symlinkat":
		op, d1, p1 = "symlink", a[1], a[2]
	}
	abs1, err := p.resolve(d1, p1)
	if err != nil {
		if c.failed() {
			return nil
		}
		return err
	}
	rel1, in1 := p.rel(abs1)
	var rel2 string
	in2 := false
	if p2 != "" {
		abs2, err := p.resolve(d2, p2)
		if err != nil {
			if c.failed() {
				return nil
			}
			return err
		}
		rel2, in2 = p.rel(abs2)
	}
	if !in1 && !in2 {
		p.log.Ignored[c.name]++
		return nil
	}
	if c.ret == "?" {
		return fmt.Errorf("%s on the data dir did not complete in the log", c.name)
	}
	if c.failed() {
		return nil
	}
	if op == "symlink" {
		return fmt.Errorf("symlink inside the data dir is not modelled")
	}
	if p2 != "" && in1 != in2 {
		return fmt.Errorf("%s across the data-dir boundary (%q -> %q) is not modelled", c.name, abs1, rel2)
	}
	if c.name == "renameat2" && len(a) > 4 && strings.TrimSpace(a[4]) != "0" && !hasFlag(a[4], "RENAME_NOREPLACE") {
		return fmt.Errorf("renameat2 flags %s are not modelled", a[4])
	}
	if c.name == "linkat" && len(a) > 4 && strings.TrimSpace(a[4]) != "0" {
		return fmt.Errorf("linkat flags %s are not modelled", a[4])
	}
	e := Event{Op: op, Path: rel1, Path2: rel2}
	switch op {
	case OpMkdir:
		if rel1 == "" {
			return nil // the data directory itself
		}
		e.Ino = p.fs.nextID
	case OpRename:
		if rel1 == "" || rel2 == "" {
			return fmt.Errorf("rename of the data directory itself is not modelled")
		}
	}
	return p.emit(c, e)
}

// MarshalJSON keeps event dumps readable: data as length + hex prefix.
func (e Event) MarshalJSON() ([]byte, error) {
	type alias struct {
		Idx     int     `json:"idx"`
		Op      string  `json:"op"`
		Path    string  `json:"path,omitempty"`
		Path2   string  `json:"path2,omitempty"`
		Ino     int     `json:"ino,omitempty"`
		Off     int64   `json:"off,omitempty"`
		Len     int     `json:"len,omitempty"`
		Size    int64   `json:"size,omitempty"`
		Marker  *Marker `json:"marker,omitempty"`
		Syscall string  `json:"syscall"`
	}
	return json.Marshal(alias{e.Idx, e.Op, e.Path, e.Path2, e.Ino, e.Off, len(e.Data), e.Size, e.Marker, e.Syscall})
}
