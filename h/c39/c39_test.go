// C39: concurrent shard operations stay race-free and consistent.
//
// Engine: vsched on a REAL tsdb.Shard (tsm1 engine, tsi1 index, series file, WAL on /dev/shm; background
// compaction goroutines enabled as in production; tsdb/shard.go and every file of tsm1 and tsi1 that uses
// sync compiled against the modelled sync/atomic). Two or three shard operations run concurrently from one
// of three storage layouts; EVERY schedule with <= B deviations from the default schedule is executed on
// the real code. Oracle: no panic, no deadlock (scheduler: nothing enabled within the fake-time horizon;
// real-time watchdog for goroutines stuck where the scheduler cannot see them), every thread finishes;
// operations fail only for a documented reason; the recorded call/return history, extended with three
// sequential reads after the run (right after, after a later cache snapshot, after a restart), is
// linearizable per point w.r.t. a map model with range delete; a successful CreateSnapshot counts as a read
// of the snapshot's content; a series with points is listed by the index. A free-running repetition of
// every scenario body (no scheduler) is a smoke pass.
package c39

import (
	"archive/tar"
	"bytes"
	"context"
	"encoding/json"
	"fmt"
	"io"
	"math"
	"os"
	"os/exec"
	"path/filepath"
	"regexp"
	"runtime"
	"runtime/debug"
	"sort"
	"strings"
	"sync"
	"sync/atomic"
	"testing"
	"testing/synctest"
	"time"

	"github.com/influxdata/influxdb/v2/models"
	"github.com/influxdata/influxdb/v2/pkg/limiter"
	"github.com/influxdata/influxdb/v2/pkg/verifrt/vrt"
	"github.com/influxdata/influxdb/v2/tsdb"
	_ "github.com/influxdata/influxdb/v2/tsdb/engine"
	"github.com/influxdata/influxdb/v2/tsdb/engine/tsm1"
	_ "github.com/influxdata/influxdb/v2/tsdb/index"
	"github.com/influxdata/influxdb/v2/tsdb/index/tsi1"
	"github.com/influxdata/influxql"
	"verif/h/vlib"
)

const (
	s1  = "cpu,host=a"
	s2  = "cpu,host=b"
	s3  = "mem,host=c" // series of a measurement that does not exist yet: written only by "write-new"
	fld = "v"

	delMin, delMax = 2, 3 // the concurrent range delete removes s1 [2,3]
	knownC03Sig    = "deleted-point-returned/point-in-cache-snapshot-taken-before-Cache.DeleteRange"
)

// ---------------------------------------------------------------------------------------------------
// fixture: a real tsdb.Shard wired like tsdb.Store does it (copied and extended from engkit/shardkit)

type Pt struct {
	T int64   `json:"t"`
	V float64 `json:"v"`
}

type idSets struct{ sh *tsdb.Shard }

func (o *idSets) ForEach(fn func(ids *tsdb.SeriesIDSet)) error {
	if o.sh == nil {
		return nil
	}
	idx, err := o.sh.Index()
	if err != nil {
		return nil
	}
	fn(idx.SeriesIDSet())
	return nil
}

type fixture struct {
	dir string
	sf  *tsdb.SeriesFile
	sh  *tsdb.Shard
}

func shardPath(dir string) string { return filepath.Join(dir, "data", "db0", "rp0", "1") }
func walPath(dir string) string   { return filepath.Join(dir, "wal", "db0", "rp0", "1") }

func openFix(dir string) (*fixture, error) {
	sdir := filepath.Join(dir, "data", "db0", tsdb.SeriesFileDirectory)
	if err := os.MkdirAll(filepath.Dir(sdir), 0o777); err != nil {
		return nil, err
	}
	sf := tsdb.NewSeriesFile(sdir)
	if err := sf.Open(); err != nil {
		return nil, err
	}
	sh, err := newShard(dir, sf)
	if err != nil {
		sf.Close()
		return nil, err
	}
	return &fixture{dir: dir, sf: sf, sh: sh}, nil
}

// newShard opens the shard of dir on the (open) series file sf.
func newShard(dir string, sf *tsdb.SeriesFile) (*tsdb.Shard, error) {
	opt := tsdb.NewEngineOptions()
	opt.Config.Dir = filepath.Join(dir, "data")
	opt.Config.WALDir = filepath.Join(dir, "wal")
	opt.MetricsDisabled = true
	opt.MonitorDisabled = true
	opt.OpenLimiter = limiter.NewFixed(4)
	opt.CompactionLimiter = limiter.NewFixed(4)
	opt.OptimizedCompactionLimiter = limiter.NewFixed(1)
	own := &idSets{}
	opt.SeriesIDSets = own
	tsi1.DefaultPartitionN = 1
	sh := tsdb.NewShard(1, shardPath(dir), walPath(dir), sf, opt)
	own.sh = sh
	if err := sh.Open(context.Background()); err != nil {
		return nil, err
	}
	return sh, nil
}

// closeShard closes the shard. stale is the engine the shard had when the threads ran: a delete that
// finishes after Shard.Close restarts that engine's compaction goroutine (reported in the outcome class);
// it is stopped here so that the execution leaves no goroutine behind.
func (f *fixture) closeShard(stale *tsm1.Engine) (err error, compactorLeft bool) {
	err = f.sh.Close()
	if stale != nil {
		compactorLeft = stale.VerifLevelCompactionsRunning()
		stale.SetCompactionsEnabled(false)
	}
	return err, compactorLeft
}

func (f *fixture) close(stale *tsm1.Engine) error {
	err, _ := f.closeShard(stale)
	f.sf.Close()
	return err
}

// restart closes the shard and opens it again from disk (the series file belongs to the database and stays open).
func (f *fixture) restart(stale *tsm1.Engine) (error, bool) {
	err, left := f.closeShard(stale)
	if err != nil {
		return err, left
	}
	sh, err := newShard(f.dir, f.sf)
	if err != nil {
		return err, left
	}
	f.sh = sh
	return nil, left
}

func engineOf(sh *tsdb.Shard) (*tsm1.Engine, error) {
	e, err := sh.Engine()
	if err != nil {
		return nil, err
	}
	te, ok := e.(*tsm1.Engine)
	if !ok {
		return nil, fmt.Errorf("engine of type %T", e)
	}
	return te, nil
}

// writePts writes the points of ONE series in one Shard.WritePoints call (one key per WriteMulti).
func writePts(sh *tsdb.Shard, series string, pts ...Pt) error {
	name, tags := models.ParseKey([]byte(series))
	var ps []models.Point
	for _, p := range pts {
		mp, err := models.NewPoint(name, tags, models.Fields{fld: p.V}, time.Unix(0, p.T))
		if err != nil {
			return err
		}
		ps = append(ps, mp)
	}
	return sh.WritePoints(context.Background(), ps)
}

type seriesElem struct {
	name []byte
	tags models.Tags
}

func (e seriesElem) Name() []byte        { return e.name }
func (e seriesElem) Tags() models.Tags   { return e.tags }
func (e seriesElem) Deleted() bool       { return false }
func (e seriesElem) Expr() influxql.Expr { return nil }

type seriesIter struct {
	keys []string
	i    int
}

func (it *seriesIter) Close() error { return nil }
func (it *seriesIter) Next() (tsdb.SeriesElem, error) {
	if it.i >= len(it.keys) {
		return nil, nil
	}
	name, tags := models.ParseKey([]byte(it.keys[it.i]))
	it.i++
	return seriesElem{[]byte(name), tags}, nil
}

func deleteRange(sh *tsdb.Shard, min, max int64, series string) error {
	return sh.DeleteSeriesRange(context.Background(), &seriesIter{keys: []string{series}}, min, max)
}

// readSeries opens a cursor over the whole time range of series/fld through the public read path, iterates
// it to the end and closes it. With hooks=true there are explicit scheduling points while the cursor is
// open (it holds references on the TSM files it reads from).
func readSeries(sh *tsdb.Shard, series string, hooks bool) ([]Pt, error) {
	name, tags := models.ParseKey([]byte(series))
	ctx := context.Background()
	it, err := sh.CreateCursorIterator(ctx)
	if err != nil {
		return nil, err
	}
	cur, err := it.Next(ctx, &tsdb.CursorRequest{Name: []byte(name), Tags: tags, Field: fld, Ascending: true, StartTime: models.MinNanoTime, EndTime: models.MaxNanoTime})
	if err != nil {
		return nil, err
	}
	if cur == nil {
		return nil, nil
	}
	defer cur.Close()
	fc, ok := cur.(tsdb.FloatArrayCursor)
	if !ok {
		return nil, fmt.Errorf("cursor of type %T", cur)
	}
	var out []Pt
	for {
		if hooks {
			vrt.Hook("read:cursor-open")
		}
		a := fc.Next()
		if a.Len() == 0 {
			break
		}
		for i := range a.Timestamps {
			out = append(out, Pt{a.Timestamps[i], a.Values[i]})
		}
	}
	return out, fc.Err()
}

// indexedSeries lists the series keys the shard's index knows (the way the storage read path enumerates
// series before it opens cursors).
func indexedSeries(sh *tsdb.Shard) (map[string]bool, error) {
	cur, err := sh.CreateSeriesCursor(context.Background(), tsdb.SeriesCursorRequest{}, nil)
	if err != nil {
		return nil, err
	}
	defer cur.Close()
	out := map[string]bool{}
	for {
		row, err := cur.Next()
		if err != nil {
			return nil, err
		}
		if row == nil {
			return out, nil
		}
		out[string(models.MakeKey(row.Name, row.Tags))] = true
	}
}

// readTwo is the read operation of the scenarios: like a query it holds two cursors at once. It opens a
// cursor over s1, then (while that cursor holds its TSM references) a cursor over the control series s2,
// iterates both to the end and closes them; there are explicit scheduling points while cursors are open.
func readTwo(sh *tsdb.Shard) (p1, p2 []Pt, err error) {
	ctx := context.Background()
	open := func(series string) (tsdb.FloatArrayCursor, error) {
		name, tags := models.ParseKey([]byte(series))
		it, err := sh.CreateCursorIterator(ctx)
		if err != nil {
			return nil, err
		}
		cur, err := it.Next(ctx, &tsdb.CursorRequest{Name: []byte(name), Tags: tags, Field: fld, Ascending: true, StartTime: models.MinNanoTime, EndTime: models.MaxNanoTime})
		if err != nil || cur == nil {
			return nil, err
		}
		fc, ok := cur.(tsdb.FloatArrayCursor)
		if !ok {
			cur.Close()
			return nil, fmt.Errorf("cursor of type %T", cur)
		}
		return fc, nil
	}
	drain := func(fc tsdb.FloatArrayCursor) ([]Pt, error) {
		var out []Pt
		if fc == nil {
			return nil, nil
		}
		for {
			vrt.Hook("read:cursor-open")
			a := fc.Next()
			if a.Len() == 0 {
				break
			}
			for i := range a.Timestamps {
				out = append(out, Pt{a.Timestamps[i], a.Values[i]})
			}
		}
		return out, fc.Err()
	}
	c1, err := open(s1)
	if err != nil {
		return nil, nil, err
	}
	if c1 != nil {
		defer c1.Close()
	}
	vrt.Hook("read:cursor-open")
	c2, err := open(s2)
	if err != nil {
		return nil, nil, err
	}
	if c2 != nil {
		defer c2.Close()
	}
	if p1, err = drain(c1); err != nil {
		return nil, nil, err
	}
	if p2, err = drain(c2); err != nil {
		return nil, nil, err
	}
	return p1, p2, nil
}

// readTSMDir returns the points of s1 stored in the TSM files of dir (a snapshot directory), tombstones
// applied, later files overriding earlier ones.
func readTSMDir(dir string) ([]Pt, error) {
	names, err := filepath.Glob(filepath.Join(dir, "*.tsm"))
	if err != nil {
		return nil, err
	}
	sort.Strings(names)
	key := []byte(s1 + "#!~#" + fld)
	m := map[int64]float64{}
	for _, n := range names {
		fh, err := os.Open(n)
		if err != nil {
			return nil, err
		}
		r, err := tsm1.NewTSMReader(fh)
		if err != nil {
			fh.Close()
			return nil, fmt.Errorf("%s: %v", filepath.Base(n), err)
		}
		vals, err := r.ReadAll(key)
		if err != nil {
			r.Close()
			return nil, fmt.Errorf("%s: %v", filepath.Base(n), err)
		}
		for _, v := range vals {
			fv, ok := v.Value().(float64)
			if !ok {
				r.Close()
				return nil, fmt.Errorf("%s: value of type %T", filepath.Base(n), v.Value())
			}
			m[v.UnixNano()] = fv
		}
		r.Close()
	}
	var out []Pt
	for t, v := range m {
		out = append(out, Pt{t, v})
	}
	sort.Slice(out, func(i, j int) bool { return out[i].T < out[j].T })
	return out, nil
}

// untar extracts a Shard.Backup archive into dir (flat).
func untar(b []byte, dir string) error {
	tr := tar.NewReader(bytes.NewReader(b))
	for {
		h, err := tr.Next()
		if err == io.EOF {
			return nil
		}
		if err != nil {
			return err
		}
		if h.Typeflag != tar.TypeReg {
			continue
		}
		data, err := io.ReadAll(tr)
		if err != nil {
			return err
		}
		if err := os.WriteFile(filepath.Join(dir, filepath.Base(h.Name)), data, 0o644); err != nil {
			return err
		}
	}
}

// ---------------------------------------------------------------------------------------------------
// scenarios

type Scenario struct {
	Layout string   `json:"layout"` // cache | tsm+cache | 2tsm+cache
	Ops    []string `json:"ops"`    // thread kinds, see opKinds
}

func (s Scenario) String() string { return "layout=" + s.Layout + ": " + strings.Join(s.Ops, " || ") }
func (s Scenario) opsKey() string {
	o := append([]string(nil), s.Ops...)
	for i := range o {
		if o[i] == "delete-all" {
			o[i] = "delete" // same operation, other range: one signature
		}
	}
	sort.Strings(o)
	return strings.Join(o, "||")
}
func (s Scenario) has(kinds ...string) bool {
	for _, o := range s.Ops {
		for _, k := range kinds {
			if o == k {
				return true
			}
		}
	}
	return false
}

// points written by the two writer kinds (one series, one field => one cache key per call)
var writeA = []Pt{{2, 20}, {4, 40}}
var writeB = []Pt{{2, 21}, {5, 50}}

// write-new writes the first point of a new measurement: the write has to create the measurement, its field
// and the series (Shard.validateSeriesAndFields -> createFieldsAndMeasurements -> saveFieldsAndMeasurements,
// index CreateSeriesListIfNotExists) while it holds the shard's read lock
var writeC = []Pt{{2, 70}}

// initial points of s1 per layout and where they live
func layoutPoints(layout string) (pts []Pt, cacheResident map[int64]bool) {
	pts = []Pt{{1, 1}, {2, 2}, {3, 3}}
	switch layout {
	case "cache":
		cacheResident = map[int64]bool{1: true, 2: true, 3: true}
	default:
		cacheResident = map[int64]bool{3: true}
	}
	return
}

func buildLayout(f *fixture, layout string) error {
	e, err := engineOf(f.sh)
	if err != nil {
		return err
	}
	w := func(series string, pts ...Pt) error { return writePts(f.sh, series, pts...) }
	switch layout {
	case "cache":
		if err := w(s1, Pt{1, 1}, Pt{2, 2}, Pt{3, 3}); err != nil {
			return err
		}
		return w(s2, Pt{1, 1}, Pt{2, 2})
	case "tsm+cache":
		if err := w(s1, Pt{1, 1}, Pt{2, 2}); err != nil {
			return err
		}
		if err := w(s2, Pt{1, 1}); err != nil {
			return err
		}
		if err := e.WriteSnapshot(); err != nil {
			return err
		}
		if err := w(s1, Pt{3, 3}); err != nil {
			return err
		}
		return w(s2, Pt{2, 2})
	case "2tsm+cache":
		if err := w(s1, Pt{1, 1}); err != nil {
			return err
		}
		if err := w(s2, Pt{1, 1}); err != nil {
			return err
		}
		if err := e.WriteSnapshot(); err != nil {
			return err
		}
		if err := w(s1, Pt{2, 2}); err != nil {
			return err
		}
		if err := e.WriteSnapshot(); err != nil {
			return err
		}
		if err := w(s1, Pt{3, 3}); err != nil {
			return err
		}
		return w(s2, Pt{2, 2})
	}
	return fmt.Errorf("unknown layout %q", layout)
}

var layouts = []string{"cache", "tsm+cache", "2tsm+cache"}

// op kinds of the pair family.
// The first operation of a pair is thread 0: with one deviation the second operation runs as a block at
// every branching point of the first, so the operations with the longest internal structure come first.
var pairKinds = []string{"compact-level", "compact-full", "backup", "snapshot", "delete", "read", "write", "write-new", "close"}

func needsTSM(k string) bool { return strings.HasPrefix(k, "compact") }

// pairScenarios. The first operation of a scenario is thread 0, the thread the default schedule runs first;
// with one deviation the other operation runs as a block at a branching point of thread 0.
// thorough = every unordered pair (self-pairs included) on every layout (two deviations cover both orders).
// quick = on the 1-TSM layout every ORDERED pair of different operations plus the self-pairs; on the other two
// layouts both orders of a core set of pairs.
func pairScenarios(thorough bool) []Scenario {
	var out []Scenario
	self := func(a string) (string, bool) {
		switch a {
		case "write":
			return "write2", true // the second writer writes other values
		case "compact-level", "compact-full":
			return "", false // level||full on the same group is the pair (compact-level, compact-full)
		}
		return a, true
	}
	if thorough {
		kinds := append(append([]string(nil), pairKinds...), "delete-all")
		for _, lay := range layouts {
			for i, a := range kinds {
				for j := i; j < len(kinds); j++ {
					b := kinds[j]
					if lay == "cache" && (needsTSM(a) || needsTSM(b)) {
						continue // nothing to compact without a TSM file
					}
					if a == b {
						var ok bool
						if b, ok = self(a); !ok {
							continue
						}
					}
					out = append(out, Scenario{Layout: lay, Ops: []string{a, b}})
				}
			}
		}
		return out
	}
	for _, a := range pairKinds {
		for _, b := range pairKinds {
			if a == b {
				if b2, ok := self(a); ok {
					out = append(out, Scenario{Layout: "tsm+cache", Ops: []string{a, b2}})
				}
				continue
			}
			out = append(out, Scenario{Layout: "tsm+cache", Ops: []string{a, b}})
		}
	}
	for _, b := range []string{"close", "write", "snapshot", "compact-level"} {
		out = append(out, Scenario{Layout: "tsm+cache", Ops: []string{"delete-all", b}}, Scenario{Layout: "tsm+cache", Ops: []string{b, "delete-all"}})
	}
	core := [][2]string{{"snapshot", "delete"}, {"delete", "read"}, {"read", "close"}, {"backup", "close"}, {"delete", "close"},
		{"compact-level", "delete"}, {"compact-level", "read"}, {"compact-full", "snapshot"}}
	for _, lay := range []string{"cache", "2tsm+cache"} {
		for _, p := range core {
			if lay == "cache" && (needsTSM(p[0]) || needsTSM(p[1])) {
				continue
			}
			out = append(out, Scenario{Layout: lay, Ops: []string{p[0], p[1]}}, Scenario{Layout: lay, Ops: []string{p[1], p[0]}})
		}
	}
	return out
}

var tripleOps = [][]string{
	{"delete", "snapshot", "write"},
	{"write", "snapshot", "read"},
	{"delete", "compact-full", "read"},
	{"delete", "backup", "write"},
	{"close", "read", "write"},
	{"close", "delete", "snapshot"},
	{"compact-level", "snapshot", "read"},
	{"write", "write2", "delete"},
	{"tar-backup", "delete", "compact-level"},
	{"close", "compact-full", "backup"},
}

func tripleScenarios(thorough bool) []Scenario {
	var out []Scenario
	for _, lay := range layouts {
		if !thorough && lay != "tsm+cache" {
			continue
		}
		for ti, ops := range tripleOps {
			if !thorough && ti >= 3 {
				continue
			}
			skip := false
			for _, o := range ops {
				if lay == "cache" && needsTSM(o) {
					skip = true
				}
			}
			if !skip {
				out = append(out, Scenario{Layout: lay, Ops: ops})
			}
		}
	}
	return out
}

// extra pairs of the thorough tier: the tar backup (Shard.Backup, skipCacheOk=true) against everything
func tarScenarios() []Scenario {
	var out []Scenario
	for _, lay := range layouts {
		for _, b := range []string{"write", "delete", "snapshot", "compact-level", "close"} {
			if lay == "cache" && needsTSM(b) {
				continue
			}
			out = append(out, Scenario{Layout: lay, Ops: []string{"tar-backup", b}})
		}
	}
	return out
}

// ---------------------------------------------------------------------------------------------------
// one execution

type opRec struct {
	kind      string
	name      string
	thread    int
	call, ret int
	err       string
	pts       []Pt // observation of a read / successful CreateSnapshot
	observed  bool
	ctlPts    []Pt // read: what the second cursor (control series s2) returned
	weakPts   []Pt // content of a tar backup (weak check only)
	weakSeen  bool
	panicked  string
	snapDir   string
	tarBytes  []byte
}

type verdict struct{ sig, msg string }

type result struct {
	verdicts []verdict
	outcome  string
	fatal    bool // deadlock / panic / step cap: fixture abandoned
	diverged bool
	threadG  map[int64]bool // goroutine ids of the operation threads (scheduled mode)
}

var dirRe = regexp.MustCompile(`/dev/shm/[^\s":]*c39-[0-9]+`)
var numRe = regexp.MustCompile(`[0-9]{5,}`)

func errClass(err error) string {
	if err == nil {
		return "ok"
	}
	s := err.Error()
	for _, k := range []string{"engine is closed", "shard is disabled", "snapshot in progress", "snapshots disabled", "compactions disabled", "WAL closed", "file already closed", "closed"} {
		if strings.Contains(s, k) {
			return strings.ReplaceAll(k, " ", "-")
		}
	}
	s = dirRe.ReplaceAllString(s, "$$DIR")
	s = numRe.ReplaceAllString(s, "N")
	if len(s) > 80 {
		s = s[:80]
	}
	return "err:" + s
}

func fmtPts(ps []Pt) string {
	var b strings.Builder
	for _, p := range ps {
		fmt.Fprintf(&b, "%d=%g ", p.T, p.V)
	}
	return strings.TrimSpace(b.String())
}

func topRepoFrame(stack string) string {
	re := regexp.MustCompile(`(?m)^(github\.com/influxdata/influxdb/v2[^\s(]*)\(`)
	for _, m := range re.FindAllStringSubmatch(stack, -1) {
		if !strings.Contains(m[1], "verifrt") {
			return m[1]
		}
	}
	return "?"
}

// body runs one execution of sc: under the scheduler when x != nil, free-running otherwise.
func body(sc Scenario, x *vrt.Exec, res *result) {
	add := func(sig, msg string) { res.verdicts = append(res.verdicts, verdict{sig, msg}) }
	g0 := runtime.NumGoroutine()
	dir := vlib.Scratch("c39-")
	defer os.RemoveAll(dir)
	f, err := openFix(dir)
	if err != nil {
		add("harness", "open: "+err.Error())
		return
	}
	if err := buildLayout(f, sc.Layout); err != nil {
		add("harness", "layout: "+err.Error())
		f.close(nil)
		return
	}
	sh := f.sh
	eng, err := engineOf(sh)
	if err != nil {
		add("harness", "engine: "+err.Error())
		f.close(nil)
		return
	}
	var group tsm1.CompactionGroup
	for _, tf := range eng.FileStore.Files() {
		group = append(group, tf.Path())
	}
	sort.Strings(group)

	var evMu sync.Mutex
	ev := 0
	tick := func() int { evMu.Lock(); ev++; v := ev; evMu.Unlock(); return v }

	recs := make([]*opRec, len(sc.Ops))
	var wg sync.WaitGroup
	for i, kind := range sc.Ops {
		rec := &opRec{kind: kind, name: fmt.Sprintf("%s#%d", kind, i), thread: i}
		recs[i] = rec
		var op func() error
		switch kind {
		case "write":
			op = func() error { return writePts(sh, s1, writeA...) }
		case "write2":
			op = func() error { return writePts(sh, s1, writeB...) }
		case "write-new":
			op = func() error { return writePts(sh, s3, writeC...) }
		case "read":
			op = func() error {
				p1, p2, err := readTwo(sh)
				if err == nil {
					rec.pts, rec.observed = p1, true
					rec.ctlPts = p2
				}
				return err
			}
		case "delete":
			op = func() error { return deleteRange(sh, delMin, delMax, s1) }
		case "delete-all":
			// removes the whole series: the delete then also cleans the index (DropSeries, SeriesIDSets.ForEach)
			op = func() error { return deleteRange(sh, math.MinInt64, math.MaxInt64, s1) }
		case "snapshot":
			// one tick of Engine.compactCache: counted in snapWG like that goroutine
			tickEnd := eng.VerifSnapTickBegin()
			op = func() error {
				defer tickEnd()
				return eng.WriteSnapshot()
			}
		case "compact-level", "compact-full":
			// the goroutine Engine.compact starts for a planned group: counted in e.wg (wg.Add before `go`),
			// runs levelCompactionStrategy / fullCompactionStrategy(group).Apply()
			tickEnd := eng.VerifLevelTickBegin()
			full := kind == "compact-full"
			op = func() error {
				defer tickEnd()
				if full {
					eng.VerifApplyFullCompaction(group)
				} else {
					eng.VerifApplyLevelCompaction(group, false, 1)
				}
				return nil
			}
		case "backup":
			op = func() error {
				p, err := sh.CreateSnapshot(false)
				if err == nil {
					rec.snapDir = p
				}
				return err
			}
		case "tar-backup":
			op = func() error {
				var buf bytes.Buffer
				err := sh.Backup(&buf, "", time.Time{})
				if err == nil {
					rec.tarBytes = buf.Bytes()
				}
				return err
			}
		case "close":
			op = func() error { return sh.Close() }
		default:
			add("harness", "unknown op "+kind)
			f.close(nil)
			return
		}
		fn := func() {
			if res.threadG != nil {
				res.threadG[vrt.GoID()] = true
			}
			vrt.Hook("call:" + rec.name)
			rec.call = tick()
			defer func() {
				if r := recover(); r != nil {
					rec.panicked = fmt.Sprintf("%v @ %s", r, topRepoFrame(string(debug.Stack())))
					rec.ret = tick()
				}
			}()
			err := op()
			rec.ret = tick()
			rec.err = errClass(err)
		}
		if x != nil {
			x.Go(rec.name, fn)
		} else {
			wg.Add(1)
			go func() { defer wg.Done(); fn() }()
		}
	}

	if x != nil {
		x.S.MaxSteps = 20000
		x.Run()
		if x.S.Diverged != "" {
			// the recorded prefix could not be replayed (harness problem, reported by the caller): abandon
			res.fatal, res.diverged = true, true
			x.S.Abort()
			return
		}
		if x.S.Deadlock || x.S.StepCap {
			if x.S.Deadlock {
				// only the operation threads: which background goroutines woke up during the 24h horizon varies.
				// class = where every unfinished operation is stuck (whatever else ran)
				var bl, cause []string
				for _, r := range recs {
					for _, b := range x.S.Blocked {
						if strings.HasPrefix(b, r.name+"(") {
							bl = append(bl, dirRe.ReplaceAllString(b, "$$DIR"))
							w := "blocked-outside-the-scheduler"
							if i := strings.Index(b, "waiting at "); i >= 0 {
								w = b[i+len("waiting at "):]
							}
							k := r.kind
							if k == "delete-all" {
								k = "delete"
							}
							cause = append(cause, k+"@"+w)
						}
					}
				}
				sort.Strings(cause)
				add("deadlock/"+strings.Join(cause, "+"), "nothing is enabled and not every operation finished within the fake-time horizon (24h): "+strings.Join(bl, "; "))
			} else {
				add("livelock/"+sc.opsKey(), "step cap of 20000 scheduling steps reached")
			}
			// parked threads may hold modelled locks: make them exit (deferred unlocks run) and abandon the fixture
			res.fatal = true
			x.S.Abort()
			return
		}
		x.S.Drain()
	} else {
		wg.Wait()
	}
	for _, r := range recs {
		if r.panicked != "" {
			add("panic/"+r.kind, "thread "+r.name+" panicked: "+r.panicked)
			res.fatal = true
		}
	}
	if res.fatal {
		return // locks may be left held by the panicking thread: abandon the fixture
	}
	for _, r := range recs {
		if r.ret == 0 {
			add("thread-did-not-finish/"+r.kind, "thread "+r.name+" never returned")
			res.fatal = true
		}
	}
	if res.fatal {
		return
	}

	// did the compaction replace its group?
	compacted := ""
	if sc.has("compact-level", "compact-full") {
		left := 0
		for _, tf := range eng.FileStore.Files() {
			for _, g := range group {
				if tf.Path() == g {
					left++
				}
			}
		}
		if _, err := sh.Engine(); err != nil {
			compacted = "(shard closed)"
		} else if left == 0 {
			compacted = "(group replaced)"
		} else {
			compacted = "(group kept)"
		}
	}

	// operations fail only for a documented reason: the shard is being / has been closed, or another cache
	// snapshot is in progress
	for _, r := range recs {
		if r.err == "ok" {
			continue
		}
		okErr := false
		for _, o := range recs {
			if o.kind == "close" && o != r && r.ret > o.call {
				okErr = true
			}
			if o != r && r.err == "snapshot-in-progress" && (o.kind == "snapshot" || o.kind == "backup" || o.kind == "tar-backup") &&
				(r.kind == "snapshot" || r.kind == "backup" || r.kind == "tar-backup") {
				okErr = true
			}
		}
		if !okErr {
			add("unexpected-error/"+r.kind+"/"+r.err+"/"+sc.opsKey(), fmt.Sprintf("%s returned the error %q although no Shard.Close overlaps or precedes it", r.name, r.err))
		}
	}

	// content of the snapshots / backups taken by the threads
	for _, r := range recs {
		if r.snapDir != "" {
			pts, err := readTSMDir(r.snapDir)
			os.RemoveAll(r.snapDir)
			if err != nil {
				add("backup-unreadable/"+sc.opsKey(), "CreateSnapshot returned nil but its directory cannot be read: "+dirRe.ReplaceAllString(err.Error(), "$$DIR"))
			} else {
				r.pts, r.observed = pts, true
			}
		}
		if r.tarBytes != nil {
			td := vlib.Scratch("c39-tar-")
			err := untar(r.tarBytes, td)
			var pts []Pt
			if err == nil {
				pts, err = readTSMDir(td)
			}
			os.RemoveAll(td)
			if err != nil {
				add("backup-unreadable/"+sc.opsKey(), "Backup returned nil but its archive cannot be read: "+dirRe.ReplaceAllString(err.Error(), "$$DIR"))
			} else {
				r.weakPts, r.weakSeen = pts, true
			}
		}
	}

	// sequential epilogue: read, later snapshot, read, restart, read
	type post struct {
		when string
		call int
		ret  int
		pts  []Pt
	}
	var posts []post
	idxFlagged := false
	closedNow := false
	if _, err := sh.Engine(); err != nil {
		closedNow = true
	}
	ctl := func(when string, cur *tsdb.Shard) {
		p2, err := readSeries(cur, s2, false)
		if err != nil {
			add("read-error/"+when, "s2: "+errClass(err))
		} else if fmtPts(p2) != "1=1 2=2" {
			add("other-series-affected/"+when+"/"+sc.opsKey(), fmt.Sprintf("control series s2 = [%s], want [1=1 2=2] %s", fmtPts(p2), when))
		}
	}
	// the series of the new measurement: touched by no other operation, so every write-new that returned nil
	// must be readable and listed by the index from then on (a failed one, overlapped by Shard.Close, may or
	// may not have taken effect)
	newSeries := func(when string, cur *tsdb.Shard) {
		if !sc.has("write-new") {
			return
		}
		acked := false
		for _, r := range recs {
			if r.kind == "write-new" && r.err == "ok" {
				acked = true
			}
		}
		p3, err := readSeries(cur, s3, false)
		if err != nil {
			add("read-error/"+when, "s3: "+errClass(err))
			return
		}
		got := fmtPts(p3)
		if got != "2=70" && !(got == "" && !acked) {
			add("new-series-write-lost/"+when+"/"+sc.opsKey(), fmt.Sprintf("series s3 of the new measurement = [%s] %s, want [2=70] (acknowledged write: %v)", got, when, acked))
			return
		}
		if idx, err := indexedSeries(cur); err == nil && got != "" && !idx[s3] {
			add("series-missing-from-index/"+when+"/"+sc.opsKey(), "s3 (new measurement) has its point "+when+" but the index does not list the series")
		}
	}
	rd := func(when string, cur *tsdb.Shard) {
		c := tick()
		pts, err := readSeries(cur, s1, false)
		r := tick()
		if err != nil {
			add("read-error/"+when, "s1: "+errClass(err))
			return
		}
		posts = append(posts, post{when, c, r, pts})
		ctl(when, cur)
		newSeries(when, cur)
		// a series that has points must be known to the index (queries find series through the index)
		if idx, err := indexedSeries(cur); err != nil {
			add("read-error/"+when, "series cursor: "+errClass(err))
		} else {
			if len(pts) > 0 && !idx[s1] && !idxFlagged {
				idxFlagged = true // once per execution: the later phases only repeat it
				add("series-missing-from-index/"+when+"/"+sc.opsKey(), fmt.Sprintf("s1 has the points [%s] %s but the index does not list the series any more (index-driven queries cannot find them)", fmtPts(pts), when))
			}
			if !idx[s2] {
				add("series-missing-from-index/"+when+"/"+sc.opsKey(), "the control series s2 is not listed by the index "+when)
			}
		}
	}
	if !closedNow {
		rd("right-after", sh)
		if err := eng.WriteSnapshot(); err != nil {
			add("later-snapshot-error/"+sc.opsKey(), "a cache snapshot after all threads finished fails: "+errClass(err))
		}
		rd("after-later-snapshot", sh)
	}
	err, compactorLeft := f.restart(eng)
	if err != nil {
		add("reopen-error/"+sc.opsKey(), errClass(err))
		f.sf.Close()
		return
	}
	rd("after-restart", f.sh)
	if err := f.close(nil); err != nil {
		add("close-error/"+sc.opsKey(), errClass(err))
	}
	// the file store's purger (files replaced while a cursor held them) sleeps 1s between sweeps and has no
	// stop: let fake time pass so that it ends before the bubble does
	time.Sleep(5 * time.Second)
	synctest.Wait()
	orphan := false
	if runtime.NumGoroutine() > g0 {
		// A goroutine of the fixture is still alive. The known case: Engine.Close overwrites e.done without
		// closing it when a finishing delete re-enabled level compactions between Close's
		// SetCompactionsEnabled(false) and its e.mu.Lock; the new Engine.compact goroutine can then not be
		// stopped through the engine's API any more (noted in the outcome class). It re-reads e.done on every
		// tick: give it a done channel again and close that one.
		eng.SetCompactionsEnabled(true)
		time.Sleep(3 * time.Second)
		synctest.Wait() // the orphan has finished its tick and re-read e.done
		eng.SetCompactionsEnabled(false)
		time.Sleep(2 * time.Second)
		synctest.Wait()
		orphan = runtime.NumGoroutine() <= g0
	}
	if os.Getenv("C39_DEBUG") != "" && runtime.NumGoroutine() > g0 {
		buf := make([]byte, 1<<20)
		fmt.Fprintf(os.Stderr, "DEBUG LEAK\n%s\n", buf[:runtime.Stack(buf, true)])
	}

	// ---- oracle: per-point linearizability
	initPts, cacheRes := layoutPoints(sc.Layout)
	written := map[int64]map[float64]bool{}
	for _, p := range initPts {
		written[p.T] = map[float64]bool{p.V: true}
	}
	note := func(ps []Pt) {
		for _, p := range ps {
			if written[p.T] == nil {
				written[p.T] = map[float64]bool{}
			}
			written[p.T][p.V] = true
		}
	}
	note(writeA)
	note(writeB)
	chk := func(who string, ps []Pt) {
		seen := map[int64]bool{}
		for _, p := range ps {
			if seen[p.T] {
				add("duplicate-timestamp/"+who, fmt.Sprintf("%s returned t=%d twice: [%s]", who, p.T, fmtPts(ps)))
			}
			seen[p.T] = true
			if !written[p.T][p.V] {
				add("phantom-value/"+who+"/"+sc.opsKey(), fmt.Sprintf("%s returned t=%d v=%g which nobody wrote: [%s]", who, p.T, p.V, fmtPts(ps)))
			}
		}
	}
	for _, r := range recs {
		if r.kind == "read" && r.observed && fmtPts(r.ctlPts) != "1=1 2=2" {
			where := sc.opsKey()
			for _, o := range recs {
				if o.kind == "close" && r.ret > o.call {
					where = "overlaps-Shard.Close"
				}
			}
			add("point-missing/concurrent-read/"+where, fmt.Sprintf("%s: the cursor over the control series s2 (touched by no operation) returned [%s], want [1=1 2=2]", r.name, fmtPts(r.ctlPts)))
		}
		if r.observed {
			chk(r.kind, r.pts)
		}
		if r.weakSeen {
			chk(r.kind, r.weakPts)
		}
	}
	for _, p := range posts {
		chk(p.when, p.pts)
	}
	for t := int64(1); t <= 5; t++ {
		var ops []rop
		for _, r := range recs {
			failed := r.err != "ok"
			switch r.kind {
			case "write", "write2":
				src := writeA
				if r.kind == "write2" {
					src = writeB
				}
				for _, p := range src {
					if p.T == t {
						ops = append(ops, rop{name: r.name, call: r.call, ret: r.ret, kind: opSet, v: p.V, optional: failed})
					}
				}
			case "delete":
				if t >= delMin && t <= delMax {
					ops = append(ops, rop{name: r.name, call: r.call, ret: r.ret, kind: opDel, optional: failed})
				}
			case "delete-all":
				ops = append(ops, rop{name: r.name, call: r.call, ret: r.ret, kind: opDel, optional: failed})
			}
			if r.observed {
				o := rop{name: r.name, call: r.call, ret: r.ret, kind: opObs, phase: "concurrent-" + r.kind}
				for _, p := range r.pts {
					if p.T == t {
						o.present, o.v = true, p.V
					}
				}
				ops = append(ops, o)
			}
		}
		for _, p := range posts {
			o := rop{name: p.when, call: p.call, ret: p.ret, kind: opObs, phase: p.when}
			for _, q := range p.pts {
				if q.T == t {
					o.present, o.v = true, q.V
				}
			}
			ops = append(ops, o)
		}
		var init *float64
		for _, p := range initPts {
			if p.T == t {
				v := p.V
				init = &v
			}
		}
		if bad := firstUnexplained(init, ops); bad != nil {
			kind := classify(init, ops, bad)
			detail := fmt.Sprintf("point s1 t=%d: the history of this point is not linearizable up to the observation %q: init=%s; %s", t, bad.name, fmtInit(init), fmtOps(ops))
			where := sc.opsKey()
			if strings.HasPrefix(bad.phase, "concurrent-") {
				for _, r := range recs {
					if r.kind == "close" && bad.ret > r.call {
						where = "overlaps-Shard.Close" // one class whatever else runs
					}
				}
			}
			sig := kind + "/" + bad.phase + "/" + where
			if kind == "deleted-point-returned" {
				if bad.v == float64(t) && cacheRes[t] {
					detail += " [cache-resident at start]"
				}
				sig += "|v=" + fmt.Sprint(bad.v) // resolved into the final signature by attribute()
			}
			add(sig, detail)
		}
	}

	// ---- outcome class
	var parts []string
	for _, r := range recs {
		p := r.kind + ":" + r.err
		if strings.HasPrefix(r.kind, "compact") {
			p += compacted
		}
		parts = append(parts, p)
	}
	final := "?"
	if n := len(posts); n > 0 {
		final = fmtPts(posts[n-1].pts)
	}
	res.outcome = strings.Join(parts, " ") + " => [" + final + "]"
	if compactorLeft {
		res.outcome += " +Engine.compact goroutine running after Shard.Close"
	}
	if orphan {
		res.outcome += " +orphaned Engine.compact goroutine after Shard.Close"
	}
	if x != nil {
		x.Outcome = res.outcome
	}
}

// ---------------------------------------------------------------------------------------------------
// per-point register model and linearizability search (Wing & Gong)

const (
	opSet = iota
	opDel
	opObs
)

type rop struct {
	name      string
	call, ret int
	kind      int
	v         float64
	present   bool // obs: a value was returned
	optional  bool // the operation returned an error: it may or may not have taken effect
	phase     string
}

func fmtInit(p *float64) string {
	if p == nil {
		return "absent"
	}
	return fmt.Sprint(*p)
}

func fmtOps(ops []rop) string {
	o := append([]rop(nil), ops...)
	sort.Slice(o, func(i, j int) bool { return o[i].call < o[j].call })
	var b []string
	for _, p := range o {
		var what string
		switch p.kind {
		case opSet:
			what = fmt.Sprintf("write(%g)", p.v)
		case opDel:
			what = "delete"
		case opObs:
			if p.present {
				what = fmt.Sprintf("sees %g", p.v)
			} else {
				what = "sees absent"
			}
		}
		if p.optional {
			what += "[failed]"
		}
		b = append(b, fmt.Sprintf("%s %s @[%d,%d]", p.name, what, p.call, p.ret))
	}
	return strings.Join(b, "; ")
}

func linearizable(init *float64, ops []rop) bool {
	n := len(ops)
	done := make([]bool, n)
	var rec func(left int, present bool, v float64) bool
	rec = func(left int, present bool, v float64) bool {
		if left == 0 {
			return true
		}
		for i := 0; i < n; i++ {
			if done[i] {
				continue
			}
			minimal := true
			for j := 0; j < n; j++ {
				if j != i && !done[j] && ops[j].ret < ops[i].call {
					minimal = false
					break
				}
			}
			if !minimal {
				continue
			}
			done[i] = true
			ok := false
			switch ops[i].kind {
			case opSet:
				ok = rec(left-1, true, ops[i].v) || (ops[i].optional && rec(left-1, present, v))
			case opDel:
				ok = rec(left-1, false, 0) || (ops[i].optional && rec(left-1, present, v))
			case opObs:
				if ops[i].present == present && (!present || ops[i].v == v) {
					ok = rec(left-1, present, v)
				}
			}
			done[i] = false
			if ok {
				return true
			}
		}
		return false
	}
	if init != nil {
		return rec(n, true, *init)
	}
	return rec(n, false, 0)
}

// firstUnexplained returns the earliest observation (by call) such that the history restricted to the
// operations called before that observation returned is not linearizable; nil if the whole history is.
func firstUnexplained(init *float64, ops []rop) *rop {
	if linearizable(init, ops) {
		return nil
	}
	var obs []rop
	for _, o := range ops {
		if o.kind == opObs {
			obs = append(obs, o)
		}
	}
	sort.Slice(obs, func(i, j int) bool { return obs[i].ret < obs[j].ret })
	for k := range obs {
		var sub []rop
		for _, o := range ops {
			if o.kind == opObs {
				if o.ret <= obs[k].ret {
					sub = append(sub, o)
				}
			} else if o.call < obs[k].ret {
				// an update still running when the observation returned may or may not have taken effect
				c := o
				if o.ret > obs[k].ret {
					c.optional = true
				}
				sub = append(sub, c)
			}
		}
		if !linearizable(init, sub) {
			return &obs[k]
		}
	}
	return &obs[len(obs)-1]
}

func classify(init *float64, ops []rop, bad *rop) string {
	if !bad.present {
		return "point-missing"
	}
	// who wrote the value that was seen?
	wret := math.MaxInt
	if init != nil && *init == bad.v {
		wret = 0
	}
	for _, o := range ops {
		if o.kind == opSet && o.v == bad.v && o.ret < wret {
			wret = o.ret
		}
	}
	for _, d := range ops {
		if d.kind == opDel && !d.optional && d.call > wret && d.ret < bad.call {
			return "deleted-point-returned"
		}
	}
	return "stale-or-unordered-value"
}

// ---------------------------------------------------------------------------------------------------
// running and exploring

// branchNarrow selects the points at which schedules branch in the main pass: the harness steps and the
// sync/atomic operations of Shard, Engine, Cache, entry and Compactor. All other locks of tsdb/shard.go and
// package tsm1 are modelled too (a contended one disables the thread) but are passed silently when free.
func branchNarrow(kind vrt.OpKind, label string) bool {
	return kind == vrt.OpHook || strings.Contains(label, "(*Shard)") || strings.Contains(label, "(*Engine)") || strings.Contains(label, "(*Cache)") ||
		strings.Contains(label, "(*entry)") || strings.Contains(label, "(*Compactor)") || strings.Contains(label, "(*compactionStrategy)")
}

// branchWide additionally branches at the operations of FileStore (fastMu/slowMu), TSMReader (reference
// counts), KeyCursor, the purger and the WAL.
func branchWide(kind vrt.OpKind, label string) bool {
	return branchNarrow(kind, label) || strings.Contains(label, "(*FileStore)") || strings.Contains(label, "(*TSMReader)") ||
		strings.Contains(label, "(*KeyCursor)") || strings.Contains(label, "(*purger)") || strings.Contains(label, "(*WAL)")
}

// hangTimeout is the real-time watchdog of one execution. Threads blocked on modelled locks are found by
// the scheduler (deadlock verdict); the watchdog is for goroutines blocked where the scheduler cannot see
// them (a real mutex during open / close / the sequential epilogue), which would otherwise hang the worker.
const hangTimeout = 60 * time.Second
const freeHangTimeout = 20 * time.Second // a free-running execution takes well under a second

var fatalTotal int

var freeSeen = map[string]bool{}
var hangSeen = map[string]string{}

// hung: a SCHEDULED execution of this process hangs. Its scheduler stays the active one, so no further
// execution can run in this process. (A free-running execution that hangs only leaves blocked goroutines.)
var hung atomic.Bool

// subReplay replays one case in a child process (the replay of a hang would otherwise poison the parent).
func subReplay(raw json.RawMessage) (bool, string) {
	dir := vlib.Scratch("c39-sub-")
	defer os.RemoveAll(dir)
	b, _ := json.Marshal(map[string]any{"case": raw})
	path := filepath.Join(dir, "case.json")
	if err := os.WriteFile(path, b, 0o644); err != nil {
		return false, err.Error()
	}
	ctx, cancel := context.WithTimeout(context.Background(), 10*time.Minute)
	defer cancel()
	cmd := exec.CommandContext(ctx, os.Args[0], "-test.run", "^TestCheck$", "-test.timeout", "0")
	cmd.Env = append(os.Environ(), "VERIF_REPLAY="+path, "C39_SUBREPLAY=1", "GOMAXPROCS=1")
	out, _ := cmd.Output()
	lines := strings.SplitN(string(out), "\n", 2)
	if len(lines) < 2 || !strings.HasPrefix(lines[0], "replay property=C39 violated=") {
		return false, "replay subprocess gave no result: " + strings.TrimSpace(string(out))
	}
	return strings.HasSuffix(lines[0], "violated=true"), strings.TrimSpace(lines[1])
}

func hangResult(sc Scenario, prefix []int, scheduled bool) (*vrt.Result, *result) {
	if scheduled {
		hung.Store(true) // the stuck execution keeps its scheduler registered as the active one
	}
	if os.Getenv("C39_DUMP") != "" {
		buf := make([]byte, 4<<20)
		fmt.Fprintf(os.Stderr, "HANG %s\n%s\n", sc, buf[:runtime.Stack(buf, true)])
	}
	sig := "hang/" + sc.opsKey()
	if scheduled {
		sig = "hang/scheduled-execution-stuck-outside-the-scheduler" // one class: every replay costs the watchdog
	}
	return &vrt.Result{Choices: prefix}, &result{fatal: true, verdicts: []verdict{{sig,
		"the execution did not finish within the real-time watchdog: goroutines are blocked outside the scheduler (e.g. on a mutex while the shard is opened, closed or read sequentially)"}}}
}

func runScheduled(t *testing.T, sc Scenario, wide bool, prefix []int) (*vrt.Result, *result) {
	res := &result{}
	flt := branchNarrow
	if wide {
		flt = branchWide
	}
	// Schedules branch only at operations executed by the operation threads themselves. The worker goroutines
	// they start (ring.apply, FileStore.Apply, Compactor.write, WAL sync, ...) and the engine's background
	// goroutines are scheduled too, but as forced moves: whenever one of them can take a step it takes it
	// before anything else. An operation therefore runs together with its own workers, and "the other
	// operation runs here" is one deviation at any branching point of the first.
	res.threadG = map[int64]bool{}
	own := res.threadG
	h := &vrt.Harness{Name: sc.String(), DeviationCost: true, Body: func(x *vrt.Exec) { body(sc, x, res) },
		Filter: func(kind vrt.OpKind, label string) bool {
			return flt(kind, label) && (kind == vrt.OpHook || own[vrt.GoID()])
		}}
	ch := make(chan *vrt.Result, 1)
	go func() { ch <- vrt.RunOnce(t, h, prefix) }()
	select {
	case r := <-ch:
		return r, res
	case <-time.After(hangTimeout):
		return hangResult(sc, prefix, true)
	}
}

func runFree(t *testing.T, sc Scenario) *result {
	ch := make(chan *result, 1)
	go func() {
		res := &result{}
		defer func() {
			if r := recover(); r != nil {
				res.verdicts = append(res.verdicts, verdict{"bubble-panic", fmt.Sprint(r)})
				res.fatal = true
			}
			ch <- res
		}()
		synctest.Test(t, func(t *testing.T) { body(sc, nil, res) })
	}()
	select {
	case res := <-ch:
		return res
	case <-time.After(freeHangTimeout):
		_, res := hangResult(sc, nil, false)
		return res
	}
}

// freeSig is the class of a finding of the free-running smoke pass: kind of failure + "overlaps Shard.Close"
// or the operations (no phase, no schedule: there is none).
func freeSig(sc Scenario, sig string) string {
	kind := sig
	if i := strings.Index(sig, "/"); i >= 0 {
		kind = sig[:i]
	}
	where := sc.opsKey()
	if sc.has("close") {
		where = "overlaps-Shard.Close"
	}
	return "free-running/" + kind + "/" + where
}

type Case struct {
	Scenario Scenario `json:"scenario"`
	Choices  []int    `json:"schedule,omitempty"`
	Wide     bool     `json:"wide_filter,omitempty"`
	Free     bool     `json:"free_running,omitempty"`
	Hang     bool     `json:"hang,omitempty"`
	Sig      string   `json:"sig,omitempty"`
	Trace    []string `json:"trace,omitempty"`
}

// attribute turns a raw verdict signature into the reported class signature. Executions in which a point
// that was in the hot cache when a cache snapshot was taken is returned although a delete that began
// after the point's write finished covers it, AND the trace shows Cache.Snapshot before Cache.DeleteRange,
// are the cause already listed for C03 and get the same signature.
func attribute(sc Scenario, v verdict, r *vrt.Result) string {
	sig := v.sig
	if strings.HasPrefix(sig, "series-missing-from-index/") && r != nil {
		// The delete dropped the series from the index because it found no data left although there is some.
		// Without a concurrent writer that can only be data sitting in a cache snapshot while the delete looks
		// at the TSM files and the hot cache (same root cause as the C03 finding, other symptom): a cache
		// snapshot is taken before the delete thread's last step.
		snapAt, delEnd := -1, -1
		for k, s := range r.Steps {
			if snapAt < 0 && strings.Contains(s.Label, "(*Cache).Snapshot:Lock") {
				snapAt = k
			}
			if s.Thread < len(sc.Ops) && strings.HasPrefix(sc.Ops[s.Thread], "delete") {
				delEnd = k
			}
		}
		if snapAt >= 0 && snapAt < delEnd && !sc.has("write", "write2") {
			return "series-missing-from-index/series-data-in-cache-snapshot-during-delete"
		}
		return sig
	}
	i := strings.Index(sig, "|v=")
	if i < 0 {
		return sig
	}
	val := sig[i+3:]
	sig = sig[:i]
	if r == nil {
		return sig
	}
	snapAt, delAt := -1, -1
	writeAt := map[int]int{}
	for k, s := range r.Steps {
		if snapAt < 0 && strings.Contains(s.Label, "(*Cache).Snapshot:Lock") {
			snapAt = k
		}
		if delAt < 0 && strings.Contains(s.Label, "(*Cache).DeleteRange:Lock") {
			delAt = k
		}
		if strings.Contains(s.Label, "(*Cache).WriteMulti") {
			if _, ok := writeAt[s.Thread]; !ok {
				writeAt[s.Thread] = k
			}
		}
	}
	inSnapshot := strings.Contains(v.msg, "[cache-resident at start]")
	if !inSnapshot {
		// written by a writer thread: in the snapshot if its cache write precedes the snapshot
		for ti, o := range sc.Ops {
			src := writeA
			if o == "write2" {
				src = writeB
			} else if o != "write" {
				continue
			}
			for _, p := range src {
				if fmt.Sprint(p.V) == val {
					if w, ok := writeAt[ti]; ok && snapAt >= 0 && w < snapAt {
						inSnapshot = true
					}
				}
			}
		}
	}
	if inSnapshot && snapAt >= 0 && (delAt < 0 || snapAt < delAt) {
		return knownC03Sig
	}
	return sig
}

type stats struct {
	Executions, Nodes, Transitions int64
	Complete                       bool
}

// explore enumerates every schedule of sc with <= bound deviations (DFS over choice prefixes, every
// execution runs to completion). Sharding: every worker runs the root execution (needed to enumerate its
// children) but only the scenario's owner visits it; the subtrees below the root's children are dealt
// round-robin over the workers through *ctr.
func explore(t *testing.T, c *vlib.Ctx, sc Scenario, wide bool, bound int, ownsRoot bool, ctr *int64, visit func(*vrt.Result, *result)) stats {
	st := stats{Complete: true}
	fatal := 0
	if ctr == nil && !ownsRoot {
		return st // whole scenarios are dealt to the workers
	}
	var rec func(prefix []int, root bool)
	rec = func(prefix []int, root bool) {
		if c.Expired() || fatal >= 40 || fatalTotal >= 300 || hung.Load() {
			st.Complete = false
			return
		}
		x, res := runScheduled(t, sc, wide, prefix)
		if strings.HasPrefix(x.Diverged, "bubble panicked") && !res.fatal && !hung.Load() {
			// a goroutine of the fixture outlived the execution (seen about once in 10^4 executions on an
			// overloaded machine): run the same schedule once more before calling it a harness error
			x, res = runScheduled(t, sc, wide, prefix)
		}
		mine := !root || ownsRoot
		if mine {
			st.Executions++
			st.Transitions += int64(len(x.Steps))
			if root && os.Getenv("C39_TRACE") != "" {
				for i, sp := range x.Steps {
					fmt.Fprintf(os.Stderr, "%3d T%d %s enabled=%v\n", i, sp.Thread, sp.Label, sp.Enabled)
				}
			}
			visit(x, res)
			if res.fatal {
				fatal++
				fatalTotal++ // abandoned executions leak their fixture (goroutines, descriptors, mappings)
			}
		}
		if x.Diverged != "" || res.fatal {
			return
		}
		pre := 0
		for i := 0; i < len(x.Steps); i++ {
			sp := x.Steps[i]
			if i >= len(prefix) {
				if len(sp.Enabled) > 1 && mine {
					st.Nodes++
				}
				for alt := 1; alt < len(sp.Enabled); alt++ {
					if pre+sp.Costs[alt] > bound {
						continue
					}
					np := append(append([]int{}, x.Choices[:i]...), alt)
					if root && ctr != nil {
						*ctr++
						if !c.Mine(*ctr) {
							continue
						}
					}
					rec(np, false)
				}
			}
			if sp.Preempt {
				pre++
			}
		}
	}
	rec(nil, true)
	return st
}

func traceOf(r *vrt.Result) []string {
	var out []string
	for _, s := range r.Steps {
		out = append(out, fmt.Sprintf("T%d %s", s.Thread, s.Label))
	}
	return out
}

func TestCheck(t *testing.T) {
	vlib.Main(t, &vlib.Check{
		ID: "C39", Level: "model_checking",
		Rule: "operations = {WritePoints(s1 t=2,4) [a second writer writes t=2,5], write-new = WritePoints of the first point of a new measurement (creates measurement, field and series under the shard read lock; oracle: acknowledged => readable and indexed in every later phase), read (a query holding two cursors: CreateCursorIterator + cursor over s1, then a second iterator + cursor over the control series s2 while the first holds its TSM references, iterate both, close; scheduling points while cursors are open), DeleteSeriesRange(s1,[2,3]), DeleteSeriesRange(s1, everything) [delete-all: also cleans the index], cache snapshot (one tick of Engine.compactCache = WriteSnapshot, counted in the engine's snapshot WaitGroup), CreateSnapshot(skipCacheOk=false) [backup], level compaction and full compaction of all TSM files of the layout (levelCompactionStrategy/fullCompactionStrategy(group).Apply(), counted in the engine's compaction WaitGroup like the goroutine Engine.compact starts), Shard.Close; thorough also Shard.Backup (tar)} on a real tsdb.Shard from 3 initial layouts of series s1 (points t=1,2,3 in the cache; t=1,2 in one TSM file + t=3 in the cache; t=1 and t=2 in two TSM files + t=3 in the cache; control series s2; compactions are skipped on the cache-only layout). QUICK: on the 1-TSM layout every ordered pair of different operations (delete-all only against close/write/snapshot/level compaction) plus the self-pairs; on the other two layouts both orders of 8 core pairs; 3 triples on the 1-TSM layout; every schedule with ≤1 deviation from the default schedule (default = thread 0 with its worker goroutines, then thread 1; one deviation = the other operation runs as a block at a branching point). THOROUGH: every unordered pair (self-pairs included) × 3 layouts with ≤2 deviations; 10 triples × 3 layouts and tar-backup pairs with ≤1 deviation; every pair × 3 layouts again with the wide branching filter and ≤1 deviation. Schedules branch at the sync/atomic operations that the operation threads themselves execute in Shard, Engine, Cache, entry and Compactor (wide filter: also FileStore, TSMReader, KeyCursor, purger, WAL) and at the harness steps; goroutines started by the operations and the engine's background goroutines are scheduled as forced moves. After the threads finish: read s1/s2 and list the index, write a later cache snapshot, read, restart the shard, read. Each scenario body is additionally repeated free-running (no scheduler; quick 1×, thorough 30×) as a smoke pass. states = decision nodes, transitions = scheduling steps, traces = scheduled executions; non-trivial = scheduled executions with ≥1 deviation",
		Assumptions: []string{
			"sequentially consistent interleavings at the granularity of mutex/atomic operations of tsdb/shard.go, package tsm1 and package tsi1 (all compiled against the modelled sync); locks that are not branching points are passed silently when free and disable the thread when held; the writer preference of sync.RWMutex is modelled (a writer that arrives while readers are active announces itself, which holds back every later RLock, and then waits for the active readers: a recursive RLock behind a pending writer is a deadlock); series file and everything else use the real sync",
			"data races on plain memory are outside this check: the race detector cannot be built through vf (no -race) and is blind under the cooperative scheduler; the free-running repetitions are only a sampling smoke pass and do not decide the property: what they observe is recorded as informational outcomes (free-running-observation:*, extra.free_running_observations) and never raises a VIOLATION, because a sampled class is not reproducible run to run; the deciding step is the scheduled enumeration",
			"the cache-snapshot and compaction threads stand for goroutines of the engine's background machinery (counted in the engine's WaitGroups like those goroutines; the compaction group is chosen by the harness instead of the planner)",
			"oracle: per-point linearizability of the call/return history plus three sequential reads (a read overlapping a write or delete may see either side independently for every point); an operation that returned an error may or may not have taken effect; operations may fail only while/after a Shard.Close runs or with ErrSnapshotInProgress against another snapshot; a successful CreateSnapshot(skipCacheOk=false) is treated as a read of s1, a tar Backup only as 'readable and free of values nobody wrote'; a series with points must be listed by the index",
			"a goroutine that restarts Engine.compact after Shard.Close (delete finishing after the close) is stopped by the harness and only noted in the outcome class, not reported",
			"free-running executions that return a deleted point in scenarios combining a delete with a cache snapshot match the finding already listed for C03 but cannot be attributed without a trace; they are counted (free_running_known_pattern) and not reported",
			"executions that end in a deadlock, panic or hang are abandoned with their fixture (goroutines, descriptors); exploration of a scenario stops after 40 of them",
		},
		QuickBudgetS: 85, ThoroughBudgetS: 800, WorkerEnv: []string{"GOMAXPROCS=1"},
		Run: func(c *vlib.Ctx) {
			type job struct {
				sc    Scenario
				bound int
				wide  bool
			}
			var jobs []job
			pb := 1
			if c.Thorough() {
				pb = 2
			}
			for _, sc := range pairScenarios(c.Thorough()) {
				jobs = append(jobs, job{sc, pb, false})
			}
			for _, sc := range tripleScenarios(c.Thorough()) {
				jobs = append(jobs, job{sc, 1, false})
			}
			if c.Thorough() {
				for _, sc := range tarScenarios() {
					jobs = append(jobs, job{sc, 1, false})
				}
				// second pass: every pair again with the wide branching filter, 1 deviation
				for _, sc := range pairScenarios(true) {
					jobs = append(jobs, job{sc, 1, true})
				}
			}
			if only := os.Getenv("C39_ONLY"); only != "" { // debugging aid, never set by the registered commands
				var sel []job
				for _, j := range jobs {
					if strings.Contains(j.sc.String(), only) {
						sel = append(sel, j)
					}
				}
				jobs = sel
			}
			report := func(sc Scenario, wide bool, v verdict, r *vrt.Result) {
				if v.sig == "harness" {
					c.HarnessError(sc.String() + ": " + v.msg)
					return
				}
				cs := Case{Scenario: sc, Wide: wide, Hang: strings.HasPrefix(v.sig, "hang/")}
				if r != nil {
					cs.Choices = r.Choices
					cs.Trace = traceOf(r)
				} else {
					cs.Free = true
				}
				sig := attribute(sc, v, r)
				if r == nil {
					if (strings.HasPrefix(sig, "deleted-point-returned/") || strings.HasPrefix(sig, "series-missing-from-index/")) &&
						sc.has("delete", "delete-all") && sc.has("snapshot", "backup", "tar-backup") {
						c.Extra("free_running_known_pattern", 1)
						return
					}
					sig = freeSig(sc, sig)
					cs.Sig = sig
				}
				c.Violation(sig, sc.String()+": "+v.msg, cs)
			}
			deadlocked := map[string]bool{} // scenarios in which this worker's scheduled pass found a deadlock / hang
			// quick: whole scenarios are dealt round-robin; thorough: the subtrees below the root's children are
			var ctr *int64
			if c.Thorough() {
				ctr = new(int64)
			}
			for ji, j := range jobs {
				if c.Expired() {
					c.Cap("budget expired before all scenarios were explored")
					break
				}
				if hung.Load() {
					c.Cap("an execution hung: exploration stopped")
					break
				}
				own := c.Mine(int64(ji))
				t0 := time.Now()
				st := explore(t, c, j.sc, j.wide, j.bound, own, ctr, func(r *vrt.Result, res *result) {
					c.Eval(1)
					if r.Preempts > 0 {
						c.NontrivialN(1)
					}
					if r.Diverged != "" && (!res.fatal || res.diverged) {
						if os.Getenv("C39_DEBUG") != "" {
							fmt.Fprintf(os.Stderr, "DEBUG diverged trace:\n%s\n", strings.Join(traceOf(r), "\n"))
						}
						c.HarnessError(j.sc.String() + ": " + r.Diverged)
						return
					}
					if res.outcome != "" {
						c.Outcome(res.outcome)
					} else if res.fatal {
						c.Outcome("execution abandoned (deadlock / panic / thread not finished)")
					}
					for _, v := range res.verdicts {
						if strings.HasPrefix(v.sig, "deadlock/") || strings.HasPrefix(v.sig, "hang/") {
							deadlocked[j.sc.String()] = true
						}
						report(j.sc, j.wide, v, r)
					}
					if c.WantSample() && r.Preempts > 0 {
						c.Sample(map[string]any{"scenario": j.sc.String(), "wide_filter": j.wide, "schedule": r.Choices, "outcome": res.outcome})
					}
				})
				if !st.Complete {
					c.Cap("exploration of scenario " + j.sc.String() + " was cut short (budget, or repeated fatal executions)")
				}
				c.StateN(st.Nodes)
				c.Transition(st.Transitions)
				c.Trace(st.Executions)
				if os.Getenv("C39_TIMING") != "" {
					c.Logf("%s wide=%v: %d executions in %v", j.sc, j.wide, st.Executions, time.Since(t0))
				}
			}
			// free-running smoke pass
			freeHung := false
			reps := 1
			if c.Thorough() {
				reps = 30
			}
			old := runtime.GOMAXPROCS(4)
			for ji, j := range jobs {
				if !c.Mine(int64(ji)) || j.wide {
					continue
				}
				if deadlocked[j.sc.String()] {
					// free-running it would only hang (at the cost of the watchdog) on what is already reported
					c.Extra("free_running_skipped_scheduled_deadlock", 1)
					continue
				}
				for k := 0; k < reps; k++ {
					if c.Expired() {
						c.Extra("free_running_pass_cut_short_by_budget", 1) // informational pass: does not affect the exhaustiveness of the scheduled enumeration
						break
					}
					if hung.Load() || freeHung {
						c.Extra("free_running_pass_stopped_after_hang", 1) // informational pass (see above)
						break
					}
					res := runFree(t, j.sc)
					for _, v := range res.verdicts {
						if strings.HasPrefix(v.sig, "hang/") {
							freeHung = true // every further hang would cost the watchdog again
						}
					}
					c.Eval(1)
					c.Extra("free_running_executions", 1)
					for _, v := range res.verdicts {
						// The free-running pass is a sampling smoke test, not the deciding method: its findings are
						// not deterministic, so they are recorded as outcomes/counters only and never raise an alarm
						// (every class it has shown so far is also found, with a replayable schedule, by the
						// exhaustive passes).
						c.Outcome("free-running-observation:" + freeSig(j.sc, v.sig))
						c.Extra("free_running_observations", 1)
					}
					if res.fatal {
						break
					}
				}
			}
			runtime.GOMAXPROCS(old)
		},
		Replay: func(c *vlib.Ctx, raw json.RawMessage) (bool, string) {
			var cs Case
			if err := json.Unmarshal(raw, &cs); err != nil {
				return false, err.Error()
			}
			if cs.Free {
				// a free-running case has no schedule to replay: repeat the scenario body until the same class shows
				// up again; once it did in this process, further replays of the class reuse that reproduction
				key := cs.Scenario.String() + "|" + cs.Sig
				obs := cs.Sig + " (free-running smoke pass: reproduced by repeating the scenario body, at most 300 times)"
				if freeSeen[key] {
					return true, obs
				}
				if hung.Load() {
					return false, "not replayed: an earlier scheduled replay hung in this process"
				}
				old := runtime.GOMAXPROCS(4)
				defer runtime.GOMAXPROCS(old)
				for k := 0; k < 300; k++ {
					res := runFree(t, cs.Scenario)
					for _, v := range res.verdicts {
						if freeSig(cs.Scenario, attribute(cs.Scenario, v, nil)) == cs.Sig {
							freeSeen[key] = true
							return true, obs
						}
					}
					if res.fatal {
						break
					}
				}
				return false, "not reproduced in 300 free-running repetitions"
			}
			if cs.Hang && os.Getenv("C39_SUBREPLAY") == "" {
				return subReplay(raw)
			}
			// an execution that hung leaves its bubble and scheduler behind: nothing else can run in this process
			ckey := string(raw)
			if hung.Load() {
				if o, ok := hangSeen[ckey]; ok {
					return true, o
				}
				return false, "not replayed: an earlier replay hung in this process"
			}
			old := runtime.GOMAXPROCS(1)
			defer runtime.GOMAXPROCS(old)
			r, res := runScheduled(t, cs.Scenario, cs.Wide, cs.Choices)
			if hung.Load() {
				o := res.verdicts[0].sig + ": " + res.verdicts[0].msg
				hangSeen[ckey] = o
				return true, o
			}
			if r.Diverged != "" && (!res.fatal || res.diverged) {
				return false, "diverged: " + r.Diverged
			}
			var v []string
			for _, x := range res.verdicts {
				if x.sig != "harness" {
					v = append(v, attribute(cs.Scenario, x, r)+": "+x.msg)
				}
			}
			return len(v) > 0, strings.Join(v, " ;; ") + " outcome=" + res.outcome
		},
	})
}
